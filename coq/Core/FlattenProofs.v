(* Flattening (Core.Model.flatten): the decomposed listing with hand-off links (glisting) enumerates the same leaves as the
   listing; re-insertion yields one flat node per listed leaf, in listing order, operation unchanged; the flat graph is a
   well-formed forest in which every node is what add_node makes of its own link (`built`); its listing is a permutation
   of the listing before; the model gives no answer (None) exactly when some entry holds a multi-link with a member that
   is already re-inserted and a member that is not.
   Depends on Core.Model and the Bfs*/Times* lemma libraries only.  Continued in Core/FlattenIdem.v (flattening again). *)
From Coq Require Import ZArith List Bool Lia Arith Permutation Sorted.
Import ListNotations.
From QCE Require Import Base.Prelude Core.Model Core.BfsProofs Core.BfsWf Core.TimesProofs Core.TimesListing Core.TimesWf.
From Gen Require Import Ident Classes.
Local Open Scope nat_scope.

(* ------------------------------------------------------------------ generic list facts *)
Lemma flat_map_ext_in {A B} (f g : A -> list B) (l : list A) :
  (forall a, In a l -> f a = g a) -> flat_map f l = flat_map g l.
Proof.
  induction l as [|a l IH]; simpl; intros H; [reflexivity|].
  rewrite (H a (or_introl eq_refl)), IH; [reflexivity|]. intros b Hb. apply H. right. exact Hb.
Qed.

Lemma flat_map_single {A B} (g : A -> B) (l : list A) : flat_map (fun a => [g a]) l = map g l.
Proof. induction l as [|a l IH]; simpl; [reflexivity | now rewrite IH]. Qed.

Lemma map_nth_seq {A} (l : list A) d : map (fun i => nth i l d) (seq 0 (length l)) = l.
Proof.
  induction l as [|a l IH]; simpl; [reflexivity|]. f_equal. rewrite <- seq_shift, map_map. exact IH.
Qed.

Lemma nth_map_in {A B} (f : A -> B) (l : list A) i dB dA : i < length l -> nth i (map f l) dB = f (nth i l dA).
Proof. intros H. rewrite (nth_indep _ dB (f dA)) by (now rewrite map_length). apply map_nth. Qed.

Lemma app_inv_prefix_cons {A} (P s s' : list A) a a' : P ++ a :: s = P ++ a' :: s' -> a = a'.
Proof. intros H. apply app_inv_head in H. now inversion H. Qed.

(* ------------------------------------------------------------------ paths, the lookup map *)
Lemma path_eqb_spec a b : path_eqb a b = true <-> a = b.
Proof.
  revert b. induction a as [|x s IH]; intros [|y t]; simpl; try (split; congruence).
  rewrite andb_true_iff, Nat.eqb_eq, IH. split; [intros [-> ->]; reflexivity | intros E; inversion E; auto].
Qed.

Lemma path_eqb_refl a : path_eqb a a = true.
Proof. apply path_eqb_spec. reflexivity. Qed.

(* the map after re-inserting the entries with paths `done`: path of the k-th entry |-> k, latest first *)
Definition pmap (done : list path) : list (path * nat) := rev (combine done (seq 0 (length done))).

Lemma pmap_snoc done p : pmap (done ++ [p]) = (p, length done) :: pmap done.
Proof.
  unfold pmap. rewrite app_length. simpl. rewrite Nat.add_1_r, seq_S. simpl.
  rewrite combine_app_eq by (now rewrite seq_length). simpl. rewrite rev_app_distr. reflexivity.
Qed.

Lemma plookup_pmap_some done : forall p q, plookup (pmap done) p = Some q -> nth_error done q = Some p.
Proof.
  induction done as [|x done IH] using rev_ind; intros p q H; [discriminate|].
  rewrite pmap_snoc in H. simpl in H. destruct (path_eqb x p) eqn:E.
  - apply path_eqb_spec in E. inversion H; subst. rewrite nth_error_app2 by lia. now rewrite Nat.sub_diag.
  - apply IH in H. rewrite nth_error_app1; [exact H|]. apply nth_error_Some. congruence.
Qed.

Lemma plookup_pmap_lt done p q : plookup (pmap done) p = Some q -> q < length done.
Proof. intros H. apply plookup_pmap_some in H. apply nth_error_Some. congruence. Qed.

Lemma plookup_pmap_none done : forall p, plookup (pmap done) p = None <-> ~ In p done.
Proof.
  induction done as [|x done IH] using rev_ind; intros p; [simpl; tauto|].
  rewrite pmap_snoc. simpl. destruct (path_eqb x p) eqn:E.
  - apply path_eqb_spec in E. subst. split; [discriminate|]. intros H. exfalso. apply H. apply in_or_app. right. left. reflexivity.
  - rewrite IH. split.
    + intros H Hin. apply in_app_or in Hin as [Hin | [-> | []]]; [exact (H Hin)|]. rewrite path_eqb_refl in E. discriminate.
    + intros H Hin. apply H. apply in_or_app. left. exact Hin.
Qed.

Lemma plookup_pmap_nodup done : NoDup done -> forall p q, nth_error done q = Some p -> plookup (pmap done) p = Some q.
Proof.
  induction done as [|x done IH] using rev_ind; intros ND p q H; [destruct q; discriminate|].
  rewrite pmap_snoc. simpl. apply NoDup_remove in ND as [ND Hx]. rewrite app_nil_r in ND, Hx.
  destruct (Nat.lt_ge_cases q (length done)) as [Hq | Hq].
  - rewrite nth_error_app1 in H by exact Hq. destruct (path_eqb x p) eqn:E.
    + apply path_eqb_spec in E. subst. exfalso. apply Hx. eapply nth_error_In. exact H.
    + apply IH; assumption.
  - rewrite nth_error_app2 in H by exact Hq. destruct (q - length done) as [|k] eqn:K; simpl in H.
    + inversion H; subst. rewrite path_eqb_refl. f_equal. lia.
    + destruct k; discriminate.
Qed.

Lemma all_some_spec {A} (l : list (option A)) r : all_some l = Some r <-> l = map Some r.
Proof.
  revert r. induction l as [|[x|] t IH]; intros r; simpl.
  - split; [intros H; inversion H; reflexivity | intros H; destruct r; [reflexivity | discriminate]].
  - destruct (all_some t) as [r'|] eqn:E.
    + split; [intros H; inversion H; subst; simpl; f_equal; apply IH; reflexivity|].
      intros H. destruct r as [|y r]; simpl in H; inversion H; subst. f_equal. f_equal.
      assert (Some r' = Some r) by (apply IH; reflexivity). congruence.
    + split; [discriminate|]. intros H. destruct r as [|y r]; simpl in H; inversion H; subst.
      assert (None = Some r) by (apply IH; reflexivity). discriminate.
  - split; [discriminate|]. intros H. destruct r; discriminate.
Qed.

Lemma all_some_none {A} (l : list (option A)) : all_some l = None <-> In None l.
Proof.
  induction l as [|[x|] t IH]; simpl.
  - split; [discriminate | tauto].
  - destruct (all_some t) as [r|].
    + split; [discriminate|]. intros [H | H]; [discriminate|]. apply IH in H. discriminate.
    + split; [intros _; right; apply IH; reflexivity | reflexivity].
  - split; [intros _; left; reflexivity | reflexivity].
Qed.

(* ------------------------------------------------------------------ the decomposed listing with hand-off links *)
Definition gentry := (path * leaf * glink)%type.
Definition ge_path (e : gentry) : path := fst (fst e).
Definition ge_leaf (e : gentry) : leaf := snd (fst e).
Definition ge_link (e : gentry) : glink := snd e.

Definition eff_link (P : path) (l : link) (inh : glink) : glink := if has_relation l then globalize P l else inh.

Lemma glisting_op_unfold r ns P inh :
  glisting_op (OComp r ns) P inh =
  flat_map (fun i => nth i (map (fun n => glisting_op (n_op n)) ns) (fun _ _ => []) (P ++ [i])
                       (eff_link P (nth i (map n_link ns) LNone) inh))
           (bfs (parents ns)).
Proof.
  simpl. apply flat_map_ext. intros i.
  assert (E : forall l, (fix go (l : list node) : list (path -> glink -> list (path * leaf * glink)) :=
                 match l with [] => [] | Node _ _ o' :: t => glisting_op o' :: go t end) l
              = map (fun n => glisting_op (n_op n)) l).
  { induction l as [|[p lk o'] t IH]; simpl; [reflexivity|]. f_equal. exact IH. }
  rewrite E. reflexivity.
Qed.

(* 1. the two listings enumerate the same leaves in the same order *)
Lemma glisting_op_leaves env o : forall P inh c se,
  map ge_leaf (glisting_op o P inh) = map e_leaf (listing_op env o c se).
Proof.
  induction o as [l | r ns IH] using op_nodes_ind; intros P inh c se; [reflexivity|].
  rewrite glisting_op_unfold, listing_op_unfold, !map_flat_map. apply flat_map_ext. intros i.
  destruct (nth_error ns i) as [n|] eqn:En.
  - assert (Hi : i < length ns) by (apply nth_error_Some; congruence).
    rewrite (nth_map_in (fun n => glisting_op (n_op n)) ns i _ n Hi).
    rewrite (nth_map_in (fun n => listing_op env (n_op n)) ns i _ n Hi).
    rewrite (nth_error_nth _ _ n En). rewrite Forall_forall in IH. apply IH. eapply nth_error_In. exact En.
  - apply nth_error_None in En. rewrite !(nth_overflow (map _ ns)) by (rewrite map_length; exact En). reflexivity.
Qed.

Theorem glisting_leaves env ns : map ge_leaf (glisting ns) = map e_leaf (listing env ns).
Proof. apply glisting_op_leaves. Qed.

Corollary glisting_length env ns : length (glisting ns) = length (listing env ns).
Proof. rewrite <- (map_length ge_leaf), (glisting_leaves env), map_length. reflexivity. Qed.

(* every path of a sub-listing extends the path it was started with *)
Lemma glisting_op_prefix o : forall P inh e, In e (glisting_op o P inh) -> exists s, ge_path e = P ++ s.
Proof.
  induction o as [l | r ns IH] using op_nodes_ind; intros P inh e H.
  - destruct H as [<- | []]. exists []. now rewrite app_nil_r.
  - rewrite glisting_op_unfold in H. apply in_flat_map in H as (i & _ & H).
    destruct (nth_error ns i) as [n|] eqn:En.
    + assert (Hi : i < length ns) by (apply nth_error_Some; congruence).
      rewrite (nth_map_in (fun n => glisting_op (n_op n)) ns i _ n Hi), (nth_error_nth _ _ n En) in H.
      rewrite Forall_forall in IH. apply (IH n (nth_error_In _ _ En)) in H as (s & ->).
      exists (i :: s). now rewrite <- app_assoc.
    + apply nth_error_None in En. rewrite (nth_overflow (map _ ns)) in H by (rewrite map_length; exact En). destruct H.
Qed.

Lemma glisting_op_paths_NoDup o : wf_op o -> forall P inh, NoDup (map ge_path (glisting_op o P inh)).
Proof.
  induction o as [l | r ns IH] using op_nodes_ind; intros W P inh; [repeat constructor; intros []|].
  apply wf_op_comp_inv in W as [[WP _] WD]. rewrite glisting_op_unfold, map_flat_map.
  apply NoDup_flat_map; [apply bfs_NoDup; exact WP | |].
  - intros i _. destruct (nth_error ns i) as [n|] eqn:En.
    + assert (Hi : i < length ns) by (apply nth_error_Some; congruence).
      rewrite (nth_map_in (fun n => glisting_op (n_op n)) ns i _ n Hi), (nth_error_nth _ _ n En).
      rewrite Forall_forall in IH, WD. apply (IH n (nth_error_In _ _ En)). apply WD. eapply nth_error_In. exact En.
    + apply nth_error_None in En. rewrite (nth_overflow (map _ ns)) by (rewrite map_length; exact En). constructor.
  - assert (Q : forall i x, In x (map ge_path (nth i (map (fun n => glisting_op (n_op n)) ns) (fun _ _ => []) (P ++ [i])
                                                    (eff_link P (nth i (map n_link ns) LNone) inh))) -> exists s, x = P ++ i :: s).
    { intros i x Hx. apply in_map_iff in Hx as (e & <- & He).
      destruct (nth_error ns i) as [n|] eqn:En.
      - assert (Hi : i < length ns) by (apply nth_error_Some; congruence).
        rewrite (nth_map_in (fun n => glisting_op (n_op n)) ns i _ n Hi), (nth_error_nth _ _ n En) in He.
        apply glisting_op_prefix in He as (s & ->). exists s. now rewrite <- app_assoc.
      - apply nth_error_None in En. rewrite (nth_overflow (map _ ns)) in He by (rewrite map_length; exact En). destruct He. }
    intros i i' x _ _ H1 H2. apply Q in H1 as (s & ->). apply Q in H2 as (s' & E). exact (app_inv_prefix_cons _ _ _ _ _ E).
Qed.

Theorem glisting_paths_NoDup r ns : wf_op (OComp r ns) -> NoDup (map ge_path (glisting ns)).
Proof. intros W. apply glisting_op_paths_NoDup. exact (wf_op_reps r 1%Z ns W). Qed.

(* ------------------------------------------------------------------ re-insertion of the listing: one step *)
(* the link handed to add_node for an entry holding gl, given the paths re-inserted so far; None = outside the model *)
Definition flat_link (m : list (path * nat)) (gl : glink) : option link :=
  match gl with
  | GNone => Some LNone
  | GDangling t => Some (LDangling t)
  | GRel t tg => match plookup m tg with Some q => Some (LRel t q) | None => Some (LDangling t) end
  | GMulti [] => Some LNone
  | GMulti tgs =>
      match filter_map (plookup m) tgs with
      | [] => Some (LDangling RelationType_FOLLOWED_BY)
      | _ => match all_some (map (plookup m) tgs) with
             | Some qs => Some (LMulti qs)
             | None => None
             end
      end
  end.

Definition fstate := option (list node * list (path * nat)).
Definition flat_step (env : denv) (st : fstate) (e : gentry) : fstate :=
  match st with
  | None => None
  | Some (new, m) =>
      let '(P, l, gl) := e in
      match flat_link m gl with
      | None => None
      | Some k => Some (add_node env new (OLeaf l) k, (P, length new) :: m)
      end
  end.

Lemma flatten_eq env ns :
  flatten env ns = option_map fst (fold_left (flat_step env) (glisting ns) (Some ([], []))).
Proof. reflexivity. Qed.

Lemma flat_fold_none env es : fold_left (flat_step env) es None = None.
Proof. induction es as [|e es IH]; simpl; [reflexivity | exact IH]. Qed.

Lemma flat_step_eq env new m e :
  flat_step env (Some (new, m)) e =
  match flat_link m (ge_link e) with
  | None => None
  | Some k => Some (add_node env new (OLeaf (ge_leaf e)) k, (ge_path e, length new) :: m)
  end.
Proof. destruct e as [[P l] gl]. reflexivity. Qed.

(* ------------------------------------------------------------------ `built`: every node is what add_node makes of its own link *)
Definition built (env : denv) (f : list node) : Prop :=
  forall i n, nth_error f i = Some n -> new_node env (firstn i f) (n_op n) (n_link n) = n.

Lemma built_nil env : built env [].
Proof. intros [|i] n H; discriminate. Qed.

Lemma new_node_idem env ns o l : new_node env ns o (n_link (new_node env ns o l)) = new_node env ns o l.
Proof.
  assert (I : forall imp, imp = match leaf_at_any ns (op_channels o) with
                                | None => Node None LNone o
                                | Some i => Node (Some i) (LRel RelationType_FOLLOWED_BY i) o
                                end -> new_node env ns o (n_link imp) = imp).
  { intros imp ->. destruct (leaf_at_any ns (op_channels o)) as [i|] eqn:E; unfold new_node; simpl; rewrite E; [|reflexivity].
    apply leaf_at_any_lt in E. apply Nat.ltb_lt in E. now rewrite E. }
  unfold new_node at 2 3. destruct l as [| t p | ps | t]; try (apply I; reflexivity).
  - destruct (Nat.ltb p (length ns)) eqn:Hp; [|apply I; reflexivity]. unfold new_node. simpl. now rewrite Hp.
  - destruct (latest_of ns ps) as [p|] eqn:M; [|apply I; reflexivity]. unfold new_node. simpl. now rewrite M.
Qed.

Lemma firstn_snoc_lt {A} (l : list A) x i : i <= length l -> firstn i (l ++ [x]) = firstn i l.
Proof. intros H. rewrite firstn_app. replace (i - length l) with 0 by lia. simpl. now rewrite app_nil_r. Qed.

Lemma built_add env ns o l : built env ns -> built env (add_node env ns o l).
Proof.
  intros B i n E. rewrite add_node_eq in *. destruct (Nat.lt_ge_cases i (length ns)) as [Hi | Hi].
  - rewrite nth_error_app1 in E by exact Hi. rewrite firstn_snoc_lt by lia. exact (B _ _ E).
  - rewrite nth_error_app2 in E by exact Hi. destruct (i - length ns) as [|k] eqn:K; simpl in E; [|destruct k; discriminate].
    inversion E; subst. replace i with (length ns) by lia. rewrite firstn_snoc_lt, firstn_all by lia.
    rewrite new_node_op. apply new_node_idem.
Qed.

(* ------------------------------------------------------------------ the invariant of the fold *)
Definition flat_inv (env : denv) (done : list gentry) (new : list node) (m : list (path * nat)) : Prop :=
  map n_op new = map (fun e => OLeaf (ge_leaf e)) done /\ m = pmap (map ge_path done) /\ wf_nodes new /\ built env new.

Lemma flat_inv_length env done new m : flat_inv env done new m -> length new = length done.
Proof. intros (H & _). rewrite <- (map_length n_op), H, map_length. reflexivity. Qed.

Lemma flat_link_in_range ps gl k : flat_link (pmap ps) gl = Some k -> multi_in_range (length ps) k.
Proof.
  destruct gl as [| t tg | [|t0 ts] | t]; cbn [flat_link]; intros H.
  - inversion H; exact I.
  - destruct (plookup (pmap ps) tg); inversion H; exact I.
  - inversion H; exact I.
  - destruct (filter_map (plookup (pmap ps)) (t0 :: ts)); [inversion H; exact I|].
    destruct (all_some (map (plookup (pmap ps)) (t0 :: ts))) as [qs|] eqn:A; [|discriminate].
    inversion H; subst. apply all_some_spec in A. simpl. apply Forall_forall. intros q Hq.
    assert (In (Some q) (map (plookup (pmap ps)) (t0 :: ts))) as Hin by (rewrite A; apply in_map; exact Hq).
    apply in_map_iff in Hin as (t & Ht & _). exact (plookup_pmap_lt _ _ _ Ht).
  - inversion H; exact I.
Qed.

Lemma flat_inv_step env done new m e k : flat_inv env done new m -> flat_link m (ge_link e) = Some k ->
  flat_inv env (done ++ [e]) (add_node env new (OLeaf (ge_leaf e)) k) ((ge_path e, length new) :: m).
Proof.
  intros Inv K. pose proof (flat_inv_length _ _ _ _ Inv) as L. destruct Inv as (Ho & -> & W & B). repeat split.
  - rewrite add_node_ops, Ho, map_app. reflexivity.
  - rewrite map_app. simpl. rewrite pmap_snoc, map_length, L. reflexivity.
  - apply add_node_wf; [exact W|]. apply flat_link_in_range in K. rewrite map_length in K. rewrite L. exact K.
  - apply add_node_wf; [exact W|]. apply flat_link_in_range in K. rewrite map_length in K. rewrite L. exact K.
  - apply built_add. exact B.
Qed.

Lemma flat_fold_inv env es : forall done new m new' m', flat_inv env done new m ->
  fold_left (flat_step env) es (Some (new, m)) = Some (new', m') -> flat_inv env (done ++ es) new' m'.
Proof.
  induction es as [|e es IH]; intros done new m new' m' Inv H; cbn [fold_left] in H.
  - inversion H; subst. rewrite app_nil_r. exact Inv.
  - rewrite flat_step_eq in H. destruct (flat_link m (ge_link e)) as [k|] eqn:K; [|rewrite flat_fold_none in H; discriminate].
    replace (done ++ e :: es) with ((done ++ [e]) ++ es) by (now rewrite <- app_assoc).
    eapply IH; [|exact H]. apply flat_inv_step; assumption.
Qed.

Lemma flat_inv_nil env : flat_inv env [] [] [].
Proof. repeat split; try apply wf_nodes_nil; try apply built_nil; intros i n H; destruct i; discriminate. Qed.

Lemma flatten_inv env ns f : flatten env ns = Some f -> exists m, flat_inv env (glisting ns) f m.
Proof.
  rewrite flatten_eq. destruct (fold_left _ _ _) as [[f' m]|] eqn:E; simpl; intros H; inversion H; subst.
  exists m. exact (flat_fold_inv env _ [] [] [] f m (flat_inv_nil env) E).
Qed.

(* 2. one flat node per listed leaf, in listing order, each operation unchanged *)
Theorem flatten_ops env ns f : flatten env ns = Some f -> map n_op f = map (fun e => OLeaf (ge_leaf e)) (glisting ns).
Proof. intros H. apply flatten_inv in H as (m & Ho & _). exact Ho. Qed.

Corollary flatten_ops_listing env ns f : flatten env ns = Some f -> map n_op f = map OLeaf (map e_leaf (listing env ns)).
Proof. intros H. rewrite (flatten_ops _ _ _ H), <- (glisting_leaves env), map_map. reflexivity. Qed.

Corollary flatten_length env ns f : flatten env ns = Some f -> length f = length (glisting ns).
Proof. intros H. rewrite <- (map_length n_op), (flatten_ops _ _ _ H), map_length. reflexivity. Qed.

Corollary flatten_no_comp env ns f : flatten env ns = Some f -> Forall (fun n => is_comp (n_op n) = false) f.
Proof.
  intros H. apply flatten_ops in H. apply Forall_forall. intros n Hn.
  assert (In (n_op n) (map n_op f)) as Hin by (apply in_map; exact Hn). rewrite H in Hin.
  apply in_map_iff in Hin as (e & <- & _). reflexivity.
Qed.

(* 3. the flat graph is a well-formed forest whose nodes are what add_node makes of their links *)
Theorem flatten_wf env ns f : flatten env ns = Some f -> wf_nodes f.
Proof. intros H. apply flatten_inv in H as (m & _ & _ & W & _). exact W. Qed.

Theorem flatten_built env ns f : flatten env ns = Some f -> built env f.
Proof. intros H. apply flatten_inv in H as (m & _ & _ & _ & B). exact B. Qed.

Corollary flatten_wf_op env r ns f : flatten env ns = Some f -> wf_op (OComp r f).
Proof.
  intros H. constructor; [exact (flatten_wf _ _ _ H)|]. apply flatten_no_comp in H. rewrite Forall_forall in *.
  intros n Hn. specialize (H n Hn). destruct (n_op n); [constructor | discriminate].
Qed.

(* ------------------------------------------------------------------ the listing of a flat graph of leaves *)
Definition dleaf : leaf :=
  {| l_lab := 0; l_cls := 0; l_qubits := []; l_qchan := QubitChannel_ALL; l_dur := DFixed 0; l_acq := None |}.

Definition flat_entry (ls : list leaf) (tm : list (Z * Z)) (i : nat) : entry :=
  {| e_leaf := nth i ls dleaf; e_start := fst (nth i tm (0, 0)%Z); e_end := snd (nth i tm (0, 0)%Z) |}.

Lemma flat_ops_length f ls : map n_op f = map OLeaf ls -> length ls = length f.
Proof. intros H. rewrite <- (map_length OLeaf ls), <- H, map_length. reflexivity. Qed.

Lemma flat_ops_nth f ls i : map n_op f = map OLeaf ls -> i < length f -> nth i (map n_op f) (OLeaf dleaf) = OLeaf (nth i ls dleaf).
Proof. intros H Hi. rewrite H. apply map_nth. Qed.

Lemma listing_flat env f ls : map n_op f = map OLeaf ls ->
  listing env f = map (flat_entry ls (node_times env None f)) (bfs (parents f)).
Proof.
  intros H. unfold listing. rewrite listing_op_unfold, <- (flat_map_single (flat_entry ls (node_times env None f))). apply flat_map_ext_in. intros i Hi.
  apply bfs_lt_length in Hi. rewrite parents_length in Hi.
  replace (map (fun n => listing_op env (n_op n)) f) with (map (fun l => listing_op env (OLeaf l)) ls)
    by (rewrite <- (map_map OLeaf (listing_op env)), <- H, map_map; reflexivity).
  rewrite (nth_map_in _ ls i _ dleaf) by (rewrite (flat_ops_length _ _ H); exact Hi). reflexivity.
Qed.

Definition fully_listed (f : list node) : Prop := forall i, i < length f -> depth (parents f) i < max_layers.

Lemma fully_listed_length f : wf_parents (parents f) -> (Z.of_nat (length f) <= 4999)%Z -> fully_listed f.
Proof.
  intros W H i Hi. pose proof (depth_lt_length (parents f) i W) as D. rewrite parents_length in D. specialize (D Hi).
  pose proof max_layers_eq. lia.
Qed.

Lemma fully_listed_perm f : wf_parents (parents f) -> fully_listed f -> Permutation (bfs (parents f)) (seq 0 (length f)).
Proof. intros W F. rewrite <- (parents_length f). apply bfs_perm; [exact W|]. rewrite parents_length. exact F. Qed.

(* the listing of a flat graph shows every node exactly once *)
Theorem flat_listing_perm env f ls : map n_op f = map OLeaf ls -> wf_parents (parents f) -> fully_listed f ->
  Permutation (map e_leaf (listing env f)) ls.
Proof.
  intros H W F. rewrite (listing_flat env f ls H), map_map. simpl.
  apply (Permutation_trans (l' := map (fun i => nth i ls dleaf) (seq 0 (length f)))).
  - apply Permutation_map. apply fully_listed_perm; assumption.
  - rewrite <- (flat_ops_length _ _ H), map_nth_seq. apply Permutation_refl.
Qed.

(* 4. nothing lost, nothing duplicated, every leaf unchanged *)
Theorem flatten_multiset env ns f : flatten env ns = Some f -> fully_listed f ->
  Permutation (map e_leaf (listing env f)) (map e_leaf (listing env ns)).
Proof.
  intros H F. apply flat_listing_perm; [exact (flatten_ops_listing _ _ _ H) | exact (proj1 (flatten_wf _ _ _ H)) | exact F].
Qed.

(* the cleanest sufficient bound: at most 4999 listed leaves (the flat graph has one node per leaf, and its relation depth
   is below its size) *)
Corollary flatten_multiset_bound env ns f : flatten env ns = Some f -> (Z.of_nat (length (listing env ns)) <= 4999)%Z ->
  Permutation (map e_leaf (listing env f)) (map e_leaf (listing env ns)).
Proof.
  intros H B. apply flatten_multiset; [exact H|]. apply fully_listed_length; [exact (proj1 (flatten_wf _ _ _ H))|].
  rewrite (flatten_length _ _ _ H), (glisting_length env). exact B.
Qed.

(* ------------------------------------------------------------------ 6. when the model gives no answer *)
Lemma filter_map_nil {A B} (f : A -> option B) (l : list A) : filter_map f l = [] <-> forall x, In x l -> f x = None.
Proof.
  induction l as [|a l IH]; simpl; [tauto|]. destruct (f a) as [b|] eqn:E.
  - split; [discriminate|]. intros H. specialize (H a (or_introl eq_refl)). congruence.
  - rewrite IH. split; [intros H x [<- | Hx]; auto | intros H x Hx; apply H; right; exact Hx].
Qed.

(* exactly: a multi-link with a member that is already re-inserted and a member that is not *)
Lemma flat_link_none_iff ps gl : flat_link (pmap ps) gl = None <->
  exists tgs t t', gl = GMulti tgs /\ In t tgs /\ In t ps /\ In t' tgs /\ ~ In t' ps.
Proof.
  split.
  - destruct gl as [| t tg | [|t0 ts] | t]; cbn [flat_link]; intros H; try discriminate.
    + destruct (plookup (pmap ps) tg); discriminate.
    + destruct (filter_map (plookup (pmap ps)) (t0 :: ts)) as [|q0 qs0] eqn:F; [discriminate|].
      destruct (all_some (map (plookup (pmap ps)) (t0 :: ts))) as [qs|] eqn:A; [discriminate|].
      apply all_some_none in A. apply in_map_iff in A as (t' & Ht' & Hin').
      assert (exists t, In t (t0 :: ts) /\ In t ps) as (t & Hin & Hp).
      { destruct (in_filter_map (plookup (pmap ps)) (t0 :: ts) q0) as (t & Hin & Ht); [rewrite F; left; reflexivity|].
        exists t. split; [exact Hin|]. apply plookup_pmap_some in Ht. eapply nth_error_In. exact Ht. }
      exists (t0 :: ts), t, t'. repeat split; try assumption. apply plookup_pmap_none. exact Ht'.
  - intros (tgs & t & t' & -> & Hin & Hp & Hin' & Hni). destruct tgs as [|t0 ts]; [destruct Hin|]. cbn [flat_link].
    destruct (filter_map (plookup (pmap ps)) (t0 :: ts)) as [|q0 qs0] eqn:F.
    + exfalso. rewrite filter_map_nil in F. specialize (F t Hin). apply plookup_pmap_none in F. contradiction.
    + assert (A : all_some (map (plookup (pmap ps)) (t0 :: ts)) = None).
      { apply all_some_none. apply in_map_iff. exists t'. split; [apply plookup_pmap_none; exact Hni | exact Hin']. }
      rewrite A. reflexivity.
Qed.

(* a failing fold stops at a first entry whose link cannot be expressed *)
Lemma flat_fold_none_inv env es : forall done new m, flat_inv env done new m ->
  fold_left (flat_step env) es (Some (new, m)) = None ->
  exists es1 e es2, es = es1 ++ e :: es2 /\ flat_link (pmap (map ge_path (done ++ es1))) (ge_link e) = None.
Proof.
  induction es as [|e es IH]; intros done new m Inv H; cbn [fold_left] in H; [discriminate|].
  rewrite flat_step_eq in H. destruct (flat_link m (ge_link e)) as [k|] eqn:K.
  - apply (IH (done ++ [e])) in H; [|apply flat_inv_step; assumption].
    destruct H as (es1 & e' & es2 & -> & Hn). exists (e :: es1), e', es2. split; [reflexivity|].
    rewrite <- app_assoc in Hn. exact Hn.
  - exists [], e, es. split; [reflexivity|]. rewrite app_nil_r. destruct Inv as (_ & <- & _). exact K.
Qed.

(* flatten gives no answer only if some listed leaf holds, after the hand-off, a multi-link with a member that is a leaf
   listed earlier (t) and a member that is not (t') *)
Theorem flatten_none_characterisation env ns : flatten env ns = None ->
  exists done e rest tgs t t',
    glisting ns = done ++ e :: rest /\ ge_link e = GMulti tgs /\
    In t tgs /\ In t (map ge_path done) /\ In t' tgs /\ ~ In t' (map ge_path done).
Proof.
  rewrite flatten_eq. destruct (fold_left _ _ _) as [[f' m]|] eqn:E; simpl; [discriminate|]. intros _.
  apply (flat_fold_none_inv env _ [] [] [] (flat_inv_nil env)) in E as (es1 & e & es2 & G & K). simpl in K.
  apply flat_link_none_iff in K as (tgs & t & t' & Hl & Hin & Hp & Hin' & Hni).
  exists es1, e, es2, tgs, t, t'. repeat split; assumption.
Qed.

(* the missing member is a node that is no listed leaf at all (a sub-circuit, or cut off by the depth limit: the F10
   class) or a leaf that is listed later than the holder of the link *)
Corollary flatten_none_cases env ns : flatten env ns = None ->
  exists done e rest tgs t t',
    glisting ns = done ++ e :: rest /\ ge_link e = GMulti tgs /\
    In t tgs /\ In t (map ge_path done) /\ In t' tgs /\
    (~ In t' (map ge_path (glisting ns)) \/ In t' (map ge_path (e :: rest))).
Proof.
  intros H. apply flatten_none_characterisation in H as (done & e & rest & tgs & t & t' & G & L & Hin & Hp & Hin' & Hni).
  exists done, e, rest, tgs, t, t'. repeat split; try assumption.
  destruct (in_dec (list_eq_dec Nat.eq_dec) t' (map ge_path (e :: rest))) as [Y | N]; [right; exact Y | left].
  rewrite G, map_app. intros H. apply in_app_or in H as [H | H]; contradiction.
Qed.

(* and conversely *)
Theorem flatten_none_converse env ns done e rest tgs t t' :
  glisting ns = done ++ e :: rest -> ge_link e = GMulti tgs ->
  In t tgs -> In t (map ge_path done) -> In t' tgs -> ~ In t' (map ge_path done) ->
  flatten env ns = None.
Proof.
  intros G L Hin Hp Hin' Hni. rewrite flatten_eq, G, fold_left_app.
  destruct (fold_left _ done _) as [[new m]|] eqn:E; [|rewrite flat_fold_none; reflexivity].
  pose proof (flat_fold_inv env _ [] [] [] new m (flat_inv_nil env) E) as Inv. simpl in Inv.
  cbn [fold_left]. rewrite flat_step_eq. destruct Inv as (_ & -> & _).
  replace (flat_link _ _) with (@None link); [rewrite flat_fold_none; reflexivity|].
  symmetry. apply flat_link_none_iff. exists tgs, t, t'. repeat split; assumption.
Qed.

(* ------------------------------------------------------------------ 5. flat graphs: the decomposed listing *)
Definition flat_gentry (f : list node) (ls : list leaf) (i : nat) : gentry :=
  ([i], nth i ls dleaf, eff_link [] (nth i (map n_link f) LNone) GNone).

Lemma glisting_flat f ls : map n_op f = map OLeaf ls -> glisting f = map (flat_gentry f ls) (bfs (parents f)).
Proof.
  intros H. unfold glisting. rewrite glisting_op_unfold, <- (flat_map_single (flat_gentry f ls)). apply flat_map_ext_in. intros i Hi.
  apply bfs_lt_length in Hi. rewrite parents_length in Hi.
  replace (map (fun n => glisting_op (n_op n)) f) with (map (fun l => glisting_op (OLeaf l)) ls)
    by (rewrite <- (map_map OLeaf glisting_op), <- H, map_map; reflexivity).
  rewrite (nth_map_in _ ls i _ dleaf) by (rewrite (flat_ops_length _ _ H); exact Hi). reflexivity.
Qed.

(* every member of a multi-link is listed before the holder of the link *)
Definition multi_before (f : list node) : Prop :=
  forall i n qs q, In i (bfs (parents f)) -> nth_error f i = Some n -> n_link n = LMulti qs -> In q qs ->
                   before (bfs (parents f)) q i.

Lemma nth_link f i n : nth_error f i = Some n -> nth i (map n_link f) LNone = n_link n.
Proof.
  intros E. assert (Hi : i < length f) by (apply nth_error_Some; congruence).
  rewrite (nth_map_in n_link f i _ n Hi), (nth_error_nth _ _ n E). reflexivity.
Qed.

Lemma globalize_multi_inv P l ts : eff_link P l GNone = GMulti ts -> exists qs, l = LMulti qs /\ ts = map (fun p => P ++ [p]) qs.
Proof.
  unfold eff_link. destruct l as [| t p | ps | t]; simpl; try discriminate.
  destruct ps; simpl; [discriminate|]. intros H. inversion H. eexists. split; reflexivity.
Qed.

(* on a flat graph of leaves whose multi-links only name operations listed earlier, flatten always answers *)
Theorem flatten_total_on_flat env f ls : map n_op f = map OLeaf ls -> wf_parents (parents f) -> multi_before f ->
  exists f', flatten env f = Some f'.
Proof.
  intros H W MB. destruct (flatten env f) as [f'|] eqn:E; [exists f'; reflexivity | exfalso].
  apply flatten_none_characterisation in E as (done & e & rest & ts & t0 & t & G & L & _ & _ & Hin & Hni).
  rewrite (glisting_flat f ls H) in G. apply map_eq_app in G as (b1 & b2' & Eb & <- & G2).
  apply map_eq_cons in G2 as (i & b2 & -> & <- & _). unfold flat_gentry, ge_link in L. simpl in L.
  assert (Hi : In i (bfs (parents f))) by (rewrite Eb; apply in_or_app; right; left; reflexivity).
  pose proof (bfs_lt_length _ _ Hi) as Hlt. rewrite parents_length in Hlt.
  destruct (nth_error f i) as [n|] eqn:En; [|apply nth_error_None in En; lia].
  rewrite (nth_link f i n En) in L. apply globalize_multi_inv in L as (qs & Lq & Ets).
  rewrite Ets in Hin. apply in_map_iff in Hin as (q & <- & Hq). simpl in Hni.
  specialize (MB i n qs q Hi En Lq Hq). apply Hni. rewrite map_map. simpl. apply in_map_iff. exists q. split; [reflexivity|].
  pose proof (bfs_NoDup _ W) as ND. rewrite Eb in MB, ND.
  apply before_app_inv in MB as [B | [[B _] | B]].
  - exact (proj1 (before_In _ _ _ B)).
  - exact B.
  - exfalso. apply NoDup_remove_2 in ND. apply ND. apply in_or_app. right.
    apply before_cons_inv in B as [[_ B] | B]; [exact B | exact (proj2 (before_In _ _ _ B))].
Qed.
