(* Building is independent of the duration settings: every structure-building function of the model threads the settings `env`
   without consulting them (relations are placed by listing depth and channel, never by time).  Hence a circuit built -- and
   unrolled -- under settings e1 and then observed under settings e2 reports exactly what a circuit built under e2 reports.
   This is what makes the "observation after a change of settings" cases of C01 / C04 (coregen.gen_after_change) comparable with
   the model of a fresh circuit under the new settings. *)
From Coq Require Import ZArith List Bool.
Import ListNotations.
From QCE Require Import Base.Prelude Core.Model Core.BfsProofs Core.BfsWf Core.Run.
From Gen Require Import Ident Classes.

Section EnvIndep.
  Variables e1 e2 : denv.

  Lemma add_node_env ns o l : add_node e1 ns o l = add_node e2 ns o l.
  Proof. reflexivity. Qed.

  Lemma rebuild_env ns cops : rebuild e1 ns cops = rebuild e2 ns cops.
  Proof. reflexivity. Qed.

  Lemma extend_env ns other : extend e1 ns other = extend e2 ns other.
  Proof. reflexivity. Qed.

  Lemma copy_op_env o : copy_op e1 o = copy_op e2 o.
  Proof.
    induction o as [l | r ns IH] using op_ind'; [reflexivity|].
    cbn [copy_op]. f_equal. rewrite rebuild_env. f_equal.
    induction IH as [| n t Hn _ IHt]; [reflexivity|].
    destruct n as [p l o']. cbn [n_op] in Hn. rewrite Hn, IHt. reflexivity.
  Qed.

  Lemma copy_nodes_env ns : copy_nodes e1 ns = copy_nodes e2 ns.
  Proof. unfold copy_nodes. now rewrite copy_op_env. Qed.

  Lemma iter_n_ext {A} (f g : A -> A) : (forall x, f x = g x) -> forall n x, iter_n n f x = iter_n n g x.
  Proof. intros H n. induction n as [| n IHn]; intros x; cbn [iter_n]; [reflexivity|]. now rewrite H, IHn. Qed.

  Lemma repeat_nodes_env ns times : repeat_nodes e1 ns times = repeat_nodes e2 ns times.
  Proof.
    unfold repeat_nodes. rewrite (copy_nodes_env ns). apply iter_n_ext. intros cur.
    now rewrite extend_env, copy_nodes_env.
  Qed.

  Lemma apply_mods_fuel_env fuel : forall reps ns, apply_mods_fuel fuel e1 reps ns = apply_mods_fuel fuel e2 reps ns.
  Proof.
    induction fuel as [| f IHf]; intros reps ns; cbn [apply_mods_fuel]; [reflexivity|].
    rewrite repeat_nodes_env. apply map_ext. intros [p l [lf | r sub]]; [reflexivity|]. now rewrite IHf.
  Qed.

  Lemma apply_modifiers_env reps ns : apply_modifiers e1 reps ns = apply_modifiers e2 reps ns.
  Proof. unfold apply_modifiers. apply apply_mods_fuel_env. Qed.

  Definition cmd_indep (c : cmd) : Prop :=
    forall t, (forall ns, run_cmds e1 t ns = run_cmds e2 t ns) -> forall ns, run_cmds e1 (c :: t) ns = run_cmds e2 (c :: t) ns.

  Lemma cmds_of_each cs : Forall cmd_indep cs -> forall ns, run_cmds e1 cs ns = run_cmds e2 cs ns.
  Proof.
    induction 1 as [| c t Hc _ IHt]; intros ns; [reflexivity|]. now apply Hc.
  Qed.

  Lemma cmd_indep_all c : cmd_indep c.
  Proof.
    induction c as [l r | l t | r body IH] using cmd_ind'; intros tl Htl ns.
    - cbn [run_cmds]. destruct r as [[ty p]|]; apply Htl.
    - cbn [run_cmds]. apply Htl.
    - cbn [run_cmds]. rewrite (cmds_of_each body IH), copy_nodes_env. apply Htl.
  Qed.

  Theorem run_cmds_env cs ns : run_cmds e1 cs ns = run_cmds e2 cs ns.
  Proof. apply cmds_of_each. apply Forall_forall. intros c _. apply cmd_indep_all. Qed.

  Theorem run_prog_env p : run_prog e1 p = run_prog e2 p.
  Proof. apply run_cmds_env. Qed.

  (* observed under e2, a circuit built (and unrolled) under e1 is the circuit built (and unrolled) under e2 *)
  Theorem observed_after_change p :
    model_obs e2 (run_prog e1 p) = model_obs e2 (run_prog e2 p)
    /\ model_obs e2 (apply_modifiers e1 1 (run_prog e1 p)) = model_obs e2 (apply_modifiers e2 1 (run_prog e2 p)).
  Proof. now rewrite apply_modifiers_env, run_prog_env. Qed.
End EnvIndep.
