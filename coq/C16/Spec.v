(* C16 -- the frequency-collision reading of the property text, written WITHOUT the model (no Require of C16.Model):
   only the generated tables (Gen/Layouts.v) are used.  Used by Run.v (spec_ok on implementation outputs), by C17
   (what "requires parking" means) and as the right-hand side of the C16 theorems.

   Reading (DESIGN.md 7/8.2, C16):
     level of a qubit      = rank of its frequency group (LOW < MID < HIGH)
     operating level of a gate = level of its lower-frequency member (both members operate there)
     moving member of a gate   = its higher-frequency member
     a set of gates is accepted  <->  no qubit takes part in two of them, and no two neighbouring qubits that belong
                                      to different gates operate at the same level
     an idle qubit needs parking <->  it neighbours the moving member of an active gate and idles at that gate's level *)
From Coq Require Import List Bool String Arith.
Import ListNotations.
From Gen Require Import Layouts.
Open Scope string_scope.

Definition edge := (string * string)%type.

Definition s_rank_of (g : FrequencyGroup) : nat :=
  match g with FrequencyGroup_LOW => 0 | FrequencyGroup_MID => 1 | FrequencyGroup_HIGH => 2 end.

Fixpoint s_assoc {B} (q : string) (l : list (string * B)) : option B :=
  match l with [] => None | (k, v) :: t => if String.eqb k q then Some v else s_assoc q t end.

(* level at which a qubit idles; qubits outside the frequency table have no level (None) *)
Definition s_level (q : string) : option nat :=
  match s_assoc q S17_frequency with Some f => Some (s_rank_of (FrequencyGroupIdentifier__id f)) | None => None end.

Definition s_opt_eqb (a b : option nat) : bool :=
  match a, b with Some x, Some y => Nat.eqb x y | _, _ => false end.

(* neighbouring = joined by one of the device edges, in either orientation *)
Definition s_adjacent (a b : string) : bool :=
  existsb (fun e => (String.eqb (fst e) a && String.eqb (snd e) b) || (String.eqb (fst e) b && String.eqb (snd e) a)) S17_edges.

Definition s_qubits (e : edge) : list string := [fst e; snd e].

(* operating level and moving member of a gate *)
Definition s_gate_level (e : edge) : option nat :=
  match s_level (fst e), s_level (snd e) with Some x, Some y => Some (Nat.min x y) | _, _ => None end.
Definition s_mover (e : edge) : option string :=
  match s_level (fst e), s_level (snd e) with
  | Some x, Some y => if Nat.ltb x y then Some (snd e) else if Nat.ltb y x then Some (fst e) else None
  | _, _ => None
  end.

Fixpoint s_nodupb (l : list string) : bool :=
  match l with [] => true | x :: t => negb (existsb (String.eqb x) t) && s_nodupb t end.

(* p holds for every two elements at different positions (both orders) *)
Fixpoint s_all_pairs {A} (p : A -> A -> bool) (l : list A) : bool :=
  match l with [] => true | x :: t => forallb (fun y => p x y && p y x) t && s_all_pairs p t end.

(* two different gates collide: they operate at the same level and a member of one neighbours a member of the other *)
Definition s_collide (e f : edge) : bool :=
  s_opt_eqb (s_gate_level e) (s_gate_level f)
  && existsb (fun a => existsb (fun b => s_adjacent a b) (s_qubits f)) (s_qubits e).

Definition spec_accept (ops : list edge) : bool :=
  s_nodupb (flat_map s_qubits ops) && s_all_pairs (fun e f => negb (s_collide e f)) ops.

Definition s_is_idle (q : string) (ops : list edge) : bool := negb (existsb (String.eqb q) (flat_map s_qubits ops)).

Definition spec_park (q : string) (ops : list edge) : bool :=
  s_is_idle q ops
  && existsb (fun e => match s_mover e with
                       | Some m => s_adjacent m q && s_opt_eqb (s_level q) (s_gate_level e)
                       | None => false
                       end) ops.

(* frequency ordering *)
Definition spec_higher (a b : FrequencyGroup) : bool := Nat.ltb (s_rank_of b) (s_rank_of a).
Definition spec_lower (a b : FrequencyGroup) : bool := Nat.ltb (s_rank_of a) (s_rank_of b).

(* the device tables describe one device: 17 distinct qubits, every qubit has a frequency group, the edges are proper,
   pairwise different (in either orientation) and are exactly the ancilla-data pairs of the parity groups *)
Definition s_edge_same (e f : edge) : bool :=
  (String.eqb (fst e) (fst f) && String.eqb (snd e) (snd f)) || (String.eqb (fst e) (snd f) && String.eqb (snd e) (fst f)).
Definition s_parity_edges (gs : list ParityGroup) : list edge :=
  flat_map (fun g => map (fun d => (pg_ancilla g, d)) (pg_data g)) gs.
Definition s_count {A} (p : A -> bool) (l : list A) : nat := List.length (filter p l).

Definition spec_device (qubits : list string) (edges : list edge) (groups : list ParityGroup) (freq : list (string * FrequencyGroup)) : bool :=
  s_nodupb qubits
  && forallb (fun q => match s_assoc q freq with Some _ => true | None => false end) qubits
  && forallb (fun e => negb (String.eqb (fst e) (snd e)) && existsb (String.eqb (fst e)) qubits && existsb (String.eqb (snd e)) qubits) edges
  && forallb (fun e => Nat.eqb (s_count (s_edge_same e) edges) 1) edges
  && forallb (fun e => Nat.eqb (s_count (s_edge_same e) (s_parity_edges groups)) 1) edges
  && forallb (fun e => Nat.eqb (s_count (s_edge_same e) edges) 1) (s_parity_edges groups)
  && s_nodupb (map pg_ancilla groups)
  && forallb (fun g => negb (existsb (String.eqb (pg_ancilla g)) (flat_map pg_data groups))) groups.

(* a generated gate sequence: every requested gate exactly once (as a multiset of oriented pairs), accepted steps only *)
Definition s_pair_eqb (e f : edge) : bool := String.eqb (fst e) (fst f) && String.eqb (snd e) (snd f).
Definition spec_sequence (requested : list edge) (s : list (list edge)) : bool :=
  let used := List.concat s in
  Nat.eqb (List.length used) (List.length requested)
  && forallb (fun e => Nat.eqb (s_count (s_pair_eqb e) used) (s_count (s_pair_eqb e) requested)) requested
  && forallb spec_accept s.
