(* Case evaluation for the C16 correspondence run.  `agree`: model output = implementation output recorded in the case;
   `spec_ok`: the frequency-collision reading (C16/Spec.v, which never mentions the model) evaluated on the implementation's
   output. *)
From Coq Require Import ZArith List Bool String.
Import ListNotations.
From QCE Require Import Base.Prelude C16.Spec C16.Model.
From Gen Require Import Layouts.
Open Scope string_scope.

Inductive case :=
| CAllowed (sets : list (list edge)) (rs : list bool)
    (* GateSequenceGenerator.get_mutually_allowed([type_gate(e) for e in s], Surface17Layer()) for every s of a batch *)
| CPark (ops : list edge) (rs : list (string * bool))
    (* get_requires_parking(q, ops, Surface17Layer()) for every q of Surface17Layer().qubit_ids *)
| CGen (edges : list edge) (k maxc : Z) (r : gen_result) (seqs : list (list (list edge)))
    (* construct_allowed_gate_sequences(k, maxc): index pointers (sorted) and construct_operation_sequences() in that order *)
| CFreq (a b : FrequencyGroup) (r_eq r_hi r_lo : bool)
    (* FrequencyGroupIdentifier(a).is_equal_to / is_higher_than / is_lower_than (FrequencyGroupIdentifier(b)) *)
| CTables (qubits : list string) (edges : list edge) (freqs : list (string * FrequencyGroup))
          (groups_x groups_z : list ParityGroup) (neigh : list (string * list string)) (qedges : list (string * list edge))
    (* the runtime Surface17Layer(): qubit_ids, edge_ids, frequency group of every qubit, parity groups,
       get_neighbors(q) and get_edges(q) for every q *)
| CError.   (* the implementation raised where no exception is expected *)

Definition pair_eqb (e f : edge) : bool := String.eqb (fst e) (fst f) && String.eqb (snd e) (snd f).
Definition pg_eqb (g h : ParityGroup) : bool :=
  StabilizerType_eqb (pg_type g) (pg_type h) && String.eqb (pg_ancilla g) (pg_ancilla h)
  && list_eqb String.eqb (pg_data g) (pg_data h).
Definition gen_result_eqb (a b : gen_result) : bool :=
  match a, b with
  | GenError, GenError => true
  | GenExceeds, GenExceeds => true
  | GenOk p, GenOk q => list_eqb (list_eqb (list_eqb Nat.eqb)) p q
  | _, _ => false
  end.

Definition agree (c : case) : bool :=
  match c with
  | CAllowed sets rs => list_eqb Bool.eqb (map mutually_allowed sets) rs
  | CPark ops rs => list_eqb (fun a b => String.eqb (fst a) (fst b) && Bool.eqb (snd a) (snd b))
                             (map (fun q => (q, requires_parking q ops)) qubit_ids) rs
  | CGen edges k maxc r seqs =>
      let m := construct_allowed_gate_sequences edges k maxc in
      gen_result_eqb m r
      && match m with
         | GenOk p => list_eqb (list_eqb (list_eqb pair_eqb)) (operation_sequences edges p) seqs
         | _ => match seqs with [] => true | _ => false end
         end
  | CFreq a b r_eq r_hi r_lo =>
      let x := MkFrequencyGroupIdentifier a in
      let y := MkFrequencyGroupIdentifier b in
      Bool.eqb (FrequencyGroupIdentifier_is_equal_to x y) r_eq
      && Bool.eqb (FrequencyGroupIdentifier_is_higher_than x y) r_hi
      && Bool.eqb (FrequencyGroupIdentifier_is_lower_than x y) r_lo
  | CTables qubits edges freqs gx gz neigh qedges =>
      list_eqb String.eqb qubit_ids qubits
      && list_eqb pair_eqb edge_ids edges
      && list_eqb (fun a b => String.eqb (fst a) (fst b) && FrequencyGroup_eqb (snd a) (snd b))
                  (map (fun kv => (fst kv, FrequencyGroupIdentifier__id (snd kv))) S17_frequency) freqs
      && list_eqb pg_eqb S17_parity_x gx && list_eqb pg_eqb S17_parity_z gz
      && list_eqb (fun a b => String.eqb (fst a) (fst b) && list_eqb String.eqb (snd a) (snd b))
                  (map (fun q => (q, get_neighbors q)) qubit_ids) neigh
      && list_eqb (fun a b => String.eqb (fst a) (fst b) && list_eqb pair_eqb (snd a) (snd b))
                  (map (fun q => (q, get_edges q)) qubit_ids) qedges
  | CError => false
  end.

(* the statement of C16 evaluated on what the implementation returned *)
Definition spec_ok (c : case) : bool :=
  match c with
  | CAllowed sets rs => list_eqb Bool.eqb (map spec_accept sets) rs
  | CPark ops rs =>
      (* every idle qubit of an accepted gate set: reported as requiring parking exactly when the rule says so *)
      if spec_accept ops
      then forallb (fun q => existsb (fun qr => String.eqb (fst qr) q) rs) (flat_map snd S17_feedlines)
           && forallb (fun qr => if s_is_idle (fst qr) ops then Bool.eqb (snd qr) (spec_park (fst qr) ops) else true) rs
      else true
  | CGen edges k maxc r seqs =>
      match r with
      | GenOk p => Nat.eqb (List.length p) (List.length seqs) && forallb (spec_sequence edges) seqs
      | _ => match seqs with [] => true | _ => false end
      end
  | CFreq a b r_eq r_hi r_lo =>
      Bool.eqb r_eq (FrequencyGroup_eqb a b) && Bool.eqb r_hi (spec_higher a b) && Bool.eqb r_lo (spec_lower a b)
  | CTables qubits edges freqs gx gz neigh qedges =>
      spec_device qubits edges (gx ++ gz)%list freqs
      (* neighbours reported for q are exactly the other ends of the edges through q *)
      && forallb (fun q => match s_assoc q neigh with
                           | Some ns => forallb (fun n => Bool.eqb (existsb (String.eqb n) ns)
                                                           (existsb (fun e => s_edge_same e (q, n)) edges)) qubits
                           | None => false
                           end) qubits
  | CError => false
  end.
