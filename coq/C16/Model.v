(* C16 -- executable model of the gate-acceptance logic, mirroring the Python AS IT IS.

     connectivity/connectivity_surface_code.py   Surface17Layer.{qubit_ids,get_edges,get_neighbors}, get_neighbors (edge),
                                                 on_moving_side, get_requires_parking
     connectivity/mapping/gate_sequence_generator.py   OperationConstraint.{get_possible_operations,get_requires_idle,intersect,
                                                 get_forbidden_operations,constraint_operations,get_allowed_operations},
                                                 GateSequenceGenerator.{get_combination_size,construct_operation_constraints,
                                                 get_mutually_allowed,construct_allowed_gate_sequences},
                                                 GateSequenceIdentifier.construct_operation_sequences
     utilities/combinatorics.py                  generate_unique_subgroup_combinations

   Tables and the frequency ordering come from Gen/Layouts.v (regenerated from the source on every run).
   No proofs in this file.  Qubit ids are strings; an edge is the pair of ids in the orientation it was built with.

   Modelling decisions (tied by the correspondence run):
   * `x in list` is "some member y has y == x"; a Python set / dict with the translated __eq__ is an association list;
   * `_frequency_group_lookup[q]` raises KeyError for an unknown qubit: `freq` returns LOW there; `tables_wf` (Proofs) shows
     that the lookup is defined for every qubit that the device tables mention, and the theorems range over device qubits;
   * `EdgeIDObj.get_connected_qubit_id` raises ValueError for a qubit outside the edge: `connected` returns the qubit
     itself there; every call is guarded by `contains`;
   * `ceil(n! / (k!^g * g!))` is float division in Python; it is exact (correctly rounded quotient of an integer below 2^53)
     whenever the result can be compared with a `max_combinations` below 2^53; the model divides exactly. *)
From Coq Require Import ZArith List Bool String.
Import ListNotations.
From QCE Require Import Base.Prelude C19.Model.
From Gen Require Import Layouts.
Open Scope string_scope.

Definition edge := (string * string)%type.

(* ------------------------------------------------------------------ identifiers (intrf_channel_identifier.py) *)
Definition qmem (q : string) (l : list string) : bool := existsb (fun y => String.eqb y q) l.
Definition edge_qubits (e : edge) : list string := [fst e; snd e].
Definition edge_contains (e : edge) (q : string) : bool := qmem q [fst e; snd e].
(* EdgeIDObj.__eq__ : other.contains(self.qubit_id0) and other.contains(self.qubit_id1) *)
Definition edge_eqb (e f : edge) : bool := edge_contains f (fst e) && edge_contains f (snd e).
Definition emem (e : edge) (l : list edge) : bool := existsb (fun y => edge_eqb y e) l.
Definition connected (e : edge) (q : string) : string :=
  if String.eqb q (fst e) then snd e else if String.eqb q (snd e) then fst e else q.

(* ------------------------------------------------------------------ Surface17Layer *)
Definition qubit_ids : list string := flat_map snd S17_feedlines.
Definition edge_ids : list edge := S17_edges.
Definition get_edges (q : string) : list edge := filter (fun e => edge_contains e q) edge_ids.
Definition get_neighbors (q : string) : list string := map (fun e => connected e q) (get_edges q).
(* module-level get_neighbors for an edge: unique_in_order of the neighbours of both members *)
Definition edge_neighbors (e : edge) : list string :=
  unique_in_order String.eqb (flat_map get_neighbors (edge_qubits e)).

Fixpoint assoc {B} (q : string) (l : list (string * B)) : option B :=
  match l with [] => None | (k, v) :: t => if String.eqb k q then Some v else assoc q t end.
Definition freq (q : string) : FrequencyGroupIdentifier :=
  match assoc q S17_frequency with Some f => f | None => MkFrequencyGroupIdentifier FrequencyGroup_LOW end.
Definition freq_defined (q : string) : bool := match assoc q S17_frequency with Some _ => true | None => false end.

Definition on_moving_side (q : string) (e : edge) : bool :=
  if negb (edge_contains e q) then false
  else FrequencyGroupIdentifier_is_higher_than (freq q) (freq (connected e q)).

(* ------------------------------------------------------------------ get_requires_parking / get_requires_idle *)
(* list.index: position of the first member equal to q (the callers only ask for members that are present) *)
Fixpoint index_of (q : string) (l : list string) : nat :=
  match l with [] => O | y :: t => if String.eqb y q then O else S (index_of q t) end.

Definition involved_qubits (es : list edge) : list string := flat_map edge_qubits es.
Definition involved_edges (es : list edge) : list edge := flat_map (fun e => [e; e]) es.
Definition spectator (q : string) (es : list edge) : bool := existsb (fun e => qmem q (edge_neighbors e)) es.

(* the three zipped lists of the Python: (neighbour, its frequency group, the edge found through involved_qubits.index) *)
Definition involved_triples (q : string) (es : list edge) : list (string * FrequencyGroupIdentifier * edge) :=
  let inn := filter (fun n => qmem n (involved_qubits es)) (get_neighbors q) in
  let ine := map (fun n => nth (index_of n (involved_qubits es)) (involved_edges es) (n, n)) inn in
  combine (combine inn (map freq inn)) ine.

Definition requires_parking (q : string) (es : list edge) : bool :=
  if negb (spectator q es) then false
  else if existsb (fun e => edge_contains e q) es then false
  else existsb (fun t => match t with (n, fn, e) =>
                  FrequencyGroupIdentifier_is_higher_than fn (freq q) && on_moving_side n e end) (involved_triples q es).

Definition requires_idle (q : string) (es : list edge) : bool :=
  if negb (spectator q es) then false
  else existsb (fun t => match t with (n, fn, e) =>
                  FrequencyGroupIdentifier_is_lower_than fn (freq q) && negb (on_moving_side n e) end) (involved_triples q es).

(* ------------------------------------------------------------------ Operation (intrf_connectivity_gate_sequence.py) *)
Inductive op := OIdle (q : string) | OPark (q : string) | OGate (e : edge).

(* dataclass __eq__: (identifier, type) == (identifier, type); a qubit id never equals an edge id *)
Definition op_eqb (a b : op) : bool :=
  match a, b with
  | OIdle p, OIdle q => String.eqb p q
  | OPark p, OPark q => String.eqb p q
  | OGate e, OGate f => edge_eqb e f
  | _, _ => false
  end.
Definition omem (o : op) (l : list op) : bool := existsb (fun y => op_eqb y o) l.

Definition op_contains (o : op) (q : string) : bool :=
  match o with OIdle p | OPark p => String.eqb p q | OGate e => edge_contains e q end.

(* neighbours of the operation's identifier (qubit or edge) *)
Definition op_neighbors (o : op) : list string :=
  match o with OIdle p | OPark p => get_neighbors p | OGate e => edge_neighbors e end.

(* ------------------------------------------------------------------ OperationConstraint *)
Definition possible_operations (q : string) : list op := [OIdle q; OPark q] ++ map OGate (get_edges q).

Definition intersect (o : op) (e : edge) : bool :=
  match o with
  | OIdle p | OPark p => edge_contains e p
  | OGate f => existsb (fun q => edge_contains e q) (edge_qubits f)
  end.

Definition forbidden_operations (o : op) (q : string) : list op :=
  if op_contains o q then filter (fun o' => negb (op_eqb o' o)) (possible_operations q)
  else if negb (qmem q (op_neighbors o)) then []
  else
    let operating_edges := match o with OGate e => [e] | _ => [] end in
    let available := filter (fun e => negb (intersect o e)) (get_edges q) in
    let forbidden_to_move_down := requires_idle q operating_edges in
    let forbidden_to_stay_idle := requires_parking q operating_edges in
    map OGate (filter (fun e => negb (emem e available)) (get_edges q))
    ++ (if forbidden_to_stay_idle
        then OIdle q :: map OGate (filter (fun e => negb (on_moving_side q e)) available) else [])
    ++ (if forbidden_to_move_down
        then OPark q :: map OGate (filter (fun e => on_moving_side q e) available) else []).

(* construct_operation_constraints + constraint_operations: values of the {qubit: forbidden} dict, flattened, de-duplicated *)
Definition constraint_operations (o : op) : list op :=
  unique_in_order op_eqb (flat_map (fun q => forbidden_operations o q) qubit_ids).

Definition all_possible_operations : list op :=
  unique_in_order op_eqb (flat_map possible_operations qubit_ids).

Definition allowed_operations (o : op) : list op :=
  let constraint := constraint_operations o in
  filter (fun p => negb (omem p constraint)) all_possible_operations.

(* GateSequenceGenerator.get_mutually_allowed *)
Definition mutually_allowed_ops (ops : list op) : bool :=
  forallb (fun target => let allowed := allowed_operations target in forallb (fun s => omem s allowed) ops) ops.

Definition mutually_allowed (es : list edge) : bool := mutually_allowed_ops (map OGate es).

(* one ordered pair: is gate f allowed next to gate e *)
Definition pair_allowed (e f : edge) : bool := omem (OGate f) (allowed_operations (OGate e)).

(* ------------------------------------------------------------------ combinatorics.generate_unique_subgroup_combinations *)
Section Partitions.
Context {A : Type}.

(* all ways of taking k elements (keeping their order) out of l, with the remainder *)
Fixpoint splits (k : nat) (l : list A) {struct l} : list (list A * list A) :=
  match k, l with
  | O, _ => [([], l)]
  | S _, [] => []
  | S k', x :: t => map (fun sr => (x :: fst sr, snd sr)) (splits k' t) ++ map (fun sr => (fst sr, x :: snd sr)) (splits k t)
  end.

(* partitions of l into blocks of exactly k elements, each partition once, in the canonical (sorted) form the Python
   stores in its set: the first remaining element always opens the next block *)
Fixpoint parts (fuel k : nat) (l : list A) : list (list (list A)) :=
  match l with
  | [] => [[]]
  | x :: t =>
      match fuel, k with
      | S f, S k' => flat_map (fun sr => map (cons (x :: fst sr)) (parts f k (snd sr))) (splits k' t)
      | _, _ => []
      end
  end.
Definition partitions (k : nat) (l : list A) : list (list (list A)) := parts (List.length l) k l.
End Partitions.

(* ------------------------------------------------------------------ GateSequenceGenerator *)
Fixpoint zfact (n : nat) : Z := match n with O => 1%Z | S m => (Z.of_nat n * zfact m)%Z end.

(* get_combination_size; None = the Python raises (ZeroDivisionError / ValueError for group_size <= 0) *)
Definition combination_size (n k : Z) : option Z :=
  if (k <=? 0)%Z then None
  else if ((k >? n) || negb (n mod k =? 0))%Z then Some 0%Z
  else let g := (n / k)%Z in
       let den := (Z.pow (zfact (Z.to_nat k)) g * zfact (Z.to_nat g))%Z in
       Some ((zfact (Z.to_nat n) + den - 1) / den)%Z.

Inductive gen_result :=
| GenError                                   (* group size <= 0: the Python raises before anything is generated *)
| GenExceeds                                 (* ExceedingCombinationCountException *)
| GenOk (pointers : list (list (list nat))). (* accepted index pointers, lexicographically sorted *)

Definition nat_range (n : nat) : list nat := seq 0 n.

Definition construct_allowed_gate_sequences (edges : list edge) (k maxc : Z) : gen_result :=
  match combination_size (Z.of_nat (List.length edges)) k with
  | None => GenError
  | Some c =>
      if (c >? maxc)%Z then GenExceeds
      else
        let groups := partitions (Z.to_nat k) (nat_range (List.length edges)) in
        GenOk (filter (fun g => forallb (fun sub => mutually_allowed (map (fun i => nth i edges ("", "")) sub)) g) groups)
  end.

(* construct_operation_sequences: every index pointer replaced by its edge *)
Definition operation_sequences (edges : list edge) (pointers : list (list (list nat))) : list (list (list edge)) :=
  map (map (map (fun i => nth i edges ("", "")))) pointers.
