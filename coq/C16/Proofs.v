(* C16 -- lemmas.  The acceptance logic is pairwise by construction (allowed_pairwise); on the finite device the pair check
   equals the frequency-collision rule (pair_table, vm_compute over all 48 x 48 oriented edge pairs); hence acceptance equals
   the rule for duplicate-free gate lists of ANY length (accept_spec); the parking question reduces to single gates the same
   way (parking_spec); the generator model emits permutations of the requested gates split into accepted steps. *)
From Coq Require Import ZArith List Bool String Arith Lia Sorting.Permutation.
Import ListNotations.
From QCE Require Import Base.Prelude C19.Model C16.Spec C16.Model.
From Gen Require Import Layouts.
Open Scope string_scope.

(* ------------------------------------------------------------------ the finite domain *)
Definition swap (e : edge) : edge := (snd e, fst e).
Definition oriented_edges : list edge := (S17_edges ++ map swap S17_edges)%list.

(* gate lists without a repeated gate (in either orientation) *)
Fixpoint edge_nodupb (l : list edge) : bool :=
  match l with [] => true | e :: t => negb (emem e t) && edge_nodupb t end.

(* ------------------------------------------------------------------ generic list facts *)
Lemma forallb_map_comp {A B} (f : B -> bool) (g : A -> B) l : forallb f (map g l) = forallb (fun x => f (g x)) l.
Proof. induction l as [|x t IH]; simpl; [reflexivity | now rewrite IH]. Qed.

Lemma forallb_ext_in {A} (f g : A -> bool) l : (forall x, In x l -> f x = g x) -> forallb f l = forallb g l.
Proof.
  induction l as [|x t IH]; simpl; intros H; [reflexivity|].
  rewrite (H x (or_introl eq_refl)), IH; [reflexivity | intros y Hy; apply H; now right].
Qed.

Lemma existsb_ext_in {A} (f g : A -> bool) l : (forall x, In x l -> f x = g x) -> existsb f l = existsb g l.
Proof.
  induction l as [|x t IH]; simpl; intros H; [reflexivity|].
  rewrite (H x (or_introl eq_refl)), IH; [reflexivity | intros y Hy; apply H; now right].
Qed.

Lemma forallb_andb {A} (f g : A -> bool) l : forallb (fun x => f x && g x) l = forallb f l && forallb g l.
Proof.
  induction l as [|x t IH]; simpl; [reflexivity|]. rewrite IH.
  destruct (f x), (g x), (forallb f t), (forallb g t); reflexivity.
Qed.

Lemma existsb_filter {A} (c p : A -> bool) l : existsb p (filter c l) = existsb (fun x => c x && p x) l.
Proof. induction l as [|x t IH]; simpl; [reflexivity|]. destruct (c x); simpl; now rewrite IH. Qed.

Lemma bool_eq_iff (a b : bool) : (a = true <-> b = true) -> a = b.
Proof. destruct a, b; intros [H1 H2]; try reflexivity; [symmetry; now apply H1 | now apply H2]. Qed.

(* upper triangle of a relation *)
Fixpoint tri {A} (R : A -> A -> bool) (l : list A) : bool :=
  match l with [] => true | x :: t => forallb (R x) t && tri R t end.

Lemma double_forallb_tri {A} (R : A -> A -> bool) l :
  (forall x y, In x l -> In y l -> R x y = R y x) -> (forall x, In x l -> R x x = true) ->
  forallb (fun e => forallb (R e) l) l = tri R l.
Proof.
  induction l as [|x t IH]; intros Hs Hr; [reflexivity|].
  cbn [forallb tri].
  rewrite (Hr x (or_introl eq_refl)). cbn [andb].
  assert (E : forallb (fun e => R e x && forallb (R e) t) t = forallb (R x) t && forallb (fun e => forallb (R e) t) t).
  { rewrite forallb_andb. f_equal. apply forallb_ext_in. intros y Hy. apply Hs; [now right | now left]. }
  rewrite E, IH.
  - destruct (forallb (R x) t), (tri R t); reflexivity.
  - intros a b Ha Hb. apply Hs; now right.
  - intros a Ha. apply Hr; now right.
Qed.

(* ------------------------------------------------------------------ (a) acceptance is pairwise by construction *)
Lemma allowed_pairwise ops :
  mutually_allowed ops = forallb (fun e => forallb (fun f => pair_allowed e f) ops) ops.
Proof.
  unfold mutually_allowed, mutually_allowed_ops. rewrite forallb_map_comp.
  apply forallb_ext_in. intros e _. rewrite forallb_map_comp. reflexivity.
Qed.

Lemma allowed_two e f :
  mutually_allowed [e; f] = pair_allowed e e && pair_allowed e f && (pair_allowed f e && pair_allowed f f).
Proof. rewrite allowed_pairwise. cbn [forallb]. rewrite !andb_true_r. now rewrite andb_assoc. Qed.

(* ------------------------------------------------------------------ (b) the pair table *)
(* the rule for one ordered pair of gates, written with Spec.v only *)
Definition s_cross (e f : edge) : bool :=
  negb (existsb (String.eqb (fst e)) (s_qubits f)) && negb (existsb (String.eqb (snd e)) (s_qubits f)).
Definition spec_pair (e f : edge) : bool :=
  s_edge_same e f || (s_cross e f && (negb (s_collide e f) && negb (s_collide f e))).

Definition on_oriented2 (p : edge -> edge -> bool) : bool :=
  forallb (fun e => forallb (fun f => p e f) oriented_edges) oriented_edges.

Lemma on_oriented2_spec p : on_oriented2 p = true -> forall e f, In e oriented_edges -> In f oriented_edges -> p e f = true.
Proof.
  unfold on_oriented2. intros H e f He Hf.
  rewrite forallb_forall in H. specialize (H e He). rewrite forallb_forall in H. now apply H.
Qed.

Lemma pair_table_b :
  forallb (fun e => let al := allowed_operations (OGate e) in
                    forallb (fun f => Bool.eqb (omem (OGate f) al) (spec_pair e f)) oriented_edges) oriented_edges = true.
Proof. vm_compute. reflexivity. Qed.

Lemma pair_table e f : In e oriented_edges -> In f oriented_edges -> pair_allowed e f = spec_pair e f.
Proof.
  intros He Hf. pose proof pair_table_b as H. rewrite forallb_forall in H. specialize (H e He). cbv zeta in H.
  rewrite forallb_forall in H. specialize (H f Hf). apply eqb_prop in H. exact H.
Qed.

Lemma oriented_facts_b :
  on_oriented2 (fun e f => Bool.eqb (spec_pair e f) (spec_pair f e)
                           && Bool.eqb (edge_eqb e f) (s_edge_same f e)
                           && Bool.eqb (edge_eqb e f) (edge_eqb f e)) = true.
Proof. vm_compute. reflexivity. Qed.

Lemma spec_pair_sym e f : In e oriented_edges -> In f oriented_edges -> spec_pair e f = spec_pair f e.
Proof.
  intros He Hf. pose proof (on_oriented2_spec _ oriented_facts_b e f He Hf) as H.
  rewrite !andb_true_iff in H. destruct H as [[H _] _]. now apply eqb_prop in H.
Qed.
Lemma edge_eqb_same e f : In e oriented_edges -> In f oriented_edges -> edge_eqb e f = s_edge_same f e.
Proof.
  intros He Hf. pose proof (on_oriented2_spec _ oriented_facts_b e f He Hf) as H.
  rewrite !andb_true_iff in H. destruct H as [[_ H] _]. now apply eqb_prop in H.
Qed.
Lemma edge_eqb_sym e f : In e oriented_edges -> In f oriented_edges -> edge_eqb e f = edge_eqb f e.
Proof.
  intros He Hf. pose proof (on_oriented2_spec _ oriented_facts_b e f He Hf) as H.
  rewrite !andb_true_iff in H. destruct H as [_ H]. now apply eqb_prop in H.
Qed.

Lemma oriented_proper_b : forallb (fun e => negb (String.eqb (fst e) (snd e)) && s_edge_same e e) oriented_edges = true.
Proof. vm_compute. reflexivity. Qed.
Lemma oriented_proper e : In e oriented_edges -> String.eqb (fst e) (snd e) = false /\ s_edge_same e e = true.
Proof.
  intros He. pose proof oriented_proper_b as H. rewrite forallb_forall in H. specialize (H e He).
  rewrite andb_true_iff, negb_true_iff in H. exact H.
Qed.

(* ------------------------------------------------------------------ (c) acceptance = rule, for gate lists of any length *)
Lemma existsb_flat_qubits a t :
  existsb (String.eqb a) (flat_map s_qubits t) = existsb (fun y => existsb (String.eqb a) (s_qubits y)) t.
Proof.
  induction t as [|y t IH]; [reflexivity|].
  cbn [flat_map]. rewrite existsb_app, IH. reflexivity.
Qed.

Lemma nodupb_cons_edge x t :
  s_nodupb (flat_map s_qubits (x :: t))
  = negb (String.eqb (fst x) (snd x)) && forallb (s_cross x) t && s_nodupb (flat_map s_qubits t).
Proof.
  cbn [flat_map s_qubits app s_nodupb existsb].
  rewrite !existsb_flat_qubits.
  assert (E : forallb (s_cross x) t
              = negb (existsb (fun y => existsb (String.eqb (fst x)) (s_qubits y)) t)
                && negb (existsb (fun y => existsb (String.eqb (snd x)) (s_qubits y)) t)).
  { induction t as [|y t IH]; [reflexivity|]. cbn [forallb existsb]. rewrite IH. unfold s_cross.
    destruct (existsb (String.eqb (fst x)) (s_qubits y)), (existsb (String.eqb (snd x)) (s_qubits y)),
      (existsb (fun y0 => existsb (String.eqb (fst x)) (s_qubits y0)) t),
      (existsb (fun y0 => existsb (String.eqb (snd x)) (s_qubits y0)) t); reflexivity. }
  rewrite E.
  destruct (String.eqb (fst x) (snd x)), (existsb (fun y => existsb (String.eqb (fst x)) (s_qubits y)) t),
    (existsb (fun y => existsb (String.eqb (snd x)) (s_qubits y)) t), (s_nodupb (flat_map s_qubits t)); reflexivity.
Qed.

Lemma tri_spec_pair ops :
  incl ops oriented_edges -> edge_nodupb ops = true -> tri spec_pair ops = spec_accept ops.
Proof.
  induction ops as [|x t IH]; intros Hin Hnd; [reflexivity|].
  cbn [edge_nodupb] in Hnd. rewrite andb_true_iff, negb_true_iff in Hnd. destruct Hnd as [Hx Hnd].
  assert (Hxo : In x oriented_edges) by (apply Hin; now left).
  assert (Hto : incl t oriented_edges) by (intros y Hy; apply Hin; now right).
  specialize (IH Hto Hnd).
  unfold spec_accept in *. rewrite nodupb_cons_edge. cbn [tri s_all_pairs].
  destruct (oriented_proper x Hxo) as [Hp _]. rewrite Hp. cbn [negb andb].
  assert (E : forallb (spec_pair x) t
              = forallb (s_cross x) t && forallb (fun y => negb (s_collide x y) && negb (s_collide y x)) t).
  { rewrite <- forallb_andb. apply forallb_ext_in. intros y Hy. unfold spec_pair.
    assert (Hs : s_edge_same x y = false).
    { rewrite <- (edge_eqb_same y x (Hto y Hy) Hxo).
      unfold emem in Hx. destruct (edge_eqb y x) eqn:Ey; [|reflexivity].
      assert (Hex : existsb (fun y0 => edge_eqb y0 x) t = true) by (apply existsb_exists; exists y; split; assumption).
      congruence. }
    rewrite Hs. reflexivity. }
  rewrite E, IH.
  destruct (forallb (s_cross x) t), (forallb (fun y => negb (s_collide x y) && negb (s_collide y x)) t),
    (s_nodupb (flat_map s_qubits t)), (s_all_pairs (fun e f => negb (s_collide e f)) t); reflexivity.
Qed.

Lemma accept_spec ops :
  incl ops oriented_edges -> edge_nodupb ops = true -> mutually_allowed ops = spec_accept ops.
Proof.
  intros Hin Hnd. rewrite allowed_pairwise.
  assert (E : forallb (fun e => forallb (fun f => pair_allowed e f) ops) ops
              = forallb (fun e => forallb (spec_pair e) ops) ops).
  { apply forallb_ext_in. intros e He. apply forallb_ext_in. intros f Hf. apply pair_table; apply Hin; assumption. }
  rewrite E, double_forallb_tri.
  - now apply tri_spec_pair.
  - intros x y Hx Hy. apply spec_pair_sym; apply Hin; assumption.
  - intros x Hx. unfold spec_pair. destruct (oriented_proper x (Hin x Hx)) as [_ H]. now rewrite H.
Qed.

(* accepted sets are qubit-disjoint and free of collisions -- the two clauses of the rule, as propositions *)
Lemma spec_accept_clauses ops :
  spec_accept ops = true ->
  s_nodupb (flat_map s_qubits ops) = true /\ s_all_pairs (fun e f => negb (s_collide e f)) ops = true.
Proof. unfold spec_accept. now rewrite andb_true_iff. Qed.
