(* C16 -- lemmas.  The acceptance logic is pairwise by construction (allowed_pairwise); on the finite device the pair check
   equals the frequency-collision rule (pair_table, vm_compute over all 48 x 48 oriented edge pairs); hence acceptance equals
   the rule for duplicate-free gate lists of ANY length (accept_spec); the parking question reduces to single gates the same
   way (parking_spec); the generator model emits permutations of the requested gates split into accepted steps. *)
From Coq Require Import ZArith List Bool String Arith Lia Sorting.Permutation.
Import ListNotations.
From QCE Require Import Base.Prelude C19.Model C16.Spec C16.Model.
From Gen Require Import Layouts.
Open Scope string_scope.

(* ------------------------------------------------------------------ the finite domain *)
Definition swap (e : edge) : edge := (snd e, fst e).
Definition oriented_edges : list edge := (S17_edges ++ map swap S17_edges)%list.

(* gate lists without a repeated gate (in either orientation) *)
Fixpoint edge_nodupb (l : list edge) : bool :=
  match l with [] => true | e :: t => negb (emem e t) && edge_nodupb t end.

(* ------------------------------------------------------------------ generic list facts *)
Lemma forallb_map_comp {A B} (f : B -> bool) (g : A -> B) l : forallb f (map g l) = forallb (fun x => f (g x)) l.
Proof. induction l as [|x t IH]; simpl; [reflexivity | now rewrite IH]. Qed.

Lemma forallb_ext_in {A} (f g : A -> bool) l : (forall x, In x l -> f x = g x) -> forallb f l = forallb g l.
Proof.
  induction l as [|x t IH]; simpl; intros H; [reflexivity|].
  rewrite (H x (or_introl eq_refl)), IH; [reflexivity | intros y Hy; apply H; now right].
Qed.

Lemma existsb_ext_in {A} (f g : A -> bool) l : (forall x, In x l -> f x = g x) -> existsb f l = existsb g l.
Proof.
  induction l as [|x t IH]; simpl; intros H; [reflexivity|].
  rewrite (H x (or_introl eq_refl)), IH; [reflexivity | intros y Hy; apply H; now right].
Qed.

Lemma forallb_andb {A} (f g : A -> bool) l : forallb (fun x => f x && g x) l = forallb f l && forallb g l.
Proof.
  induction l as [|x t IH]; simpl; [reflexivity|]. rewrite IH.
  destruct (f x), (g x), (forallb f t), (forallb g t); reflexivity.
Qed.

Lemma existsb_filter {A} (c p : A -> bool) l : existsb p (filter c l) = existsb (fun x => c x && p x) l.
Proof. induction l as [|x t IH]; simpl; [reflexivity|]. destruct (c x); simpl; now rewrite IH. Qed.

Lemma bool_eq_iff (a b : bool) : (a = true <-> b = true) -> a = b.
Proof. destruct a, b; intros [H1 H2]; try reflexivity; [symmetry; now apply H1 | now apply H2]. Qed.

(* upper triangle of a relation *)
Fixpoint tri {A} (R : A -> A -> bool) (l : list A) : bool :=
  match l with [] => true | x :: t => forallb (R x) t && tri R t end.

Lemma double_forallb_tri {A} (R : A -> A -> bool) l :
  (forall x y, In x l -> In y l -> R x y = R y x) -> (forall x, In x l -> R x x = true) ->
  forallb (fun e => forallb (R e) l) l = tri R l.
Proof.
  induction l as [|x t IH]; intros Hs Hr; [reflexivity|].
  cbn [forallb tri].
  rewrite (Hr x (or_introl eq_refl)). cbn [andb].
  assert (E : forallb (fun e => R e x && forallb (R e) t) t = forallb (R x) t && forallb (fun e => forallb (R e) t) t).
  { rewrite forallb_andb. f_equal. apply forallb_ext_in. intros y Hy. apply Hs; [now right | now left]. }
  rewrite E, IH.
  - destruct (forallb (R x) t), (tri R t); reflexivity.
  - intros a b Ha Hb. apply Hs; now right.
  - intros a Ha. apply Hr; now right.
Qed.

(* ------------------------------------------------------------------ (a) acceptance is pairwise by construction *)
Lemma allowed_pairwise ops :
  mutually_allowed ops = forallb (fun e => forallb (fun f => pair_allowed e f) ops) ops.
Proof.
  unfold mutually_allowed, mutually_allowed_ops. rewrite forallb_map_comp.
  apply forallb_ext_in. intros e _. rewrite forallb_map_comp. reflexivity.
Qed.

Lemma allowed_two e f :
  mutually_allowed [e; f] = pair_allowed e e && pair_allowed e f && (pair_allowed f e && pair_allowed f f).
Proof. rewrite allowed_pairwise. cbn [forallb]. rewrite !andb_true_r. now rewrite andb_assoc. Qed.

(* ------------------------------------------------------------------ (b) the pair table *)
(* the rule for one ordered pair of gates, written with Spec.v only *)
Definition s_cross (e f : edge) : bool :=
  negb (existsb (String.eqb (fst e)) (s_qubits f)) && negb (existsb (String.eqb (snd e)) (s_qubits f)).
Definition spec_pair (e f : edge) : bool :=
  s_edge_same e f || (s_cross e f && (negb (s_collide e f) && negb (s_collide f e))).

Definition on_oriented2 (p : edge -> edge -> bool) : bool :=
  forallb (fun e => forallb (fun f => p e f) oriented_edges) oriented_edges.

Lemma on_oriented2_spec p : on_oriented2 p = true -> forall e f, In e oriented_edges -> In f oriented_edges -> p e f = true.
Proof.
  unfold on_oriented2. intros H e f He Hf.
  rewrite forallb_forall in H. specialize (H e He). rewrite forallb_forall in H. now apply H.
Qed.

Lemma pair_table_b :
  forallb (fun e => let al := allowed_operations (OGate e) in
                    forallb (fun f => Bool.eqb (omem (OGate f) al) (spec_pair e f)) oriented_edges) oriented_edges = true.
Proof. vm_compute. reflexivity. Qed.

Lemma pair_table e f : In e oriented_edges -> In f oriented_edges -> pair_allowed e f = spec_pair e f.
Proof.
  intros He Hf. pose proof pair_table_b as H. rewrite forallb_forall in H. specialize (H e He). cbv zeta in H.
  rewrite forallb_forall in H. specialize (H f Hf). apply eqb_prop in H. exact H.
Qed.

Lemma oriented_facts_b :
  on_oriented2 (fun e f => Bool.eqb (spec_pair e f) (spec_pair f e)
                           && Bool.eqb (edge_eqb e f) (s_edge_same f e)
                           && Bool.eqb (edge_eqb e f) (edge_eqb f e)) = true.
Proof. vm_compute. reflexivity. Qed.

Lemma spec_pair_sym e f : In e oriented_edges -> In f oriented_edges -> spec_pair e f = spec_pair f e.
Proof.
  intros He Hf. pose proof (on_oriented2_spec _ oriented_facts_b e f He Hf) as H.
  rewrite !andb_true_iff in H. destruct H as [[H _] _]. now apply eqb_prop in H.
Qed.
Lemma edge_eqb_same e f : In e oriented_edges -> In f oriented_edges -> edge_eqb e f = s_edge_same f e.
Proof.
  intros He Hf. pose proof (on_oriented2_spec _ oriented_facts_b e f He Hf) as H.
  rewrite !andb_true_iff in H. destruct H as [[_ H] _]. now apply eqb_prop in H.
Qed.
Lemma edge_eqb_sym e f : In e oriented_edges -> In f oriented_edges -> edge_eqb e f = edge_eqb f e.
Proof.
  intros He Hf. pose proof (on_oriented2_spec _ oriented_facts_b e f He Hf) as H.
  rewrite !andb_true_iff in H. destruct H as [_ H]. now apply eqb_prop in H.
Qed.

Lemma oriented_proper_b : forallb (fun e => negb (String.eqb (fst e) (snd e)) && s_edge_same e e) oriented_edges = true.
Proof. vm_compute. reflexivity. Qed.
Lemma oriented_proper e : In e oriented_edges -> String.eqb (fst e) (snd e) = false /\ s_edge_same e e = true.
Proof.
  intros He. pose proof oriented_proper_b as H. rewrite forallb_forall in H. specialize (H e He).
  rewrite andb_true_iff, negb_true_iff in H. exact H.
Qed.

(* ------------------------------------------------------------------ (c) acceptance = rule, for gate lists of any length *)
Lemma existsb_flat_qubits a t :
  existsb (String.eqb a) (flat_map s_qubits t) = existsb (fun y => existsb (String.eqb a) (s_qubits y)) t.
Proof.
  induction t as [|y t IH]; [reflexivity|].
  cbn [flat_map]. rewrite existsb_app, IH. reflexivity.
Qed.

Lemma nodupb_cons_edge x t :
  s_nodupb (flat_map s_qubits (x :: t))
  = negb (String.eqb (fst x) (snd x)) && forallb (s_cross x) t && s_nodupb (flat_map s_qubits t).
Proof.
  cbn [flat_map s_qubits app s_nodupb existsb].
  rewrite !existsb_flat_qubits.
  assert (E : forallb (s_cross x) t
              = negb (existsb (fun y => existsb (String.eqb (fst x)) (s_qubits y)) t)
                && negb (existsb (fun y => existsb (String.eqb (snd x)) (s_qubits y)) t)).
  { induction t as [|y t IH]; [reflexivity|]. cbn [forallb existsb]. rewrite IH. unfold s_cross.
    destruct (existsb (String.eqb (fst x)) (s_qubits y)), (existsb (String.eqb (snd x)) (s_qubits y)),
      (existsb (fun y0 => existsb (String.eqb (fst x)) (s_qubits y0)) t),
      (existsb (fun y0 => existsb (String.eqb (snd x)) (s_qubits y0)) t); reflexivity. }
  rewrite E.
  destruct (String.eqb (fst x) (snd x)), (existsb (fun y => existsb (String.eqb (fst x)) (s_qubits y)) t),
    (existsb (fun y => existsb (String.eqb (snd x)) (s_qubits y)) t), (s_nodupb (flat_map s_qubits t)); reflexivity.
Qed.

Lemma tri_spec_pair ops :
  incl ops oriented_edges -> edge_nodupb ops = true -> tri spec_pair ops = spec_accept ops.
Proof.
  induction ops as [|x t IH]; intros Hin Hnd; [reflexivity|].
  cbn [edge_nodupb] in Hnd. rewrite andb_true_iff, negb_true_iff in Hnd. destruct Hnd as [Hx Hnd].
  assert (Hxo : In x oriented_edges) by (apply Hin; now left).
  assert (Hto : incl t oriented_edges) by (intros y Hy; apply Hin; now right).
  specialize (IH Hto Hnd).
  unfold spec_accept in *. rewrite nodupb_cons_edge. cbn [tri s_all_pairs].
  destruct (oriented_proper x Hxo) as [Hp _]. rewrite Hp. cbn [negb andb].
  assert (E : forallb (spec_pair x) t
              = forallb (s_cross x) t && forallb (fun y => negb (s_collide x y) && negb (s_collide y x)) t).
  { rewrite <- forallb_andb. apply forallb_ext_in. intros y Hy. unfold spec_pair.
    assert (Hs : s_edge_same x y = false).
    { rewrite <- (edge_eqb_same y x (Hto y Hy) Hxo).
      unfold emem in Hx. destruct (edge_eqb y x) eqn:Ey; [|reflexivity].
      assert (Hex : existsb (fun y0 => edge_eqb y0 x) t = true) by (apply existsb_exists; exists y; split; assumption).
      congruence. }
    rewrite Hs. reflexivity. }
  rewrite E, IH.
  destruct (forallb (s_cross x) t), (forallb (fun y => negb (s_collide x y) && negb (s_collide y x)) t),
    (s_nodupb (flat_map s_qubits t)), (s_all_pairs (fun e f => negb (s_collide e f)) t); reflexivity.
Qed.

Lemma accept_spec ops :
  incl ops oriented_edges -> edge_nodupb ops = true -> mutually_allowed ops = spec_accept ops.
Proof.
  intros Hin Hnd. rewrite allowed_pairwise.
  assert (E : forallb (fun e => forallb (fun f => pair_allowed e f) ops) ops
              = forallb (fun e => forallb (spec_pair e) ops) ops).
  { apply forallb_ext_in. intros e He. apply forallb_ext_in. intros f Hf. apply pair_table; apply Hin; assumption. }
  rewrite E, double_forallb_tri.
  - now apply tri_spec_pair.
  - intros x y Hx Hy. apply spec_pair_sym; apply Hin; assumption.
  - intros x Hx. unfold spec_pair. destruct (oriented_proper x (Hin x Hx)) as [_ H]. now rewrite H.
Qed.

(* accepted sets are qubit-disjoint and free of collisions -- the two clauses of the rule, as propositions *)
Lemma spec_accept_clauses ops :
  spec_accept ops = true ->
  s_nodupb (flat_map s_qubits ops) = true /\ s_all_pairs (fun e f => negb (s_collide e f)) ops = true.
Proof. unfold spec_accept. now rewrite andb_true_iff. Qed.

(* ------------------------------------------------------------------ (d) parking *)
Lemma existsb_triples {A B C} (phi : A * B * C -> bool) (f : A -> B) (g : A -> C) l :
  existsb phi (combine (combine l (map f l)) (map g l)) = existsb (fun n => phi (n, f n, g n)) l.
Proof. induction l as [|x t IH]; simpl; [reflexivity | now rewrite IH]. Qed.

(* the edge found through involved_qubits.index(n): the first listed gate that contains n *)
Definition first_edge (n : string) (es : list edge) : edge :=
  nth (index_of n (involved_qubits es)) (involved_edges es) (n, n).

Lemma first_edge_cons n e t : first_edge n (e :: t) = if edge_contains e n then e else first_edge n t.
Proof.
  unfold first_edge, involved_qubits, involved_edges, edge_contains, qmem, edge_qubits.
  cbn [flat_map app index_of existsb].
  destruct (String.eqb (fst e) n); [reflexivity|].
  destruct (String.eqb (snd e) n); reflexivity.
Qed.

Lemma qmem_involved_cons n e t : qmem n (involved_qubits (e :: t)) = edge_contains e n || qmem n (involved_qubits t).
Proof.
  unfold involved_qubits, edge_contains, qmem, edge_qubits. cbn [flat_map app existsb].
  destruct (String.eqb (fst e) n), (String.eqb (snd e) n); reflexivity.
Qed.

Lemma first_edge_in n es :
  qmem n (involved_qubits es) = true -> In (first_edge n es) es /\ edge_contains (first_edge n es) n = true.
Proof.
  induction es as [|e t IH]; intros H; [discriminate|].
  rewrite qmem_involved_cons in H. rewrite first_edge_cons.
  destruct (edge_contains e n) eqn:E.
  - split; [now left | exact E].
  - cbn [orb] in H. destruct (IH H) as [H1 H2]. split; [now right | exact H2].
Qed.

Lemma qmem_involved n e es : In e es -> edge_contains e n = true -> qmem n (involved_qubits es) = true.
Proof.
  induction es as [|x t IH]; intros Hin Hc; [contradiction|].
  rewrite qmem_involved_cons. destruct Hin as [->|Hin]; [now rewrite Hc|].
  rewrite (IH Hin Hc). apply orb_true_r.
Qed.

Lemma contains_cases e n : edge_contains e n = true -> n = fst e \/ n = snd e.
Proof.
  unfold edge_contains, qmem. cbn [existsb]. rewrite !orb_true_iff. intros [H|[H|H]]; try discriminate;
    apply String.eqb_eq in H; auto.
Qed.

Lemma contains_s_qubits e n : edge_contains e n = existsb (String.eqb n) (s_qubits e).
Proof.
  unfold edge_contains, qmem, s_qubits. cbn [existsb].
  now rewrite (String.eqb_sym (fst e) n), (String.eqb_sym (snd e) n).
Qed.

Lemma disjoint_unique es :
  s_nodupb (flat_map s_qubits es) = true ->
  forall e e' n, In e es -> In e' es -> edge_contains e n = true -> edge_contains e' n = true -> e = e'.
Proof.
  induction es as [|x t IH]; intros Hnd e e' n He He' Hc Hc'; [contradiction|].
  rewrite nodupb_cons_edge, !andb_true_iff in Hnd. destruct Hnd as [[_ Hcross] Hnd].
  rewrite forallb_forall in Hcross.
  assert (K : forall y, In y t -> edge_contains x n = true -> edge_contains y n = true -> False).
  { intros y Hy Hx Hyn. specialize (Hcross y Hy). unfold s_cross in Hcross.
    rewrite andb_true_iff, !negb_true_iff in Hcross. destruct Hcross as [C1 C2].
    rewrite contains_s_qubits in Hyn.
    destruct (contains_cases x n Hx) as [->| ->]; congruence. }
  destruct He as [<-|He], He' as [<-|He'].
  - reflexivity.
  - exfalso. exact (K e' He' Hc Hc').
  - exfalso. exact (K e He Hc' Hc).
  - exact (IH Hnd e e' n He He' Hc Hc').
Qed.

Definition higher_q (n q : string) : bool := FrequencyGroupIdentifier_is_higher_than (freq n) (freq q).
(* contribution of one gate e to the parking question of q, in the model's terms *)
Definition c1 (q : string) (e : edge) : bool :=
  existsb (fun n => edge_contains e n && higher_q n q && on_moving_side n e) (get_neighbors q).

Section ParkingCore.
Variable N : list string.
Variable P : string -> bool.
Variable M : string -> edge -> bool.

Lemma parking_core_gen es :
  s_nodupb (flat_map s_qubits es) = true ->
  existsb (fun n => qmem n (involved_qubits es) && (P n && M n (first_edge n es))) N
  = existsb (fun e => existsb (fun n => edge_contains e n && P n && M n e) N) es.
Proof.
  intros Hnd. apply bool_eq_iff. rewrite !existsb_exists. split.
  - intros [n [Hn H]]. rewrite !andb_true_iff in H. destruct H as [Hq [Hh Hm]].
    destruct (first_edge_in n es Hq) as [F1 F2].
    exists (first_edge n es). split; [exact F1|].
    apply existsb_exists. exists n. split; [exact Hn|]. now rewrite F2, Hh, Hm.
  - intros [e [He H]]. apply existsb_exists in H. destruct H as [n [Hn H]].
    rewrite !andb_true_iff in H. destruct H as [[Hc Hh] Hm].
    exists n. split; [exact Hn|].
    assert (Hq : qmem n (involved_qubits es) = true) by (eapply qmem_involved; eassumption).
    destruct (first_edge_in n es Hq) as [F1 F2].
    assert (E : first_edge n es = e) by (eapply disjoint_unique; eassumption).
    now rewrite Hq, E, Hh, Hm.
Qed.
End ParkingCore.

Lemma parking_core q es :
  s_nodupb (flat_map s_qubits es) = true ->
  existsb (fun t => match t with (n, fn, e) => FrequencyGroupIdentifier_is_higher_than fn (freq q) && on_moving_side n e end)
          (involved_triples q es)
  = existsb (c1 q) es.
Proof.
  intros Hnd. unfold involved_triples. rewrite existsb_triples, existsb_filter.
  exact (parking_core_gen (get_neighbors q) (fun n => higher_q n q) on_moving_side es Hnd).
Qed.

(* the rule's contribution of one gate *)
Definition sp1 (q : string) (e : edge) : bool :=
  match s_mover e with
  | Some m => s_adjacent m q && s_opt_eqb (s_level q) (s_gate_level e)
  | None => false
  end.

Lemma spec_park_sp1 q ops : spec_park q ops = s_is_idle q ops && existsb (sp1 q) ops.
Proof. reflexivity. Qed.

Lemma park_table_b :
  forallb (fun q => forallb (fun e => (edge_contains e q || Bool.eqb (c1 q e) (sp1 q e))
                                       && implb (c1 q e) (qmem q (edge_neighbors e))) oriented_edges) qubit_ids = true.
Proof. vm_compute. reflexivity. Qed.

Lemma park_table q e :
  In q qubit_ids -> In e oriented_edges ->
  (edge_contains e q = false -> c1 q e = sp1 q e) /\ (c1 q e = true -> qmem q (edge_neighbors e) = true).
Proof.
  intros Hq He. pose proof park_table_b as H. rewrite forallb_forall in H. specialize (H q Hq).
  rewrite forallb_forall in H. specialize (H e He).
  set (a := c1 q e) in *. set (b := sp1 q e) in *. set (c := qmem q (edge_neighbors e)) in *.
  set (d := edge_contains e q) in *. clearbody a b c d.
  destruct a, b, c, d; cbn in H; try discriminate; split; intros; congruence.
Qed.

Lemma included_same q es :
  existsb (String.eqb q) (flat_map s_qubits es) = existsb (fun e => edge_contains e q) es.
Proof.
  rewrite existsb_flat_qubits. apply existsb_ext_in. intros e _. symmetry. apply contains_s_qubits.
Qed.

Lemma parking_spec ops q :
  incl ops oriented_edges -> spec_accept ops = true -> In q qubit_ids ->
  requires_parking q ops = spec_park q ops.
Proof.
  intros Hin Hacc Hq. destruct (spec_accept_clauses ops Hacc) as [Hnd _].
  rewrite spec_park_sp1. unfold s_is_idle, requires_parking. rewrite included_same.
  destruct (existsb (fun e => edge_contains e q) ops) eqn:Hinc.
  - cbn [negb andb]. destruct (spectator q ops); reflexivity.
  - cbn [negb andb]. rewrite parking_core by exact Hnd.
    assert (E : existsb (c1 q) ops = existsb (sp1 q) ops).
    { apply existsb_ext_in. intros e He. apply (park_table q e Hq (Hin e He)).
      destruct (edge_contains e q) eqn:Ec; [|reflexivity].
      assert (X : existsb (fun e0 => edge_contains e0 q) ops = true) by (apply existsb_exists; exists e; split; assumption).
      congruence. }
    destruct (spectator q ops) eqn:Hs; cbn [negb]; [exact E|].
    rewrite <- E. symmetry. destruct (existsb (c1 q) ops) eqn:Hex; [|reflexivity].
    apply existsb_exists in Hex. destruct Hex as [e [He Hc]].
    apply (park_table q e Hq (Hin e He)) in Hc.
    assert (X : spectator q ops = true) by (unfold spectator; apply existsb_exists; exists e; split; assumption).
    congruence.
Qed.

(* ------------------------------------------------------------------ (e) the sequence generator *)
Section PartitionFacts.
Context {A : Type}.

Lemma splits_spec (l : list A) : forall k s r, In (s, r) (splits k l) -> Permutation (s ++ r) l /\ List.length s = k.
Proof.
  induction l as [|x t IH]; intros k s r H.
  - destruct k; simpl in H; [|contradiction]. destruct H as [H|[]]. inversion H. split; reflexivity.
  - destruct k as [|k'].
    + simpl in H. destruct H as [H|[]]. inversion H. split; reflexivity.
    + cbn [splits] in H. apply in_app_or in H. destruct H as [H|H]; apply in_map_iff in H; destruct H as [[s' r'] [E H]];
        cbn [fst snd] in E; inversion E; subst; destruct (IH _ _ _ H) as [P L].
      * split; [cbn [app]; now constructor | cbn [List.length]; now rewrite L].
      * split; [|exact L]. apply Permutation_sym, Permutation_cons_app, Permutation_sym, P.
Qed.

Lemma parts_spec fuel : forall k (l : list A) p,
  In p (parts fuel k l) -> Permutation (List.concat p) l /\ Forall (fun b => List.length b = k) p.
Proof.
  induction fuel as [|f IH]; intros k l p H.
  - destruct l as [|x t]; [|contradiction]. destruct H as [<-|[]]. split; constructor.
  - destruct l as [|x t].
    + destruct H as [<-|[]]. split; constructor.
    + destruct k as [|k']; [contradiction|]. cbn [parts] in H.
      apply in_flat_map in H. destruct H as [[s r] [Hs H]]. cbn [fst snd] in H.
      apply in_map_iff in H. destruct H as [p' [<- Hp']].
      destruct (splits_spec _ _ _ _ Hs) as [P L]. destruct (IH _ _ _ Hp') as [P' F'].
      split.
      * cbn [List.concat app]. constructor.
        apply Permutation_trans with (s ++ r)%list; [|exact P]. now apply Permutation_app_head.
      * constructor; [cbn [List.length]; now rewrite L | exact F'].
Qed.

Lemma map_nth_seq (l : list A) d : map (fun i => nth i l d) (seq 0 (List.length l)) = l.
Proof.
  induction l as [|x t IH]; [reflexivity|].
  cbn [List.length seq map nth]. f_equal. rewrite <- seq_shift, map_map. exact IH.
Qed.
End PartitionFacts.

Lemma sequences_ok edges k maxc ptrs :
  construct_allowed_gate_sequences edges k maxc = GenOk ptrs ->
  forall s, In s (operation_sequences edges ptrs) ->
    Permutation (List.concat s) edges
    /\ (forall step, In step s -> mutually_allowed step = true /\ List.length step = Z.to_nat k).
Proof.
  unfold construct_allowed_gate_sequences. intros H s Hs.
  destruct (combination_size (Z.of_nat (List.length edges)) k) as [c|]; [|discriminate].
  destruct (c >? maxc)%Z; [discriminate|]. inversion H as [Hp]. clear H.
  unfold operation_sequences in Hs. apply in_map_iff in Hs. destruct Hs as [ptr [<- Hptr]].
  rewrite <- Hp in Hptr. apply filter_In in Hptr. destruct Hptr as [Hpart Hall].
  unfold partitions, nat_range in Hpart. apply parts_spec in Hpart. destruct Hpart as [P F].
  split.
  - rewrite <- concat_map.
    apply Permutation_trans with (map (fun i => nth i edges ("", "")) (seq 0 (List.length edges))).
    + now apply Permutation_map.
    + rewrite map_nth_seq. apply Permutation_refl.
  - intros step Hstep. apply in_map_iff in Hstep. destruct Hstep as [sub [<- Hsub]].
    rewrite forallb_forall in Hall. split; [now apply Hall|].
    rewrite map_length. rewrite Forall_forall in F. now apply F.
Qed.

(* distinctness as a proposition (stable under permutation and sub-lists), equivalent to edge_nodupb on device edges *)
Definition edistinct (l : list edge) : Prop :=
  NoDup l /\ forall e f, In e l -> In f l -> edge_eqb f e = true -> e = f.

Lemma edge_eqb_refl e : edge_eqb e e = true.
Proof. unfold edge_eqb, edge_contains, qmem. cbn [existsb]. rewrite !String.eqb_refl. cbn. now rewrite orb_true_r. Qed.

Lemma edistinct_of_nodupb l : incl l oriented_edges -> edge_nodupb l = true -> edistinct l.
Proof.
  induction l as [|x t IH]; intros Hin H; [split; [constructor | intros ? ? []]|].
  cbn [edge_nodupb] in H. rewrite andb_true_iff, negb_true_iff in H. destruct H as [Hx Hnd].
  assert (Hto : incl t oriented_edges) by (intros y Hy; apply Hin; now right).
  destruct (IH Hto Hnd) as [N U].
  assert (K : forall y, In y t -> edge_eqb y x = false).
  { intros y Hy. destruct (edge_eqb y x) eqn:E; [|reflexivity].
    assert (X : emem x t = true) by (unfold emem; apply existsb_exists; exists y; split; assumption). congruence. }
  split.
  - constructor; [|exact N]. intros Hc. specialize (K x Hc). rewrite edge_eqb_refl in K. discriminate.
  - intros e f [<-|He] [<-|Hf] E.
    + reflexivity.
    + rewrite (K f Hf) in E. discriminate.
    + rewrite (edge_eqb_sym x e (Hin x (or_introl eq_refl)) (Hin e (or_intror He))) in E. rewrite (K e He) in E. discriminate.
    + now apply U.
Qed.

Lemma nodupb_of_edistinct l : edistinct l -> edge_nodupb l = true.
Proof.
  induction l as [|x t IH]; intros [N U]; [reflexivity|].
  cbn [edge_nodupb]. inversion N as [|? ? Hx Nt]; subst. rewrite andb_true_iff, negb_true_iff. split.
  - destruct (emem x t) eqn:E; [|reflexivity]. unfold emem in E. apply existsb_exists in E. destruct E as [y [Hy E]].
    assert (x = y) by (apply U; [now left | now right | exact E]). subst. contradiction.
  - apply IH. split; [exact Nt|]. intros e f He Hf. apply U; now right.
Qed.

Lemma NoDup_app_both {A} (l l' : list A) : NoDup (l ++ l') -> NoDup l /\ NoDup l'.
Proof.
  induction l as [|x t IH]; cbn [app]; intros N; [split; [constructor | exact N]|].
  inversion N as [|? ? Hx Nt]; subst. destruct (IH Nt) as [N1 N2]. split; [|exact N2].
  constructor; [|exact N1]. intros Hc. apply Hx. apply in_or_app. now left.
Qed.

Lemma NoDup_concat_member {A} (s : list (list A)) step : NoDup (List.concat s) -> In step s -> NoDup step.
Proof.
  induction s as [|b t IH]; intros N H; [contradiction|].
  cbn [List.concat] in N. destruct H as [<-|H].
  - exact (proj1 (NoDup_app_both _ _ N)).
  - apply IH; [exact (proj2 (NoDup_app_both _ _ N)) | exact H].
Qed.

Lemma in_concat_member {A} (s : list (list A)) step x : In step s -> In x step -> In x (List.concat s).
Proof. intros H1 H2. apply in_concat. exists step. split; assumption. Qed.

Lemma sequences_spec edges k maxc ptrs :
  incl edges oriented_edges -> edge_nodupb edges = true ->
  construct_allowed_gate_sequences edges k maxc = GenOk ptrs ->
  forall s, In s (operation_sequences edges ptrs) ->
    Permutation (List.concat s) edges /\ (forall step, In step s -> spec_accept step = true).
Proof.
  intros Hin Hnd H s Hs. destruct (sequences_ok _ _ _ _ H s Hs) as [P Hsteps]. split; [exact P|].
  intros step Hstep. destruct (Hsteps step Hstep) as [Hm _].
  destruct (edistinct_of_nodupb edges Hin Hnd) as [N U].
  assert (Hsub : forall x, In x step -> In x edges).
  { intros x Hx. eapply Permutation_in; [exact P|]. eapply in_concat_member; eassumption. }
  rewrite <- accept_spec; [exact Hm | intros x Hx; apply Hin, Hsub, Hx |].
  apply nodupb_of_edistinct. split.
  - eapply NoDup_concat_member; [|exact Hstep]. eapply Permutation_NoDup; [apply Permutation_sym, P | exact N].
  - intros e f He Hf. apply U; now apply Hsub.
Qed.

(* ------------------------------------------------------------------ the tables describe one device *)
Lemma device_tables_wf :
  spec_device qubit_ids S17_edges (S17_parity_x ++ S17_parity_z)%list
              (map (fun kv => (fst kv, FrequencyGroupIdentifier__id (snd kv))) S17_frequency) = true
  /\ forallb freq_defined (flat_map edge_qubits oriented_edges) = true
  /\ List.length qubit_ids = 17%nat /\ List.length S17_edges = 24%nat.
Proof. vm_compute. repeat split. Qed.

(* the translated ordering is the order LOW < MID < HIGH *)
Lemma frequency_order a b :
  FrequencyGroupIdentifier_is_higher_than (MkFrequencyGroupIdentifier a) (MkFrequencyGroupIdentifier b) = spec_higher a b
  /\ FrequencyGroupIdentifier_is_lower_than (MkFrequencyGroupIdentifier a) (MkFrequencyGroupIdentifier b) = spec_lower a b
  /\ FrequencyGroupIdentifier_is_equal_to (MkFrequencyGroupIdentifier a) (MkFrequencyGroupIdentifier b) = FrequencyGroup_eqb a b.
Proof. destruct a, b; vm_compute; repeat split. Qed.

(* ------------------------------------------------------------------ non-vacuity *)
Example accept_example :
  let ops := [("X1", "D1"); ("Z1", "D4"); ("X3", "D7"); ("Z2", "D6")] in
  incl ops oriented_edges /\ edge_nodupb ops = true /\ mutually_allowed ops = true /\ spec_accept ops = true
  /\ mutually_allowed (("D2", "Z1") :: ops) = false.
Proof. vm_compute. repeat split; intros e H; repeat (destruct H as [<-|H]; [tauto|]); contradiction. Qed.

Example parking_example :
  let ops := [("X1", "D1"); ("Z1", "D5")] in
  spec_accept ops = true /\ filter (fun q => requires_parking q ops) qubit_ids = ["Z4"; "D2"; "X3"; "X2"].
Proof. vm_compute. split; reflexivity. Qed.

Example generator_example :
  let edges := [("X1", "D1"); ("Z1", "D5"); ("X3", "D8"); ("Z2", "D3")] in
  exists ptrs, construct_allowed_gate_sequences edges 2 20000 = GenOk ptrs /\ List.length ptrs = 3%nat.
Proof. eexists. split; [vm_compute; reflexivity | reflexivity]. Qed.

Example partitions_count :
  List.length (partitions 2 (nat_range 8)) = 105%nat /\ combination_size 8 2 = Some 105%Z
  /\ List.length (partitions 3 (nat_range 9)) = 280%nat /\ combination_size 9 3 = Some 280%Z.
Proof. vm_compute. repeat split. Qed.
