From QCE Require Import C10.Model C10.Run.
