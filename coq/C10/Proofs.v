(* C10 — soundness of the symbolic (max-plus) scheduler of C10/Model.v w.r.t. Core/Model.v, and of the certificate. *)
From Coq Require Import ZArith List Bool Lia ZifyBool Arith.
Import ListNotations.
From QCE Require Import Base.Prelude Core.Model Core.Run Core.TimesProofs Core.TimesListing Lib.Run C10.Model C10.Run.
From Gen Require Import Ident Classes.
Open Scope Z_scope.

(* ------------------------------------------------------------------ admissible settings *)
(* what the order on linear forms uses: non-negative globals, 2W + M >= R and 2W <= R (W >= 0 holds by definition of max) *)
Definition env_ok (env : denv) : Prop :=
  0 <= genv env GReadout /\ 0 <= genv env GMicrowave /\ 0 <= genv env GFlux /\ 0 <= genv env GReset
  /\ genv env GReadout <= 2 * wait_of env + genv env GMicrowave /\ 2 * wait_of env <= genv env GReadout.

(* the hypotheses in terms of the setting only: durations are multiples of 0.25 = 2 ticks, so R - M is even and the wait
   0.5 * (R - M) is exact *)
Definition env_nonneg (env : denv) : Prop :=
  0 <= genv env GReadout /\ 0 <= genv env GMicrowave /\ 0 <= genv env GFlux /\ 0 <= genv env GReset.
Definition env_parity (env : denv) : Prop := (genv env GReadout - genv env GMicrowave) mod 2 = 0.

Lemma wait_nonneg env : 0 <= wait_of env.
Proof. unfold wait_of; simpl. lia. Qed.

Lemma env_ok_of env : env_nonneg env -> env_parity env -> env_ok env.
Proof.
  intros (A & B & C & D) P. unfold env_ok, env_parity, wait_of, resolve in *.
  repeat split; try assumption.
  - pose proof (Z.div_mod (genv env GReadout - genv env GMicrowave) 2 ltac:(lia)) as E. rewrite P in E. lia.
  - pose proof (Z.div_mod (genv env GReadout - genv env GMicrowave) 2 ltac:(lia)) as E. rewrite P in E. lia.
Qed.

(* without the parity hypothesis the fact 2W + M >= R is false in the model (floor division) *)
Example parity_needed : ~ env_ok (mk_env 3 0 0 0 []).
Proof. unfold env_ok, wait_of; simpl. intros (_ & _ & _ & _ & H & _). vm_compute in H. apply H; reflexivity. Qed.

(* ------------------------------------------------------------------ linear forms *)
Lemma leval_add env a b : leval env (ladd a b) = leval env a + leval env b.
Proof. unfold leval, ladd; simpl. ring. Qed.
Lemma leval_sub env a b : leval env (lsub a b) = leval env a - leval env b.
Proof. unfold leval, lsub; simpl. ring. Qed.
Lemma leval_zero env : leval env lzero = 0.
Proof. unfold leval, lzero, lconst; cbn [cR cM cF cS cW c0]. ring. Qed.
Lemma leval_const env z : leval env (lconst z) = z.
Proof. unfold leval, lconst; cbn [cR cM cF cS cW c0]. ring. Qed.

Lemma sdur_sound env d x : sdur d = Some x -> leval env x = resolve env d.
Proof.
  destruct d as [z|k| |]; cbn [sdur]; intros E; inversion E; subst; clear E.
  - apply leval_const.
  - destruct k; unfold leval, lvar, resolve; cbn [cR cM cF cS cW c0]; ring.
  - unfold leval, lwait; cbn [cR cM cF cS cW c0]. unfold wait_of. ring.
Qed.

Lemma lin_nonneg_sound env l : env_ok env -> lin_nonneg l = true -> 0 <= leval env l.
Proof.
  intros (HR & HM & HF & HS & HW & HW2) H. pose proof (wait_nonneg env) as HW0.
  unfold lin_nonneg in H. destruct l as [a b c d e f]; cbn [cR cM cF cS cW c0] in H.
  set (k1 := Z.max 0 (- a)) in *. set (k2 := Z.max 0 a) in *.
  repeat rewrite andb_true_iff in H. destruct H as ((((H1 & H2) & H3) & H4) & H5).
  apply Z.leb_le in H1, H2, H3, H4, H5.
  unfold leval; cbn [cR cM cF cS cW c0].
  set (R := genv env GReadout) in *. set (M := genv env GMicrowave) in *.
  set (F := genv env GFlux) in *. set (S := genv env GReset) in *. set (W := wait_of env) in *.
  assert (K1 : 0 <= k1) by (unfold k1; lia). assert (K2 : 0 <= k2) by (unfold k2; lia).
  assert (A : a + k1 - k2 = 0) by (unfold k1, k2; lia).
  clearbody k1 k2 R M F S W.
  pose proof (Z.mul_nonneg_nonneg _ _ H1 HM) as P2.
  pose proof (Z.mul_nonneg_nonneg _ _ H2 HF) as P3.
  pose proof (Z.mul_nonneg_nonneg _ _ H3 HS) as P4.
  pose proof (Z.mul_nonneg_nonneg _ _ H4 HW0) as P5.
  assert (G1 : 0 <= 2 * W + M - R) by lia. assert (G2 : 0 <= R - 2 * W) by lia.
  pose proof (Z.mul_nonneg_nonneg _ _ K1 G1) as P6. pose proof (Z.mul_nonneg_nonneg _ _ K2 G2) as P7.
  assert (P1 : (a + k1 - k2) * R = 0) by (rewrite A; ring).
  lia.
Qed.

Lemma lin_le_sound env a b : env_ok env -> lin_le a b = true -> leval env a <= leval env b.
Proof. intros E H. apply (lin_nonneg_sound env _ E) in H. rewrite leval_sub in H. lia. Qed.

(* ------------------------------------------------------------------ max-plus forms: "v is the maximum of the members" *)
Definition UB (env : denv) (m : mp) (v : Z) : Prop := forall x, In x m -> leval env x <= v.
Definition Wit (env : denv) (m : mp) (v : Z) : Prop := exists x, In x m /\ leval env x = v.
Definition Mx (env : denv) (m : mp) (v : Z) : Prop := Wit env m v /\ UB env m v.

Lemma Mx_unique env m v w : Mx env m v -> Mx env m w -> v = w.
Proof. intros [[x [Hx Ex]] U1] [[y [Hy Ey]] U2]. specialize (U1 y Hy). specialize (U2 x Hx). lia. Qed.

Lemma Mx_single env x : Mx env [x] (leval env x).
Proof. split; [exists x; simpl; auto | intros y [<-|[]]; lia]. Qed.
Lemma Mx_single_inv env x v : Mx env [x] v -> v = leval env x.
Proof. intros H. exact (Mx_unique _ _ _ _ H (Mx_single env x)). Qed.
Lemma Mx_mp0 env : Mx env mp0 0.
Proof. unfold mp0. pose proof (Mx_single env lzero) as H. rewrite leval_zero in H. exact H. Qed.

Lemma fold_max_ge l : forall a, a <= fold_left Z.max l a.
Proof. induction l as [|x t IH]; intros a; simpl; [lia | specialize (IH (Z.max a x)); lia]. Qed.
Lemma fold_max_ub l : forall a x, In x l -> x <= fold_left Z.max l a.
Proof.
  induction l as [|y t IH]; intros a x []; simpl.
  - subst. pose proof (fold_max_ge t (Z.max a x)). lia.
  - apply IH; assumption.
Qed.
Lemma fold_max_in l : forall a, fold_left Z.max l a = a \/ In (fold_left Z.max l a) l.
Proof.
  induction l as [|y t IH]; intros a; simpl; [left; reflexivity|].
  destruct (IH (Z.max a y)) as [E|E]; [|right; right; exact E].
  rewrite E. destruct (Z.max_spec a y) as [[_ ->]|[_ ->]]; [right; left; reflexivity | left; reflexivity].
Qed.

Lemma eval_mp_Mx env m : m <> [] -> Mx env m (eval_mp env m).
Proof.
  destruct m as [|x t]; [congruence|]. intros _. unfold eval_mp. split.
  - destruct (fold_max_in (map (leval env) t) (leval env x)) as [E|E].
    + exists x. split; [left; reflexivity | symmetry; exact E].
    + apply in_map_iff in E as [y [Ey Hy]]. exists y. split; [right; exact Hy | exact Ey].
  - intros y [<-|Hy]; [apply fold_max_ge | apply fold_max_ub, in_map; exact Hy].
Qed.
Lemma Mx_eval env m v : Mx env m v -> eval_mp env m = v.
Proof.
  intros H. apply (Mx_unique env m); [|exact H]. apply eval_mp_Mx.
  destruct H as [[x [Hx _]] _]. intros ->. destruct Hx.
Qed.

Lemma mp_le_sound env a b va vb : env_ok env -> mp_le a b = true -> Mx env a va -> Mx env b vb -> va <= vb.
Proof.
  intros E H [[x [Hx Ex]] _] [_ Ub]. unfold mp_le in H. rewrite forallb_forall in H.
  specialize (H x Hx). apply existsb_exists in H as [y [Hy L]].
  apply (lin_le_sound env _ _ E) in L. specialize (Ub y Hy). lia.
Qed.

Lemma mp_is0_sound env a v : env_ok env -> mp_is0 a = true -> Mx env a v -> v = 0.
Proof.
  intros E H M. unfold mp_is0 in H. apply andb_true_iff in H as [H1 H2].
  pose proof (mp_le_sound env _ _ _ _ E H1 M (Mx_mp0 env)).
  pose proof (mp_le_sound env _ _ _ _ E H2 (Mx_mp0 env) M). lia.
Qed.

(* normalisation *)
Lemma mp_insert_in x acc y : In y (mp_insert x acc) -> y = x \/ In y acc.
Proof.
  unfold mp_insert. destruct (existsb _ acc); [auto|]. intros [<-|H]; [auto|].
  apply filter_In in H as [H _]. auto.
Qed.
Lemma mp_norm_in l y : In y (mp_norm l) -> In y l.
Proof.
  induction l as [|x t IH]; simpl; [auto|]. intros H. apply mp_insert_in in H as [->|H]; auto.
Qed.
Lemma mp_insert_wit env x acc v : env_ok env -> UB env (x :: acc) v -> Wit env (x :: acc) v -> Wit env (mp_insert x acc) v.
Proof.
  intros E U [w [Hw Ew]]. unfold mp_insert. destruct (existsb (fun y => lin_le x y) acc) eqn:D.
  - apply existsb_exists in D as [y [Hy L]]. apply (lin_le_sound env _ _ E) in L.
    destruct Hw as [<-|Hw]; [|exists w; auto].
    exists y. split; [exact Hy|]. pose proof (U y (or_intror Hy)). lia.
  - destruct Hw as [<-|Hw]; [exists x; simpl; auto|].
    destruct (lin_le w x) eqn:L.
    + apply (lin_le_sound env _ _ E) in L. exists x. split; [left; reflexivity|].
      pose proof (U x (or_introl eq_refl)). lia.
    + exists w. split; [|exact Ew]. right. apply filter_In. split; [exact Hw | rewrite L; reflexivity].
Qed.
Lemma Mx_norm env l v : env_ok env -> Mx env l v -> Mx env (mp_norm l) v.
Proof.
  intros E [W U]. split; [|intros y Hy; apply U, mp_norm_in, Hy].
  revert W U. induction l as [|x t IH]; intros [w [Hw Ew]] U; [destruct Hw|]. simpl.
  assert (U' : UB env (x :: mp_norm t) v).
  { intros y [<-|Hy]; [apply U; left; reflexivity | apply U; right; apply mp_norm_in, Hy]. }
  apply (mp_insert_wit env _ _ _ E U').
  destruct Hw as [<-|Hw]; [exists x; simpl; auto|].
  destruct (IH (ex_intro _ w (conj Hw Ew)) (fun y Hy => U y (or_intror Hy))) as [z [Hz Ez]].
  exists z. split; [right; exact Hz | exact Ez].
Qed.

Lemma Mx_app env a b va vb : Mx env a va -> Mx env b vb -> Mx env (a ++ b) (Z.max va vb).
Proof.
  intros [[x [Hx Ex]] Ua] [[y [Hy Ey]] Ub]. split.
  - destruct (Z.max_spec va vb) as [[_ ->]|[_ ->]]; [exists y | exists x]; split; auto; apply in_or_app; auto.
  - intros z Hz. apply in_app_or in Hz as [Hz|Hz]; [specialize (Ua z Hz) | specialize (Ub z Hz)]; lia.
Qed.
Lemma Mx_max env a b va vb : env_ok env -> Mx env a va -> Mx env b vb -> Mx env (mp_max a b) (Z.max va vb).
Proof. intros E A B. apply Mx_norm; [exact E | apply Mx_app; assumption]. Qed.

Lemma Mx_add env a b va vb : env_ok env -> Mx env a va -> Mx env b vb -> Mx env (mp_add a b) (va + vb).
Proof.
  intros E [[x [Hx Ex]] Ua] [[y [Hy Ey]] Ub]. apply Mx_norm; [exact E|]. split.
  - exists (ladd x y). split; [|rewrite leval_add; lia].
    apply in_flat_map. exists x. split; [exact Hx | apply in_map; exact Hy].
  - intros z Hz. apply in_flat_map in Hz as [x' [Hx' Hz]]. apply in_map_iff in Hz as [y' [<- Hy']].
    rewrite leval_add. specialize (Ua x' Hx'). specialize (Ub y' Hy'). lia.
Qed.

Lemma Mx_sub1 env a va d : Mx env a va -> Mx env (mp_sub1 a d) (va - leval env d).
Proof.
  intros [[x [Hx Ex]] Ua]. split.
  - exists (lsub x d). split; [exact (in_map (fun y => lsub y d) a x Hx) | rewrite leval_sub; lia].
  - intros z Hz. apply in_map_iff in Hz as [x' [<- Hx']]. rewrite leval_sub. specialize (Ua x' Hx'). lia.
Qed.

Lemma Mx_concat env : forall ms vs m0 v0, Mx env m0 v0 -> Forall2 (Mx env) ms vs ->
  Mx env (concat (m0 :: ms)) (fold_left Z.max vs v0).
Proof.
  induction ms as [|m1 ms IH]; intros vs m0 v0 H0 F; inversion F; subst; simpl.
  - rewrite app_nil_r. exact H0.
  - match goal with H : Mx env m1 ?y |- _ => pose proof (Mx_app env _ _ _ _ H0 H) as H1 end.
    match goal with H : Forall2 _ ms _ |- _ => specialize (IH _ _ _ H1 H) end.
    simpl in IH. rewrite <- app_assoc in IH. exact IH.
Qed.

(* ------------------------------------------------------------------ generic list facts *)
Lemma Forall2_nth_rel {A B} (R : A -> B -> Prop) l l' da db : Forall2 R l l' -> R da db -> forall i, R (nth i l da) (nth i l' db).
Proof. intros H D. induction H; intros [|i]; simpl; auto. Qed.

Lemma all_some_Forall2 {A} (l : list (option A)) : forall r, all_some l = Some r -> Forall2 (fun o x => o = Some x) l r.
Proof.
  induction l as [|[a|] t IH]; simpl; intros r H; try discriminate.
  - inversion H; constructor.
  - destruct (all_some t) eqn:Et; [|discriminate]. inversion H; subst. constructor; auto.
Qed.

Lemma Forall2_concat {A B} (R : A -> B -> Prop) ls ls' : Forall2 (Forall2 R) ls ls' -> Forall2 R (concat ls) (concat ls').
Proof. induction 1; simpl; [constructor | apply Forall2_app; assumption]. Qed.

Lemma zmin_zeros l : (forall x, In x l -> x = 0) -> zmin_list 0 l = 0.
Proof.
  destruct l as [|x t]; simpl; [reflexivity|]. intros H.
  assert (G : forall t a, a = 0 -> (forall y, In y t -> y = 0) -> fold_left Z.min t a = 0).
  { clear. induction t as [|y t IH]; intros a Ha Ht; simpl; [exact Ha|].
    apply IH; [rewrite Ha, (Ht y (or_introl eq_refl)); reflexivity | intros z Hz; apply Ht; right; exact Hz]. }
  apply G; [apply H; left; reflexivity | intros y Hy; apply H; right; exact Hy].
Qed.

Lemma multi_ref_from_max tm ps : forall best,
  snd (nth (multi_ref_from tm ps best) tm (0, 0))
  = fold_left Z.max (map (fun p => snd (nth p tm (0, 0))) ps) (snd (nth best tm (0, 0))).
Proof.
  induction ps as [|p t IH]; intros best; simpl; [reflexivity|].
  destruct (snd (nth p tm (0, 0)) >? snd (nth best tm (0, 0))) eqn:G; rewrite IH; f_equal; lia.
Qed.

(* ------------------------------------------------------------------ soundness of the symbolic scheduler, one setting *)
Section Sound.
  Variable env : denv.
  Hypothesis E : env_ok env.

  Definition Rel2 (sm : mp * mp) (cm : Z * Z) : Prop := Mx env (fst sm) (fst cm) /\ Mx env (snd sm) (snd cm).
  Definition TM (stm : stimes_t) (tm : list (Z * Z)) : Prop := Forall2 Rel2 stm tm.
  Lemma Rel2_dflt : Rel2 sdflt (0, 0).
  Proof. split; apply Mx_mp0. Qed.
  Lemma TM_nth stm tm p : TM stm tm -> Rel2 (nth p stm sdflt) (nth p tm (0, 0)).
  Proof. intros H. apply Forall2_nth_rel; [exact H | exact Rel2_dflt]. Qed.

  (* a symbolic context describes a concrete one: same relation type, and the instant that type consults *)
  Definition CTX (sc : sctx) (c : ctx) : Prop :=
    match sc, c with
    | None, None => True
    | Some (t, a), Some (t', rs, re) => t = t' /\ Mx env a (match t with RelationType_JOINED_START => rs | _ => re end)
    | _, _ => False
    end.

  Lemma sstart_from_sound t a d s rs re dv :
    sstart_from t a d = Some s -> Mx env a (match t with RelationType_JOINED_START => rs | _ => re end) -> Mx env d dv ->
    Mx env s (start_from t rs re dv).
  Proof.
    destruct t; simpl; intros H A D.
    - inversion H; subst; exact A.
    - inversion H; subst; exact A.
    - destruct d as [|x [|? ?]]; try discriminate. inversion H; subst.
      apply Mx_single_inv in D. subst dv. apply Mx_sub1. exact A.
  Qed.

  Lemma anchor_sound t sm rs re : Rel2 sm (rs, re) ->
    Mx env (anchor t sm) (match t with RelationType_JOINED_START => rs | _ => re end).
  Proof. intros [A B]. destruct t; simpl in *; assumption. Qed.

  Lemma sctx_start_sound sc c d s dv : CTX sc c -> sctx_start sc d = Some s -> Mx env d dv -> Mx env s (ctx_start c dv).
  Proof.
    destruct sc as [[t a]|], c as [[[t' rs] re]|]; simpl; try contradiction.
    - intros [<- A] H D. eapply sstart_from_sound; eauto.
    - intros _ H D. inversion H; subst. apply Mx_mp0.
  Qed.

  Lemma smulti_end_sound stm tm p ps : TM stm tm ->
    Mx env (smulti_end stm (p :: ps)) (snd (nth (multi_ref_from tm ps p) tm (0, 0))).
  Proof.
    intros T. rewrite multi_ref_from_max. unfold smulti_end, mp_maxs. apply Mx_norm; [exact E|].
    rewrite map_cons. apply Mx_concat.
    - apply (TM_nth _ _ p T).
    - induction ps as [|q ps IH]; simpl; constructor; [apply (TM_nth _ _ q T) | exact IH].
  Qed.

  Lemma slink_start_sound sc c stm tm l d s dv : CTX sc c -> TM stm tm -> slink_start sc stm l d = Some s -> Mx env d dv ->
    Mx env s (link_start c tm l dv).
  Proof.
    intros C T H D. destruct l as [|t p|ps|t]; simpl in H |- *.
    - eapply sctx_start_sound; eauto.
    - pose proof (TM_nth _ _ p T) as R. destruct (nth p tm (0, 0)) as [rs re] eqn:En.
      eapply sstart_from_sound; [exact H | apply anchor_sound; exact R | exact D].
    - destruct ps as [|p ps].
      + eapply sctx_start_sound; eauto.
      + inversion H; subst. apply smulti_end_sound; assumption.
    - eapply sctx_start_sound; eauto.
  Qed.

  Definition HS (sh : link * mp) (h : link * Z) : Prop := fst sh = fst h /\ Mx env (snd sh) (snd h).

  Lemma stimes_acc_sound sc c : CTX sc c -> forall shs hs, Forall2 HS shs hs -> forall sacc acc r, TM sacc acc ->
    stimes_acc sc shs sacc = Some r -> TM r (times_acc c hs acc).
  Proof.
    intros C shs hs F. induction F as [|[l sd] [l' d] shs hs [L D] F IH]; intros sacc acc r T H; simpl in *.
    - inversion H; subst; exact T.
    - subst l'. destruct (slink_start sc sacc l sd) as [s|] eqn:S; [|discriminate].
      pose proof (slink_start_sound _ _ _ _ _ _ _ _ C T S D) as Ms.
      eapply IH; [|exact H]. apply Forall2_app; [exact T|]. constructor; [|constructor].
      split; simpl; [exact Ms | apply Mx_add; assumption].
  Qed.

  Lemma stimes_sound sc c shs hs r : CTX sc c -> Forall2 HS shs hs -> stimes sc shs = Some r -> TM r (times c hs).
  Proof. intros C F H. apply (stimes_acc_sound sc c C shs hs F [] [] r); [constructor | exact H]. Qed.

  (* ---------------------------------------------------------------- extents *)
  Definition EXT1 (e : mp) (c : Z * Z) : Prop := fst c = 0 /\ Mx env e (snd c).

  Lemma sextent_sound ps stm tm exts cexts hi : TM stm tm -> Forall2 EXT1 exts cexts ->
    sextent ps stm exts = Some hi -> exists v, extent_of_nodes ps tm cexts = (0, v) /\ Mx env hi v.
  Proof.
    intros T X H. destruct ps as [|p0 ps'].
    { simpl in *. inversion H; subst. exists 0. split; [reflexivity | apply Mx_mp0]. }
    unfold sextent in H. set (ps := p0 :: ps') in *.
    destruct (forallb (fun i => mp_is0 (fst (nth i stm sdflt))) (depth1 ps)
              && forallb (fun i => mp_le mp0 (fst (nth i stm sdflt))) (bfs ps)) eqn:C; [|discriminate].
    apply andb_true_iff in C as [C1 C2]. rewrite forallb_forall in C1, C2. inversion H; subst hi; clear H.
    assert (Z0 : zmin_list 0 (map (fun i => fst (nth i tm (0, 0))) (depth1 ps)) = 0).
    { apply zmin_zeros. intros x Hx. apply in_map_iff in Hx as [i [<- Hi]].
      apply (mp_is0_sound env _ _ E (C1 i Hi)). apply (TM_nth _ _ i T). }
    assert (NN : forall i, In i (bfs ps) -> 0 <= fst (nth i tm (0, 0))).
    { intros i Hi. apply (mp_le_sound env _ _ _ _ E (C2 i Hi) (Mx_mp0 env)). apply (TM_nth _ _ i T). }
    unfold extent_of_nodes. fold ps. cbv zeta. rewrite Z0.
    clear C1 C2 Z0. revert NN. generalize (bfs ps) as l. intros l.
    assert (G : forall sacc hacc, Mx env sacc hacc -> (forall i, In i l -> 0 <= fst (nth i tm (0, 0))) ->
              exists v,
                fold_left (fun (acc : Z * Z) (i : nat) =>
                             let '(lo, hi) := nth i cexts (0, 0) in
                             (Z.min (fst acc) (fst (nth i tm (0, 0)) - 0 + lo), Z.max (snd acc) (fst (nth i tm (0, 0)) - 0 + hi)))
                          l (0, hacc) = (0, v)
                /\ Mx env (fold_left (fun acc i => mp_max acc (mp_add (fst (nth i stm sdflt)) (nth i exts mp0))) l sacc) v).
    { induction l as [|i l IH]; intros sacc hacc A NN; simpl.
      - exists hacc. split; [reflexivity | exact A].
      - pose proof (Forall2_nth_rel EXT1 exts cexts mp0 (0, 0) X (conj eq_refl (Mx_mp0 env)) i) as [L0 Mi].
        destruct (nth i cexts (0, 0)) as [lo hi]. simpl in L0, Mi. subst lo.
        pose proof (NN i (or_introl eq_refl)) as Si. pose proof (TM_nth _ _ i T) as [Ms _].
        replace (Z.min 0 (fst (nth i tm (0, 0)) - 0 + 0)) with 0 by lia.
        apply IH; [|intros j Hj; apply NN; right; exact Hj].
        apply Mx_max; [exact E | exact A|]. rewrite Z.sub_0_r. apply Mx_add; assumption. }
    intros NN. apply (G mp0 0 (Mx_mp0 env) NN).
  Qed.

  Lemma sext_of_unfold r ns : sext_of (OComp r ns) =
    match all_some (map (fun n => sext_of (n_op n)) ns) with
    | None => None
    | Some exts => match stimes None (combine (map n_link ns) exts) with
                   | None => None
                   | Some tm => sextent (parents ns) tm exts
                   end
    end.
  Proof.
    simpl.
    assert (G : forall l, (fix go (l : list node) : list (option mp) :=
                 match l with [] => [] | Node _ _ o' :: t => sext_of o' :: go t end) l
              = map (fun n => sext_of (n_op n)) l).
    { induction l as [|[p lk o'] t IH]; simpl; [reflexivity|]. f_equal. exact IH. }
    rewrite G. reflexivity.
  Qed.

  Definition EXT (o : op) : Prop := forall hi, sext_of o = Some hi -> exists v, ext_of env o = (0, v) /\ Mx env hi v.

  Lemma ext_children ns : Forall (fun n => EXT (n_op n)) ns -> forall exts,
    all_some (map (fun n => sext_of (n_op n)) ns) = Some exts ->
    Forall2 EXT1 exts (map (fun n => ext_of env (n_op n)) ns).
  Proof.
    induction 1 as [|n ns Hn _ IH]; intros exts H; simpl in H.
    - inversion H; constructor.
    - destruct (sext_of (n_op n)) as [e|] eqn:En; [|discriminate].
      destruct (all_some (map (fun n => sext_of (n_op n)) ns)) as [es|] eqn:Es; [|discriminate].
      inversion H; subst. simpl. constructor; [|apply IH; reflexivity].
      destruct (Hn e En) as [v [Ev Mv]]. rewrite Ev. split; [reflexivity | exact Mv].
  Qed.

  Lemma hs_children ns : forall exts, Forall2 EXT1 exts (map (fun n => ext_of env (n_op n)) ns) ->
    Forall2 HS (combine (map n_link ns) exts) (combine (map n_link ns) (map (fun n => dur_of env (n_op n)) ns)).
  Proof.
    induction ns as [|n ns IH]; intros exts H; simpl in *; inversion H; subst; [constructor|].
    simpl. constructor; [|apply IH; assumption].
    match goal with H : EXT1 _ _ |- _ => destruct H as [L M] end.
    split; [reflexivity|]. simpl. unfold dur_of. destruct (ext_of env (n_op n)) as [lo hi]. simpl in *. subst lo.
    rewrite Z.sub_0_r. exact M.
  Qed.

  Theorem sext_of_sound o : EXT o.
  Proof.
    induction o as [l | r ns IH] using op_nodes_ind; intros hi H.
    - simpl in H. destruct (sdur (l_dur l)) as [x|] eqn:D; [|discriminate]. inversion H; subst.
      exists (resolve env (l_dur l)). split; [reflexivity|]. rewrite <- (sdur_sound env _ _ D). apply Mx_single.
    - rewrite sext_of_unfold in H.
      destruct (all_some (map (fun n => sext_of (n_op n)) ns)) as [exts|] eqn:A; [|discriminate].
      destruct (stimes None (combine (map n_link ns) exts)) as [stm|] eqn:S; [|discriminate].
      pose proof (ext_children ns IH exts A) as X.
      pose proof (stimes_sound None None _ _ _ I (hs_children ns exts X) S) as T.
      rewrite ext_of_unfold. unfold node_times. eapply sextent_sound; eauto.
  Qed.

  Corollary sdur_of_sound o d : sext_of o = Some d -> Mx env d (dur_of env o).
  Proof.
    intros H. destruct (sext_of_sound o d H) as [v [Ev Mv]]. unfold dur_of. rewrite Ev. rewrite Z.sub_0_r. exact Mv.
  Qed.

  Lemma snode_times_sound sc c ns stm : CTX sc c -> snode_times sc ns = Some stm -> TM stm (node_times env c ns).
  Proof.
    intros C H. unfold snode_times in H.
    destruct (all_some (map (fun n => sext_of (n_op n)) ns)) as [ds|] eqn:A; [|discriminate].
    unfold node_times. eapply stimes_sound; [exact C | | exact H].
    apply hs_children. apply ext_children; [|exact A].
    apply Forall_forall. intros n _. apply sext_of_sound.
  Qed.

  (* ---------------------------------------------------------------- listing *)
  Definition ER (se : sentry) (e : entry) : Prop :=
    e_leaf e = se_leaf se /\ Mx env (se_start se) (e_start e) /\ Mx env (se_end se) (e_end e).

  Lemma ssub_ctx_sound sc c stm tm l : CTX sc c -> TM stm tm -> CTX (ssub_ctx sc stm l) (sub_ctx c tm l).
  Proof.
    intros C T. destruct l as [|t p|ps|t]; simpl; try exact C.
    - pose proof (TM_nth _ _ p T) as R. destruct (nth p tm (0, 0)) as [rs re]. simpl.
      split; [reflexivity | apply anchor_sound; exact R].
    - destruct ps as [|p ps]; [exact C|]. simpl.
      pose proof (smulti_end_sound stm tm p ps T) as M.
      destruct (nth (multi_ref_from tm ps p) tm (0, 0)) as [rs re]. simpl in *. split; [reflexivity | exact M].
  Qed.

  Lemma slisting_op_unfold r ns sc sse :
    slisting_op (OComp r ns) sc sse =
    match snode_times sc ns with
    | None => None
    | Some tm =>
        option_map (@concat sentry)
          (all_some (map (fun i => nth i (map (fun n => slisting_op (n_op n)) ns) (fun _ _ => Some [])
                                     (ssub_ctx sc tm (nth i (map n_link ns) LNone)) (nth i tm sdflt))
                         (bfs (parents ns))))
    end.
  Proof.
    simpl.
    assert (G : forall l, (fix go (l : list node) : list (sctx -> mp * mp -> option (list sentry)) :=
                 match l with [] => [] | Node _ _ o' :: t => slisting_op o' :: go t end) l
              = map (fun n => slisting_op (n_op n)) l).
    { induction l as [|[p lk o'] t IH]; simpl; [reflexivity|]. f_equal. exact IH. }
    rewrite G. reflexivity.
  Qed.

  Theorem slisting_op_sound o : forall sc c sse cse sl, CTX sc c -> Rel2 sse cse ->
    slisting_op o sc sse = Some sl -> Forall2 ER sl (listing_op env o c cse).
  Proof.
    induction o as [l | r ns IH] using op_nodes_ind; intros sc c sse cse sl C R H.
    - simpl in *. inversion H; subst. destruct R as [R1 R2]. constructor; [|constructor]. unfold ER; simpl. split; [reflexivity | split; assumption].
    - rewrite slisting_op_unfold in H. destruct (snode_times sc ns) as [stm|] eqn:S; [|discriminate].
      pose proof (snode_times_sound _ _ _ _ C S) as T.
      destruct (all_some _) as [parts|] eqn:A in H; [|discriminate]. simpl in H. inversion H; subst sl; clear H.
      rewrite listing_op_unfold, flat_map_concat_map. apply Forall2_concat.
      apply all_some_Forall2 in A. revert parts A. generalize (bfs (parents ns)) as l.
      induction l as [|i l IHl]; intros parts A; simpl in *; inversion A; subst; constructor; [|apply IHl; assumption].
      match goal with H : _ = Some ?y |- Forall2 ER ?y _ => rename H into Hi end.
      destruct (nth_error ns i) as [n|] eqn:En.
      + assert (Li : (i < length ns)%nat) by (apply nth_error_Some; congruence).
        rewrite (nth_indep _ (fun _ _ => Some []) (slisting_op (n_op n))) in Hi by (rewrite map_length; exact Li).
        rewrite (map_nth (fun n => slisting_op (n_op n)) ns n i) in Hi.
        rewrite (nth_indep _ (fun _ _ => []) (listing_op env (n_op n))) by (rewrite map_length; exact Li).
        rewrite (map_nth (fun n => listing_op env (n_op n)) ns n i).
        rewrite (nth_error_nth _ _ n En) in Hi |- *.
        rewrite Forall_forall in IH. apply nth_error_In in En.
        eapply (IH n En); [| |exact Hi]; [apply ssub_ctx_sound; assumption | apply TM_nth; exact T].
      + apply nth_error_None in En.
        rewrite (nth_overflow (map _ ns)) in Hi by (rewrite map_length; exact En).
        rewrite (nth_overflow (map _ ns)) by (rewrite map_length; exact En).
        inversion Hi; constructor.
  Qed.

  Theorem slisting_sound ns sl : slisting ns = Some sl -> Forall2 ER sl (listing env ns).
  Proof. intros H. exact (slisting_op_sound (OComp 1 ns) None None sdflt (0, 0) sl I Rel2_dflt H). Qed.

  Theorem sduration_sound ns d : sduration ns = Some d -> Mx env d (comp_duration env ns).
  Proof. intros H. apply sdur_of_sound. exact H. Qed.
End Sound.

(* ------------------------------------------------------------------ the symbolic listing evaluates to the model's listing *)
Theorem symbolic_listing_sound ns sl env : env_ok env -> slisting ns = Some sl -> listing env ns = map (seval env) sl.
Proof.
  intros E H. pose proof (slisting_sound env E ns sl H) as F. clear H.
  revert F. generalize (listing env ns) as es. intros es F.
  induction F as [|se e sl es [L [S T]] F IH]; simpl; [reflexivity|]. rewrite IH. f_equal.
  destruct e as [lf s t]. unfold seval. simpl in *. subst lf.
  rewrite (Mx_eval env _ _ S), (Mx_eval env _ _ T). reflexivity.
Qed.

Theorem symbolic_duration_sound ns d env : env_ok env -> sduration ns = Some d -> comp_duration env ns = eval_mp env d.
Proof. intros E H. symmetry. apply Mx_eval. apply sduration_sound; assumption. Qed.

(* ------------------------------------------------------------------ the certificate *)
Lemma forallb_impl {A} (f g : A -> bool) l : (forall x, In x l -> f x = true -> g x = true) -> forallb f l = true -> forallb g l = true.
Proof. intros H F. rewrite forallb_forall in *. intros x Hx. apply H; auto. Qed.

Lemma chan_overlap_entry env a b :
  chan_overlap (entry_to_o env a) (entry_to_o env b) = leaf_chan_match (e_leaf a) (e_leaf b).
Proof. reflexivity. Qed.

Fixpoint all_pairs (q : oentry -> oentry -> bool) (l : list oentry) : bool :=
  match l with [] => true | a :: t => forallb (q a) t && all_pairs q t end.
Definition q_strict (a b : oentry) : bool := negb (chan_overlap a b && time_overlap a b).
Definition q_overlap (a b : oentry) : bool := negb (positive a && positive b && chan_overlap a b && time_overlap a b).
Definition q_barrier (a b : oentry) : bool := negb ((is_barrier a || is_barrier b) && chan_overlap a b && time_overlap a b).
Lemma no_overlap_strict_pairs l : no_overlap_strict l = all_pairs q_strict l.
Proof. induction l as [|a t IH]; simpl; [reflexivity | rewrite IH; reflexivity]. Qed.
Lemma no_overlap_pairs l : no_overlap l = all_pairs q_overlap l.
Proof. induction l as [|a t IH]; simpl; [reflexivity | rewrite IH; reflexivity]. Qed.
Lemma barrier_clear_pairs l : barrier_clear l = all_pairs q_barrier l.
Proof. induction l as [|a t IH]; simpl; [reflexivity | rewrite IH; reflexivity]. Qed.

Lemma cert_pairs_sound env pk q sl es :
  (forall sa a sb b, ER env sa a -> ER env sb b -> pk sa sb = true -> q (entry_to_o env a) (entry_to_o env b) = true) ->
  Forall2 (ER env) sl es -> cert_list_with pk sl = true -> all_pairs q (map (entry_to_o env) es) = true.
Proof.
  intros Q F. induction F as [|sa a sl es Ra F IH]; intros H; simpl in *; [reflexivity|].
  apply andb_true_iff in H as [H1 H2]. rewrite (IH H2), andb_true_r.
  clear IH H2. induction F as [|sb b sl es Rb F IH]; simpl in *; [reflexivity|].
  apply andb_true_iff in H1 as [P H1]. rewrite (IH H1), andb_true_r. exact (Q _ _ _ _ Ra Rb P).
Qed.

Lemma pair_ok_strict_sound env sa a sb b : env_ok env -> ER env sa a -> ER env sb b -> pair_ok_strict sa sb = true ->
  q_strict (entry_to_o env a) (entry_to_o env b) = true.
Proof.
  intros E [La [Sa Ta]] [Lb [Sb Tb]] H. unfold q_strict. rewrite chan_overlap_entry, La, Lb. unfold pair_ok_strict in H.
  destruct (leaf_chan_match (se_leaf sa) (se_leaf sb)); [|reflexivity]. simpl in H.
  unfold time_overlap, entry_to_o; cbn [oe_s oe_e].
  destruct (mp_le (se_end sa) (se_start sb)) eqn:H1.
  { pose proof (mp_le_sound env _ _ _ _ E H1 Ta Sb). lia. }
  destruct (mp_le (se_end sb) (se_start sa)) eqn:H2.
  { pose proof (mp_le_sound env _ _ _ _ E H2 Tb Sa). lia. }
  simpl in H. unfold snonpos in H. apply andb_true_iff in H as [H3 H4].
  pose proof (mp_le_sound env _ _ _ _ E H3 Ta Sa). pose proof (mp_le_sound env _ _ _ _ E H4 Tb Sb). lia.
Qed.

Lemma snonpos_sound env sa a : env_ok env -> ER env sa a -> snonpos sa = true -> positive (entry_to_o env a) = false.
Proof.
  intros E [_ [Sa Ta]] H. unfold snonpos in H. pose proof (mp_le_sound env _ _ _ _ E H Ta Sa).
  unfold positive, entry_to_o; cbn [oe_s oe_e]. lia.
Qed.
Lemma sis_barrier_sound env sa a : ER env sa a -> is_barrier (entry_to_o env a) = sis_barrier sa.
Proof. intros [La _]. unfold is_barrier, sis_barrier, entry_to_o; cbn [oe_cls]. rewrite La. reflexivity. Qed.

Lemma pair_ok_overlap env sa a sb b : env_ok env -> ER env sa a -> ER env sb b -> pair_ok sa sb = true ->
  q_overlap (entry_to_o env a) (entry_to_o env b) = true.
Proof.
  intros E Ra Rb H. unfold pair_ok in H. apply orb_true_iff in H as [H|H].
  - pose proof (pair_ok_strict_sound env _ _ _ _ E Ra Rb H) as Q. unfold q_strict in Q. unfold q_overlap.
    destruct (chan_overlap _ _), (time_overlap _ _); simpl in *; try discriminate; rewrite ?andb_false_r; reflexivity.
  - apply andb_true_iff in H as [H _]. apply andb_true_iff in H as [H _]. unfold q_overlap.
    apply orb_true_iff in H as [H|H];
      [rewrite (snonpos_sound env _ _ E Ra H) | rewrite (snonpos_sound env _ _ E Rb H)]; rewrite ?andb_false_r; reflexivity.
Qed.
Lemma pair_ok_barrier env sa a sb b : env_ok env -> ER env sa a -> ER env sb b -> pair_ok sa sb = true ->
  q_barrier (entry_to_o env a) (entry_to_o env b) = true.
Proof.
  intros E Ra Rb H. unfold pair_ok in H. apply orb_true_iff in H as [H|H].
  - pose proof (pair_ok_strict_sound env _ _ _ _ E Ra Rb H) as Q. unfold q_strict in Q. unfold q_barrier.
    destruct (chan_overlap _ _), (time_overlap _ _); simpl in *; try discriminate; rewrite ?andb_false_r; reflexivity.
  - apply andb_true_iff in H as [H B2]. apply andb_true_iff in H as [_ B1]. unfold q_barrier.
    rewrite (sis_barrier_sound env _ _ Ra), (sis_barrier_sound env _ _ Rb).
    apply negb_true_iff in B1, B2. rewrite B1, B2. reflexivity.
Qed.

(* unbounded in the setting: one evaluation of a certificate covers every admissible setting *)
Theorem certified_strict ns : cert_strict ns = true -> forall env, env_ok env ->
  no_overlap_strict (o_ops (model_obs env ns)) = true.
Proof.
  unfold cert_strict, cert_with. destruct (slisting ns) as [sl|] eqn:S; [|discriminate]. intros C env E.
  change (o_ops (model_obs env ns)) with (map (entry_to_o env) (listing env ns)). rewrite no_overlap_strict_pairs.
  apply (cert_pairs_sound env pair_ok_strict q_strict sl);
    [intros; eapply pair_ok_strict_sound; eauto | apply slisting_sound; assumption | exact C].
Qed.

Theorem certified_ok ns : cert_no_overlap ns = true -> forall env, env_ok env ->
  no_overlap (o_ops (model_obs env ns)) = true /\ barrier_clear (o_ops (model_obs env ns)) = true.
Proof.
  unfold cert_no_overlap, cert_with. destruct (slisting ns) as [sl|] eqn:S; [|discriminate]. intros C env E.
  change (o_ops (model_obs env ns)) with (map (entry_to_o env) (listing env ns)).
  rewrite no_overlap_pairs, barrier_clear_pairs. pose proof (slisting_sound env E ns sl S) as F. split.
  - apply (cert_pairs_sound env pair_ok q_overlap sl); [intros; eapply pair_ok_overlap; eauto | exact F | exact C].
  - apply (cert_pairs_sound env pair_ok q_barrier sl); [intros; eapply pair_ok_barrier; eauto | exact F | exact C].
Qed.

(* the strict certificate implies the exact one *)
Lemma cert_strict_implies ns : cert_strict ns = true -> cert_no_overlap ns = true.
Proof.
  unfold cert_strict, cert_no_overlap, cert_with. destruct (slisting ns) as [sl|]; [|auto].
  induction sl as [|a t IH]; simpl; [auto|]. intros H. apply andb_true_iff in H as [H1 H2]. rewrite (IH H2), andb_true_r.
  revert H1. apply forallb_impl. intros b _ H. unfold pair_ok. rewrite H. reflexivity.
Qed.

(* ------------------------------------------------------------------ unrolling does not look at the setting *)
Lemma copy_op_env e1 e2 o : copy_op e1 o = copy_op e2 o.
Proof.
  induction o as [l | r ns IH] using op_nodes_ind; simpl; [reflexivity|]. f_equal.
  change (rebuild e1 ns) with (rebuild e2 ns). f_equal.
  induction IH as [|[p lk o'] t Hn _ IHt]; simpl; [reflexivity|]. simpl in Hn. rewrite Hn, IHt. reflexivity.
Qed.
Lemma copy_nodes_env e1 e2 ns : copy_nodes e1 ns = copy_nodes e2 ns.
Proof. unfold copy_nodes. rewrite (copy_op_env e1 e2). reflexivity. Qed.
Lemma repeat_nodes_env e1 e2 ns k : repeat_nodes e1 ns k = repeat_nodes e2 ns k.
Proof. unfold repeat_nodes. rewrite !(copy_nodes_env e1 e2). reflexivity. Qed.
Lemma apply_mods_fuel_env e1 e2 fuel : forall reps ns, apply_mods_fuel fuel e1 reps ns = apply_mods_fuel fuel e2 reps ns.
Proof.
  induction fuel as [|f IH]; intros reps ns; simpl; [reflexivity|].
  rewrite (repeat_nodes_env e1 e2). apply map_ext. intros [p l [lf|r sub]]; [reflexivity|]. rewrite IH. reflexivity.
Qed.
Theorem apply_modifiers_env_indep e1 e2 reps ns : apply_modifiers e1 reps ns = apply_modifiers e2 reps ns.
Proof. unfold apply_modifiers. apply apply_mods_fuel_env. Qed.

(* ------------------------------------------------------------------ headline statements *)
Theorem certified ns : cert_no_overlap ns = true -> forall env, env_nonneg env -> env_parity env ->
  no_overlap (o_ops (model_obs env ns)) = true /\ barrier_clear (o_ops (model_obs env ns)) = true.
Proof. intros C env N P. exact (certified_ok ns C env (env_ok_of env N P)). Qed.

Theorem certified_strict' ns : cert_strict ns = true -> forall env, env_nonneg env -> env_parity env ->
  no_overlap_strict (o_ops (model_obs env ns)) = true.
Proof. intros C env N P. exact (certified_strict ns C env (env_ok_of env N P)). Qed.

Theorem certified_unrolled ns env0 : cert_no_overlap (apply_modifiers env0 1 ns) = true ->
  forall env, env_nonneg env -> env_parity env ->
  no_overlap (o_ops (model_obs env (apply_modifiers env 1 ns))) = true
  /\ barrier_clear (o_ops (model_obs env (apply_modifiers env 1 ns))) = true.
Proof. intros C env N P. rewrite (apply_modifiers_env_indep env env0). apply certified; assumption. Qed.

(* a case that passes the tie: its structure is overlap-free under EVERY admissible setting, as constructed and unrolled *)
Theorem agree_all_settings c : agree c = true -> forall env, env_nonneg env -> env_parity env ->
  let ns := lc_nodes (lib_of c) in
  no_overlap (o_ops (model_obs env ns)) = true /\ barrier_clear (o_ops (model_obs env ns)) = true
  /\ no_overlap (o_ops (model_obs env (apply_modifiers env 1 ns))) = true
  /\ barrier_clear (o_ops (model_obs env (apply_modifiers env 1 ns))) = true.
Proof.
  intros A env N P ns. unfold agree in A. apply andb_true_iff in A as [A C2]. apply andb_true_iff in A as [_ C1].
  destruct (certified ns C1 env N P) as [X1 X2].
  destruct (certified_unrolled ns (lc_env (lib_of c)) C2 env N P) as [X3 X4]. auto.
Qed.

(* ------------------------------------------------------------------ the tie implies the judge (under the sampled setting) *)
Definition sim (a b : oentry) : Prop :=
  oe_cls a = oe_cls b /\ oe_chans a = oe_chans b /\ oe_s a = oe_s b /\ oe_e a = oe_e b.

Lemma chid_exact_eqb_eq x y : chid_exact_eqb x y = true -> x = y.
Proof.
  destruct x as [i c], y as [j d]. unfold chid_exact_eqb; simpl. intros H. apply andb_true_iff in H as [H1 H2].
  apply Z.eqb_eq in H1. subst j. destruct c, d; simpl in H2; try discriminate; reflexivity.
Qed.
Lemma chans_eqb_eq a b : chans_eqb a b = true -> a = b.
Proof.
  unfold chans_eqb. revert b. induction a as [|x t IH]; intros [|y u]; simpl; try discriminate; [reflexivity|].
  intros H. apply andb_true_iff in H as [H1 H2]. apply chid_exact_eqb_eq in H1. apply IH in H2. congruence.
Qed.
Lemma oentry_eqb_sim a b : oentry_eqb a b = true -> sim a b.
Proof.
  unfold oentry_eqb, sim. intros H. repeat (apply andb_true_iff in H as [H ?]).
  repeat split; try (apply Z.eqb_eq; assumption). apply chans_eqb_eq; assumption.
Qed.
Lemma list_eqb_sim l l' : list_eqb oentry_eqb l l' = true -> Forall2 sim l l'.
Proof.
  revert l'. induction l as [|a t IH]; intros [|b u]; simpl; try discriminate; [constructor|].
  intros H. apply andb_true_iff in H as [H1 H2]. constructor; [apply oentry_eqb_sim; exact H1 | apply IH; exact H2].
Qed.

Lemma sim_pair a a' b b' : sim a a' -> sim b b' ->
  chan_overlap a b = chan_overlap a' b' /\ time_overlap a b = time_overlap a' b'
  /\ positive a = positive a' /\ positive b = positive b' /\ is_barrier a = is_barrier a' /\ is_barrier b = is_barrier b'.
Proof.
  intros (A1 & A2 & A3 & A4) (B1 & B2 & B3 & B4).
  unfold chan_overlap, time_overlap, positive, is_barrier. rewrite A1, A2, A3, A4, B1, B2, B3, B4. repeat split.
Qed.

Lemma sim_no_overlap l l' : Forall2 sim l l' -> no_overlap l = true -> no_overlap l' = true.
Proof.
  intros F. induction F as [|a a' t t' Sa F IH]; simpl; [auto|]. intros H. apply andb_true_iff in H as [H1 H2].
  rewrite (IH H2), andb_true_r. clear IH H2. induction F as [|b b' t t' Sb F IH]; simpl in *; [reflexivity|].
  apply andb_true_iff in H1 as [P H1]. rewrite (IH H1), andb_true_r.
  destruct (sim_pair _ _ _ _ Sa Sb) as (E1 & E2 & E3 & E4 & _). rewrite <- E1, <- E2, <- E3, <- E4. exact P.
Qed.
Lemma sim_barrier_clear l l' : Forall2 sim l l' -> barrier_clear l = true -> barrier_clear l' = true.
Proof.
  intros F. induction F as [|a a' t t' Sa F IH]; simpl; [auto|]. intros H. apply andb_true_iff in H as [H1 H2].
  rewrite (IH H2), andb_true_r. clear IH H2. induction F as [|b b' t t' Sb F IH]; simpl in *; [reflexivity|].
  apply andb_true_iff in H1 as [P H1]. rewrite (IH H1), andb_true_r.
  destruct (sim_pair _ _ _ _ Sa Sb) as (E1 & E2 & _ & _ & E5 & E6). rewrite <- E1, <- E2, <- E5, <- E6. exact P.
Qed.

Lemma lobs_agree_transfer m o : lobs_agree m o = true ->
  no_overlap (o_ops m) = true -> barrier_clear (o_ops m) = true ->
  match o with Some x => no_overlap (lo_ops x) = true /\ barrier_clear (lo_ops x) = true | None => True end.
Proof.
  destruct o as [x|]; [|auto]. simpl. intros H N B. apply andb_true_iff in H as [H _]. apply list_eqb_sim in H.
  split; [exact (sim_no_overlap _ _ H N) | exact (sim_barrier_clear _ _ H B)].
Qed.

Theorem agree_implies_spec c : agree c = true -> env_nonneg (lc_env (lib_of c)) -> env_parity (lc_env (lib_of c)) ->
  spec_ok c = true.
Proof.
  intros A N P. destruct (agree_all_settings c A _ N P) as (X1 & X2 & X3 & X4).
  unfold agree in A. apply andb_true_iff in A as [A _]. apply andb_true_iff in A as [A _].
  unfold agree_lib in A. apply andb_true_iff in A as [A _]. apply andb_true_iff in A as [A1 A2].
  pose proof (lobs_agree_transfer _ _ A1 X1 X2) as T1. pose proof (lobs_agree_transfer _ _ A2 X3 X4) as T2.
  unfold spec_ok, lib_no_overlap_ok, lib_barrier_clear.
  destruct (lc_plain (lib_of c)) as [p|], (lc_unrolled (lib_of c)) as [u|]; simpl in *;
    repeat match goal with H : _ /\ _ |- _ => destruct H end;
    repeat match goal with H : _ = true |- _ => rewrite H end; reflexivity.
Qed.

(* ------------------------------------------------------------------ statements in terms of the setting only *)
Theorem symbolic_listing_sound' ns sl env : env_nonneg env -> env_parity env -> slisting ns = Some sl ->
  listing env ns = map (seval env) sl.
Proof. intros N P. apply symbolic_listing_sound, env_ok_of; assumption. Qed.

Theorem symbolic_duration_sound' ns d env : env_nonneg env -> env_parity env -> sduration ns = Some d ->
  comp_duration env ns = eval_mp env d.
Proof. intros N P. apply symbolic_duration_sound, env_ok_of; assumption. Qed.

Theorem mp_le_sound' a b : mp_le a b = true -> a <> [] -> b <> [] -> forall env, env_nonneg env -> env_parity env ->
  eval_mp env a <= eval_mp env b.
Proof.
  intros H A B env N P. apply (mp_le_sound env a b _ _ (env_ok_of env N P) H); apply eval_mp_Mx; assumption.
Qed.

(* the order on forms really needs the parity hypothesis: with R - M odd the model's wait is rounded down *)
Theorem wait_fact_needs_parity : exists env, env_nonneg env /\ ~ genv env GReadout <= 2 * wait_of env + genv env GMicrowave.
Proof. exists (mk_env 3 0 0 0 []). split; [unfold env_nonneg; simpl; lia | vm_compute; intros H; apply H; reflexivity]. Qed.

(* ------------------------------------------------------------------ examples *)
Definition FB := RelationType_FOLLOWED_BY.
Definition ex_barrier (lab : Z) := OLeaf (mk_leaf lab C_Barrier [0; 1] QubitChannel_ALL (DFixed 4) None).
Definition ex_wait (lab : Z) := OLeaf (mk_leaf lab C_Wait [0] QubitChannel_ALL DDecouple None).
(* barrier; measurement of q1 in parallel with wait - X180 - wait on q0; closing barrier below the LAST WAIT *)
Definition ex_round (closing_parent : nat) : list node :=
  [ Node None LNone (ex_barrier 0);
    Node (Some 0%nat) (LRel FB 0) (OLeaf (mk_leaf 1 C_DispersiveMeasure [1] QubitChannel_ALL (DGlobal GReadout) (Some (1, 0))));
    Node (Some 0%nat) (LRel FB 0) (ex_wait 2);
    Node (Some 2%nat) (LRel FB 2) (OLeaf (mk_leaf 3 C_Rx180 [0] QubitChannel_ALL (DGlobal GMicrowave) None));
    Node (Some 3%nat) (LRel FB 3) (ex_wait 4);
    Node (Some closing_parent) (LRel FB closing_parent) (ex_barrier 5) ].
Definition ex_good := ex_round 4.     (* as the library does it *)
Definition ex_bad := ex_round 1.      (* closing barrier below the measurement: relies on readout >= microwave *)

(* the hypotheses are satisfiable, and the certificate holds for a non-trivial graph: measurement R against M + 2W *)
Example ex_env_admissible : env_nonneg (mk_env 16 6 8 4 []) /\ env_parity (mk_env 16 6 8 4 []).
Proof. split; [unfold env_nonneg; simpl; lia | reflexivity]. Qed.
Example ex_good_certified : cert_no_overlap ex_good = true.
Proof. vm_compute. reflexivity. Qed.
Example ex_good_closing_barrier :
  option_map (fun sl => map (fun e => (se_start e, se_end e)) (skipn 3 sl)) (slisting ex_good)
  = Some [ ([{| cR := 0; cM := 0; cF := 0; cS := 0; cW := 1; c0 := 4 |}], [{| cR := 0; cM := 1; cF := 0; cS := 0; cW := 1; c0 := 4 |}]);
           ([{| cR := 0; cM := 1; cF := 0; cS := 0; cW := 1; c0 := 4 |}], [{| cR := 0; cM := 1; cF := 0; cS := 0; cW := 2; c0 := 4 |}]);
           ([{| cR := 0; cM := 1; cF := 0; cS := 0; cW := 2; c0 := 4 |}], [{| cR := 0; cM := 1; cF := 0; cS := 0; cW := 2; c0 := 8 |}]) ].
Proof. vm_compute. reflexivity. Qed.
(* inside a block repeated three times and unrolled (copies are chained by multi-links: maxima of ends) *)
Example ex_good_unrolled_certified :
  cert_no_overlap (apply_modifiers (mk_env 0 0 0 0 []) 1 [Node None LNone (OComp 3 ex_good)]) = true.
Proof. vm_compute. reflexivity. Qed.
(* the certificate rejects the variant that is overlap-free only while readout >= microwave, and that variant does overlap
   under an admissible setting (R = 1, M = 3 time units) *)
Example ex_bad_rejected : cert_no_overlap ex_bad = false.
Proof. vm_compute. reflexivity. Qed.
Example ex_bad_overlaps :
  env_nonneg (mk_env 8 24 8 8 []) /\ env_parity (mk_env 8 24 8 8 [])
  /\ no_overlap (o_ops (model_obs (mk_env 8 24 8 8 []) ex_bad)) = false
  /\ no_overlap (o_ops (model_obs (mk_env 24 8 8 8 []) ex_bad)) = true.
Proof. repeat split; try (unfold env_nonneg; simpl; lia); vm_compute; reflexivity. Qed.
(* exact against strict certificate: a detector annotation (no length, channel ALL of q0) placed at the end of q1's measurement
   lands strictly inside the X180 pulse on q0 whenever R < M.  The property allows it (neither is a Barrier, the annotation
   has no length): the exact certificate accepts, the strict one refuses. *)
Definition ex_annot : list node :=
  [ Node None LNone (ex_barrier 0);
    Node (Some 0%nat) (LRel FB 0) (OLeaf (mk_leaf 1 C_Rx180 [0] QubitChannel_ALL (DGlobal GMicrowave) None));
    Node (Some 0%nat) (LRel FB 0) (OLeaf (mk_leaf 2 C_DispersiveMeasure [1] QubitChannel_ALL (DGlobal GReadout) (Some (1, 0))));
    Node (Some 2%nat) (LRel FB 2) (OLeaf (mk_leaf 3 C_DetectorOperation [0] QubitChannel_ALL (DFixed 0) None)) ].
Example ex_annot_exact_not_strict : cert_no_overlap ex_annot = true /\ cert_strict ex_annot = false.
Proof. split; vm_compute; reflexivity. Qed.
