(* C10 — library circuits never double-book a qubit channel: case format, tie and specification. *)
From Coq Require Import ZArith List Bool String.
Import ListNotations.
From QCE Require Import Base.Prelude Core.Model Core.Run Lib.Run C10.Model.
From Gen Require Import Ident Classes.
Open Scope Z_scope.

(* a case is a library-built circuit: its extracted relation graph, the duration setting it was observed under, and what
   the implementation reported as constructed and after apply_modifiers() *)
Inductive case := KLib (l : lcase).
Definition lib_of (c : case) : lcase := match c with KLib l => l end.

(* ------------------------------------------------------------------ the certificate, evaluated on the extracted structure *)
(* no setting is consulted: apply_modifiers does not look at durations (C10/Proofs.v, apply_modifiers_env_indep) *)
Definition cert_plain (c : case) : bool := cert_no_overlap (lc_nodes (lib_of c)).
Definition cert_unrolled (c : case) : bool :=
  cert_no_overlap (apply_modifiers (lc_env (lib_of c)) 1 (lc_nodes (lib_of c))).

(* ------------------------------------------------------------------ tie *)
(* (1) the Core model run on the extracted structure reproduces the reported listing (class, channels, start, end, length,
       tag, in order) and the reported duration, as constructed and unrolled, under the sampled setting;
   (2) the setting-free certificate holds for the structure, as constructed and unrolled: by C10_certified the model's
       schedule is then overlap-free under EVERY admissible setting, so a library change that makes the schedule rely on a
       coincidence of durations breaks the tie even when no sampled setting exposes an overlap. *)
Definition agree (c : case) : bool := agree_lib (lib_of c) && cert_plain c && cert_unrolled c.

(* ------------------------------------------------------------------ specification, on the implementation's reports only *)
(* Clause 1 (Lib.Run.no_overlap): no two operations of non-zero length that share a channel overlap in time.
   Clause 2: nothing overlaps a barrier on one of the barrier's qubits.  A Barrier has the fixed length 0.5 > 0 and occupies
   channel ALL of each of its qubits, and ALL matches every channel of the same qubit, so for operations of non-zero length
   clause 2 is an instance of clause 1.  What clause 1 does not see is an operation WITHOUT length (virtual phase update,
   detector / observable annotation, coordinate shift) placed strictly inside a barrier: barrier_clear adds that, by using
   the open-interval test without the `positive` guards whenever one of the two is a Barrier.  CoordinateShiftOperation is
   the barrier-like operation without length (channel ALL of all its qubits, duration 0): it occupies no time, so it is
   never the barrier of clause 2; it is treated like every other zero-length operation (it must not sit strictly inside a
   Barrier; the strict certificate cert_strict even demands that it does not sit strictly inside ANY channel-sharing
   operation, which the library circuits also satisfy -- reported, not judged). *)
Definition is_barrier (o : oentry) : bool := oe_cls o =? C_Barrier.
Fixpoint barrier_clear (l : list oentry) : bool :=
  match l with
  | [] => true
  | a :: t => forallb (fun b => negb ((is_barrier a || is_barrier b) && chan_overlap a b && time_overlap a b)) t && barrier_clear t
  end.
(* the strongest form (what the certificate guarantees): no channel-sharing pair at all has intersecting open intervals *)
Fixpoint no_overlap_strict (l : list oentry) : bool :=
  match l with
  | [] => true
  | a :: t => forallb (fun b => negb (chan_overlap a b && time_overlap a b)) t && no_overlap_strict t
  end.

Definition lib_barrier_clear (c : lcase) : bool :=
  (match lc_plain c with Some p => barrier_clear (lo_ops p) | None => true end)
  && (match lc_unrolled c with Some u => barrier_clear (lo_ops u) | None => true end).

Definition spec_ok (c : case) : bool := lib_no_overlap_ok (lib_of c) && lib_barrier_clear (lib_of c).

(* informational (reported in the evidence under extra_functions_false_on, not judged): the tie without the certificate,
   and the strict certificate (no operation without length strictly inside ANY channel-sharing operation) *)
Definition agree_model (c : case) : bool := agree_lib (lib_of c).
Definition cert_strict_plain (c : case) : bool := cert_strict (lc_nodes (lib_of c)).
Definition cert_strict_unrolled (c : case) : bool :=
  cert_strict (apply_modifiers (lc_env (lib_of c)) 1 (lc_nodes (lib_of c))).
