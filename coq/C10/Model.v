(* C10 — a SYMBOLIC scheduler for the relation graph of Core/Model.v.

   The times of a circuit are determined by its relation graph and by the four global durations R (readout), M (microwave),
   F (flux), S (reset), by fixed durations, and by the decoupling wait W = max 0 ((R - M) / 2).  Here every start / end is
   computed once, for ALL settings, as a max-plus form: a finite non-empty set of linear forms over R, M, F, S, W and the
   constant tick, meaning their maximum (maxima come from sub-circuit extents and from multi-links).  `cert_no_overlap`
   then decides a sufficient condition for "no two channel-sharing operations overlap" that does not mention a setting.

   Executable definitions only; soundness w.r.t. Core.Model (times / ext_of / listing_op) is proved in C10/Proofs.v. *)
From Coq Require Import ZArith List Bool.
Import ListNotations.
From QCE Require Import Base.Prelude Core.Model.
From Gen Require Import Ident Classes.
Open Scope Z_scope.

(* ------------------------------------------------------------------ linear forms *)
Record lin := { cR : Z; cM : Z; cF : Z; cS : Z; cW : Z; c0 : Z }.
Definition lconst (z : Z) : lin := {| cR := 0; cM := 0; cF := 0; cS := 0; cW := 0; c0 := z |}.
Definition lzero : lin := lconst 0.
Definition lvar (k : gkey) : lin :=
  match k with
  | GReadout   => {| cR := 1; cM := 0; cF := 0; cS := 0; cW := 0; c0 := 0 |}
  | GMicrowave => {| cR := 0; cM := 1; cF := 0; cS := 0; cW := 0; c0 := 0 |}
  | GFlux      => {| cR := 0; cM := 0; cF := 1; cS := 0; cW := 0; c0 := 0 |}
  | GReset     => {| cR := 0; cM := 0; cF := 0; cS := 1; cW := 0; c0 := 0 |}
  end.
Definition lwait : lin := {| cR := 0; cM := 0; cF := 0; cS := 0; cW := 1; c0 := 0 |}.
Definition ladd (a b : lin) : lin :=
  {| cR := cR a + cR b; cM := cM a + cM b; cF := cF a + cF b; cS := cS a + cS b; cW := cW a + cW b; c0 := c0 a + c0 b |}.
Definition lsub (a b : lin) : lin :=
  {| cR := cR a - cR b; cM := cM a - cM b; cF := cF a - cF b; cS := cS a - cS b; cW := cW a - cW b; c0 := c0 a - c0 b |}.

(* the value of the decoupling wait under a setting, exactly as the model resolves it *)
Definition wait_of (env : denv) : Z := resolve env DDecouple.
Definition leval (env : denv) (l : lin) : Z :=
  cR l * genv env GReadout + cM l * genv env GMicrowave + cF l * genv env GFlux + cS l * genv env GReset
  + cW l * wait_of env + c0 l.

(* duration strategy -> linear form; registry-keyed durations are not part of the symbolic domain (no library circuit uses one) *)
Definition sdur (d : dstrat) : option lin :=
  match d with
  | DFixed z => Some (lconst z)
  | DGlobal k => Some (lvar k)
  | DRegistry _ => None
  | DDecouple => Some lwait
  end.

(* decidable sufficient condition for "l >= 0 under every admissible setting": admissible settings have R, M, F, S >= 0,
   W >= 0 and the two linear consequences of W = max 0 ((R - M) / 2):  g1 = 2W + M - R >= 0  and  g2 = R - 2W >= 0.
   l is accepted iff l - k1 g1 - k2 g2 has only non-negative coefficients for k1 = max 0 (- cR l), k2 = max 0 (cR l):
   the multipliers that cancel the R coefficient (any other choice of k1, k2 >= 0 only tightens the remaining conditions). *)
Definition lin_nonneg (l : lin) : bool :=
  let k1 := Z.max 0 (- cR l) in
  let k2 := Z.max 0 (cR l) in
  (0 <=? cM l - k1) && (0 <=? cF l) && (0 <=? cS l) && (0 <=? cW l - 2 * k1 + 2 * k2) && (0 <=? c0 l).
Definition lin_le (a b : lin) : bool := lin_nonneg (lsub b a).

(* ------------------------------------------------------------------ max-plus forms *)
Definition mp := list lin.            (* non-empty by construction; meaning: the maximum of the members *)
Definition mp0 : mp := [lzero].
Definition eval_mp (env : denv) (m : mp) : Z :=
  match m with [] => 0 | x :: t => fold_left Z.max (map (leval env) t) (leval env x) end.

Definition mp_le (a b : mp) : bool := forallb (fun x => existsb (fun y => lin_le x y) b) a.
Definition mp_is0 (a : mp) : bool := mp_le a mp0 && mp_le mp0 a.

(* normal form: members dominated (under every admissible setting) by another member are dropped *)
Definition mp_insert (x : lin) (acc : mp) : mp :=
  if existsb (fun y => lin_le x y) acc then acc else x :: filter (fun y => negb (lin_le y x)) acc.
Definition mp_norm (l : list lin) : mp := fold_right mp_insert [] l.
Definition mp_max (a b : mp) : mp := mp_norm (a ++ b).
Definition mp_maxs (l : list mp) : mp := mp_norm (concat l).
Definition mp_add (a b : mp) : mp := mp_norm (flat_map (fun x => map (ladd x) b) a).
Definition mp_sub1 (a : mp) (d : lin) : mp := map (fun x => lsub x d) a.

(* ------------------------------------------------------------------ symbolic times (mirrors Core.Model.times) *)
Definition stimes_t := list (mp * mp).
Definition sdflt : mp * mp := (mp0, mp0).
(* symbolic context: relation type and the one instant of the referent the type looks at *)
Definition sctx := option (RelationType * mp).
Definition anchor (t : RelationType) (se : mp * mp) : mp :=
  match t with RelationType_JOINED_START => fst se | _ => snd se end.

(* JOINED_END subtracts the own duration: supported when that duration is a single linear form *)
Definition sstart_from (t : RelationType) (a : mp) (d : mp) : option mp :=
  match t with
  | RelationType_JOINED_END => match d with [x] => Some (mp_sub1 a x) | _ => None end
  | _ => Some a
  end.
Definition sctx_start (c : sctx) (d : mp) : option mp :=
  match c with None => Some mp0 | Some (t, a) => sstart_from t a d end.

(* a multi-link refers to the first of the latest-ending members: its end is the maximum of the members' ends *)
Definition smulti_end (tm : stimes_t) (ps : list nat) : mp := mp_maxs (map (fun p => snd (nth p tm sdflt)) ps).

Definition slink_start (c : sctx) (tm : stimes_t) (l : link) (d : mp) : option mp :=
  match l with
  | LNone => sctx_start c d
  | LDangling _ => sctx_start c d
  | LRel t p => sstart_from t (anchor t (nth p tm sdflt)) d
  | LMulti [] => sctx_start c d
  | LMulti ps => Some (smulti_end tm ps)
  end.

Fixpoint stimes_acc (c : sctx) (hs : list (link * mp)) (acc : stimes_t) : option stimes_t :=
  match hs with
  | [] => Some acc
  | (l, d) :: t => match slink_start c acc l d with
                   | Some s => stimes_acc c t (acc ++ [(s, mp_add s d)])
                   | None => None
                   end
  end.
Definition stimes (c : sctx) (hs : list (link * mp)) : option stimes_t := stimes_acc c hs [].

(* ------------------------------------------------------------------ symbolic extents (mirrors extent_of_nodes / ext_of) *)
(* Result: the upper end `hi` of the inner extent; the lower end is 0.  That is checked, not assumed: every depth-1 start
   must be the form 0 and every listed start must be provably non-negative, otherwise the answer is None. *)
Definition sextent (ps : list (option nat)) (tm : stimes_t) (exts : list mp) : option mp :=
  match ps with
  | [] => Some mp0
  | _ => if forallb (fun i => mp_is0 (fst (nth i tm sdflt))) (depth1 ps)
            && forallb (fun i => mp_le mp0 (fst (nth i tm sdflt))) (bfs ps)
         then Some (fold_left (fun acc i => mp_max acc (mp_add (fst (nth i tm sdflt)) (nth i exts mp0))) (bfs ps) mp0)
         else None
  end.

Fixpoint sext_of (o : op) : option mp :=
  match o with
  | OLeaf l => option_map (fun x => [x]) (sdur (l_dur l))
  | OComp _ ns =>
      match all_some ((fix go (l : list node) : list (option mp) :=
                         match l with [] => [] | Node _ _ o' :: t => sext_of o' :: go t end) ns) with
      | None => None
      | Some exts => match stimes None (combine (map n_link ns) exts) with
                     | None => None
                     | Some tm => sextent (parents ns) tm exts
                     end
      end
  end.

Definition snode_times (c : sctx) (ns : list node) : option stimes_t :=
  match all_some (map (fun n => sext_of (n_op n)) ns) with
  | None => None
  | Some ds => stimes c (combine (map n_link ns) ds)
  end.

(* ------------------------------------------------------------------ symbolic listing (mirrors sub_ctx / listing_op) *)
Record sentry := { se_leaf : leaf; se_start : mp; se_end : mp }.

Definition ssub_ctx (c : sctx) (tm : stimes_t) (l : link) : sctx :=
  match l with
  | LNone => c
  | LDangling _ => c
  | LRel t p => Some (t, anchor t (nth p tm sdflt))
  | LMulti [] => c
  | LMulti ps => Some (RelationType_FOLLOWED_BY, smulti_end tm ps)
  end.

Fixpoint slisting_op (o : op) : sctx -> mp * mp -> option (list sentry) :=
  match o with
  | OLeaf l => fun _ se => Some [ {| se_leaf := l; se_start := fst se; se_end := snd se |} ]
  | OComp _ ns => fun c _ =>
      let fs := (fix go (l : list node) : list (sctx -> mp * mp -> option (list sentry)) :=
                   match l with [] => [] | Node _ _ o' :: t => slisting_op o' :: go t end) ns in
      match snode_times c ns with
      | None => None
      | Some tm =>
          option_map (@concat sentry)
            (all_some (map (fun i => nth i fs (fun _ _ => Some []) (ssub_ctx c tm (nth i (map n_link ns) LNone)) (nth i tm sdflt))
                           (bfs (parents ns))))
      end
  end.
Definition slisting (ns : list node) : option (list sentry) := slisting_op (OComp 1 ns) None sdflt.
Definition sduration (ns : list node) : option mp := sext_of (OComp 1 ns).

(* value of a symbolic entry under a setting *)
Definition seval (env : denv) (e : sentry) : entry :=
  {| e_leaf := se_leaf e; e_start := eval_mp env (se_start e); e_end := eval_mp env (se_end e) |}.

(* ------------------------------------------------------------------ the certificate *)
Definition leaf_chan_match (a b : leaf) : bool :=
  existsb (fun x => existsb (fun y => ChannelIdentifier_eq y x) (l_chans b)) (l_chans a).
(* Strict form: a channel-sharing pair is fine if one provably ends before the other starts, or if both provably have no
   length.  It forbids every intersection of open intervals, also "an operation without length strictly inside another". *)
Definition snonpos (x : sentry) : bool := mp_le (se_end x) (se_start x).
Definition pair_ok_strict (x y : sentry) : bool :=
  negb (leaf_chan_match (se_leaf x) (se_leaf y))
  || mp_le (se_end x) (se_start y) || mp_le (se_end y) (se_start x)
  || (snonpos x && snonpos y).
(* Exact form (the two clauses of the property): an operation that provably has no length may sit inside another one,
   unless one of the two is a Barrier. *)
Definition sis_barrier (x : sentry) : bool := l_cls (se_leaf x) =? C_Barrier.
Definition pair_ok (x y : sentry) : bool :=
  pair_ok_strict x y || ((snonpos x || snonpos y) && negb (sis_barrier x) && negb (sis_barrier y)).
Fixpoint cert_list_with (pk : sentry -> sentry -> bool) (l : list sentry) : bool :=
  match l with [] => true | a :: t => forallb (pk a) t && cert_list_with pk t end.
Definition cert_with (pk : sentry -> sentry -> bool) (ns : list node) : bool :=
  match slisting ns with Some sl => cert_list_with pk sl | None => false end.
Definition cert_no_overlap (ns : list node) : bool := cert_with pair_ok ns.
Definition cert_strict (ns : list node) : bool := cert_with pair_ok_strict ns.

(* diagnostics: listing positions of the pairs the certificate cannot order *)
Fixpoint cert_failures_from (i : nat) (l : list sentry) : list (nat * nat) :=
  match l with
  | [] => []
  | a :: t => map (fun j => (i, j)) (map (fun j => (S i + j)%nat) (failing (pair_ok a) t)) ++ cert_failures_from (S i) t
  end.
Definition cert_failures (ns : list node) : option (list (nat * nat)) := option_map (cert_failures_from 0) (slisting ns).
