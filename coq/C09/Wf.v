(* C09 -- the decidable well-formedness check of a repetition-code description (definitions only; the lemmas are in
   the Proofs files, the correspondence run evaluates the check on every generated description).

   layers_ok : data and ancilla indices are duplicate-free and disjoint; one park list per gate layer; every gate joins
               an ancilla and a data qubit; no ancilla is activated twice within a layer.
   shape_ok  : the description is a chain of d >= 1 data qubits: data on the even positions 0, 2, .., ancillas on the
               odd ones, 2d - 1 qubits; every ancilla's parity group names its two neighbours, and over all layers
               its gates join it to exactly these two, once each. *)
From Coq Require Import ZArith List Bool.
Import ListNotations.
From QCE Require Import Base.Prelude C09.Stim C09.Model.
Open Scope Z_scope.

Fixpoint nodupb (l : list Z) : bool :=
  match l with [] => true | x :: t => negb (zmem x t) && nodupb t end.
Definition disjointb (a b : list Z) : bool := forallb (fun q => negb (zmem q b)) a.
Definition gate_ok (anc data : list Z) (e : Z * Z) : bool :=
  (zmem (fst e) anc && zmem (snd e) data) || (zmem (fst e) data && zmem (snd e) anc).
Definition layer_ok (anc data : list Z) (gates : list (Z * Z)) : bool :=
  forallb (gate_ok anc data) gates && nodupb (active anc gates).


Definition layers_ok (D : rdesc) : bool :=
  disjointb (r_anc D) (r_data D) && nodupb (r_data D) && nodupb (r_anc D)
  && (length (r_gates D) =? length (r_parks D))%nat
  && forallb (layer_ok (r_anc D) (r_data D)) (r_gates D).


Definition partners (gates : list (Z * Z)) (q : Z) : list Z :=
  flat_map (fun e => if fst e =? q then [snd e] else if snd e =? q then [fst e] else []) gates.


(* the shape of a chain description *)
Definition nbr_ok (a : Z) (lr : Z * Z) : bool :=
  ((fst lr =? a - 1) && (snd lr =? a + 1)) || ((fst lr =? a + 1) && (snd lr =? a - 1)).
Definition partners_ok (gates : list (Z * Z)) (a : Z) : bool :=
  let p := partners gates a in
  leqb Z.eqb p [a - 1; a + 1] || leqb Z.eqb p [a + 1; a - 1].

Definition shape_ok (D : rdesc) : bool :=
  let d := length (r_data D) in
  (1 <=? d)%nat
  && leqb Z.eqb (r_data D) (evens_from 0 d)
  && leqb Z.eqb (r_anc D) (evens_from 1 (d - 1))
  && (length (r_qubits D) =? 2 * d - 1)%nat
  && (length (r_nbr D) =? d - 1)%nat
  && forallb (fun an => nbr_ok (fst an) (snd an)) (combine (r_anc D) (r_nbr D))
  && forallb (partners_ok (concat (r_gates D))) (r_anc D).

Definition wf_desc (D : rdesc) : bool := layers_ok D && shape_ok D.

