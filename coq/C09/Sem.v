(* C09 -- an executable semantics for the exported gate set on PRODUCT states of single-qubit Pauli eigenstates.

   Every qubit is `Zb b` (computational basis, |b>) or `Xs s` (X basis: |+> for s = false, |-> for s = true).
   The fragment is closed under everything a repetition-code circuit does; anything that would leave it is reported
   (`Outside`), and measuring an X-basis qubit is reported as `Random` (the outcome is not deterministic).

   TRUSTED "Clifford facts" (global phases ignored).  They are not proved here; they are Stim's documented stabilizer
   actions (X->.., Z->..) read on eigenstates, and every one of them is cross-checked against Stim on every run
   (probe circuits in the correspondence run, and every generated repetition-code circuit):

     F1  R            any state -> |0>
     F2  I            nothing
     F3  X            |b> -> |not b> ;  |+-> unchanged                       (X -> X, Z -> -Z)
     F4  Y            |b> -> |not b> ;  |+> <-> |->                          (X -> -X, Z -> -Z)
     F5  Z            |b> unchanged  ;  |+> <-> |->                          (X -> -X, Z -> Z)
     F6  H            |0> -> |+>, |1> -> |->, |+> -> |0>, |-> -> |1>         (X <-> Z)
     F7  SQRT_Y       |0> -> |+>, |1> -> |->, |+> -> |1>, |-> -> |0>         (X -> -Z, Z -> X)
     F8  SQRT_Y_DAG   |0> -> |->, |1> -> |+>, |+> -> |0>, |-> -> |1>         (X -> Z, Z -> -X)
     F9  CZ           |b>|c> unchanged; |b>|+-> -> |b>|+-> with the sign flipped iff b = 1 (either order);
                      two X-basis qubits would entangle: outside the fragment
     F10 M            of |b>: outcome b, state unchanged; of |+->: uniformly random

   DETECTOR / OBSERVABLE_INCLUDE read the record (rec[-k] = k-th most recent outcome); TICK and SHIFT_COORDS do nothing;
   REPEAT n runs its body n times.   No proofs in this file. *)
From Coq Require Import ZArith List Bool String.
Import ListNotations.
From QCE Require Import C09.Stim.
Open Scope Z_scope.

Inductive qst := Zb (b : bool) | Xs (s : bool).
Definition state := Z -> qst.
Definition upd (st : state) (q : Z) (v : qst) : state := fun p => if p =? q then v else st p.
Definition init_state : state := fun _ => Zb false.

Definition apply1 (g : gate1) (s : qst) : qst :=
  match g, s with
  | G_I, _ => s
  | G_X, Zb b => Zb (negb b)
  | G_X, Xs s => Xs s
  | G_Y, Zb b => Zb (negb b)
  | G_Y, Xs s => Xs (negb s)
  | G_Z, Zb b => Zb b
  | G_Z, Xs s => Xs (negb s)
  | G_H, Zb b => Xs b
  | G_H, Xs s => Zb s
  | G_SY, Zb b => Xs b
  | G_SY, Xs s => Zb (negb s)
  | G_SYD, Zb b => Xs (negb b)
  | G_SYD, Xs s => Zb s
  end.

(* machine state: qubits, record / detector parities (most recent first), observables by index *)
Record mstate := MkM { m_st : state; m_rec : list bool; m_det : list bool; m_obs : list bool }.

Inductive res := Ok (m : mstate) | Random | Outside.

Definition rbind (r : res) (f : mstate -> res) : res := match r with Ok m => f m | Random => Random | Outside => Outside end.

(* rec[k], k < 0, against the reversed record *)
Definition rec_at (rrec : list bool) (k : Z) : option bool :=
  if k <? 0 then nth_error rrec (Z.to_nat (- k - 1)) else None.
Definition parity_at (rrec : list bool) (ks : list Z) : option bool :=
  match opt_all (map (rec_at rrec) ks) with Some bs => Some (xor_all bs) | None => None end.

Fixpoint xor_nth (n : nat) (b : bool) (l : list bool) : list bool :=
  match n, l with
  | O, [] => [b]
  | O, c :: t => xorb c b :: t
  | S k, [] => false :: xor_nth k b []
  | S k, c :: t => c :: xor_nth k b t
  end.

Section Fold.
Context (f : instr -> mstate -> res).
Fixpoint rfold (l : list instr) (m : mstate) : res :=
  match l with
  | [] => Ok m
  | i :: r => match f i m with Ok m' => rfold r m' | Random => Random | Outside => Outside end
  end.
Section Iter.
Context (l : list instr).
Fixpoint riter (n : nat) (m : mstate) : res :=
  match n with
  | O => Ok m
  | S k => match rfold l m with Ok m' => riter k m' | Random => Random | Outside => Outside end
  end.
End Iter.
End Fold.

Fixpoint step (i : instr) (m : mstate) {struct i} : res :=
  let st := m_st m in
  match i with
  | IGate g q => Ok (MkM (upd st q (apply1 g (st q))) (m_rec m) (m_det m) (m_obs m))
  | ICZ a b =>
      if a =? b then Outside
      else match st a, st b with
           | Zb _, Zb _ => Ok m
           | Zb x, Xs s => Ok (MkM (upd st b (Xs (xorb s x))) (m_rec m) (m_det m) (m_obs m))
           | Xs s, Zb x => Ok (MkM (upd st a (Xs (xorb s x))) (m_rec m) (m_det m) (m_obs m))
           | Xs _, Xs _ => Outside
           end
  | IR q => Ok (MkM (upd st q (Zb false)) (m_rec m) (m_det m) (m_obs m))
  | IM q => match st q with
            | Zb b => Ok (MkM st (b :: m_rec m) (m_det m) (m_obs m))
            | Xs _ => Random
            end
  | ITick => Ok m
  | IShift _ => Ok m
  | IDet _ ks => match parity_at (m_rec m) ks with
                 | Some b => Ok (MkM st (m_rec m) (b :: m_det m) (m_obs m))
                 | None => Outside
                 end
  | IObs k ks => match parity_at (m_rec m) ks with
                 | Some b => if k <? 0 then Outside else Ok (MkM st (m_rec m) (m_det m) (xor_nth (Z.to_nat k) b (m_obs m)))
                 | None => Outside
                 end
  | IRepeat n body => if n <? 0 then Outside else riter step body (Z.to_nat n) m
  | IOther _ => Outside
  end.

Definition run : list instr -> mstate -> res := rfold step.
Definition start : mstate := MkM init_state [] [] [].

(* the whole program from the all-|0> state: (record, detector parities, observables), all in program order *)
Definition exec (l : list instr) : option (list bool * list bool * list bool) :=
  match run l start with
  | Ok m => Some (rev (m_rec m), rev (m_det m), m_obs m)
  | _ => None
  end.

Definition is_random (l : list instr) : bool := match run l start with Random => true | _ => false end.
Definition is_outside (l : list instr) : bool := match run l start with Outside => true | _ => false end.
