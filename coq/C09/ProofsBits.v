(* C09 -- from the gate layers of a chain-shaped description to the protocol's bit operations:
   one QEC round maps (data x, ancilla a) to (x, a XOR parities x), the measured outcomes are the new ancilla values,
   the refocusing pulses negate x.  `wf_desc` is the decidable well-formedness check of a description. *)
From Coq Require Import ZArith List Bool Lia ZifyBool.
Import ListNotations.
From QCE Require Import Base.Prelude C09.Stim C09.Spec C09.Sem C09.Model C09.Wf C09.ProofsSem C09.ProofsRound.
Open Scope Z_scope.
Ltac Zify.zify_post_hook ::= Z.to_euclidean_division_equations.

(* ------------------------------------------------------------------ partners of a qubit in a gate list *)
Lemma xor_all_cons b l : xor_all (b :: l) = xorb b (xor_all l). Proof. reflexivity. Qed.

Lemma gates_bits_partners anc data gates :
  disjointb anc data = true ->
  (forall e, In e gates -> gate_ok anc data e = true) ->
  forall beta q,
    gates_bits anc gates beta q
    = if zmem q anc then xorb (beta q) (xor_all (map beta (partners gates q))) else beta q.
Proof.
  intros Hd. induction gates as [|[u v] rest IH]; intros Hg beta q.
  - simpl. destruct (zmem q anc); [now rewrite xorb_false_r | reflexivity].
  - unfold gates_bits. simpl fold_left. fold (gates_bits anc rest (czb (in_anc anc) beta (u, v))).
    rewrite IH by (intros e He; apply Hg; now right).
    pose proof (Hg (u, v) (or_introl eq_refl)) as Hguv. unfold gate_ok in Hguv. simpl in Hguv.
    (* partners of an ancilla in `rest` are not ancillas, hence untouched by this gate *)
    assert (Hpart : forall p, zmem q anc = true -> In p (partners rest q) -> zmem p anc = false).
    { intros p Hq Hp. unfold partners in Hp. apply in_flat_map in Hp as ([a b] & He & Hp).
      pose proof (Hg (a, b) (or_intror He)) as Hgab. unfold gate_ok in Hgab. simpl in Hgab, Hp.
      destruct (a =? q) eqn:Ea.
      - apply Z.eqb_eq in Ea. subst a. destruct Hp as [<-|[]].
        apply orb_true_iff in Hgab as [H|H]; apply andb_true_iff in H as [H1 H2].
        + destruct (zmem b anc) eqn:E; [|reflexivity]. pose proof (disjointb_spec _ _ _ Hd E). congruence.
        + pose proof (disjointb_spec _ _ _ Hd Hq). congruence.
      - destruct (b =? q) eqn:Eb; [|destruct Hp].
        apply Z.eqb_eq in Eb. subst b. destruct Hp as [<-|[]].
        apply orb_true_iff in Hgab as [H|H]; apply andb_true_iff in H as [H1 H2].
        + pose proof (disjointb_spec _ _ _ Hd Hq). congruence.
        + destruct (zmem a anc) eqn:E; [|reflexivity]. pose proof (disjointb_spec _ _ _ Hd E). congruence. }
    change (czb (in_anc anc) beta (u, v))
      with (if zmem u anc then updb beta u (xorb (beta u) (beta v)) else updb beta v (xorb (beta v) (beta u))).
    change (partners ((u, v) :: rest) q)
      with ((if u =? q then [v] else if v =? q then [u] else []) ++ partners rest q).
    apply orb_true_iff in Hguv as [H|H]; apply andb_true_iff in H as [Hu Hv].
    + (* u ancilla, v data *)
      assert (Hva : zmem v anc = false).
      { destruct (zmem v anc) eqn:E; [|reflexivity]. pose proof (disjointb_spec _ _ _ Hd E). congruence. }
      rewrite Hu. destruct (zmem q anc) eqn:Hq.
      * assert (Hmap : map (updb beta u (xorb (beta u) (beta v))) (partners rest q) = map beta (partners rest q)).
        { apply map_ext_in. intros p Hp. unfold updb. destruct (p =? u) eqn:E; [|reflexivity].
          apply Z.eqb_eq in E. subst p. rewrite (Hpart u eq_refl Hp) in Hu. discriminate. }
        rewrite Hmap. unfold updb at 1. destruct (u =? q) eqn:Euq.
        -- apply Z.eqb_eq in Euq. subst q. rewrite Z.eqb_refl. simpl app. simpl map. rewrite xor_all_cons.
           now rewrite xorb_assoc.
        -- rewrite Z.eqb_sym, Euq. destruct (v =? q) eqn:Evq.
           ++ apply Z.eqb_eq in Evq. subst q. congruence.
           ++ reflexivity.
      * unfold updb. destruct (q =? u) eqn:E; [|reflexivity]. apply Z.eqb_eq in E. subst q. congruence.
    + (* u data, v ancilla *)
      assert (Hua : zmem u anc = false).
      { destruct (zmem u anc) eqn:E; [|reflexivity]. pose proof (disjointb_spec _ _ _ Hd E). congruence. }
      rewrite Hua. destruct (zmem q anc) eqn:Hq.
      * assert (Hmap : map (updb beta v (xorb (beta v) (beta u))) (partners rest q) = map beta (partners rest q)).
        { apply map_ext_in. intros p Hp. unfold updb. destruct (p =? v) eqn:E; [|reflexivity].
          apply Z.eqb_eq in E. subst p. rewrite (Hpart v eq_refl Hp) in Hv. discriminate. }
        rewrite Hmap. unfold updb at 1. destruct (u =? q) eqn:Euq.
        -- apply Z.eqb_eq in Euq. subst q. congruence.
        -- destruct (v =? q) eqn:Evq.
           ++ apply Z.eqb_eq in Evq. subst q. rewrite Z.eqb_refl. simpl app. simpl map. rewrite xor_all_cons.
              now rewrite xorb_assoc.
           ++ rewrite Z.eqb_sym, Evq. reflexivity.
      * unfold updb. destruct (q =? v) eqn:E; [|reflexivity]. apply Z.eqb_eq in E. subst q. congruence.
Qed.

Lemma layers_bits_concat anc ls : forall beta,
  layers_bits anc ls beta = gates_bits anc (concat (map fst ls)) beta.
Proof.
  induction ls as [|l ls IH]; intros beta; [reflexivity|].
  unfold layers_bits. simpl fold_left. fold (layers_bits anc ls (gates_bits anc (fst l) beta)).
  rewrite IH. unfold gates_bits. simpl concat. now rewrite fold_left_app.
Qed.

Lemma map_fst_combine {A B} (l : list A) (r : list B) : length l = length r -> map fst (combine l r) = l.
Proof.
  revert r. induction l as [|x l IH]; intros [|y r] H; simpl in *; try discriminate; [reflexivity|].
  f_equal. apply IH. lia.
Qed.

(* ------------------------------------------------------------------ the chain shape *)
Definition bits (x a : list bool) : Z -> bool :=
  fun q => if q <? 0 then false
           else if Z.even q then nth (Z.to_nat (q / 2)) x false else nth (Z.to_nat (q / 2)) a false.

Lemma bits_even x a j : bits x a (2 * Z.of_nat j) = nth j x false.
Proof.
  unfold bits. assert (2 * Z.of_nat j <? 0 = false) as -> by lia.
  rewrite Z.even_mul. change (Z.even 2) with true. cbn [orb]. f_equal. lia.
Qed.
Lemma bits_odd x a j : bits x a (2 * Z.of_nat j + 1) = nth j a false.
Proof.
  unfold bits. assert (2 * Z.of_nat j + 1 <? 0 = false) as -> by lia.
  rewrite Z.add_comm, Z.even_add_mul_2. change (Z.even 1) with false. cbv iota. f_equal. lia.
Qed.

Lemma evens_from_In s n q : In q (evens_from s n) <-> exists j, (j < n)%nat /\ q = s + 2 * Z.of_nat j.
Proof.
  revert s. induction n as [|n IH]; intros s; cbn [evens_from In].
  - split; [tauto | intros (j & Hj & _); lia].
  - rewrite IH. split.
    + intros [<-|(j & Hj & ->)]; [exists O; split; lia | exists (S j); split; lia].
    + intros ([|j] & Hj & ->); [left; lia | right; exists j; split; lia].
Qed.

Lemma evens_from_map {B} (f : Z -> B) s n :
  map f (evens_from s n) = map (fun j => f (s + 2 * Z.of_nat j)) (seq 0 n).
Proof.
  revert s. induction n as [|n IH]; intros s; [reflexivity|]. cbn [evens_from seq map].
  f_equal; [f_equal; lia|]. rewrite IH, <- seq_shift, map_map. apply map_ext. intros j. f_equal. lia.
Qed.

Lemma evens_from_length s n : length (evens_from s n) = n.
Proof. revert s; induction n; intros; simpl; auto. Qed.

Lemma map_nth_seq (l : list bool) : map (fun j => nth j l false) (seq 0 (length l)) = l.
Proof.
  induction l as [|b l IH]; [reflexivity|]. simpl length. simpl seq. simpl map.
  f_equal. rewrite <- seq_shift, map_map. exact IH.
Qed.

Lemma bits_data x a : map (bits x a) (evens_from 0 (length x)) = x.
Proof.
  rewrite evens_from_map. rewrite <- (map_nth_seq x) at 2. apply map_ext. intros j.
  now rewrite Z.add_0_l, bits_even.
Qed.
Lemma bits_anc x a : map (bits x a) (evens_from 1 (length a)) = a.
Proof.
  rewrite evens_from_map. rewrite <- (map_nth_seq a) at 2. apply map_ext. intros j.
  now rewrite Z.add_comm, bits_odd.
Qed.

Lemma nth_xor_list a b j : nth j (xor_list a b) false = xorb (nth j a false) (nth j b false) \/
                           (length a <= j \/ length b <= j)%nat.
Proof.
  revert b j. induction a as [|p a IH]; intros b j; [right; left; simpl; lia|].
  destruct b as [|q b]; [right; right; simpl; lia|].
  destruct j as [|j]; [left; reflexivity|]. simpl.
  destruct (IH b j) as [H|H]; [left; exact H | right; lia].
Qed.
Lemma xor_list_length a b : length (xor_list a b) = Nat.min (length a) (length b).
Proof. revert b; induction a as [|p a IH]; intros [|q b]; simpl; auto. Qed.

Lemma parities_length x : length (parities x) = (length x - 1)%nat.
Proof.
  induction x as [|b t IH]; [reflexivity|]. destruct t as [|c t']; [reflexivity|].
  change (parities (b :: c :: t')) with (xorb b c :: parities (c :: t')).
  simpl length in *. rewrite IH. lia.
Qed.
Lemma nth_parities x j : (S j < length x)%nat -> nth j (parities x) false = xorb (nth j x false) (nth (S j) x false).
Proof.
  revert j. induction x as [|b t IH]; intros j H; [simpl in H; lia|].
  destruct t as [|c t']; [simpl in H; lia|].
  change (parities (b :: c :: t')) with (xorb b c :: parities (c :: t')).
  destruct j as [|j]; [reflexivity|]. simpl nth at 1. rewrite IH by (simpl in *; lia). reflexivity.
Qed.

(* the shape of a chain description with d data qubits: data on even, ancillas on odd positions; every ancilla's
   parity group names its two neighbours and its gates join it to exactly these two *)
Lemma leqb_Z_eq (l r : list Z) : leqb Z.eqb l r = true -> l = r.
Proof.
  revert r. induction l as [|x l IH]; intros [|y r] H; simpl in H; try discriminate; [reflexivity|].
  apply andb_true_iff in H as [H1 H2]. apply Z.eqb_eq in H1. subst. f_equal. auto.
Qed.

Record shape (D : rdesc) (d : nat) : Prop := {
  sh_pos : (1 <= d)%nat;
  sh_data : r_data D = evens_from 0 d;
  sh_anc : r_anc D = evens_from 1 (d - 1);
  sh_qubits : length (r_qubits D) = (2 * d - 1)%nat;
  sh_nbr_len : length (r_nbr D) = (d - 1)%nat;
  sh_nbr : forall an, In an (combine (r_anc D) (r_nbr D)) -> nbr_ok (fst an) (snd an) = true;
  sh_partners : forall a, In a (r_anc D) -> partners_ok (concat (r_gates D)) a = true
}.

Lemma shape_ok_shape D : shape_ok D = true -> shape D (length (r_data D)).
Proof.
  unfold shape_ok. intros H. repeat (apply andb_true_iff in H as [H ?]).
  constructor.
  - lia.
  - now apply leqb_Z_eq.
  - now apply leqb_Z_eq.
  - lia.
  - lia.
  - now apply forallb_forall.
  - now apply forallb_forall.
Qed.

Lemma zmem_evens q s n : zmem q (evens_from s n) = true <-> exists j, (j < n)%nat /\ q = s + 2 * Z.of_nat j.
Proof. rewrite zmem_In. apply evens_from_In. Qed.

(* one round on the bits of a chain *)
Lemma round_bits_chain D d x a :
  layers_ok D = true -> shape D d -> length x = d -> length a = (d - 1)%nat ->
  forall q, round_bits D (bits x a) q = bits x (xor_list a (parities x)) q.
Proof.
  intros Hl Hs Hx Ha q. unfold layers_ok in Hl.
  repeat (apply andb_true_iff in Hl as [Hl ?]).
  rename H into Hlayers, H0 into Hlen, H1 into Hna, H2 into Hnd, Hl into Hdis.
  unfold round_bits. rewrite layers_bits_concat, map_fst_combine by lia.
  rewrite (gates_bits_partners (r_anc D) (r_data D)); [| exact Hdis |].
  2:{ intros e He. apply in_concat in He as (g & Hg & He). rewrite forallb_forall in Hlayers.
      specialize (Hlayers g Hg). unfold layer_ok in Hlayers. apply andb_true_iff in Hlayers as [Hgs _].
      rewrite forallb_forall in Hgs. auto. }
  destruct (zmem q (r_anc D)) eqn:Hq.
  - pose proof (sh_partners D d Hs q (proj1 (zmem_In _ _) Hq)) as Hp.
    rewrite (sh_anc D d Hs) in Hq. apply zmem_evens in Hq as (j & Hj & ->).
    replace (1 + 2 * Z.of_nat j) with (2 * Z.of_nat j + 1) in * by lia.
    rewrite !bits_odd.
    assert (Hxor : xor_all (map (bits x a) (partners (concat (r_gates D)) (2 * Z.of_nat j + 1)))
                   = xorb (nth j x false) (nth (S j) x false)).
    { unfold partners_ok in Hp.
      assert (E1 : bits x a (2 * Z.of_nat j + 1 - 1) = nth j x false)
        by (replace (2 * Z.of_nat j + 1 - 1) with (2 * Z.of_nat j) by lia; apply bits_even).
      assert (E2 : bits x a (2 * Z.of_nat j + 1 + 1) = nth (S j) x false)
        by (replace (2 * Z.of_nat j + 1 + 1) with (2 * Z.of_nat (S j)) by lia; apply bits_even).
      apply orb_true_iff in Hp as [Hp|Hp]; apply leqb_Z_eq in Hp; rewrite Hp; cbn [map xor_all fold_right];
        rewrite E1, E2, xorb_false_r; [reflexivity | apply xorb_comm]. }
    rewrite Hxor.
    destruct (nth_xor_list a (parities x) j) as [E|E].
    + rewrite E, nth_parities by lia. reflexivity.
    + rewrite parities_length in E. lia.
  - (* not an ancilla: data, or outside the chain *)
    unfold bits. destruct (q <? 0) eqn:Eneg; [reflexivity|]. destruct (Z.even q) eqn:Eev; [reflexivity|].
    assert (Hj : (d - 1 <= Z.to_nat (q / 2))%nat).
    { destruct (Nat.lt_ge_cases (Z.to_nat (q / 2)) (d - 1)) as [Hlt|]; [|assumption]. exfalso.
      assert (zmem q (r_anc D) = true); [|congruence].
      rewrite (sh_anc D d Hs). apply zmem_evens. exists (Z.to_nat (q / 2)). split; [exact Hlt|].
      assert (Hodd : Z.odd q = true) by (rewrite <- Z.negb_even, Eev; reflexivity).
      apply Z.odd_spec in Hodd as [k ->]. lia. }
    rewrite !nth_overflow; [reflexivity | | lia].
    rewrite xor_list_length, parities_length. lia.
Qed.

Lemma flip_bits_chain D d x a :
  shape D d -> length x = d -> forall q, flip_bits (r_data D) (bits x a) q = bits (map negb x) a q.
Proof.
  intros Hs Hx q. unfold flip_bits. rewrite (sh_data D d Hs).
  destruct (zmem q (evens_from 0 d)) eqn:Hq.
  - apply zmem_evens in Hq as (j & Hj & ->). rewrite Z.add_0_l, !bits_even.
    rewrite (nth_indep (map negb x) false (negb false)) by (rewrite map_length; lia). now rewrite map_nth.
  - unfold bits. destruct (q <? 0) eqn:Eneg; [reflexivity|]. destruct (Z.even q) eqn:Eev; [|reflexivity].
    assert (Hj : (d <= Z.to_nat (q / 2))%nat).
    { destruct (Nat.lt_ge_cases (Z.to_nat (q / 2)) d) as [Hlt|]; [|assumption]. exfalso.
      assert (zmem q (evens_from 0 d) = true); [|congruence].
      apply zmem_evens. exists (Z.to_nat (q / 2)). split; [exact Hlt|].
      apply Z.even_spec in Eev as [k ->]. lia. }
    rewrite !nth_overflow; [reflexivity | rewrite map_length; lia | lia].
Qed.

(* ------------------------------------------------------------------ round_parity *)
Theorem round_parity D dd m x a :
  wf_desc D = true -> length x = length (r_data D) -> length a = (length (r_data D) - 1)%nat ->
  m_st m =s ast (bits x a) none ->
  let a' := xor_list a (parities x) in
  runs (round_instrs D dd) m (bits (if dd && r_refocus D then map negb x else x) a') none (rev a') [].
Proof.
  intros Hwf Hx Ha Hst a'. unfold wf_desc in Hwf. apply andb_true_iff in Hwf as [Hl Hsh].
  apply shape_ok_shape in Hsh. set (d := length (r_data D)) in *.
  pose proof (round_run D dd m (bits x a) Hl Hst) as Hrun.
  assert (Hlen' : length a' = (d - 1)%nat).
  { unfold a'. rewrite xor_list_length, parities_length. lia. }
  assert (Hout : map (round_bits D (bits x a)) (r_anc D) = a').
  { rewrite (map_ext _ (bits x a')) by (apply (round_bits_chain D d x a Hl Hsh Hx Ha)).
    rewrite (sh_anc D d Hsh), <- Hlen'. apply bits_anc. }
  rewrite Hout in Hrun. eapply runs_ext; [exact Hrun | | reflexivity].
  intro q. destruct (dd && r_refocus D).
  - unfold flip_bits. rewrite (round_bits_chain D d x a Hl Hsh Hx Ha q).
    apply (flip_bits_chain D d x a' Hsh Hx q).
  - apply (round_bits_chain D d x a Hl Hsh Hx Ha q).
Qed.
