(* Case evaluation for the C09 correspondence run.

   A case is either
   * CRep: one call of construct_repetition_code_circuit (description source, requested data / ancilla values, number
     of cycles) with what the implementation produced three times over (as constructed / after apply_modifiers() /
     after apply_modifiers().flatten()): stim's flattened() instruction list, 8 noise-free samples of the record, of
     the detection events and of the observable flips, whether detector_error_model() accepted the circuit, stim's
     counts; and the description object as read through its accessors; or
   * CProbe: a small hand-written Stim program with 64 samples of its record (the cross-check of the trusted
     Clifford facts of Sem.v against Stim).

   spec_ok : the statement of C09 on the implementation's output, WITHOUT the circuit model and without the semantics
             (Spec.v + the annotation reader of Stim.v only):  the record is the same in all 8 samples and equals the
             protocol's record (heralding zeros, accumulated parities XOR the requested ancilla values, refocusing
             flips in every cycle but the last, final data values -- so every requested data and ancilla value is
             visibly prepared); exactly (d-1)(cycles+1) detectors, none ever fires, Stim accepts them as
             deterministic, and the parities the exported detectors name on the sampled record are the protocol's
             (0 from the third cycle on for every initial state); one observable, deterministic, equal to the XOR
             of the final data values; the three variants export the identical instruction list.
   agree   : (i) the description model (desc_of_chain / desc_of_layout) = the description object, and it passes the
             well-formedness check the theorems assume (Wf.wf_desc); (ii) the exported
             program = rep_stim, instruction for instruction, in all three variants; (iii) Sem.exec of the exported
             program = what Stim sampled (record, detector parities, observable); probes: exec = Stim. *)
From Coq Require Import ZArith List Bool String.
Import ListNotations.
From QCE Require Import Base.Prelude C09.Stim C09.Spec C09.Sem C09.Model C09.Wf.
From Gen Require Import Layouts.
Open Scope Z_scope.

Inductive desc_src :=
| SrcChain (len : Z)                                     (* RepetitionCodeDescription.from_chain(length) *)
| SrcLayout (name : string) (involved : list string).    (* from_connectivity(involved, <layout>()) *)

Record variant := MkVariant {
  v_instrs : list rinstr;          (* to_stim(circuit).flattened() *)
  v_samples : list (list bool);    (* compile_sampler().sample(8) *)
  v_dets : list (list bool);       (* compile_detector_sampler().sample(8, separate_observables=True)[0] *)
  v_obs : list (list bool);        (* ... [1] *)
  v_dem_ok : bool;                 (* detector_error_model() did not raise *)
  v_nmeas : Z; v_ndet : Z; v_nobs : Z
}.

Record repcase := MkRep {
  c_src : desc_src; c_refocus : bool;
  c_init : list bool;              (* requested data values *)
  c_anc : option (list bool);      (* requested ancilla values (None: not given) *)
  c_cycles : Z;
  c_anc_source : anc_source;       (* which preparation code the source currently has (read by the harness) *)
  c_direct : bool;                 (* the state container was built directly (sparse / unordered dictionaries, absent = ZERO): the
                                      preparation instructions may be fewer and in another order, so only the executed behaviour is tied *)
  c_desc : rdesc;                  (* the description object, through its accessors *)
  c_plain : variant; c_unrolled : variant; c_flat : variant
}.

Inductive case :=
| CRep (r : repcase)
| CProbe (p : list rinstr) (samples : list (list bool))
| CError.                          (* the implementation raised *)

Definition bools_eqb : list bool -> list bool -> bool := leqb Bool.eqb.
Definition all_rows (rows : list (list bool)) (r : list bool) : bool :=
  nonempty rows && forallb (fun x => bools_eqb x r) rows.
Definition all_zero_rows (rows : list (list bool)) (n : Z) : bool :=
  nonempty rows && forallb (fun x => (Z.of_nat (List.length x) =? n) && forallb negb x) rows.

Definition anc_req (c : repcase) : list bool := match c_anc c with Some a => a | None => [] end.
Definition ncycles (c : repcase) : nat := Z.to_nat (c_cycles c).

(* ------------------------------------------------------------------ the specification on one variant *)
Definition spec_variant (c : repcase) (v : variant) : bool :=
  let x := c_init c in
  let a := anc_req c in
  let n := ncycles c in
  let rf := c_refocus c in
  let want := protocol_record x a n rf in
  let ndet := Z.of_nat (n_detectors x n) in
  all_rows (v_samples v) want
  && (v_nmeas v =? Z.of_nat (List.length want))
  && (v_ndet v =? ndet) && all_zero_rows (v_dets v) ndet && v_dem_ok v
  && (v_nobs v =? 1) && all_zero_rows (v_obs v) 1
  && match annot want (decode (v_instrs v)) with
     | Some (seen, ds, os) =>
         (seen =? Z.of_nat (List.length want))
         && bools_eqb ds (protocol_detectors x a n rf)
         && forallb (fun p => fst p =? 0) os
         && Bool.eqb (obs_value 0 os) (protocol_observable x a n rf)
     | None => false
     end.

Definition rinstr_eqb (a b : rinstr) : bool :=
  match a, b with
  | RI n1 a1 t1, RI n2 a2 t2 =>
      String.eqb n1 n2 && leqb Z.eqb a1 a2
      && leqb (fun x y => match x, y with RQ p, RQ q => p =? q | RR p, RR q => p =? q | _, _ => false end) t1 t2
  end.

Definition input_ok (c : repcase) : bool :=
  (0 <=? c_cycles c) && (1 <=? List.length (c_init c))%nat
  && (List.length (anc_req c) <=? List.length (c_init c) - 1)%nat.

Definition spec_rep (c : repcase) : bool :=
  input_ok c
  && spec_variant c (c_plain c) && spec_variant c (c_unrolled c) && spec_variant c (c_flat c)
  && leqb rinstr_eqb (v_instrs (c_plain c)) (v_instrs (c_unrolled c))
  && leqb rinstr_eqb (v_instrs (c_plain c)) (v_instrs (c_flat c)).

(* ------------------------------------------------------------------ the tie *)
Definition desc_model (c : repcase) : option rdesc :=
  match c_src c with
  | SrcChain len =>
      if Z.odd len && (0 <? len) then Some (desc_of_chain (Z.to_nat ((len + 1) / 2)) (c_refocus c)) else None
  | SrcLayout name inv =>
      match layout_named name with
      | Some L => if existsb (strs_eqb inv) (sub_chains (chain_of name))       (* a sub-chain the theorems range over *)
                  then Some (desc_of_layout L inv (c_refocus c)) else None
      | None => None
      end
  end.

Definition agree_variant (c : repcase) (D : rdesc) (v : variant) : bool :=
  let prog := decode (v_instrs v) in
  (c_direct c || prog_eqb prog (rep_stim D (c_init c) (anc_as_prepared (c_anc_source c) (c_init c) (anc_req c)) (ncycles c)))
  && match exec prog with
     | Some (r, ds, os) =>
         all_rows (v_samples v) r
         && match annot r prog with
            | Some (_, ds', os') => bools_eqb ds ds' && bools_eqb os [obs_value 0 os']
            | None => false
            end
     | None => false
     end.

Definition agree_rep (c : repcase) : bool :=
  match desc_model c with
  | Some D =>
      rdesc_eqb D (c_desc c) && wf_desc D
      && agree_variant c D (c_plain c) && agree_variant c D (c_unrolled c) && agree_variant c D (c_flat c)
  | None => false
  end.

(* probes: inside the fragment exec = the one record Stim samples; Random = Stim's samples differ *)
Definition all_equal (rows : list (list bool)) : bool :=
  match rows with [] => true | r :: t => forallb (fun x => bools_eqb x r) t end.
Definition agree_probe (p : list rinstr) (samples : list (list bool)) : bool :=
  let prog := decode p in
  match exec prog with
  | Some (r, _, _) => all_rows samples r
  | None => if is_random prog then negb (all_equal samples) else true        (* Outside: no claim *)
  end.

Definition agree (c : case) : bool :=
  match c with CRep r => agree_rep r | CProbe p s => agree_probe p s | CError => false end.
Definition spec_ok (c : case) : bool :=
  match c with CRep r => spec_rep r | CProbe _ _ => true | CError => false end.
