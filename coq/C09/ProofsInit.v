(* C09 -- the heralded initialisation, the detector / observable annotations and the final measurement of the
   closed-form program, under the product-state semantics. *)
From Coq Require Import ZArith List Bool Lia ZifyBool.
Import ListNotations.
From QCE Require Import Base.Prelude C09.Stim C09.Spec C09.Sem C09.Model C09.Wf C09.ProofsSem C09.ProofsRound C09.ProofsBits.
Open Scope Z_scope.
Ltac Zify.zify_post_hook ::= Z.to_euclidean_division_equations.

(* ------------------------------------------------------------------ small list facts *)
Lemma map_const {A} (l : list A) (b : bool) : map (fun _ => b) l = repeat b (length l).
Proof. induction l; simpl; congruence. Qed.

Lemma rev_repeat (b : bool) n : rev (repeat b n) = repeat b n.
Proof.
  induction n as [|n IH]; [reflexivity|]. simpl. rewrite IH.
  clear IH. induction n as [|n IH]; [reflexivity|]. simpl. now rewrite IH.
Qed.

Lemma pad_length n l : length (pad n l) = n.
Proof. unfold pad. rewrite firstn_length, app_length, repeat_length. lia. Qed.

Lemma nth_firstn_lt {A} (l : list A) n j d : (j < n)%nat -> nth j (firstn n l) d = nth j l d.
Proof.
  revert n j. induction l as [|x l IH]; intros [|n] [|j] H; simpl; try lia; try reflexivity.
  apply IH. lia.
Qed.

Lemma nth_pad n l j : (j < n)%nat -> nth j (pad n l) false = nth j l false.
Proof.
  intros H. unfold pad. rewrite nth_firstn_lt by exact H.
  destruct (Nat.lt_ge_cases j (length l)) as [Hl|Hl].
  - now rewrite app_nth1.
  - rewrite app_nth2 by lia. rewrite nth_overflow with (l := l) by lia.
    destruct (Nat.lt_ge_cases (j - length l) n) as [H2|H2].
    + rewrite nth_repeat. reflexivity.
    + rewrite nth_overflow; [reflexivity | rewrite repeat_length; lia].
Qed.

(* ------------------------------------------------------------------ preparation of basis states on a chain of positions *)
Lemma evens_from_ge s n q : In q (evens_from s n) -> s <= q.
Proof. intros H. apply evens_from_In in H as (j & _ & ->). lia. Qed.

Lemma evens_from_NoDup s n : NoDup (evens_from s n).
Proof.
  revert s. induction n as [|n IH]; intros s; simpl; constructor; [|apply IH].
  intros H. apply evens_from_ge in H. lia.
Qed.

Lemma runs_prep n : forall s bs m beta phi,
  (forall q, In q (evens_from s n) -> phi q = false /\ beta q = false) ->
  m_st m =s ast beta phi ->
  runs (map (fun qb => prep (fst qb) (snd qb)) (combine (evens_from s n) bs)) m
       (fun q => if zmem q (evens_from s n) then nth (Z.to_nat ((q - s) / 2)) bs false else beta q) phi [] [].
Proof.
  induction n as [|n IH]; intros s bs m beta phi Hq Hst.
  - simpl. apply runs_nil. exact Hst.
  - destruct bs as [|b bs].
    + simpl combine. simpl map. eapply runs_ext; [apply runs_nil; exact Hst | | reflexivity].
      intro q. cbv beta. destruct (zmem q (evens_from s (S n))) eqn:E.
      * apply zmem_In in E. rewrite (proj2 (Hq q E)). now destruct (Z.to_nat ((q - s) / 2)).
      * reflexivity.
    + cbn [evens_from combine map fst snd].
      change (prep s b :: ?r) with ([prep s b] ++ r).
      destruct (Hq s) as [Hps Hbs]; [cbn [evens_from]; now left|].
      eapply runs_ext.
      * eapply runs_app0.
        -- (* the one preparation: I or X on |0> *)
           instantiate (1 := phi). instantiate (1 := updb beta s b).
           unfold runs, run, prep. simpl rfold.
           eexists. split; [reflexivity|]. split; [|repeat split; reflexivity].
           intro q. simpl. unfold upd, updb, ast. destruct (q =? s) eqn:E.
           ++ apply Z.eqb_eq in E. subst q. rewrite Hst. unfold ast. rewrite Hps, Hbs. now destruct b.
           ++ rewrite Hst. reflexivity.
        -- intros m1 S1. apply (IH (s + 2) bs m1 (updb beta s b) phi); [|exact S1].
           intros q Hin. destruct (Hq q) as [H1 H2]; [cbn [evens_from]; now right|].
           split; [exact H1|]. unfold updb. apply evens_from_ge in Hin.
           assert (q =? s = false) as -> by lia. exact H2.
      * intro q. cbv beta.
        change (zmem q (s :: evens_from (s + 2) n)) with ((q =? s) || zmem q (evens_from (s + 2) n)).
        destruct (q =? s) eqn:E.
        -- apply Z.eqb_eq in E. subst q.
           assert (zmem s (evens_from (s + 2) n) = false) as ->.
           { apply zmem_false. intros H. apply evens_from_ge in H. lia. }
           cbn [orb]. unfold updb. rewrite Z.eqb_refl. replace ((s - s) / 2) with 0 by lia. reflexivity.
        -- cbn [orb]. destruct (zmem q (evens_from (s + 2) n)) eqn:E2.
           ++ apply zmem_In in E2. apply evens_from_In in E2 as (j & Hj & ->).
              replace (Z.to_nat ((s + 2 + 2 * Z.of_nat j - (s + 2)) / 2)) with j by lia.
              replace (Z.to_nat ((s + 2 + 2 * Z.of_nat j - s) / 2)) with (S j) by lia. reflexivity.
           ++ unfold updb. now rewrite E.
      * reflexivity.
Qed.

(* ------------------------------------------------------------------ detectors over a known record *)
Lemma parity_at_1 r k b : rec_at r k = Some b -> parity_at r [k] = Some b.
Proof. intros H. unfold parity_at. simpl. rewrite H. simpl. now rewrite xorb_false_r. Qed.
Lemma parity_at_2 r k1 k2 b1 b2 :
  rec_at r k1 = Some b1 -> rec_at r k2 = Some b2 -> parity_at r [k1; k2] = Some (xorb b1 b2).
Proof. intros H1 H2. unfold parity_at. simpl. rewrite H1, H2. simpl. now rewrite xorb_false_r. Qed.

Lemma parity_at_all r ks bs : map (rec_at r) ks = map Some bs -> parity_at r ks = Some (xor_all bs).
Proof.
  intros H. unfold parity_at. rewrite H. clear H.
  assert (opt_all (map Some bs) = Some bs) as -> by (induction bs as [|b bs IH]; simpl; [reflexivity | now rewrite IH]).
  reflexivity.
Qed.

Lemma run_dets {Q} (f : Z -> Q -> instr) (val : nat -> bool) : forall (qs : list Q) j0 m,
  (forall i q, nth_error qs i = Some q ->
     exists args ks, f (Z.of_nat (j0 + i)) q = IDet args ks /\ parity_at (m_rec m) ks = Some (val (j0 + i)%nat)) ->
  run (map (fun jq => f (fst jq) (snd jq)) (enum_from (Z.of_nat j0) qs)) m
  = Ok (MkM (m_st m) (m_rec m) (rev (map val (seq j0 (length qs))) ++ m_det m) (m_obs m)).
Proof.
  induction qs as [|q qs IH]; intros j0 m Hf.
  - simpl. destruct m; reflexivity.
  - cbn [enum_from map fst snd length seq]. rewrite run_cons.
    destruct (Hf O q eq_refl) as (args & ks & Ef & Ep). rewrite Nat.add_0_r in Ef, Ep.
    rewrite Ef. cbn [step]. rewrite Ep. cbn [rbind].
    replace (Z.of_nat j0 + 1) with (Z.of_nat (S j0)) by lia.
    rewrite IH.
    + cbn [m_st m_rec m_det m_obs]. simpl rev. now rewrite <- app_assoc.
    + intros i q' Hi. cbn [m_rec]. replace (S j0 + i)%nat with (j0 + S i)%nat by lia. apply Hf. exact Hi.
Qed.

(* ------------------------------------------------------------------ observables *)
Lemma run_obs (d : nat) (xs : list bool) : forall qs j0 m acc,
  (j0 + length qs = d)%nat -> length xs = d ->
  (exists R, m_rec m = rev xs ++ R) ->
  m_obs m = (match j0 with O => [] | _ => [acc] end) ->
  run (map (fun iq : Z * Z => IObs 0 [- (Z.of_nat d - fst iq)]) (enum_from (Z.of_nat j0) qs)) m
  = Ok (MkM (m_st m) (m_rec m) (m_det m)
            (match (j0 + length qs)%nat with
             | O => []
             | _ => [fold_left xorb (firstn (length qs) (skipn j0 xs)) (match j0 with O => false | _ => acc end)]
             end)).
Proof.
  induction qs as [|q qs IH]; intros j0 m acc Hn Hx HR Ho.
  - simpl. rewrite Nat.add_0_r. destruct m as [st r dt ob]. simpl in *. subst ob. destruct j0; reflexivity.
  - cbn [enum_from map fst snd length]. rewrite run_cons. cbn [step].
    destruct HR as [R HR].
    assert (Hrec : rec_at (m_rec m) (- (Z.of_nat d - Z.of_nat j0)) = Some (nth j0 xs false)).
    { rewrite HR, <- Hx. apply rec_at_block. simpl in Hn. lia. }
    rewrite (parity_at_1 _ _ _ Hrec). assert (0 <? 0 = false) as -> by reflexivity.
    cbn [rbind]. replace (Z.of_nat j0 + 1) with (Z.of_nat (S j0)) by lia.
    set (acc' := xorb (match j0 with O => false | _ => acc end) (nth j0 xs false)).
    rewrite (IH (S j0) _ acc'); cbn [m_st m_rec m_det m_obs].
    + replace (S j0 + length qs)%nat with (j0 + S (length qs))%nat by lia.
      destruct (j0 + S (length qs))%nat eqn:E; [lia|].
      f_equal. f_equal. f_equal.
      assert (Hsk : skipn j0 xs = nth j0 xs false :: skipn (S j0) xs).
      { simpl in Hn. assert (j0 < length xs)%nat by lia. clear -H. revert j0 H.
        induction xs as [|b xs IHx]; intros [|j] H; simpl in *; try lia; [reflexivity|]. apply IHx. lia. }
      rewrite Hsk. reflexivity.
    + simpl in Hn. lia.
    + exact Hx.
    + exists R. exact HR.
    + rewrite Ho. unfold acc'. destruct j0; simpl; [now destruct (nth 0 xs false)|].
      reflexivity.
Qed.

Lemma run_obs0 (xs : list bool) (qs : list Z) m :
  (1 <= length qs)%nat -> length xs = length qs ->
  (exists R, m_rec m = rev xs ++ R) -> m_obs m = [] ->
  run (map (fun iq : Z * Z => IObs 0 [- (Z.of_nat (length qs) - fst iq)]) (enum_from 0 qs)) m
  = Ok (MkM (m_st m) (m_rec m) (m_det m) [fold_left xorb xs false]).
Proof.
  intros H1 Hx HR Ho.
  pose proof (run_obs (length qs) xs qs 0 m false eq_refl Hx HR Ho) as H.
  change (Z.of_nat 0) with 0 in H. rewrite H. cbn [Nat.add skipn].
  destruct (length qs) eqn:E; [lia|]. rewrite <- Hx, firstn_all. reflexivity.
Qed.

Lemma fold_left_xorb l b : fold_left xorb l b = xorb b (fold_right xorb false l).
Proof.
  revert b. induction l as [|c l IH]; intros b; simpl; [now rewrite xorb_false_r|].
  rewrite IH. now rewrite xorb_assoc.
Qed.
