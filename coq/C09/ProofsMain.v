(* C09 -- the whole closed-form program, by induction on the number of rounds: for a well-formed description D,
   data values x and prepared ancilla values ancp, `exec (rep_stim D x ancp c)` is the protocol's record, the
   protocol's detector parities and the protocol's observable. *)
From Coq Require Import ZArith List Bool Lia ZifyBool.
Import ListNotations.
From QCE Require Import Base.Prelude C09.Stim C09.Spec C09.Sem C09.Model C09.Wf
  C09.ProofsSem C09.ProofsRound C09.ProofsBits C09.ProofsInit.
Open Scope Z_scope.
Ltac Zify.zify_post_hook ::= Z.to_euclidean_division_equations.

Lemma flat_map_ext_in {A B} (f g : A -> list B) (l : list A) :
  (forall a, In a l -> f a = g a) -> flat_map f l = flat_map g l.
Proof.
  induction l as [|a l IH]; intros H; [reflexivity|]. simpl.
  rewrite (H a (or_introl eq_refl)), IH; [reflexivity|]. intros b Hb. apply H. now right.
Qed.

Lemma pos_in_evens s d j : (j < d)%nat -> pos_in (s + 2 * Z.of_nat j) (evens_from s d) = Z.of_nat j.
Proof.
  revert s j. induction d as [|d IH]; intros s j H; [lia|]. cbn [evens_from pos_in].
  destruct j as [|j].
  - assert (s =? s + 2 * Z.of_nat 0 = true) as -> by lia. reflexivity.
  - assert (s =? s + 2 * Z.of_nat (S j) = false) as -> by lia.
    replace (s + 2 * Z.of_nat (S j)) with (s + 2 + 2 * Z.of_nat j) by lia. rewrite IH by lia. lia.
Qed.

Lemma combine_enum {A B C} (g : Z -> A -> B -> C) (l : list A) (r : list B) : forall j0,
  map (fun x => g (fst (fst x)) (snd (fst x)) (snd x)) (combine (enum_from j0 l) r)
  = map (fun jq => g (fst jq) (fst (snd jq)) (snd (snd jq))) (enum_from j0 (combine l r)).
Proof.
  revert r. induction l as [|a l IH]; intros [|b r] j0; try reflexivity.
  cbn [enum_from combine map fst snd]. f_equal. apply IH.
Qed.

Lemma nth_combine {A B} (l : list A) (r : list B) j da db :
  (j < length l)%nat -> (j < length r)%nat -> nth j (combine l r) (da, db) = (nth j l da, nth j r db).
Proof.
  revert r j. induction l as [|a l IH]; intros [|b r] [|j] H1 H2; simpl in *; try lia; [reflexivity|].
  apply IH; lia.
Qed.

Lemma match_ge2 {A} (n : nat) (a b e : A) :
  (2 <= n)%nat -> match n with O => a | S O => b | S (S _) => e end = e.
Proof. destruct n as [|[|n]]; intros; try lia; reflexivity. Qed.

Section Main.
Variable D : rdesc.
Variables (x ancp : list bool) (c : nat).
Hypothesis Hwf : wf_desc D = true.
Hypothesis Hx : length x = length (r_data D).
Hypothesis Hanc : (length ancp <= length (r_data D) - 1)%nat.

Let d := length (r_data D).
Let rf := r_refocus D.
Let a0 := pad (d - 1) ancp.

Lemma Hl : layers_ok D = true.
Proof. unfold wf_desc in Hwf. now apply andb_true_iff in Hwf as [H _]. Qed.
Lemma Hsh : shape D d.
Proof. unfold wf_desc in Hwf. apply andb_true_iff in Hwf as [_ H]. now apply shape_ok_shape. Qed.

(* the protocol run forwards: data / ancilla values after t of the c cycles *)
Fixpoint fwd (t : nat) : list bool * list bool :=
  match t with
  | O => (x, a0)
  | S t' => let p := fwd t' in
            (if rf && negb (S t' =? c)%nat then map negb (fst p) else fst p, xor_list (snd p) (parities (fst p)))
  end.
Definition xs (t : nat) := fst (fwd t).
Definition an (t : nat) := snd (fwd t).

Lemma fwd_len t : length (xs t) = d /\ length (an t) = (d - 1)%nat.
Proof.
  unfold xs, an. induction t as [|t [IH1 IH2]].
  - simpl. split; [exact Hx | apply pad_length].
  - cbn [fwd fst snd]. split.
    + destruct (rf && negb (S t =? c)%nat); [rewrite map_length|]; exact IH1.
    + rewrite xor_list_length, parities_length, IH1, IH2. lia.
Qed.
Lemma xs_len t : length (xs t) = d. Proof. apply fwd_len. Qed.
Lemma an_len t : length (an t) = (d - 1)%nat. Proof. apply fwd_len. Qed.
Lemma nanc_d : nanc D = Z.of_nat (d - 1).
Proof. unfold nanc. rewrite (sh_anc D d Hsh), evens_from_length. reflexivity. Qed.
Lemma anc_len : length (r_anc D) = (d - 1)%nat.
Proof. rewrite (sh_anc D d Hsh). apply evens_from_length. Qed.

Definition outs_upto (t : nat) : list bool := concat (map (fun i => an (S i)) (seq 0 t)).
Definition det_of (i : nat) : list bool := if (i <? 2)%nat then an (S i) else xor_list (an (S i)) (an (i - 1)).
Definition dets_upto (t : nat) : list bool := concat (map det_of (seq 0 t)).
Definition zeros : list bool := repeat false (2 * d - 1).

Lemma outs_upto_S t : outs_upto (S t) = outs_upto t ++ an (S t).
Proof. unfold outs_upto. rewrite seq_S, map_app, concat_app. simpl. now rewrite app_nil_r. Qed.
Lemma dets_upto_S t : dets_upto (S t) = dets_upto t ++ det_of t.
Proof. unfold dets_upto. rewrite seq_S, map_app, concat_app. simpl. now rewrite app_nil_r. Qed.
Lemma det_of_len t : length (det_of t) = (d - 1)%nat.
Proof. unfold det_of. destruct (t <? 2)%nat; [apply an_len | rewrite xor_list_length, !an_len; lia]. Qed.

Definition Inv (t : nat) (m : mstate) : Prop :=
  m_st m =s ast (bits (xs t) (an t)) none
  /\ m_rec m = rev (outs_upto t) ++ zeros /\ m_det m = rev (dets_upto t) /\ m_obs m = [].

(* ------------------------------------------------------------------ initialisation *)
Lemma init_ok : exists m, run (init_part D x ancp) start = Ok m /\ Inv 0 m.
Proof.
  assert (H : runs (init_part D x ancp) start (bits x a0) none zeros []).
  { unfold init_part.
    eapply runs_app0.
    { eapply runs_ext.
      - apply (runs_reset (r_qubits D) start (fun _ => false) none). intro q. reflexivity.
      - instantiate (1 := fun _ => false). intro q. cbv beta. now destruct (zmem q (r_qubits D)).
      - instantiate (1 := none). intro q. cbv beta. now destruct (zmem q (r_qubits D)). }
    intros m1 S1. eapply runs_appL.
    { assert (Hz : zeros = rev (map (fun _ : Z => false) (r_qubits D))).
      { rewrite map_const, rev_repeat, (sh_qubits D d Hsh). reflexivity. }
      rewrite Hz. apply runs_measure; [|exact S1]. reflexivity. }
    intros m2 S2. eapply runs_app0; [apply (runs_tick_if true); exact S2|].
    intros m3 S3. rewrite (sh_data D d Hsh), (sh_anc D d Hsh). eapply runs_app0.
    { apply (runs_prep d 0 x m3 (fun _ => false) none); [|exact S3]. intros q _. split; reflexivity. }
    intros m4 S4. eapply runs_app0.
    { eapply (runs_prep (d - 1) 1 ancp m4); [|exact S4]. intros q Hq. split; [reflexivity|]. cbv beta.
      assert (zmem q (evens_from 0 d) = false) as ->; [|reflexivity].
      apply zmem_false. intros H0. apply evens_from_In in Hq as (j & _ & ->). apply evens_from_In in H0 as (j' & _ & E). lia. }
    intros m5 S5. eapply runs_ext; [apply (runs_tick_if true); exact S5 | | reflexivity].
    (* the prepared bits are bits x a0 *)
    intro q. cbv beta. unfold bits.
    destruct (zmem q (evens_from 1 (d - 1))) eqn:E1.
    - apply zmem_evens in E1 as (j & Hj & ->).
      assert (1 + 2 * Z.of_nat j <? 0 = false) as -> by lia.
      replace (1 + 2 * Z.of_nat j) with (2 * Z.of_nat j + 1) by lia.
      rewrite Z.add_comm, Z.even_add_mul_2. change (Z.even 1) with false. cbv iota.
      replace (Z.to_nat ((1 + 2 * Z.of_nat j - 1) / 2)) with j by lia.
      replace (Z.to_nat ((1 + 2 * Z.of_nat j) / 2)) with j by lia.
      unfold a0. now rewrite nth_pad.
    - destruct (zmem q (evens_from 0 d)) eqn:E0.
      + apply zmem_evens in E0 as (j & Hj & ->). rewrite Z.add_0_l.
        assert (2 * Z.of_nat j <? 0 = false) as -> by lia.
        rewrite Z.even_mul. change (Z.even 2) with true. cbn [orb].
        f_equal. lia.
      + destruct (q <? 0) eqn:En; [reflexivity|]. destruct (Z.even q) eqn:Ee.
        * rewrite nth_overflow; [reflexivity|]. rewrite Hx. fold d.
          destruct (Nat.lt_ge_cases (Z.to_nat (q / 2)) d) as [Hlt|]; [|assumption]. exfalso.
          assert (zmem q (evens_from 0 d) = true); [|congruence].
          apply zmem_evens. exists (Z.to_nat (q / 2)). split; [exact Hlt|]. apply Z.even_spec in Ee as [k ->]. lia.
        * rewrite nth_overflow; [reflexivity|]. unfold a0. rewrite pad_length.
          destruct (Nat.lt_ge_cases (Z.to_nat (q / 2)) (d - 1)) as [Hlt|]; [|assumption]. exfalso.
          assert (zmem q (evens_from 1 (d - 1)) = true); [|congruence].
          apply zmem_evens. exists (Z.to_nat (q / 2)). split; [exact Hlt|].
          assert (Hodd : Z.odd q = true) by (rewrite <- Z.negb_even, Ee; reflexivity).
          apply Z.odd_spec in Hodd as [k ->]. lia. }
  destruct H as (m & R & S & Rc & Dt & Ob). exists m. split; [exact R|].
  unfold Inv. split; [exact S|]. simpl in *. rewrite Rc, Dt, Ob, app_nil_r. auto.
Qed.

(* ------------------------------------------------------------------ one round with its detectors *)
Definition back_of (t : nat) : option Z := if (t <? 2)%nat then None else Some (2 * nanc D).

Lemma outs_upto_back t : (2 <= t)%nat -> outs_upto t = outs_upto (t - 2) ++ an (t - 1) ++ an t.
Proof.
  intros H. replace t with (S (S (t - 2))) at 1 by lia. rewrite !outs_upto_S, <- app_assoc.
  repeat f_equal; lia.
Qed.

Lemma block_run t m tail :
  (t < c)%nat -> Inv t m -> (tail = [] \/ tail = [ITick]) ->
  exists m', run (round_instrs D (negb (S t =? c)%nat) ++ round_detectors D (Z.of_nat t) (back_of t) ++ tail) m = Ok m'
             /\ Inv (S t) m'.
Proof.
  intros Ht (St & Rc & Dt & Ob) Htail.
  set (dd := negb (S t =? c)%nat).
  destruct (round_parity D dd m (xs t) (an t) Hwf (xs_len t) (an_len t) St) as (m1 & R1 & S1 & Rc1 & D1 & O1).
  change (xor_list (an t) (parities (xs t))) with (an (S t)) in *.
  rewrite run_app, R1. cbn [rbind]. rewrite run_app.
  set (f := fun (j q : Z) => IDet [q; Z.of_nat t]
               (match back_of t with
                | Some o => [- (nanc D - j); - (nanc D - j) - o]
                | None => [- (nanc D - j)]
                end)).
  change (round_detectors D (Z.of_nat t) (back_of t))
    with (map (fun jq : Z * Z => f (fst jq) (snd jq)) (enum_from (Z.of_nat 0) (r_anc D))).
  assert (Hrec1 : m_rec m1 = rev (an (S t)) ++ rev (outs_upto t) ++ zeros) by (rewrite Rc1, Rc; reflexivity).
  rewrite (run_dets f (fun j => nth j (det_of t) false) (r_anc D) 0 m1).
  - cbn [rbind].
    assert (Hrt : run tail (MkM (m_st m1) (m_rec m1)
                     (rev (map (fun j => nth j (det_of t) false) (seq 0 (length (r_anc D)))) ++ m_det m1) (m_obs m1))
                  = Ok (MkM (m_st m1) (m_rec m1)
                     (rev (map (fun j => nth j (det_of t) false) (seq 0 (length (r_anc D)))) ++ m_det m1) (m_obs m1))).
    { destruct Htail as [-> | ->]; reflexivity. }
    rewrite Hrt. eexists. split; [reflexivity|].
    unfold Inv. cbn [m_st m_rec m_det m_obs]. repeat split.
    + intro q. rewrite S1. unfold ast, none. f_equal. unfold xs at 3. cbn [fwd fst].
      fold (xs t). fold dd. now rewrite (andb_comm rf dd).
    + rewrite Hrec1, outs_upto_S, rev_app_distr, app_assoc. reflexivity.
    + rewrite anc_len, <- (det_of_len t), map_nth_seq, D1, Dt, dets_upto_S, rev_app_distr. reflexivity.
    + now rewrite O1.
  - intros j q Hj. assert (Hj' : (j < d - 1)%nat) by (rewrite <- anc_len; apply nth_error_Some; congruence).
    clear Hj. rename Hj' into Hj. cbn [Nat.add]. unfold f. unfold back_of, det_of. destruct (t <? 2)%nat eqn:Et.
    + eexists _, _. split; [reflexivity|]. apply parity_at_1.
      rewrite Hrec1, nanc_d, <- (an_len (S t)). apply rec_at_block. rewrite an_len. exact Hj.
    + apply Nat.ltb_ge in Et. eexists _, _. split; [reflexivity|].
      assert (Hx2 : nth j (xor_list (an (S t)) (an (t - 1))) false
                    = xorb (nth j (an (S t)) false) (nth j (an (t - 1)) false)).
      { destruct (nth_xor_list (an (S t)) (an (t - 1)) j) as [E|E]; [exact E | rewrite !an_len in E; lia]. }
      rewrite Hx2. apply parity_at_2.
      * rewrite Hrec1, nanc_d, <- (an_len (S t)). apply rec_at_block. rewrite an_len. exact Hj.
      * rewrite Hrec1, (outs_upto_back t Et), !rev_app_distr, <- !app_assoc.
        replace (- (nanc D - Z.of_nat j) - 2 * nanc D)
          with (- (nanc D - Z.of_nat j) - Z.of_nat (length (rev (an t))) - Z.of_nat (length (rev (an (S t)))))
          by (rewrite !rev_length, !an_len, nanc_d; lia).
        rewrite rec_at_app_r by (rewrite rev_length, an_len, nanc_d; lia).
        rewrite rec_at_app_r by (rewrite nanc_d; lia).
        rewrite nanc_d, <- (an_len (t - 1)). apply rec_at_block. rewrite an_len. exact Hj.
Qed.

(* ------------------------------------------------------------------ all rounds *)
Definition round_block (t : nat) : list instr :=
  if (S t =? c)%nat then block_third D (Z.of_nat t) (2 <? c)%nat
  else if (t <? 2)%nat then block_first D (Z.of_nat t) else block_second D (Z.of_nat t).

Lemma round_block_form t :
  exists tail, (tail = [] \/ tail = [ITick])
    /\ round_block t = round_instrs D (negb (S t =? c)%nat) ++ round_detectors D (Z.of_nat t) (back_of t) ++ tail.
Proof.
  unfold round_block, back_of. destruct (S t =? c)%nat eqn:E1.
  - exists []. split; [now left|]. apply Nat.eqb_eq in E1. subst c. unfold block_third. rewrite app_nil_r.
    cbn [negb]. do 2 f_equal. destruct (2 <? S t)%nat eqn:E2, (t <? 2)%nat eqn:E3; try reflexivity.
    + apply Nat.ltb_lt in E2. apply Nat.ltb_lt in E3. lia.
    + apply Nat.ltb_ge in E2. apply Nat.ltb_ge in E3. lia.
  - destruct (t <? 2)%nat.
    + exists []. split; [now left|]. unfold block_first. now rewrite app_nil_r.
    + exists [ITick]. split; [now right|]. reflexivity.
Qed.

Lemma qec_part_flat : (1 <= c)%nat -> qec_part D c = flat_map round_block (seq 0 c).
Proof.
  intros Hc. unfold qec_part. destruct c as [|[|[|[|k]]]] eqn:Ec; [lia| | | |].
  - cbn. unfold round_block. rewrite Ec. cbn. rewrite ?app_nil_r, <- ?app_assoc. reflexivity.
  - cbn. unfold round_block. rewrite Ec. cbn. rewrite ?app_nil_r, <- ?app_assoc. reflexivity.
  - cbn. unfold round_block. rewrite Ec. cbn. rewrite ?app_nil_r, <- ?app_assoc. reflexivity.
  - assert (H1 : (1 <? S (S (S (S k))))%nat = true) by (apply Nat.ltb_lt; lia).
    assert (H3 : (3 <? S (S (S (S k))))%nat = true) by (apply Nat.ltb_lt; lia).
    assert (H2 : (2 <? S (S (S (S k))))%nat = true) by (apply Nat.ltb_lt; lia).
    rewrite H1, H3, H2.
    replace (Nat.min 2 (S (S (S (S k))) - 1)) with 2%nat by lia.
    replace (S (S (S (S k))) - 3)%nat with (S k) by lia.
    replace (seq 0 (S (S (S (S k))))) with (seq 0 2 ++ seq 2 (S k) ++ [S (S (S k))]).
    2:{ symmetry. change (S (S (S (S k)))) with (2 + (S (S k)))%nat. rewrite seq_app.
        change (0 + 2)%nat with 2%nat. f_equal. rewrite (seq_S (S k) 2). reflexivity. }
    rewrite !flat_map_app. f_equal; [|f_equal].
    + apply flat_map_ext_in. intros t Ht. apply in_seq in Ht. unfold round_block. rewrite Ec.
      assert ((S t =? S (S (S (S k))))%nat = false) as -> by (apply Nat.eqb_neq; lia).
      assert ((t <? 2)%nat = true) as -> by (apply Nat.ltb_lt; lia). reflexivity.
    + apply flat_map_ext_in. intros t Ht. apply in_seq in Ht. unfold round_block. rewrite Ec.
      assert ((S t =? S (S (S (S k))))%nat = false) as -> by (apply Nat.eqb_neq; lia).
      assert ((t <? 2)%nat = false) as -> by (apply Nat.ltb_ge; lia). reflexivity.
    + cbn [flat_map]. rewrite app_nil_r. unfold round_block. rewrite Ec, Nat.eqb_refl, H2. reflexivity.
Qed.

Lemma rounds_ok t :
  (t <= c)%nat -> exists m, run (init_part D x ancp ++ flat_map round_block (seq 0 t)) start = Ok m /\ Inv t m.
Proof.
  induction t as [|t IH]; intros Ht.
  - simpl. rewrite app_nil_r. apply init_ok.
  - destruct IH as (m & R & I); [lia|].
    destruct (round_block_form t) as (tail & Htail & Eb).
    destruct (block_run t m tail) as (m' & R' & I'); [lia | exact I | exact Htail |].
    exists m'. split; [|exact I'].
    rewrite seq_S. change (0 + t)%nat with t. rewrite flat_map_app, app_assoc, run_app, R.
    cbn [rbind flat_map]. rewrite app_nil_r, Eb. exact R'.
Qed.

(* ------------------------------------------------------------------ final measurement, final detectors, observable *)
Definition fdet (xc : list bool) (j : nat) : bool :=
  let p := xorb (nth j xc false) (nth (S j) xc false) in
  match c with
  | O => p
  | S O => xorb p (nth j (an 1) false)
  | _ => xorb (xorb p (nth j (an c) false)) (nth j (an (c - 1)) false)
  end.

Lemma nth_error_combine {A B} (l : list A) (r : list B) i a b :
  nth_error (combine l r) i = Some (a, b) -> nth_error l i = Some a /\ nth_error r i = Some b.
Proof.
  revert r i. induction l as [|u l IH]; intros [|v r] [|i] H; simpl in *; try discriminate.
  - inversion H. auto.
  - apply IH. exact H.
Qed.

Lemma nth_error_evens s n i a : nth_error (evens_from s n) i = Some a -> a = s + 2 * Z.of_nat i /\ (i < n)%nat.
Proof.
  revert s i. induction n as [|n IH]; intros s [|i] H; cbn [evens_from nth_error] in H; try discriminate.
  - inversion H. split; lia.
  - apply IH in H as [-> H]. split; lia.
Qed.

Lemma final_run m xc ac Lrec :
  length xc = d -> m_st m =s ast (bits xc ac) none -> m_rec m = rev Lrec ++ zeros -> m_obs m = [] ->
  (c = O \/ (c = 1%nat /\ Lrec = an 1) \/ ((2 <= c)%nat /\ Lrec = outs_upto (c - 2) ++ an (c - 1) ++ an c)) ->
  exists m', run (final_part D c) m = Ok m'
             /\ m_rec m' = rev xc ++ m_rec m
             /\ m_det m' = rev (map (fdet xc) (seq 0 (d - 1))) ++ m_det m
             /\ m_obs m' = [fold_right xorb false xc].
Proof.
  intros Hxc St Rc Ob Hc. unfold final_part.
  (* the data measurements *)
  destruct (runs_measure (r_data D) m (bits xc ac) none) as (m1 & R1 & S1 & Rc1 & D1 & O1); [reflexivity | exact St |].
  assert (Hmap : map (bits xc ac) (r_data D) = xc).
  { rewrite (sh_data D d Hsh), <- Hxc. apply bits_data. }
  rewrite Hmap in Rc1. simpl in D1.
  rewrite run_app, R1. cbn [rbind]. rewrite run_app.
  (* the final detectors *)
  rewrite (combine_enum (final_detector D c) (r_anc D) (r_nbr D) 0).
  set (f := fun (j : Z) (q : Z * (Z * Z)) => final_detector D c j (fst q) (snd q)).
  change (map (fun jq : Z * (Z * (Z * Z)) => final_detector D c (fst jq) (fst (snd jq)) (snd (snd jq)))
              (enum_from 0 (combine (r_anc D) (r_nbr D))))
    with (map (fun jq : Z * (Z * (Z * Z)) => f (fst jq) (snd jq)) (enum_from (Z.of_nat 0) (combine (r_anc D) (r_nbr D)))).
  assert (Hrec1 : m_rec m1 = rev xc ++ rev Lrec ++ zeros) by (rewrite Rc1, Rc; reflexivity).
  rewrite (run_dets f (fdet xc) (combine (r_anc D) (r_nbr D)) 0 m1).
  - cbn [rbind].
    assert (Hlen : length (combine (r_anc D) (r_nbr D)) = (d - 1)%nat).
    { rewrite combine_length, anc_len, (sh_nbr_len D d Hsh). lia. }
    rewrite Hlen.
    (* the observable *)
    pose proof (sh_pos D d Hsh) as Hpos.
    set (m2 := MkM (m_st m1) (m_rec m1) (rev (map (fdet xc) (seq 0 (d - 1))) ++ m_det m1) (m_obs m1)).
    rewrite (run_obs0 xc (r_data D) m2).
    + eexists. split; [reflexivity|]. cbn [m_st m_rec m_det m_obs m2]. repeat split.
      * exact Rc1.
      * now rewrite D1.
      * f_equal. rewrite fold_left_xorb. apply xorb_false_l.
    + exact Hpos.
    + exact Hxc.
    + exists (rev Lrec ++ zeros). exact Hrec1.
    + cbn [m_obs m2]. now rewrite O1.
  - (* every final detector reads the right entries *)
    intros i [q [l r]] Hi. cbn [Nat.add].
    apply nth_error_combine in Hi as [Hq Hnb].
    pose proof (sh_nbr D d Hsh (q, (l, r))) as Hok. cbn [fst snd] in Hok.
    assert (Hin : In (q, (l, r)) (combine (r_anc D) (r_nbr D))).
    { apply nth_error_In with (n := i). clear -Hq Hnb. revert Hq Hnb. generalize (r_anc D) (r_nbr D). intros la lb.
      revert lb i. induction la as [|u la IH]; intros [|v lb] [|i] H1 H2; simpl in *; try discriminate.
      - inversion H1; inversion H2; reflexivity.
      - apply IH; assumption. }
    specialize (Hok Hin). rewrite (sh_anc D d Hsh) in Hq. apply nth_error_evens in Hq as [-> Hi].
    unfold f, final_detector. cbn [fst snd]. change (Z.of_nat (length (r_data D))) with (Z.of_nat d).
    rewrite (sh_data D d Hsh).
    assert (Hpl : exists pl pr, pos_in l (evens_from 0 d) = Z.of_nat pl /\ pos_in r (evens_from 0 d) = Z.of_nat pr
                 /\ (pl < d)%nat /\ (pr < d)%nat
                 /\ xorb (nth pl xc false) (nth pr xc false) = xorb (nth i xc false) (nth (S i) xc false)).
    { unfold nbr_ok in Hok. cbn [fst snd] in Hok. apply orb_true_iff in Hok as [H|H]; apply andb_true_iff in H as [H1 H2];
        apply Z.eqb_eq in H1; apply Z.eqb_eq in H2; subst l r.
      - exists i, (S i). replace (1 + 2 * Z.of_nat i - 1) with (0 + 2 * Z.of_nat i) by lia.
        replace (1 + 2 * Z.of_nat i + 1) with (0 + 2 * Z.of_nat (S i)) by lia.
        rewrite !pos_in_evens by lia. repeat split; lia.
      - exists (S i), i. replace (1 + 2 * Z.of_nat i - 1) with (0 + 2 * Z.of_nat i) by lia.
        replace (1 + 2 * Z.of_nat i + 1) with (0 + 2 * Z.of_nat (S i)) by lia.
        rewrite !pos_in_evens by lia. repeat split; try lia. apply xorb_comm. }
    destruct Hpl as (pl & pr & -> & -> & Hpl & Hpr & Hxor).
    assert (Hmain : forall p, (p < d)%nat -> rec_at (m_rec m1) (- (Z.of_nat d - Z.of_nat p)) = Some (nth p xc false)).
    { intros p Hp. rewrite Hrec1, <- Hxc. apply rec_at_block. lia. }
    assert (Href : forall k, k < 0 -> rec_at (m_rec m1) (k - Z.of_nat d) = rec_at (rev Lrec ++ zeros) k).
    { intros k Hk. rewrite Hrec1. rewrite <- Hxc, <- (rev_length xc). apply rec_at_app_r. exact Hk. }
    unfold fdet. destruct Hc as [Hc | [[Hc HL] | [Hc HL]]].
    + rewrite Hc. eexists _, _. split; [reflexivity|].
      rewrite (parity_at_all _ _ [nth pl xc false; nth pr xc false]).
      * cbn [xor_all fold_right]. now rewrite xorb_false_r, Hxor.
      * cbn [map]. now rewrite !Hmain.
    + rewrite Hc. eexists _, _. split; [reflexivity|].
      rewrite (parity_at_all _ _ [nth pl xc false; nth pr xc false; nth i (an 1) false]).
      * cbn [xor_all fold_right]. rewrite xorb_false_r, <- Hxor. now rewrite xorb_assoc.
      * cbn [map]. rewrite !Hmain by assumption.
        replace (- (nanc D - Z.of_nat i + Z.of_nat d)) with (- (nanc D - Z.of_nat i) - Z.of_nat d) by lia.
        rewrite Href by (rewrite nanc_d; lia). rewrite HL, nanc_d, <- (an_len 1).
        rewrite rec_at_block by (rewrite an_len; exact Hi). reflexivity.
    + rewrite !(match_ge2 c) by exact Hc.
      eexists _, _. split; [reflexivity|].
      rewrite (parity_at_all _ _ [nth pl xc false; nth pr xc false; nth i (an c) false; nth i (an (c - 1)) false]).
      * cbn [xor_all fold_right]. rewrite xorb_false_r, <- Hxor.
        destruct (nth pl xc false), (nth pr xc false), (nth i (an c) false), (nth i (an (c - 1)) false); reflexivity.
      * cbn [map]. rewrite !Hmain by assumption.
        replace (- (nanc D - Z.of_nat i + Z.of_nat d)) with (- (nanc D - Z.of_nat i) - Z.of_nat d) by lia.
        replace (- (nanc D - Z.of_nat i) - Z.of_nat d - nanc D) with (- (nanc D - Z.of_nat i) - nanc D - Z.of_nat d) by lia.
        rewrite !Href by (rewrite nanc_d; lia).
        rewrite HL, !rev_app_distr, <- !app_assoc.
        rewrite nanc_d, <- (an_len c) at 1. rewrite rec_at_block by (rewrite an_len; exact Hi).
        replace (- (nanc D - Z.of_nat i) - nanc D)
          with (- (Z.of_nat (length (an (c - 1))) - Z.of_nat i) - Z.of_nat (length (rev (an c))))
          by (rewrite rev_length, !an_len, nanc_d; lia).
        rewrite rec_at_app_r by (rewrite an_len; lia).
        rewrite rec_at_block by (rewrite an_len; exact Hi). reflexivity.
Qed.

(* ------------------------------------------------------------------ the whole program, in terms of the forward run *)
Definition anc_rec : list bool := if (c =? 0)%nat then a0 else outs_upto c.

Lemma exec_fwd :
  exec (rep_stim D x ancp c)
  = Some (zeros ++ anc_rec ++ xs c, dets_upto c ++ map (fdet (xs c)) (seq 0 (d - 1)), [fold_right xorb false (xs c)]).
Proof.
  assert (Hfin : exists m, run (init_part D x ancp ++ qec_part D c) start = Ok m
                           /\ m_st m =s ast (bits (xs c) (an c)) none
                           /\ m_rec m = rev anc_rec ++ zeros /\ m_det m = rev (dets_upto c) /\ m_obs m = []
                           /\ (c = O \/ (c = 1%nat /\ anc_rec = an 1)
                               \/ ((2 <= c)%nat /\ anc_rec = outs_upto (c - 2) ++ an (c - 1) ++ an c))).
  { unfold anc_rec. destruct (c =? 0)%nat eqn:Ec.
    - apply Nat.eqb_eq in Ec. destruct init_ok as (m0 & R0 & S0 & Rc0 & D0 & O0).
      assert (Hq : qec_part D c = map IM (r_anc D)) by (rewrite Ec; reflexivity).
      rewrite Hq.
      destruct (runs_measure (r_anc D) m0 (bits (xs 0) (an 0)) none) as (m1 & R1 & S1 & Rc1 & D1 & O1);
        [reflexivity | exact S0 |].
      assert (Hmap : map (bits (xs 0) (an 0)) (r_anc D) = a0).
      { rewrite (sh_anc D d Hsh), <- (an_len 0). apply bits_anc. }
      exists m1. rewrite run_app, R0. cbn [rbind]. split; [exact R1|].
      rewrite Ec. split; [exact S1|]. split; [|split; [|split]].
      + rewrite Rc1, Hmap, Rc0. reflexivity.
      + rewrite D1, D0. reflexivity.
      + now rewrite O1.
      + now left.
    - apply Nat.eqb_neq in Ec. destruct (rounds_ok c (le_n c)) as (m & R & S0 & Rc0 & D0 & O0).
      exists m. rewrite qec_part_flat by lia. split; [exact R|]. split; [exact S0|]. split; [exact Rc0|].
      split; [exact D0|]. split; [exact O0|]. right.
      destruct (Nat.eq_dec c 1) as [E1|E1].
      + left. split; [exact E1|]. rewrite E1. unfold outs_upto. cbn [seq map concat]. now rewrite app_nil_r.
      + right. split; [lia|]. apply outs_upto_back. lia. }
  destruct Hfin as (m & R & S0 & Rc0 & D0 & O0 & Hc).
  destruct (final_run m (xs c) (an c) anc_rec (xs_len c) S0 Rc0 O0 Hc) as (m' & R' & Rc' & D' & O').
  unfold exec, rep_stim. rewrite app_assoc, run_app, R. cbn [rbind]. rewrite R'.
  rewrite Rc', Rc0, D', D0, O'. apply f_equal. apply f_equal2; [apply f_equal2|].
  - rewrite !rev_app_distr, !rev_involutive. unfold zeros. rewrite rev_repeat, <- app_assoc. reflexivity.
  - rewrite rev_app_distr, !rev_involutive. reflexivity.
  - reflexivity.
Qed.
End Main.
