(* C09 -- the fragment of Stim's instruction language that repetition-code circuits export, as syntax.

   `rinstr` is an instruction as `stim.Circuit.flattened()` reports it (name, integer arguments, targets: qubit or rec[k]);
   `decode` splits fused targets and maps the name to a constructor of `instr`, the type the semantics (Sem.v), the
   closed form (Model.v) and the annotation reader below work on.  Names outside the fragment are kept (`IOther`).

   `annot` reads the annotations of a program against a GIVEN measurement record: the parity every DETECTOR and every
   OBSERVABLE_INCLUDE names (rec[k] = k-th entry before the current end of the record, Stim's documented meaning).  It
   involves no quantum semantics and is used by the specification to evaluate the exported detectors on the record
   Stim sampled.  No proofs in this file. *)
From Coq Require Import ZArith List Bool String.
Import ListNotations.
Open Scope string_scope.
Open Scope Z_scope.

Inductive gate1 := G_I | G_X | G_Y | G_Z | G_H | G_SY | G_SYD.     (* I X Y Z H SQRT_Y SQRT_Y_DAG *)

Inductive instr :=
| IGate (g : gate1) (q : Z)
| ICZ (a b : Z)
| IR (q : Z)                                   (* R : reset to |0> *)
| IM (q : Z)                                   (* M : Z-basis measurement, one record entry *)
| ITick
| IDet (args : list Z) (recs : list Z)         (* DETECTOR(args) rec[k] ... , k < 0 *)
| IObs (k : Z) (recs : list Z)                 (* OBSERVABLE_INCLUDE(k) rec[k] ... *)
| IShift (args : list Z)                       (* SHIFT_COORDS(args) *)
| IRepeat (n : Z) (body : list instr)          (* REPEAT n { body } *)
| IOther (name : string).                      (* anything else: outside the fragment *)

Inductive rtarget := RQ (q : Z) | RR (k : Z).
Inductive rinstr := RI (name : string) (args : list Z) (ts : list rtarget).

Definition gate1_eqb (a b : gate1) : bool :=
  match a, b with
  | G_I, G_I | G_X, G_X | G_Y, G_Y | G_Z, G_Z | G_H, G_H | G_SY, G_SY | G_SYD, G_SYD => true
  | _, _ => false
  end.

Section LEqb.
Context {A : Type} (eqb : A -> A -> bool).
Fixpoint leqb (l1 l2 : list A) : bool :=
  match l1, l2 with
  | [], [] => true
  | x :: t1, y :: t2 => eqb x y && leqb t1 t2
  | _, _ => false
  end.
End LEqb.

Fixpoint instr_eqb (a b : instr) : bool :=
  match a, b with
  | IGate g p, IGate h q => gate1_eqb g h && (p =? q)
  | ICZ a1 b1, ICZ a2 b2 => (a1 =? a2) && (b1 =? b2)
  | IR p, IR q => p =? q
  | IM p, IM q => p =? q
  | ITick, ITick => true
  | IDet a1 r1, IDet a2 r2 => leqb Z.eqb a1 a2 && leqb Z.eqb r1 r2
  | IObs k1 r1, IObs k2 r2 => (k1 =? k2) && leqb Z.eqb r1 r2
  | IShift a1, IShift a2 => leqb Z.eqb a1 a2
  | IRepeat n x, IRepeat m y => (n =? m) && leqb instr_eqb x y
  | IOther s, IOther t => String.eqb s t
  | _, _ => false
  end.
Definition prog_eqb : list instr -> list instr -> bool := leqb instr_eqb.

(* ------------------------------------------------------------------ decoding Stim's own report *)
Fixpoint all_qubits (ts : list rtarget) : option (list Z) :=
  match ts with
  | [] => Some []
  | RQ q :: r => match all_qubits r with Some l => Some (q :: l) | None => None end
  | RR _ :: _ => None
  end.
Fixpoint all_recs (ts : list rtarget) : option (list Z) :=
  match ts with
  | [] => Some []
  | RR k :: r => match all_recs r with Some l => Some (k :: l) | None => None end
  | RQ _ :: _ => None
  end.
Fixpoint pairs (l : list Z) : option (list (Z * Z)) :=
  match l with
  | [] => Some []
  | a :: r => match r with
              | b :: t => match pairs t with Some p => Some ((a, b) :: p) | None => None end
              | [] => None
              end
  end.

Definition gate1_of (name : string) : option gate1 :=
  if String.eqb name "I" then Some G_I else if String.eqb name "X" then Some G_X
  else if String.eqb name "Y" then Some G_Y else if String.eqb name "Z" then Some G_Z
  else if String.eqb name "H" then Some G_H else if String.eqb name "SQRT_Y" then Some G_SY
  else if String.eqb name "SQRT_Y_DAG" then Some G_SYD else None.

Definition decode1 (r : rinstr) : list instr :=
  match r with
  | RI name args ts =>
      let bad := [IOther name] in
      match gate1_of name with
      | Some g => match args, all_qubits ts with [], Some qs => map (IGate g) qs | _, _ => bad end
      | None =>
          if String.eqb name "R" then match args, all_qubits ts with [], Some qs => map IR qs | _, _ => bad end
          else if String.eqb name "M" then match args, all_qubits ts with [], Some qs => map IM qs | _, _ => bad end
          else if String.eqb name "CZ" then
            match args, all_qubits ts with
            | [], Some qs => match pairs qs with Some ps => map (fun p => ICZ (fst p) (snd p)) ps | None => bad end
            | _, _ => bad
            end
          else if String.eqb name "TICK" then match args, ts with [], [] => [ITick] | _, _ => bad end
          else if String.eqb name "DETECTOR" then match all_recs ts with Some ks => [IDet args ks] | None => bad end
          else if String.eqb name "OBSERVABLE_INCLUDE" then
            match args, all_recs ts with [k], Some ks => [IObs k ks] | _, _ => bad end
          else if String.eqb name "SHIFT_COORDS" then match ts with [] => [IShift args] | _ => bad end
          else bad
      end
  end.
Definition decode (l : list rinstr) : list instr := flat_map decode1 l.

(* ------------------------------------------------------------------ annotations against a given record *)
Definition xor_all (l : list bool) : bool := fold_right xorb false l.

Fixpoint opt_all {A} (l : list (option A)) : option (list A) :=
  match l with
  | [] => Some []
  | Some x :: r => match opt_all r with Some t => Some (x :: t) | None => None end
  | None :: _ => None
  end.

(* rec[k] when `seen` entries of `record` have been measured so far: entry seen + k (k < 0) *)
Definition rec_abs (record : list bool) (seen : Z) (k : Z) : option bool :=
  if (k <? 0) && (0 <=? seen + k) then nth_error record (Z.to_nat (seen + k)) else None.
Definition parity_abs (record : list bool) (seen : Z) (ks : list Z) : option bool :=
  match opt_all (map (rec_abs record seen) ks) with Some bs => Some (xor_all bs) | None => None end.

(* walks a REPEAT-free program: (measurements seen, detector parities in order, (observable index, parity) in order) *)
Fixpoint annot_from (record : list bool) (seen : Z) (l : list instr) : option (Z * list bool * list (Z * bool)) :=
  match l with
  | [] => Some (seen, [], [])
  | i :: r =>
      match i with
      | IM _ => annot_from record (seen + 1) r
      | IDet _ ks =>
          match parity_abs record seen ks, annot_from record seen r with
          | Some b, Some (n, ds, os) => Some (n, b :: ds, os)
          | _, _ => None
          end
      | IObs k ks =>
          match parity_abs record seen ks, annot_from record seen r with
          | Some b, Some (n, ds, os) => Some (n, ds, (k, b) :: os)
          | _, _ => None
          end
      | IRepeat _ _ | IOther _ => None
      | _ => annot_from record seen r
      end
  end.
Definition annot (record : list bool) (l : list instr) := annot_from record 0 l.

(* observable k of a list of includes: the XOR of its contributions *)
Definition obs_value (k : Z) (os : list (Z * bool)) : bool :=
  xor_all (map snd (filter (fun p => fst p =? k) os)).
