From Coq Require Import ZArith List Bool Lia.
Import ListNotations.
From QCE Require Import C09.Stim C09.Spec C09.Sem C09.Model.

Lemma placeholder : True. Proof. exact I. Qed.
