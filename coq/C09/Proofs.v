(* C09 -- collected statements (the lemmas live in ProofsSem / ProofsRound / ProofsBits / ProofsInit / ProofsMain /
   ProofsSpec / ProofsWf), corollaries for the two families of descriptions, the finding F5 at model level, and
   non-vacuity examples. *)
From Coq Require Import ZArith List Bool Lia String.
Import ListNotations.
From QCE Require Import Base.Prelude C09.Stim C09.Spec C09.Sem C09.Model C09.Wf
  C09.ProofsSem C09.ProofsRound C09.ProofsBits C09.ProofsInit C09.ProofsMain C09.ProofsSpec C09.ProofsWf.
From Gen Require Import Layouts.
Open Scope list_scope.

(* ------------------------------------------------------------------ corollaries *)
Lemma chain_data_length d rf : List.length (r_data (desc_of_chain d rf)) = d.
Proof. unfold desc_of_chain. cbn [r_data]. apply evens_from_length. Qed.

Theorem chain_record d rf init anc cycles :
  (1 <= d)%nat -> List.length init = d -> (List.length anc <= d - 1)%nat ->
  exec (rep_stim (desc_of_chain d rf) init anc cycles)
  = Some (protocol_record init anc cycles rf, protocol_detectors init anc cycles rf, [protocol_observable init anc cycles rf]).
Proof.
  intros Hd Hi Ha.
  apply (exec_protocol (desc_of_chain d rf) init anc cycles (wf_desc_chain d rf Hd)); rewrite chain_data_length; assumption.
Qed.

Theorem layout_record L ch rf init anc cycles :
  In L shipped_layouts -> In ch (sub_chains (chain_of (layout_name L))) ->
  List.length init = List.length (r_data (desc_of_layout L ch rf)) ->
  (List.length anc <= List.length (r_data (desc_of_layout L ch rf)) - 1)%nat ->
  exec (rep_stim (desc_of_layout L ch rf) init anc cycles)
  = Some (protocol_record init anc cycles rf, protocol_detectors init anc cycles rf, [protocol_observable init anc cycles rf]).
Proof.
  intros HL Hch Hi Ha. apply (exec_protocol (desc_of_layout L ch rf) init anc cycles (wf_desc_layouts L ch rf HL Hch) Hi Ha).
Qed.

(* inside the fragment: no CZ between two X-basis qubits, no X-basis qubit measured *)
Theorem in_fragment D init anc cycles :
  wf_desc D = true -> List.length init = List.length (r_data D) -> (List.length anc <= List.length (r_data D) - 1)%nat ->
  is_random (rep_stim D init anc cycles) = false /\ is_outside (rep_stim D init anc cycles) = false.
Proof.
  intros Hwf Hi Ha. pose proof (exec_protocol D init anc cycles Hwf Hi Ha) as H.
  unfold exec in H. unfold is_random, is_outside. destruct (run (rep_stim D init anc cycles) start); [auto | discriminate | discriminate].
Qed.

(* ------------------------------------------------------------------ which ancilla values are prepared (finding F5) *)
Lemma anc_prepared_own_from i init anc : anc_prepared_from AncOwn i init anc = anc.
Proof. revert i. induction anc as [|b t IH]; intros i; simpl; [reflexivity | now rewrite IH]. Qed.

Theorem own_source_prepares_requested init anc : anc_as_prepared AncOwn init anc = anc.
Proof. apply anc_prepared_own_from. Qed.

(* with the preparation code the source has now, data 0,1,0 / ancilla 1,0 / 2 cycles does not give the protocol's record *)
Theorem requested_ancilla_prepared_refuted :
  exists init anc cycles,
    exec (rep_stim (desc_of_chain 3 true) init (anc_as_prepared AncFromData init anc) cycles)
    <> Some (protocol_record init anc cycles true, protocol_detectors init anc cycles true, [protocol_observable init anc cycles true]).
Proof. exists [false; true; false], [true; false], 2%nat. vm_compute. discriminate. Qed.

(* ------------------------------------------------------------------ non-vacuity *)
Example wf_chain_3 : wf_desc (desc_of_chain 3 true) = true.
Proof. vm_compute. reflexivity. Qed.

(* distance 3, data 0,1,0, ancillas 1,0, 4 cycles with refocusing: a record with accumulating parities and flipped data *)
Example record_d3_c4 :
  exec (rep_stim (desc_of_chain 3 true) [false; true; false] [true; false] 4)
  = Some ([false; false; false; false; false;   false; true;  true; false;  false; true;  true; false;   true; false; true],
          [false; true;  true; false;  false; false;  false; false;  false; false],
          [false]).
Proof. vm_compute. reflexivity. Qed.

Example protocol_d3_c4 :
  protocol_record [false; true; false] [true; false] 4 true
  = [false; false; false; false; false;   false; true;  true; false;  false; true;  true; false;   true; false; true].
Proof. vm_compute. reflexivity. Qed.

(* a layout sub-chain whose ancillas are activated in different gate sequences *)
Example wf_layout_sub :
  wf_desc (desc_of_layout Repetition9Code ["D3"; "Z2"; "D6"; "Z4"; "D5"]%string true) = true
  /\ In ["D3"; "Z2"; "D6"; "Z4"; "D5"]%string (sub_chains (chain_of "Repetition9Code"%string)).
Proof. split; [vm_compute; reflexivity | vm_compute; tauto]. Qed.

(* the well-formedness check is not vacuous: a gate between two ancillas is rejected *)
Example wf_rejects :
  wf_desc (MkDesc [0; 1; 2]%Z [0; 2]%Z [1]%Z [[(1, 1)]]%Z [[]] [(0, 2)]%Z true) = false.
Proof. vm_compute. reflexivity. Qed.

(* the semantics reports a measured X-basis qubit and an X-X controlled-Z *)
Example sem_random : is_random [IGate G_H 0%Z; IM 0%Z] = true. Proof. reflexivity. Qed.
Example sem_outside : is_outside [IGate G_H 0%Z; IGate G_H 1%Z; ICZ 0%Z 1%Z] = true. Proof. reflexivity. Qed.
