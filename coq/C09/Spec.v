(* C09 -- the PROTOCOL a repetition-code experiment runs, written from the property's text on bits only (no circuit,
   no description object, no Stim): what the noise-free measurement record must be, given

     x        the requested data-qubit values   (distance d = length x, in chain order)
     a        the requested ancilla values      (d - 1 of them; absent = 0), ancilla i sits between data i and i + 1
     cycles   the number of QEC cycles (>= 0)
     refocus  whether the data qubits receive the refocusing pi-pulse

   * heralding: every qubit (2d - 1 of them) is measured right after reset: all 0;
   * one cycle: every ancilla accumulates (no reset!) the parity of its two neighbouring data qubits and is measured,
     its outcome is the accumulated value; then, in every cycle but the last and when refocusing is on, every data
     qubit is flipped;
   * zero cycles: the ancillas are measured once, as prepared;
   * finally the data qubits are measured.

   Order inside the record: heralding in chain order (all zeros anyway), per cycle the ancillas in chain order, finally
   the data qubits in chain order.

   Detectors, in order: per cycle and ancilla the outcome XOR the same ancilla's outcome two cycles earlier where that
   exists (the ancilla is not reset, so this is the change of the neighbours' parity between consecutive cycles); in
   the first two cycles the outcome alone.  After the final measurement per ancilla: parity of the two neighbours'
   final values XOR the ancilla's last outcome XOR (from 2 cycles on) its outcome before that; for zero cycles the
   neighbours' parity alone.  That makes (d-1)(cycles+1) detectors; all of them from the third cycle on (and the
   final ones from 2 cycles on) are 0 for EVERY initial state, which is what makes them detectors.
   The logical observable is the XOR of all final data values.   No proofs in this file. *)
From Coq Require Import ZArith List Bool.
Import ListNotations.

Fixpoint parities (x : list bool) : list bool :=
  match x with
  | [] => []
  | b :: t => match t with [] => [] | c :: _ => xorb b c :: parities t end
  end.

Fixpoint xor_list (a b : list bool) : list bool :=
  match a, b with
  | p :: a', q :: b' => xorb p q :: xor_list a' b'
  | _, _ => []
  end.

(* absent values are 0 *)
Definition pad (n : nat) (l : list bool) : list bool := firstn n (l ++ repeat false n).

(* n cycles from data x / ancilla a: (ancilla outcomes per cycle, data values at the end) *)
Fixpoint run_cycles (n : nat) (refocus : bool) (x a : list bool) : list (list bool) * list bool :=
  match n with
  | O => ([], x)
  | S k =>
      let a' := xor_list a (parities x) in
      let x' := if refocus && negb (Nat.eqb k 0) then map negb x else x in      (* every cycle but the last *)
      let r := run_cycles k refocus x' a' in
      (a' :: fst r, snd r)
  end.

Section Protocol.
Variable (x anc : list bool) (cycles : nat) (refocus : bool).
Let d := length x.
Let a := pad (d - 1) anc.

Definition anc_outcomes : list (list bool) :=
  match cycles with O => [a] | _ => fst (run_cycles cycles refocus x a) end.
Definition final_data : list bool := snd (run_cycles cycles refocus x a).

Definition protocol_record : list bool :=
  repeat false (2 * d - 1) ++ concat anc_outcomes ++ final_data.

(* outcome XOR outcome two cycles earlier *)
Fixpoint cycle_detectors (prev2 prev1 : option (list bool)) (outs : list (list bool)) : list bool :=
  match outs with
  | [] => []
  | m :: r => (match prev2 with Some p => xor_list m p | None => m end) ++ cycle_detectors prev1 (Some m) r
  end.

Definition final_detectors : list bool :=
  let p := parities final_data in
  match cycles with
  | O => p
  | _ => let outs := rev anc_outcomes in
         match outs with
         | [] => p
         | m1 :: rest => match rest with
                         | [] => xor_list p m1
                         | m2 :: _ => xor_list (xor_list p m1) m2
                         end
         end
  end.

Definition protocol_detectors : list bool :=
  (match cycles with O => [] | _ => cycle_detectors None None anc_outcomes end) ++ final_detectors.

Definition protocol_observable : bool := fold_right xorb false final_data.

Definition n_detectors : nat := (d - 1) * (cycles + 1).
End Protocol.
