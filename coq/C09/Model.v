(* C09 -- the closed form of what `construct_repetition_code_circuit` exports to Stim (normal form: REPEAT unrolled,
   one target (pair) per instruction, SHIFT_COORDS folded into the detector coordinates = stim's flattened()), for an
   arbitrary DESCRIPTION, written from

     circuit_constructors.py    construct_repetition_code_circuit  (final measurement, final detectors, observables)
     circuit_components.py      get_circuit_initialize_with_heralded / get_circuit_initialize,
                                RepetitionCodeDescription.get_operations (initial-state preparation),
                                get_circuit_qec_round(_with_dynamical_decoupling)  (activation / closure per gate layer),
                                get_circuit_qec_with_detectors  (the 1 / 2 / 3 sub-circuit split),
                                IRepetitionCodeDescription.get_active_ancilla_indices,
                                RepetitionCodeDescription.from_chain
     addon_stim/circuit_operations.py   DetectorOperation / LogicalObservableOperation.to_stim_instruction
     language/intrf_declarative_circuit.py   InitialStateContainer.get_{data,ancilla}_qubit_operation

   and of the descriptions themselves (`desc_of_chain`; `desc_of_layout` through C17's model of from_connectivity).
   The code is mirrored as it is.  What is NOT modelled here but taken over: the listing order of the operations
   (the Core properties' subject) -- the closed form lists every segment in insertion order, and the correspondence
   run compares it instruction for instruction with the real export for every generated input.
   No proofs in this file. *)
From Coq Require Import ZArith List Bool String.
Import ListNotations.
From QCE Require Import Base.Prelude C19.Model C16.Model C17.Model C09.Stim.
From Gen Require Import Layouts.
Open Scope Z_scope.

(* ------------------------------------------------------------------ the description, as the constructor reads it *)
Record rdesc := MkDesc {
  r_qubits : list Z;               (* qubit_indices (= prepare = measure = rotation), in qubit_ids order *)
  r_data : list Z;                 (* data_qubit_indices (= observable, measure_data, rotation_data) *)
  r_anc : list Z;                  (* ancilla_qubit_indices (= detector, measure_ancilla, rotation_ancilla) *)
  r_gates : list (list (Z * Z));   (* get_gate_sequence_indices(i) for every gate sequence i *)
  r_parks : list (list Z);         (* get_park_sequence_indices(i) *)
  r_nbr : list (Z * Z);            (* per ancilla: get_index of its parity group's data_ids[0] and [1] *)
  r_refocus : bool                 (* contains_qubit_refocusing *)
}.

Definition zmem (q : Z) (l : list Z) : bool := existsb (Z.eqb q) l.

(* get_active_ancilla_indices: per edge, per member, the members that are (rotation) ancillas *)
Definition active (anc : list Z) (gates : list (Z * Z)) : list Z :=
  flat_map (fun e => filter (fun q => zmem q anc) [fst e; snd e]) gates.

Definition nonempty {A} (l : list A) : bool := match l with [] => false | _ => true end.
Definition tick_if (b : bool) : list instr := if b then [ITick] else [].

(* the loop over the gate sequences, shared by get_circuit_qec_round and ..._with_dynamical_decoupling.
   cur = the active ancillas of the previous sequence; exported: Ry90 -> SQRT_Y, Barrier -> TICK, CPhase -> CZ,
   Rym90 -> SQRT_Y_DAG; VirtualPark and TwoQubitVirtualPhase are not exported *)
Fixpoint layers_instrs (anc cur : list Z) (ls : list (list (Z * Z) * list Z)) : list instr :=
  match ls with
  | [] => []
  | (gates, parks) :: rest =>
      let act := active anc gates in
      let req_act := filter (fun q => negb (zmem q cur)) act in
      let req_close := match rest with
                       | [] => act
                       | (g', _) :: _ => filter (fun q => negb (zmem q (active anc g'))) act
                       end in
      map (IGate G_SY) req_act ++ tick_if (nonempty req_act)
      ++ map (fun e => ICZ (fst e) (snd e)) gates ++ tick_if (nonempty gates)
      ++ tick_if (nonempty gates || nonempty parks)
      ++ map (IGate G_SYD) req_close
      ++ layers_instrs anc act rest
  end.

(* dd = true: get_circuit_qec_round_with_dynamical_decoupling (refocusing pulses when the description asks for them, a
   closing barrier); dd = false: get_circuit_qec_round.  Wait is not exported. *)
Definition round_instrs (D : rdesc) (dd : bool) : list instr :=
  layers_instrs (r_anc D) [] (combine (r_gates D) (r_parks D))
  ++ [ITick] ++ map IM (r_anc D)
  ++ (if dd && r_refocus D then map (IGate G_X) (r_data D) else [])
  ++ tick_if dd.

Fixpoint enum_from {A} (i : Z) (l : list A) : list (Z * A) :=
  match l with [] => [] | x :: t => (i, x) :: enum_from (i + 1) t end.

(* detectors inside a sub-circuit: main target = this ancilla's measurement of the round (the j-th of n), optionally
   the same ancilla `back` records earlier; coordinates (qubit index, t) after folding t shifts of (0, 1) *)
Definition round_detectors (D : rdesc) (t : Z) (back : option Z) : list instr :=
  let n := Z.of_nat (List.length (r_anc D)) in
  map (fun jq => let main := - (n - fst jq) in
                 IDet [snd jq; t] (match back with Some o => [main; main - o] | None => [main] end))
      (enum_from 0 (r_anc D)).

Definition nanc (D : rdesc) : Z := Z.of_nat (List.length (r_anc D)).

(* the three kinds of round of get_circuit_qec_with_detectors; t = number of rounds before *)
Definition block_first (D : rdesc) (t : Z) : list instr := round_instrs D true ++ round_detectors D t None.
Definition block_second (D : rdesc) (t : Z) : list instr :=
  round_instrs D true ++ round_detectors D t (Some (2 * nanc D)) ++ [ITick].
Definition block_third (D : rdesc) (t : Z) (with_ref : bool) : list instr :=
  round_instrs D false ++ round_detectors D t (if with_ref then Some (2 * nanc D) else None).

Definition qec_part (D : rdesc) (cycles : nat) : list instr :=
  match cycles with
  | O => map IM (r_anc D)                                        (* guard clause: ancillas measured once, tag 'final' *)
  | _ =>
      let n1 := if (1 <? cycles)%nat then Nat.min 2 (cycles - 1) else O in      (* first sub-circuit, repeated *)
      let n2 := if (3 <? cycles)%nat then (cycles - 3)%nat else O in             (* second sub-circuit, repeated *)
      flat_map (fun t => block_first D (Z.of_nat t)) (seq 0 n1)
      ++ flat_map (fun t => block_second D (Z.of_nat t)) (seq n1 n2)
      ++ block_third D (Z.of_nat (n1 + n2)) (2 <? cycles)%nat
  end.

(* position of a qubit's measurement among the final data measurements *)
Fixpoint pos_in (q : Z) (l : list Z) : Z :=
  match l with [] => 0 | x :: t => if x =? q then 0 else 1 + pos_in q t end.

Definition final_detector (D : rdesc) (cycles : nat) (j q : Z) (nb : Z * Z) : instr :=
  let d := Z.of_nat (List.length (r_data D)) in
  let main := - (d - pos_in (fst nb) (r_data D)) in
  let second := - (d - pos_in (snd nb) (r_data D)) in
  let ref := - ((nanc D - j) + d) in
  IDet [q; Z.of_nat cycles]
       (match cycles with
        | O => [main; second]
        | S O => [main; second; ref]
        | _ => [main; second; ref; ref - nanc D]
        end).

Definition final_part (D : rdesc) (cycles : nat) : list instr :=
  let d := Z.of_nat (List.length (r_data D)) in
  map IM (r_data D)
  ++ map (fun x => final_detector D cycles (fst (fst x)) (snd (fst x)) (snd x)) (combine (enum_from 0 (r_anc D)) (r_nbr D))
  ++ map (fun iq => IObs 0 [- (d - fst iq)]) (enum_from 0 (r_data D)).

(* Identity -> I, Rx180 -> X *)
Definition prep (q : Z) (b : bool) : instr := IGate (if b then G_X else G_I) q.

Definition init_part (D : rdesc) (init anc : list bool) : list instr :=
  map IR (r_qubits D) ++ map IM (r_qubits D) ++ [ITick]
  ++ map (fun qb => prep (fst qb) (snd qb)) (combine (r_data D) init)
  ++ map (fun qb => prep (fst qb) (snd qb)) (combine (r_anc D) anc)
  ++ [ITick].

(* init: the data values prepared; anc: the ancilla values PREPARED (possibly fewer than ancillas: the rest stays 0) *)
Definition rep_stim (D : rdesc) (init anc : list bool) (cycles : nat) : list instr :=
  init_part D init anc ++ qec_part D cycles ++ final_part D cycles.

(* ------------------------------------------------------------------ which ancilla values get prepared (finding F5)
   RepetitionCodeDescription.get_operations builds the ancilla preparations
     AncFromData     with initial_state.get_data_qubit_operation: the DATA state at the same index (0 when absent)   [F5]
     AncGuardedByData with get_ancilla_qubit_operation whose guard tests membership in the DATA dictionary
     AncOwn          with get_ancilla_qubit_operation guarded by the ancilla dictionary
   one operation per requested ancilla state.  Which of the three the source currently is, is read off the source text
   by the harness (harness/c09.py, fail-closed) and handed over with every case. *)
Inductive anc_source := AncFromData | AncGuardedByData | AncOwn.

Fixpoint anc_prepared_from (src : anc_source) (i : nat) (init anc : list bool) : list bool :=
  match anc with
  | [] => []
  | b :: t =>
      (match src with
       | AncFromData => nth i init false
       | AncGuardedByData => if (i <? List.length init)%nat then b else false
       | AncOwn => b
       end) :: anc_prepared_from src (S i) init t
  end.
Definition anc_as_prepared (src : anc_source) (init anc : list bool) : list bool := anc_prepared_from src 0 init anc.

(* ------------------------------------------------------------------ RepetitionCodeDescription.from_chain(length = 2d - 1) *)
Fixpoint evens_from (i : Z) (n : nat) : list Z := match n with O => [] | S k => i :: evens_from (i + 2) k end.

Definition desc_of_chain (d : nat) (refocus : bool) : rdesc :=
  let len := (2 * d - 1)%nat in
  let data := evens_from 0 d in
  let anc := evens_from 1 (d - 1) in
  let layer0 := map (fun a => (a - 1, a)) anc in            (* edge_ids[0::2]: (D0,D1), (D2,D3), ... *)
  let layer1 := map (fun a => (a, a + 1)) anc in            (* edge_ids[1::2]: (D1,D2), (D3,D4), ... *)
  let layers := filter (fun l => nonempty l) [layer0; layer1] in
  MkDesc (zrange_n 0 len) data anc layers (map (fun _ => []) layers)
         (map (fun a => (a - 1, a + 1)) anc) refocus.

(* ------------------------------------------------------------------ RepetitionCodeDescription.from_connectivity *)
Definition group_of (L : Layout) (a : string) : option ParityGroup :=
  find (fun g => String.eqb (pg_ancilla g) a || qmem a (pg_data g)) (parity_groups L).     (* ParityGroup.contains *)

Definition opt_list {A} (o : option (list A)) : list A := match o with Some l => l | None => [] end.

Definition desc_of_layout (L : Layout) (involved : list string) (refocus : bool) : rdesc :=
  let d := from_connectivity involved L in
  let idx := index_of_qubit (d_index d) in
  let n := Z.of_nat (List.length (d_layers d)) in
  MkDesc (map idx (d_qubits d)) (map idx (d_data d)) (map idx (d_ancilla d))
         (map (fun i => opt_list (get_gate_sequence_indices (d_layers d) (d_index d) i)) (zrange 0 n))
         (map (fun i => opt_list (get_park_sequence_indices (d_qubits d) (d_layers d) (d_index d) i)) (zrange 0 n))
         (map (fun a => match group_of L a with
                        | Some g => (idx (nth 0 (pg_data g) ""%string), idx (nth 1 (pg_data g) ""%string))
                        | None => (-1, -1)
                        end) (d_ancilla d))
         refocus.

Definition layout_named (name : string) : option Layout :=
  find (fun L => String.eqb (layout_name L) name) shipped_layouts.

(* ------------------------------------------------------------------ the chains inside the shipped layouts
   chain order (data, ancilla, data, ...) of each repetition layout, written out; `chain_valid` checks a chain against
   the generated layout table: data and ancillas alternate, every ancilla's parity group is its two chain neighbours,
   every ancilla of the layout occurs.  `sub_chains` = every contiguous data-to-data sub-chain with >= 2 data qubits. *)
Open Scope string_scope.
Definition layout_chains : list (string * list string) := [
  ("Repetition9Code", ["D1"; "X1"; "D2"; "X2"; "D3"; "Z2"; "D6"; "Z4"; "D5"; "Z1"; "D4"; "Z3"; "D7"; "X3"; "D8"; "X4"; "D9"]);
  ("Repetition9Round6Code", ["D1"; "X1"; "D2"; "X2"; "D3"; "Z2"; "D6"; "Z4"; "D5"; "Z1"; "D4"; "Z3"; "D7"; "X3"; "D8"; "X4"; "D9"]);
  ("Repetition5Round4Code", ["D3"; "Z2"; "D6"; "Z4"; "D5"; "Z1"; "D4"; "X3"; "D7"])
].
Close Scope string_scope.

Definition chain_of (name : string) : list string :=
  match find (fun p => String.eqb (fst p) name) layout_chains with Some p => snd p | None => [] end.

Definition strs_eqb : list string -> list string -> bool := leqb String.eqb.

Definition chain_valid (L : Layout) (ch : list string) : bool :=
  let n := List.length ch in
  Nat.odd n
  && forallb (fun i => let q := nth i ch ""%string in
                       if Nat.even i then qmem q (data_qubit_ids L)
                       else qmem q (ancilla_qubit_ids L)
                            && match group_of L q with
                               | Some g => let l := nth (i - 1) ch ""%string in let r := nth (i + 1) ch ""%string in
                                           strs_eqb (pg_data g) [l; r] || strs_eqb (pg_data g) [r; l]
                               | None => false
                               end) (seq 0 n)
  && forallb (fun a => qmem a ch) (ancilla_qubit_ids L).

Definition sub_chains (ch : list string) : list (list string) :=
  let n := List.length ch in
  flat_map (fun a => flat_map (fun k => let len := (2 * k + 3)%nat in
                                        if (2 * a + len <=? n)%nat then [firstn len (skipn (2 * a) ch)] else [])
                              (seq 0 n))
           (seq 0 n).

Definition all_layout_subchains : list (Layout * list string) :=
  flat_map (fun L => map (fun c => (L, c)) (sub_chains (chain_of (layout_name L)))) shipped_layouts.

(* ------------------------------------------------------------------ boolean equality of descriptions (for the tie) *)
Definition pair_eqb (a b : Z * Z) : bool := (fst a =? fst b) && (snd a =? snd b).
Definition rdesc_eqb (a b : rdesc) : bool :=
  leqb Z.eqb (r_qubits a) (r_qubits b) && leqb Z.eqb (r_data a) (r_data b) && leqb Z.eqb (r_anc a) (r_anc b)
  && leqb (leqb pair_eqb) (r_gates a) (r_gates b) && leqb (leqb Z.eqb) (r_parks a) (r_parks b)
  && leqb pair_eqb (r_nbr a) (r_nbr b) && Bool.eqb (r_refocus a) (r_refocus b).
