(* C09 -- the descriptions the constructors are called with are well-formed:
   the chain description of EVERY distance (proof), every contiguous sub-chain of the generated layout tables
   (computation); and the number of detectors. *)
From Coq Require Import ZArith List Bool Lia ZifyBool String.
Import ListNotations.
From QCE Require Import Base.Prelude C09.Stim C09.Spec C09.Sem C09.Model C09.Wf
  C09.ProofsSem C09.ProofsRound C09.ProofsBits C09.ProofsInit C09.ProofsMain C09.ProofsSpec.
From Gen Require Import Layouts.
Open Scope list_scope.
Open Scope Z_scope.

Lemma NoDup_nodupb l : NoDup l -> nodupb l = true.
Proof.
  induction 1 as [|x l Hx _ IH]; [reflexivity|]. simpl. rewrite IH, andb_true_r.
  apply negb_true_iff. now apply zmem_false.
Qed.

Lemma leqb_Z_refl (l : list Z) : leqb Z.eqb l l = true.
Proof. induction l as [|x l IH]; [reflexivity|]. simpl. now rewrite Z.eqb_refl, IH. Qed.

(* ------------------------------------------------------------------ the two gate layers of a chain *)
Section Chain.
Variable d : nat.
Let A := evens_from 1 (d - 1).
Let Dd := evens_from 0 d.
Definition layer0 (l : list Z) : list (Z * Z) := map (fun a => (a - 1, a)) l.
Definition layer1 (l : list Z) : list (Z * Z) := map (fun a => (a, a + 1)) l.

Lemma A_spec a : In a A <-> exists j, (j < d - 1)%nat /\ a = 1 + 2 * Z.of_nat j.
Proof. apply evens_from_In. Qed.
Lemma D_spec q : In q Dd <-> exists j, (j < d)%nat /\ q = 0 + 2 * Z.of_nat j.
Proof. apply evens_from_In. Qed.

Lemma A_left a : In a A -> zmem (a - 1) Dd = true /\ zmem (a - 1) A = false.
Proof.
  intros H. apply A_spec in H as (j & Hj & ->). split.
  - apply zmem_In. apply D_spec. exists j. split; lia.
  - apply zmem_false. intros H. apply A_spec in H as (k & _ & E). lia.
Qed.
Lemma A_right a : In a A -> zmem (a + 1) Dd = true /\ zmem (a + 1) A = false.
Proof.
  intros H. apply A_spec in H as (j & Hj & ->). split.
  - apply zmem_In. apply D_spec. exists (S j). split; lia.
  - apply zmem_false. intros H. apply A_spec in H as (k & _ & E). lia.
Qed.

Lemma active_layer0 l : (forall a, In a l -> In a A) -> active A (layer0 l) = l.
Proof.
  induction l as [|a l IH]; intros H; [reflexivity|].
  unfold layer0, active in *. cbn [map flat_map fst snd filter].
  destruct (A_left a (H a (or_introl eq_refl))) as [_ Hl]. rewrite Hl.
  assert (zmem a A = true) as -> by (apply zmem_In; apply H; now left).
  cbn [app]. f_equal. apply IH. intros b Hb. apply H. now right.
Qed.
Lemma active_layer1 l : (forall a, In a l -> In a A) -> active A (layer1 l) = l.
Proof.
  induction l as [|a l IH]; intros H; [reflexivity|].
  unfold layer1, active in *. cbn [map flat_map fst snd filter].
  destruct (A_right a (H a (or_introl eq_refl))) as [_ Hr]. rewrite Hr.
  assert (zmem a A = true) as -> by (apply zmem_In; apply H; now left).
  cbn [app]. f_equal. apply IH. intros b Hb. apply H. now right.
Qed.

Lemma gates_layer0 : forallb (gate_ok A Dd) (layer0 A) = true.
Proof.
  apply forallb_forall. intros e He. unfold layer0 in He. apply in_map_iff in He as (a & <- & Ha).
  unfold gate_ok. cbn [fst snd]. destruct (A_left a Ha) as [H1 _]. rewrite H1.
  assert (zmem a A = true) as -> by (now apply zmem_In). now rewrite orb_true_r.
Qed.
Lemma gates_layer1 : forallb (gate_ok A Dd) (layer1 A) = true.
Proof.
  apply forallb_forall. intros e He. unfold layer1 in He. apply in_map_iff in He as (a & <- & Ha).
  unfold gate_ok. cbn [fst snd]. destruct (A_right a Ha) as [H1 _]. rewrite H1.
  assert (zmem a A = true) as -> by (now apply zmem_In). reflexivity.
Qed.

(* partners of an ancilla in each layer *)
Lemma partners_layer0_none l a : ~ In a l -> (forall b, In b l -> b - 1 <> a) -> partners (layer0 l) a = [].
Proof.
  induction l as [|b l IH]; intros Hn Hp; [reflexivity|].
  unfold partners, layer0 in *. cbn [map flat_map fst snd].
  assert (b - 1 =? a = false) as -> by (apply Z.eqb_neq; apply Hp; now left).
  assert (b =? a = false) as -> by (apply Z.eqb_neq; intros ->; apply Hn; now left).
  cbn [app]. apply IH; [intros H; apply Hn; now right | intros c Hc; apply Hp; now right].
Qed.
Lemma partners_layer0 l a :
  NoDup l -> In a l -> (forall b, In b l -> b - 1 <> a) -> partners (layer0 l) a = [a - 1].
Proof.
  induction l as [|b l IH]; intros Hnd Ha Hp; [destruct Ha|].
  inversion Hnd as [|? ? Hb Hnd']; subst.
  change (partners (layer0 (b :: l)) a)
    with ((if b - 1 =? a then [b] else if b =? a then [b - 1] else []) ++ partners (layer0 l) a).
  assert (b - 1 =? a = false) as -> by (apply Z.eqb_neq; apply Hp; now left).
  destruct (b =? a) eqn:E.
  - apply Z.eqb_eq in E. subst b. rewrite partners_layer0_none; [reflexivity | exact Hb |].
    intros c Hc. apply Hp. now right.
  - destruct Ha as [->|Ha]; [rewrite Z.eqb_refl in E; discriminate|].
    cbn [app]. apply IH; [exact Hnd' | exact Ha | intros c Hc; apply Hp; now right].
Qed.
Lemma partners_layer1_none l a : ~ In a l -> (forall b, In b l -> b + 1 <> a) -> partners (layer1 l) a = [].
Proof.
  induction l as [|b l IH]; intros Hn Hp; [reflexivity|].
  unfold partners, layer1 in *. cbn [map flat_map fst snd].
  assert (b =? a = false) as -> by (apply Z.eqb_neq; intros ->; apply Hn; now left).
  assert (b + 1 =? a = false) as -> by (apply Z.eqb_neq; apply Hp; now left).
  cbn [app]. apply IH; [intros H; apply Hn; now right | intros c Hc; apply Hp; now right].
Qed.
Lemma partners_layer1 l a :
  NoDup l -> In a l -> (forall b, In b l -> b + 1 <> a) -> partners (layer1 l) a = [a + 1].
Proof.
  induction l as [|b l IH]; intros Hnd Ha Hp; [destruct Ha|].
  inversion Hnd as [|? ? Hb Hnd']; subst.
  change (partners (layer1 (b :: l)) a)
    with ((if b =? a then [b + 1] else if b + 1 =? a then [b] else []) ++ partners (layer1 l) a).
  destruct (b =? a) eqn:E.
  - apply Z.eqb_eq in E. subst b. rewrite partners_layer1_none; [reflexivity | exact Hb |].
    intros c Hc. apply Hp. now right.
  - destruct Ha as [->|Ha]; [rewrite Z.eqb_refl in E; discriminate|].
    assert (b + 1 =? a = false) as -> by (apply Z.eqb_neq; apply Hp; now left).
    cbn [app]. apply IH; [exact Hnd' | exact Ha | intros c Hc; apply Hp; now right].
Qed.

Lemma A_parity a b : In a A -> In b A -> b - 1 <> a /\ b + 1 <> a.
Proof. intros Ha Hb. apply A_spec in Ha as (j & _ & ->). apply A_spec in Hb as (k & _ & ->). lia. Qed.

Lemma partners_chain a : In a A -> partners (layer0 A ++ layer1 A) a = [a - 1; a + 1].
Proof.
  intros Ha. unfold partners. rewrite flat_map_app. fold (partners (layer0 A) a). fold (partners (layer1 A) a).
  rewrite partners_layer0, partners_layer1; try reflexivity; try exact Ha; try apply evens_from_NoDup.
  - intros b Hb. apply (A_parity a b Ha Hb).
  - intros b Hb. apply (A_parity a b Ha Hb).
Qed.
End Chain.

Lemma combine_map_In {X Y} (f : X -> Y) (l : list X) p : In p (combine l (map f l)) -> snd p = f (fst p).
Proof.
  induction l as [|a l IH]; [intros []|]. simpl. intros [<-|H]; [reflexivity | auto].
Qed.

Theorem wf_desc_chain d rf : (1 <= d)%nat -> wf_desc (desc_of_chain d rf) = true.
Proof.
  intros Hd. destruct d as [|[|k]]; [lia | destruct rf; reflexivity |].
  set (d := S (S k)). set (A := evens_from 1 (d - 1)). set (Dd := evens_from 0 d).
  assert (HA : A = 1 :: evens_from 3 k) by reflexivity.
  assert (Hdesc : desc_of_chain d rf
                  = MkDesc (zrange_n 0 (2 * d - 1)) Dd A [layer0 A; layer1 A] [[]; []]
                           (map (fun a => (a - 1, a + 1)) A) rf).
  { unfold desc_of_chain. fold A. fold Dd. unfold layer0, layer1. rewrite HA. reflexivity. }
  rewrite Hdesc. unfold wf_desc. apply andb_true_iff. split.
  - (* the layers *)
    assert (H1 : disjointb A Dd = true).
    { unfold disjointb. apply forallb_forall. intros q Hq. apply negb_true_iff. apply zmem_false. intros H.
      apply evens_from_In in Hq as (j & _ & ->). apply evens_from_In in H as (j' & _ & E). lia. }
    assert (H2 : nodupb Dd = true) by apply NoDup_nodupb, evens_from_NoDup.
    assert (H3 : nodupb A = true) by apply NoDup_nodupb, evens_from_NoDup.
    assert (H4 : layer_ok A Dd (layer0 A) = true).
    { unfold layer_ok, A, Dd. rewrite (gates_layer0 d). rewrite (active_layer0 d) by auto.
      apply NoDup_nodupb, evens_from_NoDup. }
    assert (H5 : layer_ok A Dd (layer1 A) = true).
    { unfold layer_ok, A, Dd. rewrite (gates_layer1 d). rewrite (active_layer1 d) by auto.
      apply NoDup_nodupb, evens_from_NoDup. }
    unfold layers_ok. cbn [r_anc r_data r_gates r_parks].
    rewrite H1, H2, H3. cbn [forallb]. rewrite H4, H5. reflexivity.
  - (* the shape *)
    unfold shape_ok. cbn [r_anc r_data r_gates r_qubits r_nbr concat].
    assert (Hlen : List.length Dd = d) by apply evens_from_length. rewrite Hlen.
    assert (S1 : (1 <=? d)%nat = true) by reflexivity.
    assert (S2 : leqb Z.eqb Dd (evens_from 0 d) = true) by apply leqb_Z_refl.
    assert (S3 : leqb Z.eqb A (evens_from 1 (d - 1)) = true) by apply leqb_Z_refl.
    assert (S4 : (List.length (zrange_n 0 (2 * d - 1)) =? 2 * d - 1)%nat = true)
      by (rewrite zrange_n_length; apply Nat.eqb_refl).
    assert (S5 : (List.length (map (fun a : Z => ((a - 1)%Z, (a + 1)%Z)) A) =? d - 1)%nat = true)
      by (rewrite map_length; unfold A; rewrite evens_from_length; apply Nat.eqb_refl).
    assert (S6 : forallb (fun an : Z * (Z * Z) => nbr_ok (fst an) (snd an))
                         (combine A (map (fun a : Z => (a - 1, a + 1)) A)) = true).
    { apply forallb_forall. intros p Hp. apply combine_map_In in Hp. unfold nbr_ok. rewrite Hp. cbn [fst snd].
      now rewrite !Z.eqb_refl. }
    assert (S7 : forallb (partners_ok (layer0 A ++ layer1 A ++ [])) A = true).
    { apply forallb_forall. intros a Ha. unfold partners_ok. rewrite app_nil_r.
      unfold A in *. rewrite (partners_chain d a Ha). now rewrite leqb_Z_refl. }
    rewrite S1, S2, S3, S4, S5, S6. cbn [List.concat]. rewrite S7. reflexivity.
Qed.

(* ------------------------------------------------------------------ the shipped layouts *)
Lemma layout_chains_valid :
  forallb (fun L => chain_valid L (chain_of (layout_name L))) shipped_layouts = true.
Proof. vm_compute. reflexivity. Qed.

Lemma wf_desc_layouts_b :
  forallb (fun Lc => wf_desc (desc_of_layout (fst Lc) (snd Lc) true) && wf_desc (desc_of_layout (fst Lc) (snd Lc) false))
          all_layout_subchains = true.
Proof. vm_compute. reflexivity. Qed.

Theorem wf_desc_layouts L ch rf :
  In L shipped_layouts -> In ch (sub_chains (chain_of (layout_name L))) -> wf_desc (desc_of_layout L ch rf) = true.
Proof.
  intros HL Hch. pose proof wf_desc_layouts_b as H. rewrite forallb_forall in H.
  assert (Hin : In (L, ch) all_layout_subchains).
  { unfold all_layout_subchains. apply in_flat_map. exists L. split; [exact HL|]. apply in_map. exact Hch. }
  specialize (H _ Hin). cbn [fst snd] in H. apply andb_true_iff in H as [H1 H2]. destruct rf; assumption.
Qed.

(* ------------------------------------------------------------------ number of detectors *)
Lemma dets_upto_length D x ancp c t :
  List.length x = List.length (r_data D) -> (List.length ancp <= List.length (r_data D) - 1)%nat ->
  List.length (dets_upto D x ancp c t) = (t * (List.length (r_data D) - 1))%nat.
Proof.
  intros Hx Ha. induction t as [|t IH]; [reflexivity|].
  rewrite dets_upto_S, app_length, IH, (det_of_len D x ancp c Hx Ha). lia.
Qed.

Theorem detector_count D x ancp c :
  wf_desc D = true -> List.length x = List.length (r_data D) -> (List.length ancp <= List.length (r_data D) - 1)%nat ->
  exists r ds os, exec (rep_stim D x ancp c) = Some (r, ds, os)
                  /\ List.length ds = ((List.length x - 1) * (c + 1))%nat
                  /\ List.length r = (2 * List.length x - 1 + (List.length x - 1) * Nat.max c 1 + List.length x)%nat.
Proof.
  intros Hwf Hx Ha. rewrite (exec_fwd D x ancp c Hwf Hx Ha). eexists _, _, _. split; [reflexivity|]. split.
  - rewrite app_length, map_length, seq_length, (dets_upto_length D x ancp c c Hx Ha), Hx. lia.
  - rewrite !app_length, (xs_len D x ancp c Hx Ha). unfold zeros. rewrite repeat_length, Hx.
    assert (Hrec : List.length (anc_rec D x ancp c) = ((List.length (r_data D) - 1) * Nat.max c 1)%nat).
    { unfold anc_rec. destruct (c =? 0)%nat eqn:E.
      - apply Nat.eqb_eq in E. subst c. rewrite pad_length. simpl. lia.
      - apply Nat.eqb_neq in E. replace (Nat.max c 1) with c by lia. clear E.
        induction c as [|c' IH]; [simpl; lia|].
        (* outs_upto depends on the total number of cycles only through the values, not the lengths *)
        assert (Hgen : forall t, List.length (outs_upto D x ancp (S c') t) = ((List.length (r_data D) - 1) * t)%nat).
        { induction t as [|t IHt]; [simpl; lia|].
          rewrite outs_upto_S, app_length, IHt, (an_len D x ancp (S c') Hx Ha). lia. }
        apply Hgen. }
    rewrite Hrec. lia.
Qed.
