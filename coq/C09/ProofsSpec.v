(* C09 -- from the forward run of ProofsMain.v to the protocol of Spec.v: the record, the detector parities and the
   observable that `exec (rep_stim ...)` returns are exactly Spec's. *)
From Coq Require Import ZArith List Bool Lia ZifyBool.
Import ListNotations.
From QCE Require Import Base.Prelude C09.Stim C09.Spec C09.Sem C09.Model C09.Wf
  C09.ProofsSem C09.ProofsRound C09.ProofsBits C09.ProofsInit C09.ProofsMain.

Lemma match_ge1 {B} (n : nat) (a : B) (f : nat -> B) (e : B) :
  (1 <= n)%nat -> (forall k, f k = e) -> match n with O => a | S k => f k end = e.
Proof. destruct n as [|n]; intros; [lia | auto]. Qed.

Lemma match_eq0 {B} (n : nat) (a : B) (f : nat -> B) : n = O -> match n with O => a | S k => f k end = a.
Proof. intros ->. reflexivity. Qed.
Lemma match_eq1 {B} (n : nat) (a b : B) (f : nat -> B) :
  n = 1%nat -> match n with O => a | S O => b | S (S k) => f k end = b.
Proof. intros ->. reflexivity. Qed.

Lemma seq_last n : (1 <= n)%nat -> seq 0 n = seq 0 (n - 1) ++ [(n - 1)%nat].
Proof. intros H. replace n with (S (n - 1)) at 1 by lia. rewrite seq_S. reflexivity. Qed.

Section Link.
Variable D : rdesc.
Variables (x ancp : list bool) (c : nat).
Hypothesis Hx : length x = length (r_data D).
Hypothesis Hanc : (length ancp <= length (r_data D) - 1)%nat.

Let rf := r_refocus D.
Let d := length (r_data D).
Let X := xs D x ancp c.
Let A := an D x ancp c.

Lemma X_S t : X (S t) = if rf && negb (S t =? c)%nat then map negb (X t) else X t.
Proof. reflexivity. Qed.
Lemma A_S t : A (S t) = xor_list (A t) (parities (X t)).
Proof. reflexivity. Qed.
Lemma X_0 : X 0 = x. Proof. reflexivity. Qed.
Lemma A_0 : A 0 = pad (length x - 1) ancp. Proof. unfold A, an. simpl. now rewrite Hx. Qed.

Lemma run_cycles_fwd n : forall t, (t + n = c)%nat ->
  run_cycles n rf (X t) (A t) = (map (fun i => A (S i)) (seq t n), X (t + n)).
Proof.
  induction n as [|n IH]; intros t Ht.
  - simpl. now rewrite Nat.add_0_r.
  - cbn [run_cycles seq map].
    assert (E : (S t =? c)%nat = (n =? 0)%nat).
    { destruct (n =? 0)%nat eqn:E1.
      - apply Nat.eqb_eq in E1. apply Nat.eqb_eq. lia.
      - apply Nat.eqb_neq in E1. apply Nat.eqb_neq. lia. }
    rewrite <- E, <- A_S, <- X_S. rewrite (IH (S t)) by lia. cbn [fst snd].
    f_equal. f_equal. lia.
Qed.

Lemma anc_outcomes_fwd : (1 <= c)%nat -> anc_outcomes x ancp c rf = map (fun i => A (S i)) (seq 0 c).
Proof.
  intros Hc. unfold anc_outcomes. cbv zeta.
  rewrite (match_ge1 c _ _ (fst (run_cycles c rf x (pad (length x - 1) ancp))) Hc) by reflexivity.
  rewrite <- A_0, <- X_0. rewrite (run_cycles_fwd c 0) by lia. reflexivity.
Qed.

Lemma final_data_fwd : final_data x ancp c rf = X c.
Proof.
  unfold final_data. cbv zeta. rewrite <- A_0, <- X_0. rewrite (run_cycles_fwd c 0) by lia. reflexivity.
Qed.

(* ------------------------------------------------------------------ detectors *)
Lemma cycle_detectors_fwd n : forall t p2 p1,
  p2 = (if (2 <=? t)%nat then Some (A (S (t - 2))) else None) ->
  p1 = (if (1 <=? t)%nat then Some (A (S (t - 1))) else None) ->
  cycle_detectors p2 p1 (map (fun i => A (S i)) (seq t n)) = concat (map (det_of D x ancp c) (seq t n)).
Proof.
  induction n as [|n IH]; intros t p2 p1 H2 H1; [reflexivity|].
  cbn [seq map cycle_detectors concat]. f_equal.
  - subst p2. unfold det_of. destruct (2 <=? t)%nat eqn:E.
    + apply Nat.leb_le in E. assert ((t <? 2)%nat = false) as -> by (apply Nat.ltb_ge; lia).
      replace (S (t - 2)) with (t - 1)%nat by lia. reflexivity.
    + apply Nat.leb_gt in E. assert ((t <? 2)%nat = true) as -> by (apply Nat.ltb_lt; lia). reflexivity.
  - apply IH.
    + subst p1. destruct t as [|[|t]]; reflexivity.
    + replace (S t - 1)%nat with t by lia. reflexivity.
Qed.

Lemma list_eq_map_nth (l : list bool) (n : nat) (f : nat -> bool) :
  length l = n -> (forall j, (j < n)%nat -> nth j l false = f j) -> l = map f (seq 0 n).
Proof.
  intros Hl Hf. rewrite <- (map_nth_seq l) at 1. rewrite Hl. apply map_ext_in.
  intros j Hj. apply in_seq in Hj. apply Hf. lia.
Qed.

Lemma nth_xor_list_lt a b j :
  (j < length a)%nat -> (j < length b)%nat -> nth j (xor_list a b) false = xorb (nth j a false) (nth j b false).
Proof. intros H1 H2. destruct (nth_xor_list a b j) as [E|E]; [exact E | lia]. Qed.

Lemma final_detectors_fwd :
  final_detectors x ancp c rf = map (fdet D x ancp c (X c)) (seq 0 (d - 1)).
Proof.
  pose proof (xs_len D x ancp c Hx Hanc) as HXl. pose proof (an_len D x ancp c Hx Hanc) as HAl.
  fold X in HXl. fold A in HAl. fold d in HXl, HAl.
  assert (Hp : forall j, (j < d - 1)%nat ->
             nth j (parities (X c)) false = xorb (nth j (X c) false) (nth (S j) (X c) false)).
  { intros j Hj. apply nth_parities. rewrite HXl. lia. }
  assert (Hpl : length (parities (X c)) = (d - 1)%nat) by (rewrite parities_length, HXl; reflexivity).
  unfold final_detectors. cbv zeta. rewrite final_data_fwd.
  destruct (Nat.eq_dec c 0) as [E0|E0].
  - rewrite (match_eq0 c) by exact E0. apply list_eq_map_nth; [exact Hpl|]. intros j Hj. unfold fdet.
    rewrite (match_eq0 c) by exact E0. apply Hp. exact Hj.
  - rewrite (match_ge1 c _ _ (match rev (anc_outcomes x ancp c rf) with
                              | [] => parities (X c)
                              | [m1] => xor_list (parities (X c)) m1
                              | m1 :: m2 :: _ => xor_list (xor_list (parities (X c)) m1) m2
                              end)) by (lia || reflexivity).
    rewrite anc_outcomes_fwd by lia.
    rewrite (seq_last c) by lia. rewrite map_app, rev_app_distr. cbn [map rev app].
    replace (S (c - 1)) with c by lia.
    destruct (Nat.eq_dec c 1) as [E1|E1].
    + (* one cycle *)
      replace (c - 1)%nat with O by lia. cbn [seq map rev]. apply list_eq_map_nth.
      * rewrite xor_list_length, Hpl, HAl. lia.
      * intros j Hj. rewrite nth_xor_list_lt by (rewrite ?Hpl, ?HAl; lia). rewrite Hp by exact Hj.
        unfold fdet. rewrite (match_eq1 c) by exact E1. fold A. now rewrite E1.
    + (* two or more *)
      rewrite (seq_last (c - 1)) by lia. rewrite map_app, rev_app_distr. cbn [map rev app].
      replace (S (c - 1 - 1)) with (c - 1)%nat by lia.
      apply list_eq_map_nth.
      * rewrite !xor_list_length, Hpl, !HAl. lia.
      * intros j Hj. rewrite !nth_xor_list_lt by (rewrite ?xor_list_length, ?Hpl, ?HAl; lia). rewrite Hp by exact Hj.
        unfold fdet. rewrite (match_ge2 c) by lia. fold A. reflexivity.
Qed.
End Link.

(* ------------------------------------------------------------------ the theorem *)
Theorem exec_protocol D x ancp c :
  wf_desc D = true -> length x = length (r_data D) -> (length ancp <= length (r_data D) - 1)%nat ->
  exec (rep_stim D x ancp c)
  = Some (protocol_record x ancp c (r_refocus D),
          protocol_detectors x ancp c (r_refocus D),
          [protocol_observable x ancp c (r_refocus D)]).
Proof.
  intros Hwf Hx Hanc. rewrite (exec_fwd D x ancp c Hwf Hx Hanc).
  apply f_equal. apply f_equal2; [apply f_equal2|].
  - (* the record *)
    unfold protocol_record. cbv zeta. rewrite (final_data_fwd D x ancp c Hx Hanc).
    unfold zeros. rewrite Hx. f_equal. f_equal.
    unfold anc_rec. destruct (c =? 0)%nat eqn:Ec.
    + apply Nat.eqb_eq in Ec. subst c. unfold anc_outcomes. cbv zeta. cbn [concat]. now rewrite app_nil_r, Hx.
    + apply Nat.eqb_neq in Ec. rewrite (anc_outcomes_fwd D x ancp c Hx Hanc) by lia. reflexivity.
  - (* the detectors *)
    unfold protocol_detectors. rewrite (final_detectors_fwd D x ancp c Hx Hanc). f_equal.
    destruct c as [|c'] eqn:Ec; [reflexivity|]. rewrite <- Ec.
    rewrite (anc_outcomes_fwd D x ancp c Hx Hanc) by lia.
    unfold dets_upto. symmetry. apply (cycle_detectors_fwd D x ancp c Hx Hanc); reflexivity.
  - unfold protocol_observable. now rewrite (final_data_fwd D x ancp c Hx Hanc).
Qed.
