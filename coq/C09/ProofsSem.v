(* C09 -- lemmas about the product-state semantics (Sem.v): running lists of like instructions.
   States are compared pointwise (`st1 =s st2`), so no extensionality axiom is needed. *)
From Coq Require Import ZArith List Bool Lia ZifyBool.
Import ListNotations.
From QCE Require Import C09.Stim C09.Sem C09.Model.
Open Scope Z_scope.

Definition seq_st (s t : state) : Prop := forall q, s q = t q.
Infix "=s" := seq_st (at level 70).

Lemma seq_st_refl s : s =s s. Proof. intro; reflexivity. Qed.
Lemma seq_st_trans s t u : s =s t -> t =s u -> s =s u. Proof. intros H1 H2 q; now rewrite H1. Qed.
Lemma seq_st_sym s t : s =s t -> t =s s. Proof. intros H q; now rewrite H. Qed.

(* abstract product state: value bit and basis flag per qubit *)
Definition ast (beta phi : Z -> bool) : state := fun q => if phi q then Xs (beta q) else Zb (beta q).
Definition none : Z -> bool := fun _ => false.
Definition updb (f : Z -> bool) (q : Z) (v : bool) : Z -> bool := fun p => if p =? q then v else f p.

Lemma upd_eq st q v : upd st q v q = v.
Proof. unfold upd. now rewrite Z.eqb_refl. Qed.
Lemma upd_neq st q v p : p <> q -> upd st q v p = st p.
Proof. unfold upd. intros H. destruct (p =? q) eqn:E; [apply Z.eqb_eq in E; contradiction | reflexivity]. Qed.

(* ------------------------------------------------------------------ composition *)
Lemma run_app p q m : run (p ++ q) m = rbind (run p m) (run q).
Proof.
  unfold run. revert m. induction p as [|i p IH]; intros m; simpl; [reflexivity|].
  destruct (step i m); simpl; auto.
Qed.

Lemma run_nil m : run [] m = Ok m. Proof. reflexivity. Qed.
Lemma run_cons i p m : run (i :: p) m = rbind (step i m) (run p).
Proof. unfold run; simpl. destruct (step i m); reflexivity. Qed.

(* the shape every lemma below has: from a machine state whose qubits are (beta, phi), the program runs to a machine
   state whose qubits are (beta', phi'), pushing `out` on the record and `dets` on the detector list *)
Definition runs (p : list instr) (m : mstate) (beta' phi' : Z -> bool) (out dets : list bool) : Prop :=
  exists m', run p m = Ok m' /\ m_st m' =s ast beta' phi'
             /\ m_rec m' = out ++ m_rec m /\ m_det m' = dets ++ m_det m /\ m_obs m' = m_obs m.

Lemma runs_app0 p1 p2 m b1 f1 b2 f2 o d :
  runs p1 m b1 f1 [] [] ->
  (forall m1, m_st m1 =s ast b1 f1 -> runs p2 m1 b2 f2 o d) ->
  runs (p1 ++ p2) m b2 f2 o d.
Proof.
  intros (m1 & R1 & S1 & Rc1 & D1 & O1) H2.
  destruct (H2 m1 S1) as (m2 & R2 & S2 & Rc2 & D2 & O2).
  exists m2. rewrite run_app, R1. simpl. rewrite R2. repeat split; auto.
  - now rewrite Rc2, Rc1.
  - now rewrite D2, D1.
  - now rewrite O2.
Qed.

Lemma runs_app p1 p2 m b1 f1 o1 d1 b2 f2 o2 d2 :
  runs p1 m b1 f1 o1 d1 ->
  (forall m1, m_st m1 =s ast b1 f1 -> runs p2 m1 b2 f2 o2 d2) ->
  runs (p1 ++ p2) m b2 f2 (o2 ++ o1) (d2 ++ d1).
Proof.
  intros (m1 & R1 & S1 & Rc1 & D1 & O1) H2.
  destruct (H2 m1 S1) as (m2 & R2 & S2 & Rc2 & D2 & O2).
  exists m2. rewrite run_app, R1. simpl. rewrite R2. repeat split; auto.
  - now rewrite Rc2, Rc1, app_assoc.
  - now rewrite D2, D1, app_assoc.
  - now rewrite O2.
Qed.

Lemma runs_appL p1 p2 m b1 f1 b2 f2 o d :
  runs p1 m b1 f1 o d ->
  (forall m1, m_st m1 =s ast b1 f1 -> runs p2 m1 b2 f2 [] []) ->
  runs (p1 ++ p2) m b2 f2 o d.
Proof.
  intros H1 H2. pose proof (runs_app p1 p2 m b1 f1 o d b2 f2 [] [] H1 H2) as H. exact H.
Qed.

Lemma runs_nil m beta phi : m_st m =s ast beta phi -> runs [] m beta phi [] [].
Proof. intros H. exists m. repeat split; auto. Qed.

Lemma runs_ext p m b f o d b' f' :
  runs p m b f o d -> (forall q, b q = b' q) -> (forall q, f q = f' q) -> runs p m b' f' o d.
Proof.
  intros (m' & R & S & X) Hb Hf. exists m'. split; [exact R|]. split; [|exact X].
  intro q. rewrite S. unfold ast. now rewrite Hb, Hf.
Qed.

(* ------------------------------------------------------------------ TICK *)
Lemma runs_tick_if (c : bool) m beta phi : m_st m =s ast beta phi -> runs (if c then [ITick] else []) m beta phi [] [].
Proof. intros H. destruct c; exists m; repeat split; auto. Qed.

(* ------------------------------------------------------------------ single-qubit gates on a duplicate-free list *)
Lemma zmem_In q l : zmem q l = true <-> In q l.
Proof.
  unfold zmem. rewrite existsb_exists. split.
  - intros (x & Hx & E). apply Z.eqb_eq in E. now subst.
  - intros H. exists q. split; [exact H | apply Z.eqb_refl].
Qed.
Lemma zmem_false q l : zmem q l = false <-> ~ In q l.
Proof. rewrite <- zmem_In. destruct (zmem q l); split; congruence. Qed.

(* a gate that maps (beta, phi) at q to (gb (beta q), gf) whenever phi q = f0 *)
Lemma runs_gates g (f0 gf : bool) (gb : bool -> bool) :
  (forall b, apply1 g (if f0 then Xs b else Zb b) = if gf then Xs (gb b) else Zb (gb b)) ->
  forall qs m beta phi,
    NoDup qs -> (forall q, In q qs -> phi q = f0) -> m_st m =s ast beta phi ->
    runs (map (IGate g) qs) m
         (fun q => if zmem q qs then gb (beta q) else beta q)
         (fun q => if zmem q qs then gf else phi q) [] [].
Proof.
  intros Hg qs. induction qs as [|q0 qs IH]; intros m beta phi ND Hphi Hst.
  - simpl. apply runs_nil. exact Hst.
  - simpl map. inversion ND as [|? ? Hnin ND']; subst.
    change (IGate g q0 :: map (IGate g) qs) with ([IGate g q0] ++ map (IGate g) qs).
    eapply runs_ext.
    + change (@nil bool) with (@nil bool ++ @nil bool).
      eapply runs_app.
      * (* the first gate *)
        exists (MkM (upd (m_st m) q0 (apply1 g (m_st m q0))) (m_rec m) (m_det m) (m_obs m)).
        split; [reflexivity|]. split; [|repeat split; reflexivity].
        instantiate (1 := fun q => if q =? q0 then gf else phi q).
        instantiate (1 := fun q => if q =? q0 then gb (beta q) else beta q).
        intro q. simpl. unfold upd, ast. destruct (q =? q0) eqn:E.
        -- apply Z.eqb_eq in E. subst q. rewrite Hst. unfold ast. rewrite (Hphi q0 (or_introl eq_refl)). apply Hg.
        -- rewrite Hst. reflexivity.
      * intros m1 S1. apply IH; [exact ND' | | exact S1].
        intros q Hq. cbv beta. destruct (q =? q0) eqn:E.
        -- apply Z.eqb_eq in E. subst. contradiction.
        -- apply Hphi. now right.
    + intro q. simpl. destruct (q =? q0) eqn:E.
      * apply Z.eqb_eq in E. subst q.
        assert (zmem q0 qs = false) as -> by (now apply zmem_false). reflexivity.
      * reflexivity.
    + intro q. simpl. destruct (q =? q0) eqn:E.
      * apply Z.eqb_eq in E. subst q.
        assert (zmem q0 qs = false) as -> by (now apply zmem_false). reflexivity.
      * reflexivity.
Qed.

(* the instances used by the repetition-code circuits *)
Lemma runs_activate qs m beta phi :          (* SQRT_Y on computational-basis qubits: |b> -> X-basis with sign b *)
  NoDup qs -> (forall q, In q qs -> phi q = false) -> m_st m =s ast beta phi ->
  runs (map (IGate G_SY) qs) m beta (fun q => if zmem q qs then true else phi q) [] [].
Proof.
  intros ND Hp Hs. eapply runs_ext.
  - apply (runs_gates G_SY false true (fun b => b)); [intros b; reflexivity | exact ND | exact Hp | exact Hs].
  - intro q. simpl. now destruct (zmem q qs).
  - reflexivity.
Qed.

Lemma runs_close qs m beta phi :             (* SQRT_Y_DAG on X-basis qubits: sign s -> |s> *)
  NoDup qs -> (forall q, In q qs -> phi q = true) -> m_st m =s ast beta phi ->
  runs (map (IGate G_SYD) qs) m beta (fun q => if zmem q qs then false else phi q) [] [].
Proof.
  intros ND Hp Hs. eapply runs_ext.
  - apply (runs_gates G_SYD true false (fun b => b)); [intros b; reflexivity | exact ND | exact Hp | exact Hs].
  - intro q. simpl. now destruct (zmem q qs).
  - reflexivity.
Qed.

Lemma runs_flip qs m beta phi :              (* X on computational-basis qubits *)
  NoDup qs -> (forall q, In q qs -> phi q = false) -> m_st m =s ast beta phi ->
  runs (map (IGate G_X) qs) m (fun q => if zmem q qs then negb (beta q) else beta q) phi [] [].
Proof.
  intros ND Hp Hs. eapply runs_ext.
  - apply (runs_gates G_X false false negb); [intros b; reflexivity | exact ND | exact Hp | exact Hs].
  - reflexivity.
  - intro q. simpl. destruct (zmem q qs) eqn:E; [|reflexivity]. apply zmem_In in E. now rewrite Hp.
Qed.

(* ------------------------------------------------------------------ reset / measurement *)
Lemma runs_reset qs m beta phi :
  m_st m =s ast beta phi ->
  runs (map IR qs) m (fun q => if zmem q qs then false else beta q) (fun q => if zmem q qs then false else phi q) [] [].
Proof.
  revert m beta phi. induction qs as [|q0 qs IH]; intros m beta phi Hst.
  - simpl. apply runs_nil. exact Hst.
  - simpl map. change (IR q0 :: map IR qs) with ([IR q0] ++ map IR qs).
    eapply runs_ext.
    + change (@nil bool) with (@nil bool ++ @nil bool). eapply runs_app.
      * exists (MkM (upd (m_st m) q0 (Zb false)) (m_rec m) (m_det m) (m_obs m)).
        split; [reflexivity|]. split; [|repeat split; reflexivity].
        instantiate (1 := fun q => if q =? q0 then false else phi q).
        instantiate (1 := fun q => if q =? q0 then false else beta q).
        intro q. simpl. unfold upd, ast. destruct (q =? q0); [reflexivity | apply Hst].
      * intros m1 S1. apply IH. exact S1.
    + intro q. simpl. destruct (q =? q0); [now destruct (zmem q qs) | reflexivity].
    + intro q. simpl. destruct (q =? q0); [now destruct (zmem q qs) | reflexivity].
Qed.

Lemma runs_measure qs m beta phi :
  (forall q, In q qs -> phi q = false) -> m_st m =s ast beta phi ->
  runs (map IM qs) m beta phi (rev (map beta qs)) [].
Proof.
  revert m. induction qs as [|q0 qs IH]; intros m Hp Hst.
  - simpl. apply runs_nil. exact Hst.
  - simpl map. change (IM q0 :: map IM qs) with ([IM q0] ++ map IM qs).
    simpl rev. change (@nil bool) with (@nil bool ++ @nil bool).
    eapply runs_app.
    + exists (MkM (m_st m) (beta q0 :: m_rec m) (m_det m) (m_obs m)).
      split.
      * unfold run; simpl. rewrite Hst. unfold ast. rewrite (Hp q0 (or_introl eq_refl)). reflexivity.
      * split; [exact Hst|]. repeat split; reflexivity.
    + intros m1 S1. apply IH; [|exact S1]. intros q Hq. apply Hp. now right.
Qed.

(* ------------------------------------------------------------------ controlled-Z between a computational and an X-basis qubit *)
Definition czb (phi beta : Z -> bool) (e : Z * Z) : Z -> bool :=
  if phi (fst e) then updb beta (fst e) (xorb (beta (fst e)) (beta (snd e)))
  else updb beta (snd e) (xorb (beta (snd e)) (beta (fst e))).

Lemma runs_cz gates : forall m beta phi,
  (forall e, In e gates -> fst e <> snd e /\ phi (fst e) <> phi (snd e)) ->
  m_st m =s ast beta phi ->
  runs (map (fun e => ICZ (fst e) (snd e)) gates) m (fold_left (czb phi) gates beta) phi [] [].
Proof.
  induction gates as [|[u v] gates IH]; intros m beta phi Hg Hst.
  - simpl. apply runs_nil. exact Hst.
  - simpl map. simpl fold_left.
    change (ICZ u v :: ?r) with ([ICZ u v] ++ r).
    change (@nil bool) with (@nil bool ++ @nil bool).
    destruct (Hg (u, v) (or_introl eq_refl)) as [Hne Hphi]. simpl in Hne, Hphi.
    eapply runs_app.
    + instantiate (1 := phi). instantiate (1 := czb phi beta (u, v)).
      unfold runs, run. simpl rfold.
      assert (u =? v = false) as -> by (apply Z.eqb_neq; exact Hne).
      rewrite (Hst u), (Hst v). unfold ast, czb. simpl fst; simpl snd.
      destruct (phi u) eqn:Eu, (phi v) eqn:Ev; try congruence.
      * eexists. split; [reflexivity|]. split; [|repeat split; reflexivity].
        intro q. simpl. unfold upd, updb, ast. rewrite ?Eu. cbv beta. destruct (q =? u) eqn:E.
        -- apply Z.eqb_eq in E. subst q. rewrite Eu. reflexivity.
        -- rewrite Hst. reflexivity.
      * eexists. split; [reflexivity|]. split; [|repeat split; reflexivity].
        intro q. simpl. unfold upd, updb, ast. rewrite ?Eu. cbv beta. destruct (q =? v) eqn:E.
        -- apply Z.eqb_eq in E. subst q. rewrite Ev. reflexivity.
        -- rewrite Hst. reflexivity.
    + intros m1 S1. apply IH; [|exact S1]. intros e He. apply Hg. now right.
Qed.

(* ------------------------------------------------------------------ reading the record *)
Lemma rec_at_app_l (a r : list bool) (j : nat) :
  (j < length a)%nat -> rec_at (a ++ r) (- Z.of_nat (S j)) = nth_error a j.
Proof.
  intros H. unfold rec_at. assert (- Z.of_nat (S j) <? 0 = true) as -> by lia.
  replace (Z.to_nat (- - Z.of_nat (S j) - 1)) with j by lia.
  now rewrite nth_error_app1.
Qed.

Lemma rec_at_app_r (a r : list bool) (k : Z) :
  k < 0 -> rec_at (a ++ r) (k - Z.of_nat (length a)) = rec_at r k.
Proof.
  intros H. unfold rec_at.
  assert (k - Z.of_nat (length a) <? 0 = true) as -> by lia.
  assert (k <? 0 = true) as -> by lia.
  replace (Z.to_nat (- (k - Z.of_nat (length a)) - 1)) with (length a + Z.to_nat (- k - 1))%nat by lia.
  rewrite nth_error_app2 by lia. f_equal. lia.
Qed.

Lemma nth_error_rev (l : list bool) (j : nat) :
  (j < length l)%nat -> nth_error (rev l) (length l - 1 - j) = Some (nth j l false).
Proof.
  intros H. rewrite nth_error_nth' with (d := false) by (rewrite rev_length; lia).
  rewrite rev_nth by lia. f_equal. f_equal. lia.
Qed.

(* the j-th entry (in measurement order) of the most recent block `l` of the record *)
Lemma rec_at_block (l r : list bool) (j : nat) :
  (j < length l)%nat ->
  rec_at (rev l ++ r) (- (Z.of_nat (length l) - Z.of_nat j)) = Some (nth j l false).
Proof.
  intros H.
  replace (- (Z.of_nat (length l) - Z.of_nat j)) with (- Z.of_nat (S (length l - 1 - j))) by lia.
  rewrite rec_at_app_l by (rewrite rev_length; lia).
  apply nth_error_rev. exact H.
Qed.
