(* C09 -- one QEC round, for an arbitrary description whose gate layers pass a decidable check:
   every gate joins an ancilla and a data qubit, no ancilla is activated twice in a layer.
   The round maps the product state "all qubits in the computational basis with bits beta" to the same kind of state
   with every ancilla bit XOR-ed with the bits of its gate partners; it never leaves the fragment (no CZ between two
   X-basis qubits) and measures computational-basis qubits only. *)
From Coq Require Import ZArith List Bool Lia ZifyBool.
Import ListNotations.
From QCE Require Import C09.Stim C09.Sem C09.Model C09.Wf C09.ProofsSem.
Open Scope Z_scope.

(* ------------------------------------------------------------------ decidable conditions *)
Lemma nodupb_NoDup l : nodupb l = true -> NoDup l.
Proof.
  induction l as [|x t IH]; simpl; intros H; [constructor|].
  apply andb_true_iff in H as [H1 H2]. constructor; [|auto].
  apply zmem_false. now apply negb_true_iff.
Qed.

Lemma disjointb_spec a b q : disjointb a b = true -> zmem q a = true -> zmem q b = false.
Proof.
  unfold disjointb. rewrite forallb_forall. intros H Hq. apply zmem_In in Hq.
  apply negb_true_iff. now apply H.
Qed.

Lemma zmem_filter q f l : zmem q (filter f l) = zmem q l && f q.
Proof.
  induction l as [|x t IH]; [reflexivity|]. simpl filter.
  destruct (f x) eqn:Ef.
  - change (zmem q (x :: filter f t)) with ((q =? x) || zmem q (filter f t)).
    change (zmem q (x :: t)) with ((q =? x) || zmem q t). rewrite IH.
    destruct (q =? x) eqn:E; [|reflexivity]. apply Z.eqb_eq in E. subst. rewrite Ef. simpl. reflexivity.
  - change (zmem q (x :: t)) with ((q =? x) || zmem q t). rewrite IH.
    destruct (q =? x) eqn:E; [|reflexivity]. apply Z.eqb_eq in E. subst. rewrite Ef.
    simpl. now rewrite andb_false_r.
Qed.

Lemma active_In anc gates q :
  In q (active anc gates) <-> exists e, In e gates /\ (q = fst e \/ q = snd e) /\ zmem q anc = true.
Proof.
  unfold active. rewrite in_flat_map. split.
  - intros (e & He & Hq). apply filter_In in Hq as [Hq Ha]. exists e. split; [exact He|]. split; [|exact Ha].
    simpl in Hq. destruct Hq as [Hq|[Hq|[]]]; auto.
  - intros (e & He & Hq & Ha). exists e. split; [exact He|]. apply filter_In. split; [|exact Ha].
    simpl. destruct Hq as [->| ->]; auto.
Qed.

Lemma active_sub anc gates q : zmem q (active anc gates) = true -> zmem q anc = true.
Proof. intros H. apply zmem_In in H. apply active_In in H as (e & _ & _ & Ha). exact Ha. Qed.

(* what the gate check gives for a gate of the layer, with phi = "is an active ancilla of this layer" *)
Lemma gate_facts anc data gates e :
  disjointb anc data = true -> gate_ok anc data e = true -> In e gates ->
  fst e <> snd e
  /\ zmem (fst e) (active anc gates) <> zmem (snd e) (active anc gates)
  /\ zmem (fst e) (active anc gates) = zmem (fst e) anc.
Proof.
  intros Hd Hg He. unfold gate_ok in Hg. apply orb_true_iff in Hg.
  assert (Hact : forall q, (q = fst e \/ q = snd e) -> zmem q anc = true -> zmem q (active anc gates) = true).
  { intros q Hq Ha. apply zmem_In. apply active_In. exists e. auto. }
  assert (Hnot : forall q, zmem q anc = false -> zmem q (active anc gates) = false).
  { intros q Ha. destruct (zmem q (active anc gates)) eqn:E; [|reflexivity]. apply active_sub in E. congruence. }
  destruct Hg as [Hg|Hg]; apply andb_true_iff in Hg as [H1 H2].
  - (* fst ancilla, snd data *)
    assert (Hs : zmem (snd e) anc = false).
    { destruct (zmem (snd e) anc) eqn:E; [|reflexivity]. pose proof (disjointb_spec _ _ _ Hd E). congruence. }
    rewrite (Hact (fst e)) by auto. rewrite (Hnot (snd e) Hs). rewrite H1.
    repeat split; congruence.
  - (* fst data, snd ancilla *)
    assert (Hs : zmem (fst e) anc = false).
    { destruct (zmem (fst e) anc) eqn:E; [|reflexivity]. pose proof (disjointb_spec _ _ _ Hd E). congruence. }
    rewrite (Hact (snd e)) by auto. rewrite (Hnot (fst e) Hs). rewrite Hs.
    repeat split; congruence.
Qed.

(* ------------------------------------------------------------------ the bit-level effect of the gate layers *)
Definition in_anc (anc : list Z) : Z -> bool := fun q => zmem q anc.
Definition gates_bits (anc : list Z) (gates : list (Z * Z)) (beta : Z -> bool) : Z -> bool :=
  fold_left (czb (in_anc anc)) gates beta.
Definition layers_bits (anc : list Z) (ls : list (list (Z * Z) * list Z)) (beta : Z -> bool) : Z -> bool :=
  fold_left (fun b l => gates_bits anc (fst l) b) ls beta.

Lemma fold_left_ext_in {A B} (f g : A -> B -> A) (l : list B) :
  (forall x a, In x l -> f a x = g a x) -> forall a, fold_left f l a = fold_left g l a.
Proof.
  induction l as [|x t IH]; intros H a; [reflexivity|]. simpl.
  rewrite (H x a (or_introl eq_refl)). apply IH. intros y b Hy. apply H. now right.
Qed.

Definition first_active (anc : list Z) (ls : list (list (Z * Z) * list Z)) : list Z :=
  match ls with [] => [] | l :: _ => active anc (fst l) end.

Lemma layers_run anc data :
  disjointb anc data = true ->
  forall ls cur m beta phi,
    (forall l, In l ls -> layer_ok anc data (fst l) = true) ->
    (forall q, phi q = zmem q cur && zmem q (first_active anc ls)) ->
    m_st m =s ast beta phi ->
    runs (layers_instrs anc cur ls) m (layers_bits anc ls beta) none [] [].
Proof.
  intros Hd ls. induction ls as [|[gates parks] rest IH]; intros cur m beta phi Hok Hphi Hst.
  - simpl. eapply runs_ext; [apply runs_nil; exact Hst | reflexivity |].
    intro q. rewrite Hphi. simpl. now rewrite andb_false_r.
  - simpl layers_instrs. simpl first_active in Hphi.
    set (act := active anc gates) in *.
    assert (Hl : layer_ok anc data gates = true) by (apply (Hok (gates, parks)); now left).
    unfold layer_ok in Hl. apply andb_true_iff in Hl as [Hgates Hnd].
    rewrite forallb_forall in Hgates. fold act in Hnd. apply nodupb_NoDup in Hnd.
    (* activation *)
    eapply runs_app0.
    { eapply runs_ext.
      - apply runs_activate; [apply NoDup_filter; exact Hnd | | exact Hst].
        intros q Hq. apply filter_In in Hq as [_ Hq]. rewrite Hphi. apply negb_true_iff in Hq. now rewrite Hq.
      - reflexivity.
      - instantiate (1 := fun q => zmem q act). intro q. cbv beta. rewrite zmem_filter, Hphi.
        destruct (zmem q act), (zmem q cur); reflexivity. }
    intros m1 S1. eapply runs_app0; [apply runs_tick_if; exact S1|].
    intros m2 S2.
    (* the gates *)
    eapply runs_app0.
    { eapply runs_ext.
      - apply runs_cz; [|exact S2]. intros e He.
        destruct (gate_facts anc data gates e Hd (Hgates e He) He) as (H1 & H2 & _). split; assumption.
      - instantiate (1 := gates_bits anc gates beta). intro q. unfold gates_bits.
        rewrite (fold_left_ext_in (czb (fun q => zmem q act)) (czb (in_anc anc))); [reflexivity|].
        intros e b He. unfold czb, in_anc.
        destruct (gate_facts anc data gates e Hd (Hgates e He) He) as (_ & _ & H3). fold act in H3. now rewrite H3.
      - reflexivity. }
    intros m3 S3. eapply runs_app0; [apply runs_tick_if; exact S3|].
    intros m4 S4. eapply runs_app0; [apply runs_tick_if; exact S4|].
    intros m5 S5.
    (* closure *)
    eapply runs_app0.
    { eapply runs_ext.
      - apply runs_close; [| | exact S5].
        + destruct rest as [|[g' p'] r']; [exact Hnd | apply NoDup_filter; exact Hnd].
        + intros q Hq. cbv beta. apply zmem_In.
          destruct rest as [|[g' p'] r']; [exact Hq | apply filter_In in Hq; tauto].
      - reflexivity.
      - instantiate (1 := fun q => zmem q act && zmem q (first_active anc rest)). intro q. cbv beta.
        destruct rest as [|[g' p'] r'].
        + simpl. rewrite andb_false_r. now destruct (zmem q act).
        + simpl first_active. rewrite zmem_filter.
          destruct (zmem q act), (zmem q (active anc g')); reflexivity. }
    intros m6 S6.
    change (layers_bits anc ((gates, parks) :: rest) beta) with (layers_bits anc rest (gates_bits anc gates beta)).
    apply (IH act m6 (gates_bits anc gates beta) (fun q => zmem q act && zmem q (first_active anc rest))).
    + intros l Hl. apply Hok. now right.
    + reflexivity.
    + exact S6.
Qed.

(* ------------------------------------------------------------------ the whole round *)
Definition flip_bits (data : list Z) (beta : Z -> bool) : Z -> bool :=
  fun q => if zmem q data then negb (beta q) else beta q.

Definition round_bits (D : rdesc) (beta : Z -> bool) : Z -> bool :=
  layers_bits (r_anc D) (combine (r_gates D) (r_parks D)) beta.

Lemma round_run D dd m beta :
  layers_ok D = true -> m_st m =s ast beta none ->
  runs (round_instrs D dd) m
       (if dd && r_refocus D then flip_bits (r_data D) (round_bits D beta) else round_bits D beta) none
       (rev (map (round_bits D beta) (r_anc D))) [].
Proof.
  intros Hok Hst. unfold layers_ok in Hok.
  repeat (apply andb_true_iff in Hok as [Hok ?]).
  rename H into Hlayers, H0 into Hlen, H1 into Hna, H2 into Hnd, Hok into Hdis.
  unfold round_instrs.
  eapply runs_app0.
  { apply (layers_run (r_anc D) (r_data D) Hdis _ [] m beta none); [| reflexivity | exact Hst].
    intros l Hl. rewrite forallb_forall in Hlayers. apply Hlayers.
    destruct l as [g p]. apply in_combine_l in Hl. exact Hl. }
  fold (round_bits D beta).
  intros m1 S1. eapply runs_app0; [apply (runs_tick_if true); exact S1|].
  intros m2 S2.
  replace (rev (map (round_bits D beta) (r_anc D))) with ([] ++ rev (map (round_bits D beta) (r_anc D)))
    by reflexivity.
  replace (@nil bool) with (@nil bool ++ @nil bool) at 2 by reflexivity.
  eapply runs_app.
  { apply runs_measure; [|exact S2]. reflexivity. }
  intros m3 S3.
  destruct (dd && r_refocus D) eqn:Erf.
  - eapply runs_app0.
    + apply runs_flip; [apply nodupb_NoDup; exact Hnd | reflexivity | exact S3].
    + intros m4 S4. apply runs_tick_if. exact S4.
  - simpl app. apply runs_tick_if. exact S3.
Qed.
