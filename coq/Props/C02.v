(* C02 — Nothing lost, nothing duplicated: the operations listing is complete and causal.
   Property theorems only; each closed by `exact <lemma>`; assumptions printed beneath.
   `listing env ns` (Core.Model) models DeclarativeCircuit.operations; `run_prog env p` the circuit built by program p.
   Stability (listing twice gives the same sequence) is not a theorem here: `listing` is a function, so the statement would be
   `x = x`; it is observed on the implementation and judged by C02.Run.spec_ok (flag c_stable). *)
From Coq Require Import ZArith List Bool Permutation.
Import ListNotations.
From QCE Require Import Base.Prelude Core.Model Core.BfsProofs Core.BfsWf C02.Run C02.Proofs.
From Gen Require Import Ident Classes.

(* every graph a program builds is a well-formed forest, at every nesting level: the hypothesis of the graph-level theorems *)
Theorem C02_built_graphs_wellformed : forall env r p, wf_op (OComp r (run_prog env p)).
Proof. exact run_prog_wf_op. Qed.

(* completeness.  Hypothesis prog_ok: every graph listed during the build and the final circuit (nested copies included)
   has relation depth below the documented limit; C02_small_prog_ok gives a syntactic sufficient condition *)
Theorem C02_labels_perm : forall env p, prog_ok env p ->
  Permutation (map l_lab (map e_leaf (listing env (run_prog env p)))) (map l_lab (prog_leaves p)).
Proof. exact listing_labels_perm. Qed.

Theorem C02_leaves_perm : forall env p, prog_ok env p -> faithful_classes p ->
  Permutation (map e_leaf (listing env (run_prog env p))) (prog_leaves p).
Proof. exact listing_leaves_perm. Qed.

(* without the faithfulness hypothesis: the listed leaves are the added ones with the per-class copy() applied once per
   nesting level *)
Theorem C02_built_leaves_perm : forall env p, prog_ok env p ->
  Permutation (map e_leaf (listing env (run_prog env p))) (built_leaves p).
Proof. exact listing_built_perm. Qed.

(* for the classes of the current source no faithfulness hypothesis is left *)
Theorem C02_leaves_perm_current_classes : forall env p, prog_ok env p ->
  Permutation (map e_leaf (listing env (run_prog env p))) (prog_leaves p).
Proof. exact listing_leaves_perm_current. Qed.

(* at most 4999 commands in the program and in every sub-circuit body is enough *)
Theorem C02_small_prog_ok : forall env p, small_prog p -> prog_ok env p.
Proof. exact small_prog_ok. Qed.

(* a copy keeps the multiset of leaves (each passed through the per-class copy()) *)
Theorem C02_copy_keeps_leaves : forall env o, listable_op o ->
  Permutation (all_leaves (copy_op env o)) (map copy_leaf (all_leaves o)).
Proof. exact copy_op_leaves_perm. Qed.

(* causality, graph level: the whole expansion of the node a parent pointer (the reported referent) names precedes the whole
   expansion of the node that carries it *)
Theorem C02_causal : forall env r ns c se j p, wf_parents (parents ns) ->
  nth_error (parents ns) j = Some (Some p) -> In j (bfs (parents ns)) ->
  forall ep ej, In ep (node_entries env c ns p) -> In ej (node_entries env c ns j) ->
                before (listing_op env (OComp r ns) c se) ep ej.
Proof. exact causal_parent. Qed.

Theorem C02_causal_blocks : forall env r ns c se j p, wf_parents (parents ns) ->
  nth_error (parents ns) j = Some (Some p) -> In j (bfs (parents ns)) ->
  exists l1 l2 l3, listing_op env (OComp r ns) c se = l1 ++ node_entries env c ns p ++ l2 ++ node_entries env c ns j ++ l3.
Proof. exact causal_blocks. Qed.

(* in terms of the stored relation link *)
Theorem C02_causal_link : forall env r ns c se j n t p, wf_nodes ns ->
  nth_error ns j = Some n -> n_link n = LRel t p -> In j (bfs (parents ns)) ->
  forall ep ej, In ep (node_entries env c ns p) -> In ej (node_entries env c ns j) ->
                before (listing_op env (OComp r ns) c se) ep ej.
Proof. exact causal_link_rel. Qed.

Theorem C02_causal_multi_link : forall env r ns c se j n qs, wf_nodes ns ->
  nth_error ns j = Some n -> n_link n = LMulti qs -> In j (bfs (parents ns)) ->
  exists p, In p qs /\ nth_error (parents ns) j = Some (Some p) /\
  forall ep ej, In ep (node_entries env c ns p) -> In ej (node_entries env c ns j) ->
                before (listing_op env (OComp r ns) c se) ep ej.
Proof. exact causal_link_multi. Qed.

(* for the circuit a program builds (no hypothesis left) *)
Theorem C02_causal_prog : forall env p j n t q, nth_error (run_prog env p) j = Some n -> n_link n = LRel t q ->
  In j (bfs (parents (run_prog env p))) ->
  forall ep ej, In ep (node_entries env None (run_prog env p) q) -> In ej (node_entries env None (run_prog env p) j) ->
                before (listing env (run_prog env p)) ep ej.
Proof. exact causal_prog. Qed.

(* the documented depth limit: the listing consists of the expansions of exactly the nodes of relation depth < 4999, each once *)
Theorem C02_truncation : forall env r ns c se, wf_parents (parents ns) ->
  listing_op env (OComp r ns) c se = flat_map (node_entries env c ns) (bfs (parents ns)) /\
  NoDup (bfs (parents ns)) /\
  (forall i, In i (bfs (parents ns)) <-> (i < length ns)%nat /\ (Z.of_nat (depth (parents ns) i) < 4999)%Z).
Proof. exact listing_truncation. Qed.

Theorem C02_chain_truncated : forall n, (4999 <= Z.of_nat n)%Z -> Z.of_nat (length (bfs (chain_parents n))) = 4999%Z.
Proof. exact chain_truncated. Qed.

(* the layered listing of any well-formed forest: depth-sorted, parents first *)
Theorem C02_bfs_depth_sorted : forall ps fuel i j, wf_parents ps -> before (bfs_fuel ps fuel) i j -> (depth ps i <= depth ps j)%nat.
Proof. exact bfs_depth_sorted. Qed.

Theorem C02_bfs_complete : forall ps, wf_parents ps -> (forall i, (i < length ps)%nat -> (depth ps i < max_layers)%nat) ->
  Permutation (bfs ps) (seq 0 (length ps)).
Proof. exact bfs_perm. Qed.

From Gen Require Flags.
Theorem C02_depth_limit_from_source : Flags.MAX_GRAPH_DEPTH = Core.Model.MAX_GRAPH_DEPTH.
Proof. exact max_graph_depth_from_source. Qed.
Theorem C02_listed_layers_from_source : Z.of_nat max_layers = (Flags.loop_safety_passes Flags.MAX_GRAPH_DEPTH - 1)%Z.
Proof. exact listed_layers_from_source. Qed.
Print Assumptions C02_listed_layers_from_source.
Print Assumptions C02_depth_limit_from_source.

Print Assumptions C02_built_graphs_wellformed.
Print Assumptions C02_labels_perm.
Print Assumptions C02_leaves_perm.
Print Assumptions C02_built_leaves_perm.
Print Assumptions C02_leaves_perm_current_classes.
Print Assumptions C02_small_prog_ok.
Print Assumptions C02_copy_keeps_leaves.
Print Assumptions C02_causal.
Print Assumptions C02_causal_blocks.
Print Assumptions C02_causal_link.
Print Assumptions C02_causal_multi_link.
Print Assumptions C02_causal_prog.
Print Assumptions C02_truncation.
Print Assumptions C02_chain_truncated.
Print Assumptions C02_bfs_depth_sorted.
Print Assumptions C02_bfs_complete.
