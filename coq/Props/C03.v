(* C03 — Answers depend on the circuit, not on what was asked before. *)
From Coq Require Import ZArith List Bool.
Import ListNotations.
From QCE Require Import Base.Prelude Core.Model Core.Run Core.EnvIndep C03.Memo C03.Model C03.Proofs.

(* the (memo-free) model: the answer to an observation after any history equals the answer after the same mutations with all
   earlier observations erased *)
Theorem C03_model_history_independent : forall s h, answer_after s h = answer_after s (Model.erase h).
Proof. exact answers_history_independent. Qed.
Theorem C03_model_answers : forall s h, hrun s (h ++ [HObsListing]) = hrun s h ++ [answer_after s h].
Proof. exact hrun_last_observation. Qed.

(* a memoised implementation of any function of the state: if every mutation empties the memo table, every answer is the
   current value, hence independent of earlier queries *)
Theorem C03_memo_sound : forall (W K V : Type) (keqb : K -> K -> bool), (forall a b, keqb a b = true <-> a = b) ->
  forall (truth : W -> K -> V) w c h, coherent keqb truth w c -> all_invalidate h = true -> run keqb truth w c h = run_plain truth w h.
Proof. exact @memo_sound. Qed.
Theorem C03_memo_history_independent : forall (W K V : Type) (keqb : K -> K -> bool), (forall a b, keqb a b = true <-> a = b) ->
  forall (truth : W -> K -> V) w h k, all_invalidate h = true ->
  last (run keqb truth w [] (h ++ [Query k])) (truth w k) = last (run keqb truth w [] (Memo.erase h ++ [Query k])) (truth w k).
Proof. exact @memo_history_independent. Qed.

(* the memoised implementation: with the invalidation calls the translator finds in the source (Gen/Flags.v), the memoised
   start time of every operation after every history equals its current value *)
Theorem C03_memoised_start_times_are_current : forall s h,
  run path_eqb start_truth s [] (to_steps h) = run_plain start_truth s (to_steps h).
Proof. exact memoised_start_times_are_current. Qed.
Theorem C03_every_mutation_point_invalidates : forall c, cmd_invalidates c = true.
Proof. exact flags_all_invalidate. Qed.

Print Assumptions C03_memoised_start_times_are_current.
Print Assumptions C03_every_mutation_point_invalidates.
Print Assumptions C03_model_history_independent.
Print Assumptions C03_model_answers.
Print Assumptions C03_memo_sound.
Print Assumptions C03_memo_history_independent.

(* a circuit built -- and unrolled -- under settings e1 and then observed under settings e2 reports exactly what a circuit built
   under e2 reports: building never consults the settings (Core/EnvIndep.v) *)
Theorem C03_settings_change_is_reflected_by_structure_built_earlier : forall e1 e2 p,
  model_obs e2 (run_prog e1 p) = model_obs e2 (run_prog e2 p)
  /\ model_obs e2 (apply_modifiers e1 1 (run_prog e1 p)) = model_obs e2 (apply_modifiers e2 1 (run_prog e2 p)).
Proof. exact observed_after_change. Qed.
Print Assumptions C03_settings_change_is_reflected_by_structure_built_earlier.
