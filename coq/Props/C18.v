(* C18 — Drawing shows the schedule and leaves the circuit alone. *)
From Coq Require Import ZArith List Bool String Permutation.
Import ListNotations.
From QCE Require Import Base.Prelude Core.Model Core.Run C18.Memo C18.Model C18.ProofsDraw C18.ProofsSlots C18.Proofs.
From Gen Require Import Ident Classes Flags.
Open Scope string_scope.
Open Scope list_scope.
Open Scope Z_scope.

(* generic memo lemma: in a history all of whose mutations empty the table, a memo table in front of ANY function of a
   mutable world answers every query with the current value (= the unmemoised run), and ends coherent *)
Theorem C18_memo_sound : forall (W K V : Type) (keqb : K -> K -> bool) (truth : W -> K -> V),
  (forall a b, keqb a b = true -> a = b) ->
  forall h w c, coherent keqb truth w c -> all_invalidate h = true ->
    snd (run keqb truth (w, c) h) = snd (run_plain truth w h)
    /\ fst (fst (run keqb truth (w, c) h)) = fst (run_plain truth w h)
    /\ coherent keqb truth (fst (fst (run keqb truth (w, c) h))) (snd (fst (run keqb truth (w, c) h))).
Proof. exact (@memo_sound). Qed.

(* the hypothesis of the memo lemma holds for the current source: all five schedule-mutation points (add_to_graph, the link
   hand-off in decomposed_operations, DurationRegistry.set_registry_at, entering and leaving the global-duration override)
   call invalidate_start_time_cache(), which clears both get_start_time tables *)
Theorem C18_every_mutation_point_invalidates : flags_sound = true.
Proof. exact flags_sound_holds. Qed.

(* channel order: a duplicate-free requested order of occupied channels gives a permutation of the occupied channels that
   starts with the requested order, the remaining channels following in their original order *)
Theorem C18_reorder_perm : forall original specific, NoDup original -> NoDup specific -> (forall i, In i specific -> In i original) ->
  exists rest, reorder_indices original specific = Some (specific ++ rest)
               /\ rest = filter (fun i => negb (zmem i specific)) original
               /\ Permutation (specific ++ rest) original /\ NoDup (specific ++ rest).
Proof. exact reorder_perm. Qed.

(* an unknown channel is rejected (and only that), and then nothing is drawn *)
Theorem C18_reorder_rejects : forall original specific,
  reorder_indices original specific = None <-> exists i, In i specific /\ ~ In i original.
Proof. exact reorder_rejects. Qed.
Theorem C18_unknown_channel_never_drawn : forall env ns order lm,
  true_drawing env ns order lm = None <-> exists i, In i order /\ ~ In i (channel_ids ns).
Proof. exact drawing_rejects. Qed.

(* the row of a requested channel is its position in the requested order *)
Theorem C18_row_of_requested : forall original specific r q i, reorder_indices original specific = Some r -> NoDup specific ->
  nth_error specific i = Some q -> row_of q r = i.
Proof. exact row_of_requested. Qed.
Theorem C18_row_of_spec : forall q idx, In q idx ->
  nth_error idx (row_of q idx) = Some q /\ forall j, (j < row_of q idx)%nat -> nth_error idx j <> Some q.
Proof. exact row_of_spec. Qed.

(* labels: row i carries the label given for its channel (first binding in the map), by default the channel index *)
Theorem C18_label_map_spec : forall env ns order lm d, visual_description env ns order lm = Some d ->
  List.length (vd_labels d) = List.length (vd_indices d) /\
  forall i ch, nth_error (vd_indices d) i = Some ch -> nth_error (vd_labels d) i = Some (label_of lm ch).
Proof. exact label_map_spec. Qed.
Theorem C18_label_given : forall m ch l, (exists m1 m2, m = m1 ++ (ch, l) :: m2 /\ ~ In ch (map fst m1)) -> label_of (Some m) ch = l.
Proof. exact label_given. Qed.
Theorem C18_label_default : forall m ch, ~ In ch (map fst m) -> label_of (Some m) ch = ch /\ label_of None ch = ch.
Proof. exact label_default. Qed.

(* figure width = latest end + 1 time unit (8 ticks), the latest end counted as at least 1: at least 2 time units *)
Theorem C18_width_spec : forall env ns order lm d, visual_description env ns order lm = Some d ->
  let L := listing env ns in
  vd_width d = fold_left Z.max (map e_end L) 8 + 8
  /\ (forall e, In e L -> e_end e + 8 <= vd_width d)
  /\ 16 <= vd_width d
  /\ (vd_width d = 16 \/ exists e, In e L /\ vd_width d = e_end e + 8).
Proof. exact width_spec. Qed.

(* pivots: every listed operation of a drawn kind has exactly one component, with one transform per drawn qubit (both qubits
   of a two-qubit gate, every qubit of a barrier) at y = -(row of the qubit) * spacing and x = its start time in the listing
   under the drawing's durations; a two-qubit gate is element j of a time-and-space-sharing group of n and shifted accordingly *)
Theorem C18_pivot_spec : forall env ns order lm d p e, true_drawing env ns order lm = Some d ->
  nth_error (listing env ns) p = Some e ->
  let idx := vd_indices (dr_desc d) in
  let l := e_leaf e in
  let D := e_end e - e_start e in
  dr_ops d = listing env ns /\
  if drawn_cls (l_cls l) then
    exists x, filter (fun c => dc_pos c =? Z.of_nat p) (dr_comps d)
              = [ {| dc_pos := Z.of_nat p;
                     dc_tr := map (fun q => {| tr_q := q; tr_x := x; tr_y := row_y (row_of q idx); tr_w := D |}) (drawn_qubits l) |} ]
      /\ if is_two_qubit (l_cls l)
         then exists j n, 0 <= j < n /\ x = shifted_x (e_start e) (j, n) D
         else x = (e_start e, 1)
  else filter (fun c => dc_pos c =? Z.of_nat p) (dr_comps d) = [].
Proof. exact pivot_spec. Qed.
(* a two-qubit gate that is the only two-qubit operation starting at its time is drawn exactly at its start time *)
Theorem C18_pivot_alone_exact : forall env ns order lm d p e, true_drawing env ns order lm = Some d ->
  nth_error (listing env ns) p = Some e -> is_two_qubit (l_cls (e_leaf e)) = true -> drawn_cls (l_cls (e_leaf e)) = true ->
  (forall p' e', nth_error (listing env ns) p' = Some e' -> is_two_qubit (l_cls (e_leaf e')) = true ->
                 e_start e' = e_start e -> p' = p) ->
  forall c t, In c (dr_comps d) -> dc_pos c = Z.of_nat p -> In t (dc_tr c) -> tr_x t = (e_start e, 1).
Proof. exact pivot_alone_exact. Qed.
(* every drawn qubit of every listed operation has a row, and the row computed for it carries its channel *)
Theorem C18_drawn_rows_exist : forall env ns order lm d e q, true_drawing env ns order lm = Some d -> In e (listing env ns) ->
  l_chans (e_leaf e) <> [] -> In q (drawn_qubits (e_leaf e)) ->
  let idx := vd_indices (dr_desc d) in
  In q idx /\ nth_error idx (row_of q idx) = Some q.
Proof. exact drawn_rows_exist. Qed.
Theorem C18_only_operations_drawn : forall env ns order lm d c, true_drawing env ns order lm = Some d -> In c (dr_comps d) ->
  exists p e, nth_error (listing env ns) p = Some e /\ dc_pos c = Z.of_nat p /\ drawn_cls (l_cls (e_leaf e)) = true.
Proof. exact comps_are_operations. Qed.

(* the shift of a grouped two-qubit gate, as coded: at most scalar/2 * D^power / 8^(power-1) ticks ... *)
Theorem C18_shift_bound : forall x0 j n D, 0 <= j < n -> 0 <= D ->
  let x := shifted_x x0 (j, n) D in
  0 < snd x
  /\ Z.abs (fst x - x0 * snd x) * offset_unit <= draw_offset_scalar_num * D ^ draw_offset_duration_power * snd x
  /\ (n = 1 -> x = (x0, 1)).
Proof. exact shifted_x_spec. Qed.
(* ... which is within the documented quarter of the gate's own duration if the shift is linear in the duration, and for the
   quadratic formula of the current source only for durations up to one time unit (finding F19 beyond) *)
Theorem C18_shift_within_quarter_partial : forall x0 j n D, 0 <= j < n -> 0 <= D -> (draw_offset_duration_power = 1 \/ D <= 8) ->
  let x := shifted_x x0 (j, n) D in 0 < snd x /\ 4 * Z.abs (fst x - x0 * snd x) <= D * snd x.
Proof. exact shifted_x_quarter. Qed.
Theorem C18_shift_exceeds_quarter_refuted : draw_offset_duration_power = 2 -> exists x0 j n D, 0 <= j < n /\ 0 <= D /\
  let x := shifted_x x0 (j, n) D in ~ (4 * Z.abs (fst x - x0 * snd x) <= D * snd x).
Proof. exact shifted_x_exceeds_quarter. Qed.

(* drawing does not change the circuit.  From any state whose memo tables are coherent: what is drawn is the drawing of the
   TRUE schedule under the drawing's durations; afterwards structure and duration settings are what they were, the tables
   are coherent, and the observation (operations with start / end / duration, circuit duration, sub-circuit table) is the
   unmemoised model's, i.e. what it was before *)
Theorem C18_plot_preserves : forall compact order lm st, coh st ->
  let r := plot compact order lm st in
  fst r = true_drawing (drawing_env src_flags compact (ms_env st)) (ms_nodes st) order lm
  /\ ms_env (snd r) = ms_env st /\ ms_nodes (snd r) = ms_nodes st /\ coh (snd r)
  /\ fst (m_obs src_flags (snd r)) = model_obs (ms_env st) (ms_nodes st)
  /\ fst (m_obs src_flags (snd r)) = fst (m_obs src_flags st).
Proof. exact plot_preserves. Qed.
(* the same for any tree whose flags satisfy the condition (parametric in what the source does about the tables) *)
Theorem C18_plot_preserves_any_flags : forall F compact order lm st, mf_sound F = true -> coh st ->
  let r := plot_with F compact order lm st in
  fst r = true_drawing (drawing_env F compact (ms_env st)) (ms_nodes st) order lm
  /\ ms_env (snd r) = ms_env st /\ ms_nodes (snd r) = ms_nodes st /\ coh (snd r).
Proof. exact plot_with_preserves. Qed.
(* the condition cannot be dropped: flags of the tree before the invalidation fix, finding F8 *)
Theorem C18_plot_without_invalidation_refuted : exists F env ns, mf_sound F = false /\
  fst (m_obs F (snd (plot_with F true [] None (fresh_state env ns)))) <> model_obs env ns.
Proof. exact plot_needs_invalidation. Qed.
(* compact mode = the generated VISUALIZATION_DURATION_REGISTRY for every global key, whatever the global settings; registry
   durations untouched *)
Theorem C18_compact_durations : forall env,
  drawing_env src_flags true env = vis_env env /\ drawing_env src_flags false env = env
  /\ (forall k, table_get VISUALIZATION_DURATION_REGISTRY (gkey_name k) = Some (genv (vis_env env) k))
  /\ renv (vis_env env) = renv env.
Proof. exact compact_durations. Qed.
(* a whole check case: observe, draw, observe -- and a circuit first looked at by the drawing *)
Theorem C18_history : forall env ns compact order lm,
  history env ns compact order lm
  = (model_obs env ns, true_drawing (drawing_env src_flags compact env) ns order lm, model_obs env ns).
Proof. exact history_spec. Qed.
Theorem C18_first_seen_by_the_drawing : forall env ns compact order lm,
  let r := plot compact order lm (fresh_state env ns) in
  fst r = true_drawing (drawing_env src_flags compact env) ns order lm
  /\ fst (m_obs src_flags (snd r)) = model_obs env ns.
Proof. exact unobserved_spec. Qed.

Print Assumptions C18_memo_sound.
Print Assumptions C18_every_mutation_point_invalidates.
Print Assumptions C18_reorder_perm.
Print Assumptions C18_reorder_rejects.
Print Assumptions C18_unknown_channel_never_drawn.
Print Assumptions C18_row_of_requested.
Print Assumptions C18_row_of_spec.
Print Assumptions C18_label_map_spec.
Print Assumptions C18_label_given.
Print Assumptions C18_label_default.
Print Assumptions C18_width_spec.
Print Assumptions C18_pivot_spec.
Print Assumptions C18_pivot_alone_exact.
Print Assumptions C18_drawn_rows_exist.
Print Assumptions C18_only_operations_drawn.
Print Assumptions C18_shift_bound.
Print Assumptions C18_shift_within_quarter_partial.
Print Assumptions C18_shift_exceeds_quarter_refuted.
Print Assumptions C18_plot_preserves.
Print Assumptions C18_plot_preserves_any_flags.
Print Assumptions C18_plot_without_invalidation_refuted.
Print Assumptions C18_compact_durations.
Print Assumptions C18_history.
Print Assumptions C18_first_seen_by_the_drawing.
