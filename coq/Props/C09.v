(* C09 -- Repetition-code circuits run the protocol: deterministic detectors, exact record.
   Property theorems only; each closed by `exact <lemma>`; assumptions printed beneath.

   Objects:  rep_stim D init anc cycles   the closed form of the constructor's Stim export (normal form) for a description D
                                          (C09/Model.v; tied to the real export instruction for instruction by the check)
             exec                         the product-state semantics of the exported gate set (C09/Sem.v; tied to Stim)
             protocol_record / protocol_detectors / protocol_observable   the protocol on bits (C09/Spec.v)
             wf_desc                      the decidable well-formedness check of a description (C09/Wf.v)
             anc                          the ancilla values actually PREPARED (at most one per ancilla, absent = 0) *)
From Coq Require Import ZArith List Bool String.
Import ListNotations.
From QCE Require Import C09.Stim C09.Spec C09.Sem C09.Model C09.Wf C09.ProofsSem C09.ProofsBits C09.Proofs.
From Gen Require Import Layouts.

(* for EVERY well-formed description, data / ancilla state and number of cycles: the program runs inside the fragment to
   exactly the protocol's record, the protocol's detector parities (0 from the third cycle on) and the observable *)
Theorem C09_record : forall (D : rdesc) (init anc : list bool) (cycles : nat),
  wf_desc D = true -> List.length init = List.length (r_data D) -> (List.length anc <= List.length (r_data D) - 1)%nat ->
  exec (rep_stim D init anc cycles)
  = Some (protocol_record init anc cycles (r_refocus D),
          protocol_detectors init anc cycles (r_refocus D),
          [protocol_observable init anc cycles (r_refocus D)]).
Proof. exact ProofsSpec.exec_protocol. Qed.
Print Assumptions C09_record.

(* one QEC round (with or without refocusing) maps the product state (data x, ancilla a) to (x or its negation,
   a XOR parities x), records the new ancilla values, and ends with every qubit in the computational basis *)
Theorem C09_round_parity : forall (D : rdesc) (dd : bool) (m : mstate) (x a : list bool),
  wf_desc D = true -> List.length x = List.length (r_data D) -> List.length a = (List.length (r_data D) - 1)%nat ->
  seq_st (m_st m) (ast (bits x a) none) ->
  runs (round_instrs D dd) m (bits (if dd && r_refocus D then map negb x else x) (xor_list a (parities x))) none
       (rev (xor_list a (parities x))) [].
Proof. exact round_parity. Qed.
Print Assumptions C09_round_parity.

(* never a CZ between two X-basis qubits, never an X-basis qubit measured *)
Theorem C09_in_fragment : forall (D : rdesc) (init anc : list bool) (cycles : nat),
  wf_desc D = true -> List.length init = List.length (r_data D) -> (List.length anc <= List.length (r_data D) - 1)%nat ->
  is_random (rep_stim D init anc cycles) = false /\ is_outside (rep_stim D init anc cycles) = false.
Proof. exact in_fragment. Qed.
Print Assumptions C09_in_fragment.

(* exactly (d-1)(cycles+1) detectors are evaluated; the record has 2d-1 heralding, (d-1)*max(cycles,1) parity and d final entries *)
Theorem C09_detector_count : forall (D : rdesc) (init anc : list bool) (cycles : nat),
  wf_desc D = true -> List.length init = List.length (r_data D) -> (List.length anc <= List.length (r_data D) - 1)%nat ->
  exists r ds os, exec (rep_stim D init anc cycles) = Some (r, ds, os)
                  /\ List.length ds = ((List.length init - 1) * (cycles + 1))%nat
                  /\ List.length r = (2 * List.length init - 1 + (List.length init - 1) * Nat.max cycles 1 + List.length init)%nat.
Proof. exact ProofsWf.detector_count. Qed.
Print Assumptions C09_detector_count.

(* the descriptions the constructor is called with are well-formed: chains of every distance ... *)
Theorem C09_wf_desc_chain : forall (d : nat) (rf : bool), (1 <= d)%nat -> wf_desc (desc_of_chain d rf) = true.
Proof. exact ProofsWf.wf_desc_chain. Qed.
Print Assumptions C09_wf_desc_chain.

(* ... and every contiguous data-to-data sub-chain of the three generated layout tables (finite: by computation) *)
Theorem C09_wf_desc_layouts : forall (L : Layout) (ch : list string) (rf : bool),
  In L shipped_layouts -> In ch (sub_chains (chain_of (layout_name L))) -> wf_desc (desc_of_layout L ch rf) = true.
Proof. exact ProofsWf.wf_desc_layouts. Qed.
Print Assumptions C09_wf_desc_layouts.

Theorem C09_layout_chains_valid :
  forallb (fun L => chain_valid L (chain_of (layout_name L))) shipped_layouts = true.
Proof. exact ProofsWf.layout_chains_valid. Qed.
Print Assumptions C09_layout_chains_valid.

(* hence, for all distances, states and cycle counts *)
Theorem C09_chain_record : forall (d : nat) (rf : bool) (init anc : list bool) (cycles : nat),
  (1 <= d)%nat -> List.length init = d -> (List.length anc <= d - 1)%nat ->
  exec (rep_stim (desc_of_chain d rf) init anc cycles)
  = Some (protocol_record init anc cycles rf, protocol_detectors init anc cycles rf, [protocol_observable init anc cycles rf]).
Proof. exact chain_record. Qed.
Print Assumptions C09_chain_record.

Theorem C09_layout_record : forall (L : Layout) (ch : list string) (rf : bool) (init anc : list bool) (cycles : nat),
  In L shipped_layouts -> In ch (sub_chains (chain_of (layout_name L))) ->
  List.length init = List.length (r_data (desc_of_layout L ch rf)) ->
  (List.length anc <= List.length (r_data (desc_of_layout L ch rf)) - 1)%nat ->
  exec (rep_stim (desc_of_layout L ch rf) init anc cycles)
  = Some (protocol_record init anc cycles rf, protocol_detectors init anc cycles rf, [protocol_observable init anc cycles rf]).
Proof. exact layout_record. Qed.
Print Assumptions C09_layout_record.

(* "every requested ancilla state is prepared": true of the preparation code guarded by the ancilla dictionary ... *)
Theorem C09_own_source_prepares_requested : forall init anc : list bool, anc_as_prepared AncOwn init anc = anc.
Proof. exact own_source_prepares_requested. Qed.
Print Assumptions C09_own_source_prepares_requested.

(* ... and refuted for the code the source has now (finding F5): data 0,1,0, ancilla 1,0, 2 cycles *)
Theorem C09_requested_ancilla_prepared_refuted :
  exists init anc cycles,
    exec (rep_stim (desc_of_chain 3 true) init (anc_as_prepared AncFromData init anc) cycles)
    <> Some (protocol_record init anc cycles true, protocol_detectors init anc cycles true, [protocol_observable init anc cycles true]).
Proof. exact requested_ancilla_prepared_refuted. Qed.
Print Assumptions C09_requested_ancilla_prepared_refuted.
