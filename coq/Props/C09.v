From QCE Require Import C09.Proofs.
Theorem C09_placeholder_partial : True. Proof. exact placeholder. Qed.
Print Assumptions C09_placeholder_partial.
