(* LIBBUILD x C08 x C09 -- the model constructor, the model circuit and the model exporter joined inside Coq.
   Theorems only, each closed by `exact <lemma>`.  (To be merged into Props/LIBBUILD.v.)

   Vocabulary (coq/LibBuild/StimBridge.v):
     lib_export_opt D init anc cycles : option (list instr)
         = C08's exporter `to_stim` applied to the listing tree (Bridge.TreeOfOp.tree_of_nodes) of the Core circuit
           `run_prog env0 (rep_code_prog D init anc cycles)`, brought to C08's normal form (`normalise`: REPEAT unrolled, one
           target (pair) per instruction, SHIFT_COORDS folded = stim's flattened()) and decoded into C09's instruction type
           with C09's own decoder (`decode1`); None = the exporter raised.
     lib_export = the same with None replaced by [IOther "EXPORT_RAISED"] (a program outside C09's fragment).
     lib_export_unrolled(_opt) = the same for `apply_modifiers env0 1 (run_prog env0 ...)`.
     rep_stim D init anc cycles = C09's closed form, the subject of C09_record.
     lib_args = the annotation arguments handed to the exporter: CoordinateShiftOperation time_shift = 1, space_shift = 0
           (the constants at the three call sites of the constructor); DetectorOperation / LogicalObservableOperation get
           PLACEHOLDERS (their acquisition indices are read from the registry while the real circuit is built; a Core leaf
           does not carry them and they are not a function of the leaf).
     skeleton p = p with the rec[..] target list of every DETECTOR and every OBSERVABLE_INCLUDE replaced by []; nothing
           else is erased: compared are all gates, resets, measurements and TICKs with their qubits, in order, the position
           of every DETECTOR / OBSERVABLE_INCLUDE in that order, the detector coordinates (qubit, round) -- i.e. also the
           SHIFT_COORDS arithmetic through the REPEAT blocks -- and the observable index.
     gate_part p = p without DETECTOR / OBSERVABLE_INCLUDE.
     exec = C09's product-state semantics (record, detector parities, observables); protocol_record = C09's protocol on bits.
   NOT compared (not recoverable from LibBuild's programs): which record entries each detector / observable names.  That
   part of `rep_stim` remains tied to the implementation by C09's correspondence run only. *)
From Coq Require Import ZArith List Bool.
Import ListNotations.
From QCE Require Import Base.Prelude Core.Model Core.Run C08.Model C09.Stim C09.Spec C09.Sem C09.Model LibBuild.Model LibBuild.Cert
  LibBuild.StimBridge LibBuild.StimBridgeProofs LibBuild.StimBridgeCycles.
Open Scope Z_scope.

(* ---- bounded: chains of distance 2, 3, 4, refocusing on / off, EVERY data state, ancilla state absent / all ONE, 0..6 cycles
        (784 inputs, evaluated by the kernel's VM) *)
Theorem LibStim_chain_export_bounded : forall d rf init anc cycles,
  In d [2; 3; 4]%nat -> List.length init = d -> anc = [] \/ anc = repeat true (d - 1) -> 0 <= cycles <= 6 ->
  lib_export_opt (desc_of_chain d rf) init anc cycles = Some (lib_export (desc_of_chain d rf) init anc cycles)
  /\ skeleton (lib_export (desc_of_chain d rf) init anc cycles)
     = skeleton (rep_stim (desc_of_chain d rf) init anc (Z.to_nat cycles)).
Proof. exact chain_export_bounded. Qed.
Print Assumptions LibStim_chain_export_bounded.

(* the same after apply_modifiers (the exporter then meets no REPEAT) *)
Theorem LibStim_chain_export_unrolled_bounded : forall d rf init anc cycles,
  In d [2; 3; 4]%nat -> List.length init = d -> anc = [] \/ anc = repeat true (d - 1) -> 0 <= cycles <= 6 ->
  lib_export_unrolled_opt (desc_of_chain d rf) init anc cycles = Some (lib_export_unrolled (desc_of_chain d rf) init anc cycles)
  /\ skeleton (lib_export_unrolled (desc_of_chain d rf) init anc cycles)
     = skeleton (rep_stim (desc_of_chain d rf) init anc (Z.to_nat cycles)).
Proof. exact chain_export_unrolled_bounded. Qed.
Print Assumptions LibStim_chain_export_unrolled_bounded.

Theorem LibStim_chain_export_plain_vs_unrolled_bounded : forall d rf init anc cycles,
  In d [2; 3; 4]%nat -> List.length init = d -> anc = [] \/ anc = repeat true (d - 1) -> 0 <= cycles <= 6 ->
  skeleton (lib_export (desc_of_chain d rf) init anc cycles) = skeleton (lib_export_unrolled (desc_of_chain d rf) init anc cycles).
Proof. exact chain_export_plain_vs_unrolled. Qed.
Print Assumptions LibStim_chain_export_plain_vs_unrolled_bounded.

(* in particular the gates, resets, measurements and ticks of the export ARE those of rep_stim, in order *)
Theorem LibStim_chain_export_gates_bounded : forall d rf init anc cycles,
  In d [2; 3; 4]%nat -> List.length init = d -> anc = [] \/ anc = repeat true (d - 1) -> 0 <= cycles <= 6 ->
  gate_part (lib_export (desc_of_chain d rf) init anc cycles) = gate_part (rep_stim (desc_of_chain d rf) init anc (Z.to_nat cycles)).
Proof. exact chain_export_gates. Qed.
Print Assumptions LibStim_chain_export_gates_bounded.

(* C09_chain_record carried over to the model chain: executing the gates, resets and measurements of the export of the model
   circuit (no annotations: no detector parities, no observable) gives exactly the protocol's measurement record *)
Theorem LibStim_chain_export_record_bounded : forall d rf init anc cycles,
  In d [2; 3; 4]%nat -> List.length init = d -> anc = [] \/ anc = repeat true (d - 1) -> 0 <= cycles <= 6 ->
  exec (gate_part (lib_export (desc_of_chain d rf) init anc cycles))
  = Some (protocol_record init anc (Z.to_nat cycles) rf, [], []).
Proof. exact chain_export_record_bounded. Qed.
Print Assumptions LibStim_chain_export_record_bounded.

(* what `skeleton` keeps: position by position two programs with equal skeletons differ at most in the rec targets of a
   DETECTOR or of an OBSERVABLE_INCLUDE *)
Theorem LibStim_skeleton_pointwise : forall p q, skeleton p = skeleton q ->
  Forall2 (fun i j => i = j \/ (exists a r r', i = IDet a r /\ j = IDet a r') \/ (exists k r r', i = IObs k r /\ j = IObs k r')) p q.
Proof. exact skeleton_pointwise. Qed.
Print Assumptions LibStim_skeleton_pointwise.

(* ---- EVERY cycle count: chains of distance 2 and 3, refocusing on / off, EVERY list of data values and of ancilla values
        (of any length: the constructor and rep_stim read a prefix).  cycles < 2^64 + 3 is necessary: the count of the second
        sub-circuit is cycles - 3, and from 2^64 on Stim refuses it and the exporter raises
        (StimBridgeCycles.all_cycles_bound_sharp).  Induction on the count of the second sub-circuit over
        LibBuild_qec_split_bulk and C08_stim_in_order; per state, the listing tree and the blocks are evaluated by the VM with the
        count and the round number as free variables.  As constructed only: the unrolled circuit is not computed for a symbolic
        count, and beyond the documented depth limit of the listing (C02/C06, `size_cond`) its listing is truncated, so the
        unrolled statement could hold only up to that limit; it is proved for 0..6 cycles above. *)
Theorem LibStim_chain2_export_all_cycles : forall rf init anc cycles, 0 <= cycles < two64 + 3 ->
  lib_export_opt (desc_of_chain 2 rf) init anc cycles = Some (lib_export (desc_of_chain 2 rf) init anc cycles)
  /\ skeleton (lib_export (desc_of_chain 2 rf) init anc cycles)
     = skeleton (rep_stim (desc_of_chain 2 rf) init anc (Z.to_nat cycles)).
Proof. exact chain2_all_cycles. Qed.
Print Assumptions LibStim_chain2_export_all_cycles.

Theorem LibStim_chain3_export_all_cycles : forall rf init anc cycles, 0 <= cycles < two64 + 3 ->
  lib_export_opt (desc_of_chain 3 rf) init anc cycles = Some (lib_export (desc_of_chain 3 rf) init anc cycles)
  /\ skeleton (lib_export (desc_of_chain 3 rf) init anc cycles)
     = skeleton (rep_stim (desc_of_chain 3 rf) init anc (Z.to_nat cycles)).
Proof. exact chain3_all_cycles. Qed.
Print Assumptions LibStim_chain3_export_all_cycles.

(* the record for every cycle count (data state of the right length, at most one value per ancilla: C09's hypotheses) *)
Theorem LibStim_chain2_record_all_cycles : forall rf init anc cycles,
  List.length init = 2%nat -> (List.length anc <= 1)%nat -> 0 <= cycles < two64 + 3 ->
  exec (gate_part (lib_export (desc_of_chain 2 rf) init anc cycles))
  = Some (protocol_record init anc (Z.to_nat cycles) rf, [], []).
Proof. exact chain2_record_all_cycles. Qed.
Print Assumptions LibStim_chain2_record_all_cycles.

Theorem LibStim_chain3_record_all_cycles : forall rf init anc cycles,
  List.length init = 3%nat -> (List.length anc <= 2)%nat -> 0 <= cycles < two64 + 3 ->
  exec (gate_part (lib_export (desc_of_chain 3 rf) init anc cycles))
  = Some (protocol_record init anc (Z.to_nat cycles) rf, [], []).
Proof. exact chain3_record_all_cycles. Qed.
Print Assumptions LibStim_chain3_record_all_cycles.

(* `lib_export` is written with the duration environment env0; as constructed, every environment gives the same export *)
Theorem LibStim_export_env_indep : forall env D init anc cycles,
  export_nodes_c09 (run_prog env (rep_code_prog D init anc cycles)) = lib_export_opt D init anc cycles.
Proof. exact lib_export_env_indep. Qed.
Print Assumptions LibStim_export_env_indep.
