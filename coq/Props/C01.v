(* C01 — Relation-based timing: every operation sits where its relation says. *)
From Coq Require Import ZArith List Bool.
From QCE Require Import Base.Prelude Core.Model C01.Proofs.
From Gen Require Import Ident Classes.
Open Scope Z_scope.

Theorem C01_relation_equation_sound : forall t rs re d, rel_eq t rs re (start_from t rs re d) d.
Proof. exact start_from_sound. Qed.
Theorem C01_relation_equation_unique : forall t rs re d s, rel_eq t rs re s d -> s = start_from t rs re d.
Proof. exact start_from_unique. Qed.

Print Assumptions C01_relation_equation_sound.
Print Assumptions C01_relation_equation_unique.
