(* C01 — Relation-based timing: every operation sits where its relation says. *)
From Coq Require Import ZArith List Bool.
Import ListNotations.
From QCE Require Import Base.Prelude Core.Model Core.BfsProofs Core.TimesProofs Core.TimesListing C01.Proofs.
From Gen Require Import Ident Classes.
Open Scope Z_scope.

Theorem C01_relation_equation_sound : forall t rs re d, rel_eq t rs re (start_from t rs re d) d.
Proof. exact start_from_sound. Qed.
Theorem C01_relation_equation_unique : forall t rs re d s, rel_eq t rs re s d -> s = start_from t rs re d.
Proof. exact start_from_unique. Qed.

(* every row of the times table of a graph (any context, any node list with backward references): end = start + duration and
   the equation of the node's link against the referent's row of the SAME table; no relation = the enclosing circuit's own
   equation (origin if none); multi-link = FOLLOWED_BY the first of the latest-ending members *)
Theorem C01_equations : forall env c ns,
  wf_links (combine (map n_link ns) (map (fun n => dur_of env (n_op n)) ns)) ->
  forall i n, nth_error ns i = Some n ->
    let tm := node_times env c ns in
    let d := dur_of env (n_op n) in
    snd (nth i tm (0, 0)) = fst (nth i tm (0, 0)) + d /\
    match n_link n with
    | LNone | LDangling _ | LMulti [] =>
        match c with None => fst (nth i tm (0, 0)) = 0 | Some (t, rs, re) => rel_eq t rs re (fst (nth i tm (0, 0))) d end
    | LRel t p => rel_eq t (fst (nth p tm (0, 0))) (snd (nth p tm (0, 0))) (fst (nth i tm (0, 0))) d
    | LMulti ps => exists m, multi_first_latest tm ps m /\ fst (nth i tm (0, 0)) = snd (nth m tm (0, 0))
    end.
Proof. exact node_times_equations. Qed.

(* ... and it is the only table of that length satisfying them *)
Theorem C01_unique : forall env c ns tm',
  wf_links (combine (map n_link ns) (map (fun n => dur_of env (n_op n)) ns)) -> length tm' = length ns ->
  (forall i n, nth_error ns i = Some n ->
     snd (nth i tm' (0, 0)) = fst (nth i tm' (0, 0)) + dur_of env (n_op n) /\
     link_eq c tm' (n_link n) (fst (nth i tm' (0, 0))) (dur_of env (n_op n))) ->
  tm' = node_times env c ns.
Proof. exact node_times_unique. Qed.

(* adding an operation (or any number of them) never moves an existing one *)
Theorem C01_prefix_stable : forall env c ns ms i, (i < length ns)%nat ->
  nth i (node_times env c (ns ++ ms)) (0, 0) = nth i (node_times env c ns) (0, 0).
Proof. exact node_times_prefix_stable. Qed.
Theorem C01_add_keeps_times : forall env c ns o l i, (i < length ns)%nat ->
  nth i (node_times env c (add_node env ns o l)) (0, 0) = nth i (node_times env c ns) (0, 0).
Proof. exact add_node_keeps_times. Qed.

(* through nesting: a block carrying no link / FOLLOWED_BY / JOINED_START / a multi-link, in a graph whose own context is of
   that kind, lists its stand-alone entries shifted by its start in the enclosing table; in general two contexts that place
   un-related operations T apart give listings T apart *)
Theorem C01_nested_shift : forall env c ns i n r sub se, wf_node_links ns -> ctx_plain c ->
  nth_error ns i = Some n -> n_op n = OComp r sub -> wf_links_op (OComp r sub) -> block_link_ok (n_link n) ->
  let tm := node_times env c ns in
  listing_op env (OComp r sub) (sub_ctx c tm (n_link n)) (nth i tm (0, 0))
  = map (eshift (fst (nth i tm (0, 0)))) (listing_op env (OComp r sub) None se).
Proof. exact listing_block_shift. Qed.
Theorem C01_context_shift : forall env o, wf_links_op o -> forall c c' T se,
  (forall d, ctx_start c d = ctx_start c' d + T) ->
  listing_op env o c (shift T se) = map (eshift T) (listing_op env o c' se).
Proof. exact listing_shift_gen. Qed.

(* an operation added without a usable relation is placed FOLLOWED_BY the listed channel-sharing node of maximal relation
   depth (the last one in listing order), at the start of the circuit's context if no listed node shares a channel *)
Theorem C01_implicit_placement : forall env c ns o l, wf_parents (parents ns) -> implicit_link (length ns) l ->
  let ns' := add_node env ns o l in
  let tm' := node_times env c ns' in
  let d := dur_of env o in
  match leaf_at_any ns (op_channels o) with
  | Some i =>
      nth_error ns' (length ns) = Some (Node (Some i) (LRel RelationType_FOLLOWED_BY i) o) /\
      (i < length ns)%nat /\
      nth (length ns) tm' (0, 0) = (snd (nth i tm' (0, 0)), snd (nth i tm' (0, 0)) + d) /\
      any_match (op_channels o) (node_chans ns i) = true /\
      (forall j, In j (bfs (parents ns)) -> any_match (op_channels o) (node_chans ns j) = true ->
                 (depth (parents ns) j <= depth (parents ns) i)%nat)
  | None =>
      nth_error ns' (length ns) = Some (Node None LNone o) /\
      nth (length ns) tm' (0, 0) = (ctx_start c d, ctx_start c d + d) /\
      (forall j, In j (bfs (parents ns)) -> any_match (op_channels o) (node_chans ns j) = false)
  end.
Proof. exact implicit_placement. Qed.
Theorem C01_explicit_placement : forall env ns o t p, (p < length ns)%nat ->
  add_node env ns o (LRel t p) = ns ++ [Node (Some p) (LRel t p) o].
Proof. exact add_node_explicit. Qed.

(* every build program, as built and after the repetitions are unrolled: each listed entry is the row of a leaf node in the
   table of its (sub-)circuit, computed in the context handed down to it, and all rows of that table satisfy the equations *)
Theorem C01_program_equations : forall env p e, In e (listing env (run_prog env p)) ->
  exists c' ns' i n, table_of env None (run_prog env p) c' ns' /\ nth_error ns' i = Some n /\ n_op n = OLeaf (e_leaf e) /\
                     (e_start e, e_end e) = nth i (node_times env c' ns') (0, 0) /\
                     node_eqs env c' ns' (node_times env c' ns').
Proof. exact program_equations. Qed.
Theorem C01_unrolled_equations : forall env p e, In e (listing env (apply_modifiers env 1 (run_prog env p))) ->
  exists c' ns' i n, table_of env None (apply_modifiers env 1 (run_prog env p)) c' ns' /\ nth_error ns' i = Some n /\
                     n_op n = OLeaf (e_leaf e) /\
                     (e_start e, e_end e) = nth i (node_times env c' ns') (0, 0) /\
                     node_eqs env c' ns' (node_times env c' ns').
Proof. exact unrolled_equations. Qed.
Theorem C01_program_table_unique : forall env p c tm', length tm' = length (run_prog env p) ->
  node_eqs env c (run_prog env p) tm' -> tm' = node_times env c (run_prog env p).
Proof. exact program_table_unique. Qed.

From Gen Require Flags.
Theorem C01_equations_are_source : forall t rs re d, start_from t rs re d = start_from_source t rs re d.
Proof. exact start_from_is_source. Qed.
Theorem C01_multi_reference_is_strict : Flags.multi_reference_strict = true.
Proof. exact multi_reference_is_strict. Qed.
Print Assumptions C01_equations_are_source.
Print Assumptions C01_multi_reference_is_strict.

Print Assumptions C01_relation_equation_sound.
Print Assumptions C01_relation_equation_unique.
Print Assumptions C01_equations.
Print Assumptions C01_unique.
Print Assumptions C01_prefix_stable.
Print Assumptions C01_add_keeps_times.
Print Assumptions C01_nested_shift.
Print Assumptions C01_context_shift.
Print Assumptions C01_implicit_placement.
Print Assumptions C01_explicit_placement.
Print Assumptions C01_program_equations.
Print Assumptions C01_unrolled_equations.
Print Assumptions C01_program_table_unique.
