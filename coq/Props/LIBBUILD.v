(* LIBBUILD -- the library constructors as Gallina build programs (not one of the 19 properties; see harness/libbuild.py). *)
From Coq Require Import ZArith List Bool.
Import ListNotations.
From QCE Require Import Base.Prelude Core.Model Core.BfsWf C09.Model LibBuild.Model LibBuild.Proofs.
Open Scope Z_scope.

Theorem LibBuild_rep_code_wf : forall env D init anc cycles, wf_op (OComp 1 (run_prog env (rep_code_prog D init anc cycles))).
Proof. exact rep_code_wf. Qed.
Print Assumptions LibBuild_rep_code_wf.
