(* LIBBUILD -- the library constructors as Gallina build programs (coq/LibBuild/Model.v); NOT one of the 19 properties
   (harness/libbuild.py runs the tie with the real constructors).  Theorems only, each closed by `exact <lemma>`.

   Vocabulary: `rep_code_prog D init anc cycles` = construct_repetition_code_circuit as a Core build program for the
   description record D (C09.Model.rdesc); `unrolled_leaves env p` = the leaves of `listing env (apply_modifiers env 1
   (run_prog env p))` in listing order; `tags_of q ls` = acquisition tags of the measurements of qubit q in ls, in order;
   `want_anc_tags cycles` = heralded :: (if cycles = 0 then [final] else parity^cycles) with the harness' tag numbers;
   `n_ops p` / `n_meas p` = number of leaves / measurement leaves of p with every block counted count-many times;
   `unroll_small_prog p` (C06) = every block times its count has at most 4999 entries, counts >= 1: the hypothesis under
   which the documented depth limit (C02) does not truncate the unrolled listing -- beyond it the statements are false;
   `size_cond D cycles` = its numeric form for rep_code_prog; `desc_ok D` = index lists duplicate-free, data and ancillas
   disjoint and among the qubits. *)
From Coq Require Import ZArith List Bool Permutation.
Import ListNotations.
From QCE Require Import Base.Prelude Core.Model Core.Run Core.BfsWf Lib.Run C06.Proofs C09.Model C10.Model C10.Run C10.Proofs C13.Model
  LibBuild.Model LibBuild.Proofs.
From Gen Require Import Layouts.
Open Scope Z_scope.

(* ---- (a) structure *)
Theorem LibBuild_rep_code_wf : forall env D init anc cycles, wf_op (OComp 1 (run_prog env (rep_code_prog D init anc cycles))).
Proof. exact rep_code_wf. Qed.
Print Assumptions LibBuild_rep_code_wf.

Theorem LibBuild_rep_code_unrolled_wf : forall env D init anc cycles,
  wf_op (OComp 1 (apply_modifiers env 1 (run_prog env (rep_code_prog D init anc cycles)))).
Proof. exact rep_code_unrolled_wf. Qed.
Print Assumptions LibBuild_rep_code_unrolled_wf.

Theorem LibBuild_simplified_wf : forall env D init anc cycles, wf_op (OComp 1 (run_prog env (simplified_prog D init anc cycles))).
Proof. exact simplified_wf. Qed.
Print Assumptions LibBuild_simplified_wf.

Theorem LibBuild_calibration_wf : forall env qs qutrit, wf_op (OComp 1 (run_prog env (calibration_prog qs qutrit))).
Proof. exact calibration_wf. Qed.
Print Assumptions LibBuild_calibration_wf.

(* the constructors never look at the duration setting *)
Theorem LibBuild_run_prog_env_indep : forall e1 e2 p, run_prog e1 p = run_prog e2 p.
Proof. exact run_prog_env_indep. Qed.
Print Assumptions LibBuild_run_prog_env_indep.

(* the 1 / 2 / 3 split: from four cycles on the repeated block's count is cycles - 3 *)
Theorem LibBuild_qec_split_bulk : forall D cycles, 3 < cycles ->
  circuit_qec_with_detectors D cycles = [CSub 2 (first_sub D); CSub (cycles - 3) (second_sub D); CSub 1 (third_sub D)].
Proof. exact qec_split_bulk. Qed.
Print Assumptions LibBuild_qec_split_bulk.

Theorem LibBuild_qec_split_small : forall D,
  circuit_qec_with_detectors D 0 = map (meas T_FINAL) (r_anc D)
  /\ circuit_qec_with_detectors D 1 = [CSub 1 (third_sub D)]
  /\ circuit_qec_with_detectors D 2 = [CSub 1 (first_sub D); CSub 1 (third_sub D)]
  /\ circuit_qec_with_detectors D 3 = [CSub 2 (first_sub D); CSub 1 (third_sub D)].
Proof. exact qec_split_small. Qed.
Print Assumptions LibBuild_qec_split_small.

Theorem LibBuild_qec_rounds_total : forall cycles, 1 <= cycles -> (n_first cycles + n_second cycles + 1)%nat = Z.to_nat cycles.
Proof. exact qec_rounds_total. Qed.
Print Assumptions LibBuild_qec_rounds_total.

(* ---- counts: closed formulas, every description and cycle count *)
Theorem LibBuild_n_meas : forall D init anc cycles, 0 <= cycles ->
  n_meas (rep_code_prog D init anc cycles)
  = (length (r_qubits D) + (if (cycles =? 0)%Z then 1 else Z.to_nat cycles) * length (r_anc D) + length (r_data D))%nat.
Proof. exact n_meas_rep_code. Qed.
Print Assumptions LibBuild_n_meas.

Theorem LibBuild_n_ops : forall D init anc cycles, 0 <= cycles ->
  n_ops (rep_code_prog D init anc cycles)
  = (init_quiet D init anc + length (r_qubits D)
     + (if (cycles =? 0)%Z then length (r_anc D)
        else n_first cycles * (sub_quiet D true 0 + length (r_anc D))
             + n_second cycles * (sub_quiet D true 1 + length (r_anc D))
             + (sub_quiet D false 0 + length (r_anc D)))
     + length (r_data D) + (length (r_anc D) + length (r_data D)))%nat.
Proof. exact n_ops_rep_code. Qed.
Print Assumptions LibBuild_n_ops.

Theorem LibBuild_unrolled_n_ops : forall env p, unroll_small_prog p -> length (unrolled_leaves env p) = n_ops p.
Proof. exact unrolled_n_ops. Qed.
Print Assumptions LibBuild_unrolled_n_ops.

Theorem LibBuild_unrolled_n_meas : forall env p, unroll_small_prog p -> length (filter has_acq (unrolled_leaves env p)) = n_meas p.
Proof. exact unrolled_n_meas. Qed.
Print Assumptions LibBuild_unrolled_n_meas.

Theorem LibBuild_rep_code_small : forall D init anc cycles, size_cond D cycles -> unroll_small_prog (rep_code_prog D init anc cycles).
Proof. exact rep_code_small. Qed.
Print Assumptions LibBuild_rep_code_small.

(* ---- (b) listing order and tags *)
(* any program: the unrolled block of the first command is listed before everything else *)
Theorem LibBuild_first_block_first : forall env c0 rest, unroll_small_prog (c0 :: rest) ->
  exists A B, map e_leaf (listing env (apply_modifiers env 1 (run_prog env (c0 :: rest)))) = A ++ B
              /\ Permutation A (cmd_expanded c0) /\ Permutation B (prog_expanded rest).
Proof. exact unrolled_first_block. Qed.
Print Assumptions LibBuild_first_block_first.

Theorem LibBuild_anc_tags : forall env D init anc cycles a,
  desc_ok D -> 0 <= cycles -> unroll_small_prog (rep_code_prog D init anc cycles) -> In a (r_anc D) ->
  tags_of a (unrolled_leaves env (rep_code_prog D init anc cycles)) = want_anc_tags cycles.
Proof. exact anc_tags. Qed.
Print Assumptions LibBuild_anc_tags.

Theorem LibBuild_data_tags : forall env D init anc cycles q,
  desc_ok D -> 0 <= cycles -> unroll_small_prog (rep_code_prog D init anc cycles) -> In q (r_data D) ->
  tags_of q (unrolled_leaves env (rep_code_prog D init anc cycles)) = [T_HERALDED; T_FINAL].
Proof. exact data_tags. Qed.
Print Assumptions LibBuild_data_tags.

(* what C13's multi_round_tags assumes per block *)
Theorem LibBuild_anc_tags_block : forall env D init anc cycles a,
  desc_ok D -> 0 <= cycles -> unroll_small_prog (rep_code_prog D init anc cycles) -> In a (r_anc D) ->
  tags_of a (unrolled_leaves env (rep_code_prog D init anc cycles)) = map z_of_tag (block_tags cycles).
Proof. exact anc_tags_block. Qed.
Print Assumptions LibBuild_anc_tags_block.

(* ---- the chain description of every distance *)
Theorem LibBuild_chain_desc_ok : forall d rf, desc_ok (desc_of_chain d rf).
Proof. exact chain_desc_ok. Qed.
Print Assumptions LibBuild_chain_desc_ok.

Theorem LibBuild_chain_round_len : forall k rf,
  round_len (desc_of_chain (S (S k)) rf) true = (if rf then 10 * S (S k) else 7 * S (S k))%nat
  /\ round_len (desc_of_chain (S (S k)) rf) false = (7 * S (S k) - 1)%nat.
Proof. exact chain_round_len. Qed.
Print Assumptions LibBuild_chain_round_len.

Theorem LibBuild_chain_anc_tags : forall env d rf init anc cycles a,
  (2 <= d)%nat -> 10 * Z.of_nat d <= 4999 -> 0 <= cycles -> (Z.of_nat d + 2) * Z.max 2 (cycles - 3) <= 4999 ->
  In a (evens_from 1 (d - 1)) ->
  tags_of a (unrolled_leaves env (rep_code_prog (desc_of_chain d rf) init anc cycles)) = want_anc_tags cycles.
Proof. exact chain_anc_tags. Qed.
Print Assumptions LibBuild_chain_anc_tags.

Theorem LibBuild_chain_data_tags : forall env d rf init anc cycles q,
  (2 <= d)%nat -> 10 * Z.of_nat d <= 4999 -> 0 <= cycles -> (Z.of_nat d + 2) * Z.max 2 (cycles - 3) <= 4999 ->
  In q (evens_from 0 d) ->
  tags_of q (unrolled_leaves env (rep_code_prog (desc_of_chain d rf) init anc cycles)) = [T_HERALDED; T_FINAL].
Proof. exact chain_data_tags. Qed.
Print Assumptions LibBuild_chain_data_tags.

Theorem LibBuild_chain_n_meas : forall d rf init anc cycles, 0 <= cycles ->
  n_meas (rep_code_prog (desc_of_chain d rf) init anc cycles)
  = ((2 * d - 1) + (if (cycles =? 0)%Z then 1 else Z.to_nat cycles) * (d - 1) + d)%nat.
Proof. exact chain_n_meas. Qed.
Print Assumptions LibBuild_chain_n_meas.

Theorem LibBuild_chain_n_ops : forall d init anc cycles, (2 <= d)%nat -> 0 <= cycles -> length init = d -> (length anc <= d - 1)%nat ->
  Z.of_nat (n_ops (rep_code_prog (desc_of_chain d true) init anc cycles))
  = (if cycles =? 0 then 9 * Z.of_nat d + Z.of_nat (length anc) - 2
     else 16 * Z.of_nat d + Z.of_nat (length anc) - 2 + 11 * Z.of_nat d * (cycles - 1) + Z.max 0 (cycles - 3)).
Proof. exact chain_n_ops. Qed.
Print Assumptions LibBuild_chain_n_ops.

(* ---- every contiguous sub-chain of the three shipped layouts (82 descriptions x refocusing), cycles up to 457 *)
Theorem LibBuild_layouts_anc_tags : forall env L ch rf init anc cycles a, In (L, ch) all_layout_subchains -> 0 <= cycles <= 457 ->
  In a (r_anc (desc_of_layout L ch rf)) ->
  tags_of a (unrolled_leaves env (rep_code_prog (desc_of_layout L ch rf) init anc cycles)) = want_anc_tags cycles.
Proof. exact layouts_anc_tags. Qed.
Print Assumptions LibBuild_layouts_anc_tags.

Theorem LibBuild_layouts_data_tags : forall env L ch rf init anc cycles q, In (L, ch) all_layout_subchains -> 0 <= cycles <= 457 ->
  In q (r_data (desc_of_layout L ch rf)) ->
  tags_of q (unrolled_leaves env (rep_code_prog (desc_of_layout L ch rf) init anc cycles)) = [T_HERALDED; T_FINAL].
Proof. exact layouts_data_tags. Qed.
Print Assumptions LibBuild_layouts_data_tags.

(* ---- (c) partial: the C10 certificate on the constructor programs of the small chains listed in Cert.cert_inputs *)
Theorem LibBuild_chain_no_overlap_partial : forall x, In x cert_inputs -> forall env, env_nonneg env -> env_parity env ->
  let ns := run_prog env (cert_prog x) in
  no_overlap (o_ops (model_obs env ns)) = true /\ barrier_clear (o_ops (model_obs env ns)) = true
  /\ no_overlap (o_ops (model_obs env (apply_modifiers env 1 ns))) = true
  /\ barrier_clear (o_ops (model_obs env (apply_modifiers env 1 ns))) = true.
Proof. exact chain_no_overlap_partial. Qed.
Print Assumptions LibBuild_chain_no_overlap_partial.
