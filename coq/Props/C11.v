(* C11 — Flattening keeps the operations.
   `prog_graph env p u` is the graph of the build program p, as built (u = false) or after apply_modifiers() (u = true).
   `flatten` answers `None` exactly in the situation of C11_model_scope (known finding F10: the implementation then keeps
   consulting the vanished nested graphs); every other theorem is about the answers `Some f`.
   `fully_listed f`: the flat graph stays within the documented graph-depth limit (implied by at most 4999 listed leaves). *)
From Coq Require Import ZArith List Bool Permutation.
Import ListNotations.
From QCE Require Import Base.Prelude Core.Model Core.BfsWf Core.FlattenProofs Core.FlattenIdem Core.FlattenScope C11.Proofs.

Theorem C11_flatten_empty : forall env, flatten env nil = Some nil.
Proof. exact flatten_empty. Qed.
Print Assumptions C11_flatten_empty.

(* the decomposed listing with hand-off links enumerates the listed leaves, in order, under pairwise distinct paths *)
Theorem C11_decomposed_listing : forall env p u,
  map ge_leaf (glisting (prog_graph env p u)) = map e_leaf (listing env (prog_graph env p u)) /\
  NoDup (map ge_path (glisting (prog_graph env p u))).
Proof. exact prog_glisting. Qed.
Print Assumptions C11_decomposed_listing.

(* the multiset of leaf operations (class, qubits, channel, duration strategy, tag: the whole leaf) is unchanged *)
Theorem C11_flatten_multiset : forall env p u f,
  flatten env (prog_graph env p u) = Some f -> fully_listed f ->
  Permutation (map e_leaf (listing env f)) (map e_leaf (listing env (prog_graph env p u))).
Proof. exact prog_flatten_multiset. Qed.
Print Assumptions C11_flatten_multiset.

Theorem C11_flatten_multiset_bound : forall env p u f,
  flatten env (prog_graph env p u) = Some f ->
  (Z.of_nat (length (listing env (prog_graph env p u))) <= 4999)%Z ->
  Permutation (map e_leaf (listing env f)) (map e_leaf (listing env (prog_graph env p u))).
Proof. exact prog_flatten_multiset_bound. Qed.
Print Assumptions C11_flatten_multiset_bound.

(* no sub-circuit remains: one flat node per listed leaf, in listing order, each operation unchanged *)
Theorem C11_no_subcircuit_remains : forall env p u f,
  flatten env (prog_graph env p u) = Some f ->
  Forall (fun n => is_comp (n_op n) = false) f /\
  map n_op f = map OLeaf (map e_leaf (listing env (prog_graph env p u))) /\
  length f = length (listing env (prog_graph env p u)).
Proof. exact prog_flatten_no_subcircuit. Qed.
Print Assumptions C11_no_subcircuit_remains.

(* the flat graph is a well-formed forest, each node being what add_to_graph makes of the link it holds *)
Theorem C11_flatten_wf : forall env p u f,
  flatten env (prog_graph env p u) = Some f -> wf_nodes f /\ built env f /\ wf_op (OComp 1 f).
Proof. exact prog_flatten_wf. Qed.
Print Assumptions C11_flatten_wf.

(* flattening again changes nothing that is reported (operations, order, times), and from then on nothing at all *)
Theorem C11_flatten_again : forall env p u f,
  flatten env (prog_graph env p u) = Some f -> fully_listed f ->
  exists f', flatten env f = Some f' /\ listing env f' = listing env f /\ flatten env f' = Some f'.
Proof. exact prog_flatten_again. Qed.
Print Assumptions C11_flatten_again.

Theorem C11_flatten_again_bound : forall env p u f,
  flatten env (prog_graph env p u) = Some f ->
  (Z.of_nat (length (listing env (prog_graph env p u))) <= 4999)%Z ->
  exists f', flatten env f = Some f' /\ listing env f' = listing env f /\ flatten env f' = Some f'.
Proof. exact prog_flatten_again_bound. Qed.
Print Assumptions C11_flatten_again_bound.

(* the same for every flat graph of leaves, however it was obtained *)
Theorem C11_flatten_flat_again : forall env f ls,
  map n_op f = map OLeaf ls -> wf_nodes f -> built env f -> fully_listed f ->
  exists f', flatten env f = Some f' /\ listing env f' = listing env f /\ bfs (parents f') = seq 0 (length f').
Proof. exact flatten_idem. Qed.
Print Assumptions C11_flatten_flat_again.

Theorem C11_flatten_in_order_fixpoint : forall env f ls,
  map n_op f = map OLeaf ls -> wf_nodes f -> built env f -> bfs (parents f) = seq 0 (length f) -> flatten env f = Some f.
Proof. exact flatten_in_order. Qed.
Print Assumptions C11_flatten_in_order_fixpoint.

(* the model gives no answer exactly when, after the hand-off, some listed leaf holds a multi-link with a member that is a
   leaf listed earlier (t) and a member that is no listed leaf at all (t': a sub-circuit, i.e. the F10 class, or an
   operation beyond the depth limit) *)
Theorem C11_model_scope : forall env p u, let ns := prog_graph env p u in
  flatten env ns = None <->
  exists done e rest tgs t t',
    glisting ns = done ++ e :: rest /\ ge_link e = GMulti tgs /\
    In t tgs /\ In t (map ge_path done) /\ In t' tgs /\ ~ In t' (map ge_path (glisting ns)).
Proof. exact prog_flatten_scope. Qed.
Print Assumptions C11_model_scope.

(* for an arbitrary nested graph (not necessarily built by the library): a member that is not listed earlier *)
Theorem C11_model_scope_any_graph : forall env ns,
  flatten env ns = None <->
  exists done e rest tgs t t',
    glisting ns = done ++ e :: rest /\ ge_link e = GMulti tgs /\
    In t tgs /\ In t (map ge_path done) /\ In t' tgs /\ ~ In t' (map ge_path done).
Proof. exact flatten_scope_any. Qed.
Print Assumptions C11_model_scope_any_graph.

(* on flat graphs of leaves whose multi-links name operations listed earlier, flatten always answers *)
Theorem C11_flatten_total_on_flat : forall env f ls,
  map n_op f = map OLeaf ls -> BfsProofs.wf_parents (parents f) -> multi_before f -> exists f', flatten env f = Some f'.
Proof. exact flatten_total_on_flat. Qed.
Print Assumptions C11_flatten_total_on_flat.

(* known finding F10: an unrolled repeated block that contains a sub-circuit is outside the model *)
Theorem C11_refuted_F10 : exists env p, let ns := prog_graph env p true in wf_op (OComp 1 ns) /\ flatten env ns = None.
Proof. exact flatten_refuted_F10. Qed.
Print Assumptions C11_refuted_F10.
