(* C11 — Flattening keeps the operations. *)
From Coq Require Import ZArith List Bool.
From QCE Require Import Base.Prelude Core.Model C11.Proofs.
Theorem C11_flatten_empty : forall env, flatten env nil = Some nil.
Proof. exact flatten_empty. Qed.
Print Assumptions C11_flatten_empty.
