(* C04 — A (sub-)circuit's duration spans everything it contains. *)
From Coq Require Import ZArith List Bool.
From QCE Require Import Base.Prelude Core.Model C04.Proofs.
Open Scope Z_scope.

Theorem C04_empty_circuit : forall env, comp_duration env nil = 0.
Proof. exact empty_duration. Qed.
Print Assumptions C04_empty_circuit.
