(* C04 — A (sub-)circuit's duration spans everything it contains. *)
From Coq Require Import ZArith List Bool Permutation.
Import ListNotations.
From QCE Require Import Base.Prelude Core.Model Core.BfsProofs Core.BfsWf Core.TimesProofs Core.TimesListing Core.Run Core.EnvIndep C04.Run C04.Proofs.
From Gen Require Import Ident Classes.
Open Scope Z_scope.

Theorem C04_empty_circuit : forall env, comp_duration env nil = 0.
Proof. exact empty_duration. Qed.

(* a non-empty graph of leaf operations whose listing covers all nodes: duration = latest end - earliest start over ALL rows of
   the times table (whichever nodes are relation leaves or first operations) *)
Theorem C04_flat_span : forall env ns, ns <> [] -> (forall n, In n ns -> is_comp (n_op n) = false) ->
  (forall n l, In n ns -> n_op n = OLeaf l -> 0 <= resolve env (l_dur l)) ->
  Permutation (bfs (parents ns)) (seq 0 (length ns)) ->
  comp_duration env ns = zmax_list 0 (map snd (node_times env None ns)) - zmin_list 0 (map fst (node_times env None ns)).
Proof. exact flat_span. Qed.

(* through nesting, in every context of type none / FOLLOWED_BY / JOINED_START: the duration of a (sub-)circuit = latest end -
   earliest start over all entries it lists *)
Theorem C04_nested_span : forall env r ns c se, span_wf env (OComp r ns) -> ctx_plain c ->
  let L := listing_op env (OComp r ns) c se in
  L <> [] /\ dur_of env (OComp r ns) = zmax_list 0 (map e_end L) - zmin_list 0 (map e_start L).
Proof. exact nested_span. Qed.

(* span_wf follows from the well-formedness every built graph has (BfsWf.wf_op) and a decidable shape condition *)
Theorem C04_span_wf_of_built : forall env o, wf_op o -> shape_ok env o -> span_wf env o.
Proof. exact wf_op_span_wf. Qed.
Theorem C04_program_span : forall env p c se, shape_okb env (OComp 1 (run_prog env p)) = true -> ctx_plain c ->
  let L := listing_op env (OComp 1 (run_prog env p)) c se in
  L <> [] /\ comp_duration env (run_prog env p) = zmax_list 0 (map e_end L) - zmin_list 0 (map e_start L).
Proof. exact program_span. Qed.

(* every build program with non-negative durations (operations, and the class defaults under the settings) and no empty
   sub-circuit: reported duration = latest end - earliest start over everything listed *)
Theorem C04_program_span_all : forall env p c se, env_ok env -> p <> [] -> Forall (cmd_ok env) p -> ctx_plain c ->
  let L := listing_op env (OComp 1 (run_prog env p)) c se in
  L <> [] /\ comp_duration env (run_prog env p) = zmax_list 0 (map e_end L) - zmin_list 0 (map e_start L).
Proof. exact program_span_all. Qed.
Theorem C04_unrolled_span_all : forall env p c se, env_ok env -> p <> [] -> Forall (cmd_ok env) p -> ctx_plain c ->
  let ns := apply_modifiers env 1 (run_prog env p) in
  let L := listing_op env (OComp 1 ns) c se in
  L <> [] /\ comp_duration env ns = zmax_list 0 (map e_end L) - zmin_list 0 (map e_start L).
Proof. exact unrolled_span_all. Qed.
Theorem C04_env_ok_of_globals : forall env, (forall k, 0 <= genv env k) -> env_ok env.
Proof. exact env_ok_of_globals. Qed.

(* if nothing inside node p starts before its first operations, whatever is FOLLOWED_BY p starts at start p + duration p,
   which is not before any end listed for p *)
Theorem C04_followers : forall env c ns p q pn qn, wf_node_links ns -> ctx_plain c ->
  nth_error ns p = Some pn -> nth_error ns q = Some qn -> n_link qn = LRel RelationType_FOLLOWED_BY p ->
  span_wf env (n_op pn) -> block_link_ok (n_link pn) -> fst (ext_of env (n_op pn)) = 0 ->
  let tm := node_times env c ns in
  fst (nth q tm (0, 0)) = fst (nth p tm (0, 0)) + dur_of env (n_op pn) /\
  forall e, In e (listing_op env (n_op pn) (sub_ctx c tm (n_link pn)) (nth p tm (0, 0))) -> e_end e <= fst (nth q tm (0, 0)).
Proof. exact followers. Qed.

Print Assumptions C04_empty_circuit.
Print Assumptions C04_flat_span.
Print Assumptions C04_nested_span.
Print Assumptions C04_span_wf_of_built.
Print Assumptions C04_program_span.
Print Assumptions C04_program_span_all.
Print Assumptions C04_unrolled_span_all.
Print Assumptions C04_env_ok_of_globals.
Print Assumptions C04_followers.

(* a circuit built -- and unrolled -- under settings e1 and then observed under settings e2 reports exactly what a circuit built
   under e2 reports: building never consults the settings (Core/EnvIndep.v) *)
Theorem C04_observation_after_settings_change_comparable : forall e1 e2 p,
  model_obs e2 (run_prog e1 p) = model_obs e2 (run_prog e2 p)
  /\ model_obs e2 (apply_modifiers e1 1 (run_prog e1 p)) = model_obs e2 (apply_modifiers e2 1 (run_prog e2 p)).
Proof. exact observed_after_change. Qed.
Print Assumptions C04_observation_after_settings_change_comparable.
