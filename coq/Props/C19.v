(* C19 — Channel and identifier matching behave as overlap / identity relations.
   Property theorems only; each closed by `exact <lemma>`; assumptions printed beneath. *)
From Coq Require Import ZArith List Bool String.
From QCE Require Import Base.Prelude C19.Model C19.Proofs.
From Gen Require Import Ident.

(* two channel identifiers match exactly when same qubit and (same channel or one of them is ALL) *)
Theorem C19_match_spec : forall a b, ChannelIdentifier_eq a b = true <-> ch_match_prop a b.
Proof. exact ch_match_spec. Qed.
Theorem C19_match_symmetric : forall a b, ChannelIdentifier_eq a b = ChannelIdentifier_eq b a.
Proof. exact ch_match_sym. Qed.
Theorem C19_match_never_across_qubits :
  forall a b, ChannelIdentifier__id a <> ChannelIdentifier__id b -> ChannelIdentifier_eq a b = false.
Proof. exact ch_match_qubit. Qed.

(* edges: equal and hash-equal regardless of order, for every hash function of strings and pairs *)
Theorem C19_edge_eq_swap : forall e f, EdgeIDObj_eq e (edge_swap f) = EdgeIDObj_eq e f.
Proof. exact edge_eq_swap_r. Qed.
Theorem C19_edge_eq_swap_self : forall e, EdgeIDObj_eq e (edge_swap e) = true.
Proof. exact edge_eq_swap_self. Qed.
Theorem C19_edge_hash_swap : forall shash thash e, EdgeIDObj_hash shash thash (edge_swap e) = EdgeIDObj_hash shash thash e.
Proof. exact edge_hash_swap. Qed.
Theorem C19_edge_eq_hash : forall shash thash e f, edge_proper e -> EdgeIDObj_eq e f = true ->
  EdgeIDObj_hash shash thash e = EdgeIDObj_hash shash thash f.
Proof. exact edge_eq_hash. Qed.

(* qubit identifiers are equal exactly when their names are *)
Theorem C19_qubit_eq_name : forall a b, QubitIDObj_eq a b = true <-> QubitIDObj_name a = QubitIDObj_name b.
Proof. exact qubit_eq_name. Qed.
Theorem C19_qubit_eq_hash : forall shash a b, QubitIDObj_eq a b = true -> QubitIDObj_hash shash a = QubitIDObj_hash shash b.
Proof. exact qubit_eq_hash. Qed.

(* order-preserving de-duplication keeps the first occurrence of every element *)
Theorem C19_unique_in_order : forall (A : Type) (eqb : A -> A -> bool),
  (forall x y, eqb x y = true <-> x = y) -> forall l,
  let r := unique_in_order eqb l in
  NoDup r /\ sublist r l /\ (forall x, In x r <-> In x l) /\ r = nub eqb l.
Proof. exact @unique_in_order_spec. Qed.

Print Assumptions C19_match_spec.
Print Assumptions C19_match_symmetric.
Print Assumptions C19_match_never_across_qubits.
Print Assumptions C19_edge_eq_swap.
Print Assumptions C19_edge_eq_swap_self.
Print Assumptions C19_edge_hash_swap.
Print Assumptions C19_edge_eq_hash.
Print Assumptions C19_qubit_eq_name.
Print Assumptions C19_qubit_eq_hash.
Print Assumptions C19_unique_in_order.

(* which OBJECT is kept.  For ANY equivalence on the elements -- equal-but-distinct objects such as an edge given in both
   directions, 1 and 1.0 -- the result is `nub`, whose definition keeps the head and removes the later members of its class:
   every class is represented by its FIRST member, at the position of that member. *)
Theorem C19_unique_in_order_keeps_first_object : forall (A : Type) (eqb : A -> A -> bool),
  (forall x y, eqb x y = eqb y x) -> (forall x y z, eqb x y = true -> eqb y z = true -> eqb x z = true) ->
  forall l, unique_in_order eqb l = nub eqb l.
Proof. exact @unique_in_order_nub_equiv. Qed.
Print Assumptions C19_unique_in_order_keeps_first_object.
