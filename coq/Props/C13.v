(* C13 -- Index kernels agree with the experiment circuit they describe.
   Property theorems only; each closed by `exact <lemma>`; assumptions printed beneath.
   multi_round_labelled / multi_round_tags: the closed-form per-ancilla measurement sequence of
   construct_repetition_code_multi_round_circuit (C13/Model.v, tied to the constructed circuits by harness/c13.py); the kernel is the
   C12 model (Gen/Kernels.v) with heralded initialisation, calibration points and one experiment repetition.  `positions p l` are
   the per-qubit acquisition indices (0, 1, 2, ... in circuit order) of the measurements satisfying p.
   Quantification: all non-empty lists of distinct round counts >= 0, all identifier lists, every ancilla q of the kernel (the code
   distance only decides which qubits are ancillas; every ancilla sees the same sequence). *)
From Coq Require Import ZArith List Bool.
Import ListNotations.
From QCE Require Import Base.Prelude C12.Model C12.Proofs C13.Model C13.Proofs.
From Gen Require Import Kernels.
Open Scope Z_scope.

(* per block / per calibration state: heralded, parity (= stabilizer and projected; the last parity round is the projected index) and
   calibration measurements sit exactly at the kernel's indices; number of acquisitions = kernel cycle length; the 0-round block
   is the stated exception: the circuit has one 'final' measurement at the block's stop index and the kernel reports nothing there *)
Theorem C13_kernels_agree_with_circuit : forall rounds data anc q,
  rounds <> [] -> NoDup rounds -> Forall (fun r => 0 <= r) rounds -> is_member q anc = true ->
  exists e, circuit_kernel rounds data anc = Value e
  /\ Z.of_nat (length (multi_round_tags rounds)) = RepetitionExperimentKernel_kernel_cycle_length e
  /\ (forall n, In n rounds ->
        positions (is_tl THeralded (Block n)) (multi_round_labelled rounds)
          = concat (RepetitionExperimentKernel_get_heralded_cycle_acquisition_indices e q n)
        /\ positions (is_tl TParity (Block n)) (multi_round_labelled rounds)
          = concat (RepetitionExperimentKernel_get_stabilizer_and_projected_cycle_acquisition_indices e q n)
        /\ (1 <= n -> positions (is_tl TFinal (Block n)) (multi_round_labelled rounds) = []
                      /\ concat (RepetitionExperimentKernel_get_projected_cycle_acquisition_indices e q n)
                         = [last (positions (is_tl TParity (Block n)) (multi_round_labelled rounds)) 0]))
  /\ (In 0 rounds -> exists k, In k (RepetitionExperimentKernel__repetition_kernels e)
        /\ RepetitionIndexKernel_nr_repeated_parities k = 0
        /\ positions (is_tl TFinal (Block 0)) (multi_round_labelled rounds) = [RepetitionIndexKernel_stop_index k]
        /\ RepetitionExperimentKernel_get_projected_cycle_acquisition_indices e q 0 = [[]]
        /\ RepetitionExperimentKernel_get_stabilizer_and_projected_cycle_acquisition_indices e q 0 = [[]]
        /\ ~ In (RepetitionIndexKernel_stop_index k) (cycle_indices e q))
  /\ (forall st, positions (is_tl THeralded (Cal st)) (multi_round_labelled rounds)
                   = RepetitionExperimentKernel_get_heralded_calibration_acquisition_indices e q st
              /\ positions (is_tl TFinal (Cal st)) (multi_round_labelled rounds)
                   = RepetitionExperimentKernel_get_projected_calibration_acquisition_indices e q st
              /\ positions (is_tl TParity (Cal st)) (multi_round_labelled rounds) = []).
Proof. exact kernels_agree_with_circuit. Qed.

(* the same on the bare tag sequence, which is what DeclarativeCircuit.get_acquisition_indices(AcquisitionTag) exposes: heralded tags =
   kernel heralded (blocks in order, then calibration); parity tags = kernel stabilizer-and-projected; final tags = the slots of
   0-round blocks (reported by no kernel category) followed by the kernel's calibration indices *)
Theorem C13_tag_positions : forall rounds data anc q,
  rounds <> [] -> NoDup rounds -> Forall (fun r => 0 <= r) rounds -> is_member q anc = true ->
  exists e, circuit_kernel rounds data anc = Value e
  /\ positions (is_tag THeralded) (multi_round_tags rounds)
     = concat (map (fun n => concat (RepetitionExperimentKernel_get_heralded_cycle_acquisition_indices e q n)) rounds)
       ++ concat (map (RepetitionExperimentKernel_get_heralded_calibration_acquisition_indices e q) StateKey_all)
  /\ positions (is_tag TParity) (multi_round_tags rounds)
     = concat (map (fun n => concat (RepetitionExperimentKernel_get_stabilizer_and_projected_cycle_acquisition_indices e q n)) rounds)
  /\ positions (is_tag TFinal) (multi_round_tags rounds)
     = zero_round_slots e ++ concat (map (RepetitionExperimentKernel_get_projected_calibration_acquisition_indices e q) StateKey_all)
  /\ (forall x, In x (zero_round_slots e) -> ~ In x (cycle_indices e q)).
Proof. exact tag_positions. Qed.

(* the constructor schedules exactly r parity rounds for r >= 1 (three sub-circuits: min(2, r-1), r-3, 1) *)
Theorem C13_parity_round_count : forall r, 1 <= r -> qec_parity_rounds r = r.
Proof. exact qec_parity_rounds_eq. Qed.

Print Assumptions C13_kernels_agree_with_circuit.
Print Assumptions C13_tag_positions.
Print Assumptions C13_parity_round_count.
