(* C07 — Acquisition indices enumerate measurements exactly, in order.
   Property theorems only; each closed by `exact <lemma>`; assumptions printed beneath.
   Objects: `l` is the listing `reference_circuit.decomposed_operations()` the registry scans (after apply_modifiers() it is
   also the order of the exported measurement record); `acq_info l u` = (per-qubit index, circuit-level index) the scan reports
   for the measurement with unique identifier u; qindex / cindex are its two components.  Standing hypothesis: the unique
   identifiers of the listed measurements are pairwise distinct (every AcquisitionIdentifier draws a fresh one). *)
From Coq Require Import ZArith List Bool Sorted.
Import ListNotations.
From QCE Require Import Base.Prelude C07.Model C07.Proofs.
Open Scope Z_scope.

(* the scan returns (number of same-qubit measurements strictly before the entry, number of measurements strictly before it) *)
Theorem C07_acq_scan_spec : forall l1 q tg u l2,
  NoDup (uids (l1 ++ Meas q tg u :: l2)) ->
  acq_info (l1 ++ Meas q tg u :: l2) u = (count_q q l1, count_meas l1).
Proof. exact acq_scan_spec. Qed.

(* ... and it is the first identifier-equal entry that wins, whatever follows *)
Theorem C07_acq_scan_first_wins : forall l1 q tg u l2,
  ~ In u (uids l1) -> acq_info (l1 ++ Meas q tg u :: l2) u = (count_q q l1, count_meas l1).
Proof. exact acq_info_first. Qed.

(* what a listed operation reports about itself (its own identifier as key) is acq_info of its uid *)
Theorem C07_acq_operation_reports : forall l q tg u, NoDup (uids l) -> In (Meas q tg u) l ->
  op_index l (Meas q tg u) = qindex l u /\ op_cindex l (Meas q tg u) = cindex l u.
Proof. exact op_index_info. Qed.

(* circuit-level indices are exactly 0..N-1 and per-qubit indices exactly 0..n_q-1, in listing order *)
Theorem C07_acq_enumerates : forall l, NoDup (uids l) ->
  map (cindex l) (uids l) = zrange 0 (count_meas l)
  /\ forall q, map (qindex l) (sel (qubit_is q) l) = zrange 0 (count_q q l).
Proof. exact acq_enumerates. Qed.

(* filtering by qubit / by (qubit, tag) returns precisely the per-qubit indices of the matching measurements, in order *)
Theorem C07_acq_filter : forall l, NoDup (uids l) -> forall q,
  indices_by_qubit l q = map (qindex l) (sel (qubit_is q) l)
  /\ indices_by_qubit l q = zrange 0 (count_q q l)
  /\ forall tg,
       indices_by_tag l q tg = map (qindex l) (sel (tag_is q tg) l)
       /\ StronglySorted Z.lt (indices_by_tag l q tg)
       /\ forall i, In i (indices_by_tag l q tg) <-> exists u, In (Meas q tg u) l /\ qindex l u = i.
Proof. exact acq_filter. Qed.

(* for a fixed qubit the by-tag lists partition 0..n_q-1: duplicate-free, pairwise disjoint, union complete *)
Theorem C07_acq_tags_partition : forall l, NoDup (uids l) -> forall q,
  (forall tg, NoDup (indices_by_tag l q tg))
  /\ (forall tg1 tg2 i, tg1 <> tg2 -> In i (indices_by_tag l q tg1) -> ~ In i (indices_by_tag l q tg2))
  /\ (forall i, 0 <= i < count_q q l <-> exists tg, In i (indices_by_tag l q tg)).
Proof. exact acq_tags_partition. Qed.

(* circuit-level index = position among the measurements of the listing = position of its M target in the exported record *)
Theorem C07_acq_record_position : forall l, NoDup (uids l) ->
  record_positions l = map (fun u => (u, cindex l u)) (uids l)
  /\ Z.of_nat (length (stim_record l)) = count_meas l
  /\ forall q tg u, In (Meas q tg u) l ->
       0 <= cindex l u /\ nth_error (stim_record l) (Z.to_nat (cindex l u)) = Some q.
Proof. exact acq_record_position. Qed.

(* an identifier that is not in the scanned listing (registry re-targeted to the wrong circuit) yields (-1, -1) silently *)
Theorem C07_acq_missing : forall l u, ~ In u (uids l) -> acq_info l u = (-1, -1).
Proof. exact acq_missing. Qed.
Theorem C07_acq_missing_scan : forall l q tg u, (forall q' tg', ~ In (Meas q' tg' u) l) -> acq_scan l (q, tg, u) = (-1, -1).
Proof. exact acq_scan_missing. Qed.

(* PARTIAL: IF same-qubit measurements are listed in non-decreasing start-time order (what C01/C02 are to provide for implicitly
   sequenced, overlap-free circuits; not derived here) THEN the per-qubit index increases with start time *)
Theorem C07_acq_monotone_time_partial : forall (time : Z -> Z) l, NoDup (uids l) -> time_sorted time l ->
  forall q t1 u1 t2 u2, In (Meas q t1 u1) l -> In (Meas q t2 u2) l ->
    (time u1 < time u2 -> qindex l u1 < qindex l u2) /\ (qindex l u1 < qindex l u2 -> time u1 <= time u2).
Proof. exact acq_monotone_time_partial. Qed.

(* ... and the hypothesis cannot be dropped: the indices follow the listing, not the clock *)
Theorem C07_acq_monotone_time_unsorted_refuted :
  exists l time q t1 u1 t2 u2, NoDup (uids l) /\ In (Meas q t1 u1) l /\ In (Meas q t2 u2) l
    /\ time u1 < time u2 /\ ~ (qindex l u1 < qindex l u2).
Proof. exact ex_time_unsorted_refuted. Qed.

Print Assumptions C07_acq_scan_spec.
Print Assumptions C07_acq_scan_first_wins.
Print Assumptions C07_acq_operation_reports.
Print Assumptions C07_acq_enumerates.
Print Assumptions C07_acq_filter.
Print Assumptions C07_acq_tags_partition.
Print Assumptions C07_acq_record_position.
Print Assumptions C07_acq_missing.
Print Assumptions C07_acq_missing_scan.
Print Assumptions C07_acq_monotone_time_partial.
Print Assumptions C07_acq_monotone_time_unsorted_refuted.

(* ------------------------------------------------------------------------------------------------------------------------
   The last clause tied to the Core model of build programs (C07/CoreBridge.v): the listing the scan runs over is
   `core_entries env prog` = listing of `built env prog` = apply_modifiers (run_prog env prog), the start times are the Core
   schedule's, `core_acq` has one row (qubit, identifier, per-qubit index reported by the scan, start) per listed measurement.
   `listed_table env None ns c' ns'`: ns' is the circuit itself or the graph of a listed sub-circuit at any nesting depth, c' the
   context handed down to it; `anc ps a b`: b is reached from a through child links (Core.Model.children); `follows ns a b`: the
   same through FOLLOWED_BY / multi-links only (the only links an implicit program creates). *)
From QCE Require Import Core.Model Core.Run Core.BfsProofs Core.BfsWf C07.CoreBridge C07.CoreBridgeProofs.
From QCE Require C02.Proofs C04.Proofs.

(* REFUTED (known finding F20): an implicit program (every command adds one operation without a relation; no sub-circuits) with
   non-negative durations whose schedule is free of channel overlaps, and two measurements of one qubit whose indices are
   ordered against their start times.  Implicit placement follows the channel-sharing node of maximal relation DEPTH
   (C01_implicit_placement), the listing is depth-first-layered (C02), the indices follow the listing. *)
Theorem C07_core_time_order_refuted :
  exists env prog,
    implicit_prog prog = true /\ nonneg_durs env prog = true /\
    overlap_freeb (core_entries env prog) = true /\
    NoDup (uids (core_items env prog)) /\
    exists r1 r2, In r1 (core_acq env prog) /\ In r2 (core_acq env prog) /\
      a_qubit r1 = a_qubit r2 /\ 0 <= a_index r1 < a_index r2 /\ a_start r1 > a_start r2.
Proof. exact core_time_order_refuted. Qed.

(* the meaning of the two booleans *)
Theorem C07_core_implicit_prog_spec : forall p, implicit_prog p = true <-> forall c, In c p -> exists l, c = CAdd l None.
Proof. exact implicit_prog_spec. Qed.
Theorem C07_core_overlap_free_spec : forall es, overlap_freeb es = true ->
  forall x y, before es x y -> share_channel (e_leaf x) (e_leaf y) = true -> e_end x <= e_start y \/ e_end y <= e_start x.
Proof. exact overlap_freeb_spec. Qed.

(* WHEN the order is guaranteed.  Every build program (sub-circuits, repetitions, explicit relations elsewhere), unrolled; every
   graph met while listing it; two leaf operations a, b of that graph, b listed, b reached from a through FOLLOWED_BY / multi-links;
   non-negative durations of what is listed: a ends before b starts, a is listed before b, and if both measure the same qubit the
   scan gives a the smaller index (rows of core_acq exhibited) *)
Theorem C07_core_ancestor_order : forall env prog,
  (forall e, In e (core_entries env prog) -> 0 <= resolve env (l_dur (e_leaf e))) ->
  forall c' ns', listed_table env None (built env prog) c' ns' ->
  forall a b na nb la lb,
    nth_error ns' a = Some na -> n_op na = OLeaf la -> nth_error ns' b = Some nb -> n_op nb = OLeaf lb ->
    In b (bfs (parents ns')) -> follows ns' a b ->
    let ea := entry_at la (nth a (node_times env c' ns') (0, 0)) in
    let eb := entry_at lb (nth b (node_times env c' ns') (0, 0)) in
    e_end ea <= e_start eb /\ e_start ea <= e_start eb /\ before (core_entries env prog) ea eb /\
    forall q ta tb, l_acq la = Some (q, ta) -> l_acq lb = Some (q, tb) -> NoDup (uids (core_items env prog)) ->
      0 <= qindex (core_items env prog) (l_lab la) < qindex (core_items env prog) (l_lab lb) /\
      In {| a_qubit := q; a_uid := l_lab la; a_index := qindex (core_items env prog) (l_lab la); a_start := e_start ea |} (core_acq env prog) /\
      In {| a_qubit := q; a_uid := l_lab lb; a_index := qindex (core_items env prog) (l_lab lb); a_start := e_start eb |} (core_acq env prog).
Proof. exact program_ancestor_order. Qed.

(* the same for ANY well-formed circuit (wf_op: what C02_built_graphs_wellformed gives for everything the model builds; also the
   form in which a library-built circuit's recorded relation graph is checked), e.g. the circuit before apply_modifiers() *)
Theorem C07_core_ancestor_order_any_circuit : forall env ns, wf_op (OComp 1 ns) ->
  let L := listing env ns in
  let items := items_of_entries L in
  (forall e, In e L -> 0 <= resolve env (l_dur (e_leaf e))) ->
  forall c' ns', listed_table env None ns c' ns' ->
  forall a b na nb la lb,
    nth_error ns' a = Some na -> n_op na = OLeaf la -> nth_error ns' b = Some nb -> n_op nb = OLeaf lb ->
    In b (bfs (parents ns')) -> follows ns' a b ->
    let ea := entry_at la (nth a (node_times env c' ns') (0, 0)) in
    let eb := entry_at lb (nth b (node_times env c' ns') (0, 0)) in
    e_end ea <= e_start eb /\ e_start ea <= e_start eb /\ before L ea eb /\
    forall q ta tb, l_acq la = Some (q, ta) -> l_acq lb = Some (q, tb) -> NoDup (uids items) ->
      0 <= qindex items (l_lab la) < qindex items (l_lab lb) /\
      In {| a_qubit := q; a_uid := l_lab la; a_index := qindex items (l_lab la); a_start := e_start ea |} (acq_rows L) /\
      In {| a_qubit := q; a_uid := l_lab lb; a_index := qindex items (l_lab lb); a_start := e_start eb |} (acq_rows L).
Proof. exact core_ancestor_order. Qed.

(* whatever the relation types on the path (JOINED_START / JOINED_END included): listed first, smaller index; nothing on times *)
Theorem C07_core_ancestor_listed_first : forall env prog,
  forall c' ns', listed_table env None (built env prog) c' ns' ->
  forall a b na nb la lb,
    nth_error ns' a = Some na -> n_op na = OLeaf la -> nth_error ns' b = Some nb -> n_op nb = OLeaf lb ->
    In b (bfs (parents ns')) -> anc (parents ns') a b ->
    let ea := entry_at la (nth a (node_times env c' ns') (0, 0)) in
    let eb := entry_at lb (nth b (node_times env c' ns') (0, 0)) in
    before (core_entries env prog) ea eb /\
    forall q ta tb, l_acq la = Some (q, ta) -> l_acq lb = Some (q, tb) -> NoDup (uids (core_items env prog)) ->
      0 <= qindex (core_items env prog) (l_lab la) < qindex (core_items env prog) (l_lab lb) /\
      In {| a_qubit := q; a_uid := l_lab la; a_index := qindex (core_items env prog) (l_lab la); a_start := e_start ea |} (core_acq env prog) /\
      In {| a_qubit := q; a_uid := l_lab lb; a_index := qindex (core_items env prog) (l_lab lb); a_start := e_start eb |} (core_acq env prog).
Proof. exact program_ancestor_listed_first. Qed.

(* the duration hypothesis from conditions on the program: C04's (operation durations and class defaults non-negative, no empty
   sub-circuit) for every program; the durations of the added operations alone for programs without sub-circuits *)
Theorem C07_core_durations_from_program : forall env p,
  C04.Proofs.env_ok env -> p <> [] -> Forall (C04.Proofs.cmd_ok env) p ->
  forall e, In e (core_entries env p) -> 0 <= resolve env (l_dur (e_leaf e)).
Proof. exact program_listed_nonneg. Qed.
Theorem C07_core_durations_flat : forall env p, flat_prog p = true -> nonneg_durs env p = true ->
  forall e, In e (core_entries env p) -> 0 <= resolve env (l_dur (e_leaf e)).
Proof. exact flat_listed_nonneg. Qed.

(* implicit programs: node i is command i, unrolling changes nothing, and EVERY relation ancestor qualifies *)
Theorem C07_core_implicit_ancestor_order : forall env p, implicit_prog p = true -> nonneg_durs env p = true ->
  let ns := run_prog env p in
  built env p = ns /\
  forall a b la lb, nth_error p a = Some (CAdd la None) -> nth_error p b = Some (CAdd lb None) ->
    In b (bfs (parents ns)) -> anc (parents ns) a b ->
    let ea := entry_at la (nth a (node_times env None ns) (0, 0)) in
    let eb := entry_at lb (nth b (node_times env None ns) (0, 0)) in
    e_end ea <= e_start eb /\ e_start ea <= e_start eb /\ before (core_entries env p) ea eb /\
    forall q ta tb, l_acq la = Some (q, ta) -> l_acq lb = Some (q, tb) -> NoDup (uids (core_items env p)) ->
      0 <= qindex (core_items env p) (l_lab la) < qindex (core_items env p) (l_lab lb) /\
      In {| a_qubit := q; a_uid := l_lab la; a_index := qindex (core_items env p) (l_lab la); a_start := e_start ea |} (core_acq env p) /\
      In {| a_qubit := q; a_uid := l_lab lb; a_index := qindex (core_items env p) (l_lab lb); a_start := e_start eb |} (core_acq env p).
Proof. exact implicit_ancestor_order. Qed.
Theorem C07_core_small_prog_listed : forall env p b, Z.of_nat (length p) <= 4999 -> (b < length p)%nat ->
  In b (bfs (parents (run_prog env p))).
Proof. exact small_prog_listed. Qed.

(* a sufficient condition for ALL pairs: an implicit program of at most 4999 operations each of which shares a channel with the
   one added just before it builds a single chain, and then insertion order, index order and start-time order coincide *)
Theorem C07_core_chained_graph_is_chain : forall env p, chained None p = true -> Z.of_nat (length p) <= 4999 ->
  parents (run_prog env p) = C02.Proofs.chain_parents (length p).
Proof. exact chained_graph_is_chain. Qed.
Theorem C07_core_single_chain_order : forall env p,
  chained None p = true -> Z.of_nat (length p) <= 4999 -> nonneg_durs env p = true -> NoDup (uids (core_items env p)) ->
  let tm := node_times env None (run_prog env p) in
  forall a b la lb q ta tb, (a < b)%nat ->
    nth_error p a = Some (CAdd la None) -> nth_error p b = Some (CAdd lb None) ->
    l_acq la = Some (q, ta) -> l_acq lb = Some (q, tb) ->
    let sa := fst (nth a tm (0, 0)) in
    let sb := fst (nth b tm (0, 0)) in
    snd (nth a tm (0, 0)) <= sb /\ sa <= sb /\
    0 <= qindex (core_items env p) (l_lab la) < qindex (core_items env p) (l_lab lb) /\
    In {| a_qubit := q; a_uid := l_lab la; a_index := qindex (core_items env p) (l_lab la); a_start := sa |} (core_acq env p) /\
    In {| a_qubit := q; a_uid := l_lab lb; a_index := qindex (core_items env p) (l_lab lb); a_start := sb |} (core_acq env p).
Proof. exact single_chain_order. Qed.

Print Assumptions C07_core_time_order_refuted.
Print Assumptions C07_core_implicit_prog_spec.
Print Assumptions C07_core_overlap_free_spec.
Print Assumptions C07_core_ancestor_order.
Print Assumptions C07_core_ancestor_order_any_circuit.
Print Assumptions C07_core_ancestor_listed_first.
Print Assumptions C07_core_durations_from_program.
Print Assumptions C07_core_durations_flat.
Print Assumptions C07_core_implicit_ancestor_order.
Print Assumptions C07_core_small_prog_listed.
Print Assumptions C07_core_chained_graph_is_chain.
Print Assumptions C07_core_single_chain_order.
