(* C07 — Acquisition indices enumerate measurements exactly, in order.
   Property theorems only; each closed by `exact <lemma>`; assumptions printed beneath.
   Objects: `l` is the listing `reference_circuit.decomposed_operations()` the registry scans (after apply_modifiers() it is
   also the order of the exported measurement record); `acq_info l u` = (per-qubit index, circuit-level index) the scan reports
   for the measurement with unique identifier u; qindex / cindex are its two components.  Standing hypothesis: the unique
   identifiers of the listed measurements are pairwise distinct (every AcquisitionIdentifier draws a fresh one). *)
From Coq Require Import ZArith List Bool Sorted.
Import ListNotations.
From QCE Require Import Base.Prelude C07.Model C07.Proofs.
Open Scope Z_scope.

(* the scan returns (number of same-qubit measurements strictly before the entry, number of measurements strictly before it) *)
Theorem C07_acq_scan_spec : forall l1 q tg u l2,
  NoDup (uids (l1 ++ Meas q tg u :: l2)) ->
  acq_info (l1 ++ Meas q tg u :: l2) u = (count_q q l1, count_meas l1).
Proof. exact acq_scan_spec. Qed.

(* ... and it is the first identifier-equal entry that wins, whatever follows *)
Theorem C07_acq_scan_first_wins : forall l1 q tg u l2,
  ~ In u (uids l1) -> acq_info (l1 ++ Meas q tg u :: l2) u = (count_q q l1, count_meas l1).
Proof. exact acq_info_first. Qed.

(* what a listed operation reports about itself (its own identifier as key) is acq_info of its uid *)
Theorem C07_acq_operation_reports : forall l q tg u, NoDup (uids l) -> In (Meas q tg u) l ->
  op_index l (Meas q tg u) = qindex l u /\ op_cindex l (Meas q tg u) = cindex l u.
Proof. exact op_index_info. Qed.

(* circuit-level indices are exactly 0..N-1 and per-qubit indices exactly 0..n_q-1, in listing order *)
Theorem C07_acq_enumerates : forall l, NoDup (uids l) ->
  map (cindex l) (uids l) = zrange 0 (count_meas l)
  /\ forall q, map (qindex l) (sel (qubit_is q) l) = zrange 0 (count_q q l).
Proof. exact acq_enumerates. Qed.

(* filtering by qubit / by (qubit, tag) returns precisely the per-qubit indices of the matching measurements, in order *)
Theorem C07_acq_filter : forall l, NoDup (uids l) -> forall q,
  indices_by_qubit l q = map (qindex l) (sel (qubit_is q) l)
  /\ indices_by_qubit l q = zrange 0 (count_q q l)
  /\ forall tg,
       indices_by_tag l q tg = map (qindex l) (sel (tag_is q tg) l)
       /\ StronglySorted Z.lt (indices_by_tag l q tg)
       /\ forall i, In i (indices_by_tag l q tg) <-> exists u, In (Meas q tg u) l /\ qindex l u = i.
Proof. exact acq_filter. Qed.

(* for a fixed qubit the by-tag lists partition 0..n_q-1: duplicate-free, pairwise disjoint, union complete *)
Theorem C07_acq_tags_partition : forall l, NoDup (uids l) -> forall q,
  (forall tg, NoDup (indices_by_tag l q tg))
  /\ (forall tg1 tg2 i, tg1 <> tg2 -> In i (indices_by_tag l q tg1) -> ~ In i (indices_by_tag l q tg2))
  /\ (forall i, 0 <= i < count_q q l <-> exists tg, In i (indices_by_tag l q tg)).
Proof. exact acq_tags_partition. Qed.

(* circuit-level index = position among the measurements of the listing = position of its M target in the exported record *)
Theorem C07_acq_record_position : forall l, NoDup (uids l) ->
  record_positions l = map (fun u => (u, cindex l u)) (uids l)
  /\ Z.of_nat (length (stim_record l)) = count_meas l
  /\ forall q tg u, In (Meas q tg u) l ->
       0 <= cindex l u /\ nth_error (stim_record l) (Z.to_nat (cindex l u)) = Some q.
Proof. exact acq_record_position. Qed.

(* an identifier that is not in the scanned listing (registry re-targeted to the wrong circuit) yields (-1, -1) silently *)
Theorem C07_acq_missing : forall l u, ~ In u (uids l) -> acq_info l u = (-1, -1).
Proof. exact acq_missing. Qed.
Theorem C07_acq_missing_scan : forall l q tg u, (forall q' tg', ~ In (Meas q' tg' u) l) -> acq_scan l (q, tg, u) = (-1, -1).
Proof. exact acq_scan_missing. Qed.

(* PARTIAL: IF same-qubit measurements are listed in non-decreasing start-time order (what C01/C02 are to provide for implicitly
   sequenced, overlap-free circuits; not derived here) THEN the per-qubit index increases with start time *)
Theorem C07_acq_monotone_time_partial : forall (time : Z -> Z) l, NoDup (uids l) -> time_sorted time l ->
  forall q t1 u1 t2 u2, In (Meas q t1 u1) l -> In (Meas q t2 u2) l ->
    (time u1 < time u2 -> qindex l u1 < qindex l u2) /\ (qindex l u1 < qindex l u2 -> time u1 <= time u2).
Proof. exact acq_monotone_time_partial. Qed.

(* ... and the hypothesis cannot be dropped: the indices follow the listing, not the clock *)
Theorem C07_acq_monotone_time_unsorted_refuted :
  exists l time q t1 u1 t2 u2, NoDup (uids l) /\ In (Meas q t1 u1) l /\ In (Meas q t2 u2) l
    /\ time u1 < time u2 /\ ~ (qindex l u1 < qindex l u2).
Proof. exact ex_time_unsorted_refuted. Qed.

Print Assumptions C07_acq_scan_spec.
Print Assumptions C07_acq_scan_first_wins.
Print Assumptions C07_acq_operation_reports.
Print Assumptions C07_acq_enumerates.
Print Assumptions C07_acq_filter.
Print Assumptions C07_acq_tags_partition.
Print Assumptions C07_acq_record_position.
Print Assumptions C07_acq_missing.
Print Assumptions C07_acq_missing_scan.
Print Assumptions C07_acq_monotone_time_partial.
Print Assumptions C07_acq_monotone_time_unsorted_refuted.
