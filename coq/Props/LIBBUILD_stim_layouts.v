(* LIBBUILD x C08 x C09 -- the descriptions of the shipped layouts.
   Vocabulary as in Props/LIBBUILD_stim.v; `lay_state D` = data values 1, 0, 1, 0, ... (one per data qubit of D), no ancilla
   values; `all_layout_subchains` = every contiguous data-to-data sub-chain of the three shipped layouts (82). *)
From Coq Require Import ZArith List Bool.
Import ListNotations.
From QCE Require Import Base.Prelude C08.Model C09.Stim C09.Spec C09.Sem C09.Model LibBuild.StimBridge LibBuild.StimBridgeLayoutsDefs LibBuild.StimBridgeLayouts.
Open Scope Z_scope.

Theorem LibStim_layouts_export_all_cycles : forall L ch rf cycles, In (L, ch) all_layout_subchains -> 0 <= cycles < two64 + 3 ->
  let D := desc_of_layout L ch rf in
  lib_export_opt D (lay_state D) [] cycles = Some (lib_export D (lay_state D) [] cycles)
  /\ skeleton (lib_export D (lay_state D) [] cycles) = skeleton (rep_stim D (lay_state D) [] (Z.to_nat cycles)).
Proof. exact layouts_all_cycles. Qed.
Print Assumptions LibStim_layouts_export_all_cycles.

Theorem LibStim_layouts_record_all_cycles : forall L ch rf cycles, In (L, ch) all_layout_subchains -> 0 <= cycles < two64 + 3 ->
  let D := desc_of_layout L ch rf in
  exec (gate_part (lib_export D (lay_state D) [] cycles)) = Some (protocol_record (lay_state D) [] (Z.to_nat cycles) rf, [], []).
Proof. exact layouts_record_all_cycles. Qed.
Print Assumptions LibStim_layouts_record_all_cycles.
