(* C10 — Library circuits never double-book a qubit channel, whatever the configured durations are.

   Vocabulary (C10/Model.v, C10/Run.v, C10/Proofs.v):
   * `lin` = linear form over R, M, F, S (the four global durations), W (the decoupling wait max 0 ((R - M) / 2)) and the
     constant tick; `mp` = non-empty list of `lin`, meaning the maximum; `eval_mp env`.
   * `slisting ns` = the listing of the relation graph `ns` (Core.Model) computed ONCE with max-plus starts and ends;
     `sduration ns` its duration; `seval env` evaluates one symbolic entry under a setting.
   * `mp_le a b` = decidable sufficient order (every member of a is dominated by a member of b, where "dominated" may use
     R, M, F, S, W >= 0, 2W + M >= R and 2W <= R).
   * `cert_no_overlap ns` = every channel-sharing pair of the symbolic listing is ordered by mp_le, or both provably have
     no length, or one provably has no length and neither is a Barrier; `cert_strict ns` = the same without the last case.
   * admissible setting: `env_nonneg env` (R, M, F, S >= 0) and `env_parity env` ((R - M) mod 2 = 0 in ticks of 1/8: true
     for durations that are multiples of 0.25, it makes the wait 0.5 (R - M) exact).
   * `no_overlap` (Lib.Run) = clause 1 of the property, `barrier_clear` (C10.Run) = clause 2 including zero-length
     operations strictly inside a barrier.
   The quantifier over constructor inputs is NOT discharged by proof: the certificate is evaluated (vm_compute) on the
   relation graph extracted from every generated library circuit; theorems named _partial say so. *)
From Coq Require Import ZArith List Bool.
Import ListNotations.
From QCE Require Import Base.Prelude Core.Model Core.Run Lib.Run C10.Model C10.Run C10.Proofs.
From Gen Require Import Ident Classes.
Open Scope Z_scope.

(* the symbolic scheduler is the model's scheduler: for every admissible setting the symbolic listing evaluates to the
   listing of Core.Model (same leaves, same order, same starts and ends) *)
Theorem C10_symbolic_listing_sound : forall ns sl env, env_nonneg env -> env_parity env -> slisting ns = Some sl ->
  listing env ns = map (seval env) sl.
Proof. exact symbolic_listing_sound'. Qed.
Print Assumptions C10_symbolic_listing_sound.

Theorem C10_symbolic_duration_sound : forall ns d env, env_nonneg env -> env_parity env -> sduration ns = Some d ->
  comp_duration env ns = eval_mp env d.
Proof. exact symbolic_duration_sound'. Qed.
Print Assumptions C10_symbolic_duration_sound.

(* the decidable order is sound under every admissible setting *)
Theorem C10_mp_le_sound : forall a b, mp_le a b = true -> a <> [] -> b <> [] ->
  forall env, env_nonneg env -> env_parity env -> eval_mp env a <= eval_mp env b.
Proof. exact mp_le_sound'. Qed.
Print Assumptions C10_mp_le_sound.

(* ... and the parity hypothesis cannot be dropped: the fact 2W + M >= R fails in the model for R - M odd *)
Theorem C10_wait_fact_without_parity_refuted :
  exists env, env_nonneg env /\ ~ genv env GReadout <= 2 * wait_of env + genv env GMicrowave.
Proof. exact wait_fact_needs_parity. Qed.
Print Assumptions C10_wait_fact_without_parity_refuted.

(* THE theorem: one evaluation of the certificate on a relation graph covers every admissible duration setting *)
Theorem C10_certified : forall ns, cert_no_overlap ns = true -> forall env, env_nonneg env -> env_parity env ->
  no_overlap (o_ops (model_obs env ns)) = true /\ barrier_clear (o_ops (model_obs env ns)) = true.
Proof. exact certified. Qed.
Print Assumptions C10_certified.

(* the strict certificate (reported by the check, not part of the tie) gives the strongest form: no channel-sharing pair at
   all, operations without length included, has intersecting open intervals *)
Theorem C10_certified_strict : forall ns, cert_strict ns = true -> forall env, env_nonneg env -> env_parity env ->
  no_overlap_strict (o_ops (model_obs env ns)) = true.
Proof. exact certified_strict'. Qed.
Print Assumptions C10_certified_strict.

(* unrolling never consults a duration, so the unrolled graph is the same under every setting ... *)
Theorem C10_apply_modifiers_setting_independent : forall e1 e2 reps ns, apply_modifiers e1 reps ns = apply_modifiers e2 reps ns.
Proof. exact apply_modifiers_env_indep. Qed.
Print Assumptions C10_apply_modifiers_setting_independent.

(* ... and a certificate computed after unrolling under any setting env0 covers every admissible setting *)
Theorem C10_certified_unrolled : forall ns env0, cert_no_overlap (apply_modifiers env0 1 ns) = true ->
  forall env, env_nonneg env -> env_parity env ->
  no_overlap (o_ops (model_obs env (apply_modifiers env 1 ns))) = true
  /\ barrier_clear (o_ops (model_obs env (apply_modifiers env 1 ns))) = true.
Proof. exact certified_unrolled. Qed.
Print Assumptions C10_certified_unrolled.

(* partial (per generated constructor input): a library circuit that passes the tie of the check is overlap-free in the
   model under EVERY admissible setting, as constructed and unrolled -- not only under the setting it was observed with *)
Theorem C10_holds_all_settings_partial : forall c, agree c = true -> forall env, env_nonneg env -> env_parity env ->
  let ns := lc_nodes (lib_of c) in
  no_overlap (o_ops (model_obs env ns)) = true /\ barrier_clear (o_ops (model_obs env ns)) = true
  /\ no_overlap (o_ops (model_obs env (apply_modifiers env 1 ns))) = true
  /\ barrier_clear (o_ops (model_obs env (apply_modifiers env 1 ns))) = true.
Proof. exact agree_all_settings. Qed.
Print Assumptions C10_holds_all_settings_partial.

(* the tie implies the judge: if model and implementation agree on the reported listing and the certificate holds, the
   listing the IMPLEMENTATION reported satisfies the property's statement (spec_ok) *)
Theorem C10_tie_implies_spec : forall c, agree c = true -> env_nonneg (lc_env (lib_of c)) -> env_parity (lc_env (lib_of c)) ->
  spec_ok c = true.
Proof. exact agree_implies_spec. Qed.
Print Assumptions C10_tie_implies_spec.
