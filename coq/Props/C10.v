From QCE Require Import C10.Proofs.
