(* C08 — Stim export is the in-order image of the circuit.
   Property theorems only; each closed by `exact <lemma>`; assumptions printed beneath.
   `to_stim` is the model of StimCircuitFactoryManager.construct over the listing tree (C08/Model.v), `normalise` Stim's
   normal form (REPEAT unrolled, fused targets split, SHIFT_COORDS folded), `flat` the same before folding,
   `spec_instr` the hand-written documented instruction of an operation (C08/Spec.v), `expand` the listing with every
   block expanded in place `reps` times.  `to_stim t = Some c`: the export returned (did not raise). *)
From Coq Require Import ZArith List Bool String Permutation.
Import ListNotations.
From QCE Require Import Base.Prelude C08.Tree C08.Model C08.Spec C08.Proofs.
From Gen Require Import Tables.
Open Scope string_scope.
Open Scope list_scope.
Open Scope Z_scope.

(* the export is the expanded listing translated operation by operation, in order, unsupported kinds omitted, nothing else *)
Theorem C08_stim_in_order : forall t c, to_stim t = Some c ->
  normalise c = fold_coords [] (flat_map (fun l => match instr_of l with IEmit s => [s] | _ => [] end) (expand t)).
Proof. exact stim_in_order. Qed.

(* ... and each operation's instruction is the documented gate on exactly its qubits / the record positions it names *)
Theorem C08_stim_in_order_documented : forall t c, to_stim t = Some c ->
  flat c = flat_map spec_instr (expand t) /\ normalise c = fold_coords [] (flat_map spec_instr (expand t)).
Proof. exact stim_in_order_documented. Qed.

Theorem C08_leaf_documented : forall l,
  match instr_of l with
  | IEmit s => spec_instr l = [s] /\ wfb s = true /\ flat [s] = [s]
  | ISkip => spec_instr l = []
  | IErr => True
  end.
Proof. exact leaf_doc. Qed.

Theorem C08_stim_table_documented : forall k g, doc_gate k = Some g <-> stim_gate k = Some (SF_Name g).
Proof. exact stim_table_documented. Qed.

(* one measurement per DispersiveMeasure of the expanded listing *)
Theorem C08_stim_measurement_count : forall t c, to_stim t = Some c ->
  nmeas c = Z.of_nat (List.length (filter (fun l => kind_eqb (l_kind l) K_DispersiveMeasure) (expand t))).
Proof. exact stim_measurement_count. Qed.

(* before / after unrolling: a rearranged expanded listing exports the same instruction multiset and measurement count *)
Theorem C08_stim_perm_multiset : forall t1 t2 c1 c2,
  Permutation (expand t1) (expand t2) -> to_stim t1 = Some c1 -> to_stim t2 = Some c2 ->
  Permutation (flat c1) (flat c2) /\ nmeas c1 = nmeas c2.
Proof. exact stim_perm_multiset. Qed.

(* equal expanded listings (library-built circuits, C06) export the identical program *)
Theorem C08_stim_same_listing_identical : forall t1 t2 c1 c2,
  expand t1 = expand t2 -> to_stim t1 = Some c1 -> to_stim t2 = Some c2 -> normalise c1 = normalise c2.
Proof. exact stim_same_listing_identical. Qed.

(* the five detector target shapes: rec[v], read after n = last_acquisition_index + 1 measurements, is acquisition n + v *)
Theorem C08_detector_targets_spec : forall q la m s r so,
  let gi := DetectorOperation_to_stim_instruction (Some q) (Some la) m s r so in
  gi_name gi = "DETECTOR" /\
  exists vs, gt_vals (gi_targets gi) = Some vs /\ map (fun v => (la + 1) + v) vs = det_positions (la + 1) m s r so
             /\ (gi_args gi = match m with Some _ => [Some q; Some 0] | None => [] end).
Proof. exact detector_targets_spec. Qed.

Theorem C08_observable_target_spec : forall q la m,
  LogicalObservableOperation_to_stim_instruction (Some q) (Some la) (Some m)
  = GI "OBSERVABLE_INCLUDE" [GT_rec (Some (m - (la + 1)))] [Some 0].
Proof. exact observable_target_spec. Qed.

Theorem C08_observable_untargeted_spec : forall q la m, (la = None \/ m = None) ->
  LogicalObservableOperation_to_stim_instruction (Some q) la m = GI "OBSERVABLE_INCLUDE" [] [Some 0].
Proof. exact observable_untargeted_spec. Qed.

Print Assumptions C08_stim_in_order.
Print Assumptions C08_stim_in_order_documented.
Print Assumptions C08_leaf_documented.
Print Assumptions C08_stim_table_documented.
Print Assumptions C08_stim_measurement_count.
Print Assumptions C08_stim_perm_multiset.
Print Assumptions C08_stim_same_listing_identical.
Print Assumptions C08_detector_targets_spec.
Print Assumptions C08_observable_target_spec.
Print Assumptions C08_observable_untargeted_spec.

(* ---- bridge to the Core model (Bridge/TreeOfOp.v, Bridge/Proofs.v): the tree the exporter walks is computed from the Core
   circuit (`tree_of_nodes`: children in `bfs (parents ns)` order, class index -> kind through the generated class NAMES,
   `args_of` = any assignment of the annotation classes' integer arguments to leaves); `unroll_small_prog` is C06's size
   bound (every command list times its block's count <= 4999 entries, counts >= 1) *)
From QCE Require Import Core.Model Core.BfsWf Core.UnrollProofs C06.Proofs Bridge.TreeOfOp Bridge.Proofs.
From Gen Require Import Classes.

(* exporting before or after unrolling repetitions gives the same multiset of instructions (REPEAT unrolled, fused targets
   split) and the same number of measurements *)
Theorem C08_unroll_export_same_multiset : forall (args_of : Core.Model.leaf -> list (option Z)) env p c1 c2,
  unroll_small_prog p ->
  to_stim (tree_of_nodes args_of (run_prog env p)) = Some c1 ->
  to_stim (tree_of_nodes args_of (apply_modifiers env 1 (run_prog env p))) = Some c2 ->
  Permutation (C08.Model.flat c1) (C08.Model.flat c2) /\ nmeas c1 = nmeas c2.
Proof. exact unroll_export_same_multiset. Qed.

(* the same for any well-formed circuit given as a graph (library-built circuits) *)
Theorem C08_unroll_export_same_multiset_graph : forall (args_of : Core.Model.leaf -> list (option Z)) env ns c1 c2,
  wf_op (OComp 1 ns) -> rsize_ok (OComp 1 ns) ->
  to_stim (tree_of_nodes args_of ns) = Some c1 ->
  to_stim (tree_of_nodes args_of (apply_modifiers env 1 ns)) = Some c2 ->
  Permutation (C08.Model.flat c1) (C08.Model.flat c2) /\ nmeas c1 = nmeas c2.
Proof. exact unroll_export_same_multiset_graph. Qed.

(* the premise of C08_stim_perm_multiset, discharged: the expanded listings before and after unrolling are rearrangements *)
Theorem C08_unroll_tree_perm : forall (args_of : Core.Model.leaf -> list (option Z)) env p, unroll_small_prog p ->
  Permutation (expand (tree_of_nodes args_of (run_prog env p)))
              (expand (tree_of_nodes args_of (apply_modifiers env 1 (run_prog env p)))).
Proof. exact unroll_tree_perm. Qed.

(* the expanded listing of the exporter's tree is, in order, the image of the Core expanded listing ... *)
Theorem C08_expand_tree_in_order : forall (args_of : Core.Model.leaf -> list (option Z)) ns,
  expand (tree_of_nodes args_of ns) = map (leaf_item args_of) (expanded_listing (OComp 1 ns)).
Proof. exact expand_tree_nodes_in_order. Qed.

(* ... hence a rearrangement of content x product of the enclosing counts (C06's `expanded`) *)
Theorem C08_expand_tree_listing : forall (args_of : Core.Model.leaf -> list (option Z)) ns, ok (OComp 1 ns) ->
  Permutation (map (leaf_item args_of) (expanded (OComp 1 ns))) (expand (tree_of_nodes args_of ns)).
Proof. exact expand_tree_listing. Qed.

(* after unrolling the export is the in-order image of the Core listing itself *)
Theorem C08_unrolled_export_in_listing_order : forall (args_of : Core.Model.leaf -> list (option Z)) env p c,
  to_stim (tree_of_nodes args_of (apply_modifiers env 1 (run_prog env p))) = Some c ->
  normalise c = fold_coords [] (flat_map (fun l => match instr_of (leaf_item args_of l) with IEmit s => [s] | _ => [] end)
                                         (map e_leaf (listing env (apply_modifiers env 1 (run_prog env p))))).
Proof. exact unrolled_export_in_listing_order. Qed.

(* the class index -> kind map is a bijection between the generated class table and the generated kinds, by class name *)
Theorem C08_class_kind_total : forall c, cls_in_table c -> exists k, kind_of_cls c = Some k.
Proof. exact kind_of_cls_total. Qed.

Theorem C08_class_kind_injective : forall c1 c2 k, cls_in_table c1 -> cls_in_table c2 ->
  kind_of_cls c1 = Some k -> kind_of_cls c2 = Some k -> c1 = c2.
Proof. exact kind_of_cls_injective. Qed.

Theorem C08_class_kind_onto : forall k, exists c, cls_in_table c /\ kind_of_cls c = Some k.
Proof. exact kind_of_cls_onto. Qed.

Theorem C08_class_kind_name : forall c k, kind_of_cls c = Some k -> kind_name k = cs_name (class_of c).
Proof. exact kind_of_cls_name. Qed.

Print Assumptions C08_unroll_export_same_multiset.
Print Assumptions C08_unroll_export_same_multiset_graph.
Print Assumptions C08_unroll_tree_perm.
Print Assumptions C08_expand_tree_in_order.
Print Assumptions C08_expand_tree_listing.
Print Assumptions C08_unrolled_export_in_listing_order.
Print Assumptions C08_class_kind_total.
Print Assumptions C08_class_kind_injective.
Print Assumptions C08_class_kind_onto.
Print Assumptions C08_class_kind_name.
