(* C05 — Copies are faithful and independent.
   Faithfulness is proved of the model: per operation class from the generated class table, structurally for every graph the
   model builds (cwf; sized_prog = every command list within the documented 4999-level listing limit, so that every node is
   listed).  Independence: in the functional model a copy is a value and shares nothing with the original, so "adding to or
   unrolling one never changes what the other reports" holds by the absence of state (see the REMARK in C05/Proofs.v); for the
   implementation it is observed by the correspondence run (k_copy_unchanged / k_orig_unchanged in C05/Run.v). *)
From Coq Require Import ZArith List Bool Permutation.
Import ListNotations.
From QCE Require Import Base.Prelude Core.Model Core.CopyOrder Core.CopyProofs Core.CopyIso C05.Proofs.
From Gen Require Import Ident Classes.

Theorem C05_leaf_copy_faithful : forall l, class_faithful (class_of (l_cls l)) = true -> copy_leaf l = l.
Proof. exact copy_leaf_faithful. Qed.
Theorem C05_link_copies_faithful :
  relation_link_copy_keeps_type = true /\ multi_link_copy_keeps_type = true /\ multi_link_copy_keeps_group = true.
Proof. exact link_copies_faithful. Qed.
Print Assumptions C05_link_copies_faithful.
Print Assumptions C05_leaf_copy_faithful.

(* every class' copy() transfers the relation link and every init field (obligation on the generated table) *)
Theorem C05_class_table_faithful : forallb class_faithful class_table = true.
Proof. exact class_table_faithful. Qed.
Print Assumptions C05_class_table_faithful.

Theorem C05_leaf_copy_identity : forall l, copy_leaf l = l.
Proof. exact copy_leaf_id. Qed.
Print Assumptions C05_leaf_copy_identity.

(* the copy of a graph is the graph renumbered in listing order (sigma = listing position); it lists in insertion order *)
Theorem C05_copy_iso : forall env r ns, cwf (OComp r ns) ->
  let sigma := sigma_of ns in
  Permutation (bfs (parents ns)) (seq 0 (length ns)) /\
  copy_nodes env ns =
    map (fun i => let n := nth i ns dummy_node in
                  Node (option_map sigma (n_parent n)) (link_map sigma (n_link n)) (copy_op env (n_op n)))
        (bfs (parents ns)) /\
  (forall i n, nth_error ns i = Some n ->
     nth_error (copy_nodes env ns) (sigma i) =
       Some (Node (option_map sigma (n_parent n)) (link_map sigma (n_link n)) (copy_op env (n_op n)))) /\
  bfs (parents (copy_nodes env ns)) = seq 0 (length ns).
Proof. exact copy_iso. Qed.
Print Assumptions C05_copy_iso.

(* the hypothesis of C05_copy_iso holds of everything a program builds *)
Theorem C05_built_graphs_wf : forall env r p, sized_prog p -> cwf (OComp r (run_prog env p)).
Proof. exact run_prog_cwf. Qed.
Print Assumptions C05_built_graphs_wf.

(* explicit copy: same leaves, same start and end, same order *)
Theorem C05_copy_same_listing : forall env p, sized_prog p ->
  listing env (copy_nodes env (run_prog env p)) = listing env (run_prog env p).
Proof. exact prog_copy_same_listing. Qed.
Print Assumptions C05_copy_same_listing.

(* ... for every well-formed graph (also unrolled ones, with multi-links), at every nesting level, in every context *)
Theorem C05_copy_same_listing_graph : forall env ns, cwf (OComp 1%Z ns) -> listing env (copy_nodes env ns) = listing env ns.
Proof. exact copy_same_listing. Qed.
Print Assumptions C05_copy_same_listing_graph.

Theorem C05_copy_same_listing_op : forall env o, cwf o ->
  forall c se, listing_op env (copy_op env o) c se = listing_op env o c se.
Proof. exact copy_same_listing_op. Qed.
Print Assumptions C05_copy_same_listing_op.

Theorem C05_copy_same_duration : forall env p, sized_prog p ->
  comp_duration env (copy_nodes env (run_prog env p)) = comp_duration env (run_prog env p).
Proof. exact prog_copy_same_duration. Qed.
Print Assumptions C05_copy_same_duration.

(* implicit copy: the circuit added as a sub-circuit of an empty circuit *)
Theorem C05_nested_same_listing : forall env p, sized_prog p ->
  listing env (run_prog env [CSub 1%Z p]) = listing env (run_prog env p).
Proof. exact prog_nested_same_listing. Qed.
Print Assumptions C05_nested_same_listing.

(* every internal relation re-pointed to the corresponding copied operation *)
Theorem C05_relations_repointed : forall env p, sized_prog p ->
  let ns := run_prog env p in
  let sigma := sigma_of ns in
  forall i n, nth_error ns i = Some n ->
    nth_error (copy_nodes env ns) (sigma i) =
      Some (Node (option_map sigma (n_parent n)) (link_map sigma (n_link n)) (copy_op env (n_op n))).
Proof. exact prog_relations_repointed. Qed.
Print Assumptions C05_relations_repointed.

(* a copy of a copy is identical to the copy *)
Theorem C05_copy_of_copy : forall env p, sized_prog p ->
  copy_nodes env (copy_nodes env (run_prog env p)) = copy_nodes env (run_prog env p).
Proof. exact prog_copy_of_copy. Qed.
Print Assumptions C05_copy_of_copy.

(* ... also after a repetition was unrolled (the graph then holds multi-links) *)
Theorem C05_copy_same_listing_repeated : forall env p k, sized_prog p ->
  all_listed (repeat_nodes env (run_prog env p) k) ->
  listing env (copy_nodes env (repeat_nodes env (run_prog env p) k)) = listing env (repeat_nodes env (run_prog env p) k).
Proof. exact prog_repeated_copy_same_listing. Qed.
Print Assumptions C05_copy_same_listing_repeated.

(* ---- the value-based identity of sub-circuits and copy()'s relation transfer lookup (C05/Keys.v; findings F12, F21) ---- *)
From QCE Require Import C05.Keys C05.KeysProofs.
From Gen Require Flags.
(* a dict keyed by pairwise distinct sub-circuit keys re-points every relation to the copy of ITS referent *)
Theorem C05_transfer_lookup_faithful : forall ks, NoDup ks -> transfer_faithful ks.
Proof. exact nodup_transfer_faithful. Qed.
Print Assumptions C05_transfer_lookup_faithful.
(* the two places of the CURRENT source that hand relation links down (the listing's hand-off, the first operations of an unrolled
   copy; Gen/Flags.v (i)) give every operation its own link instance, so the keys stay pairwise distinct whatever the repetition
   counts are and the transfer lookup stays faithful.  If either place assigns one shared object this statement no longer
   type-checks (the flags are generated from the source). *)
Theorem C05_handoff_keeps_lookup_faithful : forall old next reps,
  NoDup old -> (forall k, In k old -> (fst k < next)%nat) ->
  transfer_faithful (old ++ assign Flags.handoff_link_fresh_per_node next reps).
Proof. exact fresh_links_transfer_faithful. Qed.
Print Assumptions C05_handoff_keeps_lookup_faithful.
Theorem C05_extend_keeps_lookup_faithful : forall old next reps,
  NoDup old -> (forall k, In k old -> (fst k < next)%nat) ->
  transfer_faithful (old ++ assign Flags.extend_link_fresh_per_node next reps).
Proof. exact fresh_links_transfer_faithful. Qed.
Print Assumptions C05_extend_keeps_lookup_faithful.
(* one link object shared by the first operations (the code before ceaf0e5 / c6503c2): two sub-circuits with equal repetition
   counts collide and the first is answered with the copy of the second -- F12 and F21 *)
Theorem C05_shared_link_refuted : exists reps, let ks := assign false 0 reps in
  exists i j k, i <> j /\ nth_error ks i = Some k /\ lookup (table_of ks) k = Some j.
Proof. exact shared_link_collides. Qed.
Print Assumptions C05_shared_link_refuted.
(* ... which is why both defects needed EQUAL repetition counts *)
Theorem C05_shared_link_distinct_counts : forall reps next, NoDup reps -> transfer_faithful (assign false next reps).
Proof. exact shared_link_distinct_reps_ok. Qed.
Print Assumptions C05_shared_link_distinct_counts.

(* the generic add(): a declarative circuit and a raw circuit structure both end in add_sub_circuit (the copying path), a plain
   operation in add_operation -- from the dispatch table and class hierarchy read from the source (Gen/Flags.v (j)) *)
From Coq Require Import String.
From QCE Require C05.Dispatch.
Theorem C05_generic_add_routes_nested_arguments_to_the_copying_path :
  Dispatch.final_method Dispatch.ADeclarative = Some "add_sub_circuit"%string
  /\ Dispatch.final_method Dispatch.AStructure = Some "add_sub_circuit"%string
  /\ Dispatch.final_method Dispatch.ALeaf = Some "add_operation"%string.
Proof. exact Dispatch.add_routes. Qed.
Theorem C05_generic_add_copies_every_nested_argument : forall k, k <> Dispatch.ALeaf -> Dispatch.copied_on_add k = true.
Proof. exact Dispatch.nested_arguments_are_copied. Qed.
Print Assumptions C05_generic_add_routes_nested_arguments_to_the_copying_path.
Print Assumptions C05_generic_add_copies_every_nested_argument.
