(* C05 — Copies are faithful and independent. *)
From Coq Require Import ZArith List Bool.
From QCE Require Import Base.Prelude Core.Model C05.Proofs.
From Gen Require Import Ident Classes.

Theorem C05_leaf_copy_faithful : forall l, class_faithful (class_of (l_cls l)) = true -> copy_leaf l = l.
Proof. exact copy_leaf_faithful. Qed.
Print Assumptions C05_leaf_copy_faithful.
