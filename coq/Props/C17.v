(* C17 — Declared and derived gate-sequence layouts are executable.
   Property theorems only; each closed by `exact <lemma>`; assumptions printed beneath.
   Tables: Gen/Layouts.v (regenerated from the source on every run); model: C17/Model.v (+ C16/Model.v requires_parking);
   `layer_ok` = gates are device edges on pairwise distinct qubits, no qubit parked and gated, every qubit that requires
   parking for the layer's gates is parked; `layout_ok` = every layer ok and every ancilla-data edge of every parity group
   exercised exactly once over the sequence. *)
From Coq Require Import ZArith List Bool String.
From QCE Require Import Base.Prelude C16.Spec C16.Model C16.Proofs C17.Model C17.Proofs.
From Gen Require Import Layouts.
Import ListNotations.
Open Scope string_scope.

(* the shipped tables (the bound is the shipped tables): the Surface-17 device tables are consistent, the three repetition
   layouts are executable *)
Theorem C17_layouts_wf :
  spec_device qubit_ids S17_edges (S17_parity_x ++ S17_parity_z)%list
              (map (fun kv => (fst kv, FrequencyGroupIdentifier__id (snd kv))) S17_frequency) = true
  /\ forallb layout_ok [Repetition9Code; Repetition9Round6Code; Repetition5Round4Code] = true.
Proof. exact layouts_wf. Qed.

(* ... and every shipped layer is a gate set the acceptance check (C16) accepts, with the parks the frequency rule requires *)
Theorem C17_layouts_rule :
  forallb (fun L => forallb layer_rule_ok (layout_layers L)) [Repetition9Code; Repetition9Round6Code; Repetition5Round4Code] = true.
Proof. exact layouts_rule. Qed.

(* derived descriptions, for ANY layout, ANY involved list: layer by layer exactly the gates whose both qubits are involved *)
Theorem C17_derived_gates : forall involved L l,
  d_layers (from_connectivity involved L) = map (derive_layer involved) (layout_layers L)
  /\ layer_gates (derive_layer involved l) = filter (both_involved involved) (layer_gates l)
  /\ forall e, In e (layer_gates (derive_layer involved l))
               <-> In e (layer_gates l) /\ In (fst e) involved /\ In (snd e) involved.
Proof. exact derived_gates_full. Qed.

(* parks are exactly the device qubits that require parking for the kept gates; those a description reports through
   get_park_sequence_indices are exactly the required ones among its own qubits *)
Theorem C17_derived_parks : forall involved L l q,
  (In q (layer_parks (derive_layer involved l))
     <-> In q qubit_ids /\ requires_parking q (layer_gates (derive_layer involved l)) = true)
  /\ (In q (filter (fun p => qmem p (d_qubits (from_connectivity involved L))) (layer_parks (derive_layer involved l)))
     <-> In q (d_qubits (from_connectivity involved L)) /\ In q qubit_ids
         /\ requires_parking q (layer_gates (derive_layer involved l)) = true).
Proof. exact derived_parks_full. Qed.

(* no qubit both parked and gated; distinctness preserved *)
Theorem C17_derived_no_park_and_gate : forall involved l q,
  In q (layer_parks (derive_layer involved l)) -> ~ In q (gate_qubits (layer_gates (derive_layer involved l))).
Proof. exact derived_no_park_and_gate. Qed.
Theorem C17_derived_distinct : forall involved l,
  qnodupb (gate_qubits (layer_gates l)) = true -> qnodupb (gate_qubits (layer_gates (derive_layer involved l))) = true.
Proof. exact derived_distinct. Qed.

(* hence: a description derived from an executable layout is executable, for every involved list; in particular from
   every shipped layout *)
Theorem C17_derived_executable : forall L involved,
  forallb layer_ok (layout_layers L) = true -> forallb layer_ok (d_layers (from_connectivity involved L)) = true.
Proof. exact derived_executable. Qed.
Theorem C17_shipped_derived_executable : forall L involved,
  In L [Repetition9Code; Repetition9Round6Code; Repetition5Round4Code] ->
  forallb layer_ok (d_layers (from_connectivity involved L)) = true.
Proof. exact shipped_derived_executable. Qed.

(* identifiers -> circuit indices: injective on the description's qubits for every involved list; a bijection between the
   involved list and 0..n-1 when the list is duplicate-free *)
Theorem C17_derived_index_injective : forall involved L,
  let d := from_connectivity involved L in
  (forall q, In q (d_qubits d) -> exists i, dict_get q (d_index d) = Some i /\ index_of_qubit (d_index d) q = i)
  /\ (forall q q', In q (d_qubits d) -> In q' (d_qubits d) ->
        index_of_qubit (d_index d) q = index_of_qubit (d_index d) q' -> q = q').
Proof. exact derived_channel_injective. Qed.
Theorem C17_derived_index_bijective : forall involved,
  NoDup involved ->
  let m := enumerate_from 0 involved in
  (forall q, In q involved -> exists i, dict_get q m = Some i)
  /\ (forall q i, dict_get q m = Some i -> (0 <= i < Z.of_nat (List.length involved))%Z /\ nth_error involved (Z.to_nat i) = Some q)
  /\ (forall q q' i, dict_get q m = Some i -> dict_get q' m = Some i -> q = q')
  /\ (forall i, (0 <= i < Z.of_nat (List.length involved))%Z -> exists q, In q involved /\ dict_get q m = Some i).
Proof. exact index_bijective. Qed.

(* the same through composite descriptions with exclusions: exactly the non-excluded gates are kept; parks are the required
   ones (only-required mode) or the inherited ones plus the required ones; every layer stays executable in both modes *)
Theorem C17_composite_gates : forall xe xq only l,
  layer_gates (composite_layer xe xq only l) = filter (fun e => negb (excluded xe xq e)) (layer_gates l)
  /\ forall e, In e (layer_gates (composite_layer xe xq only l)) <-> In e (layer_gates l) /\ excluded xe xq e = false.
Proof. exact composite_gates. Qed.
Theorem C17_composite_parks : forall xe xq l q,
  (In q (layer_parks (composite_layer xe xq true l))
     <-> In q qubit_ids /\ requires_parking q (layer_gates (composite_layer xe xq true l)) = true)
  /\ (In q (layer_parks (composite_layer xe xq false l))
     <-> In q (layer_parks l) \/ (In q qubit_ids /\ requires_parking q (layer_gates (composite_layer xe xq false l)) = true)).
Proof. exact composite_parks. Qed.
Theorem C17_composite_executable : forall c : composite,
  forallb layer_ok (match c_lead_gate c with Some d => d_layers d | None => d_layers (c_base c) end) = true ->
  forallb layer_ok (c_layers c) = true.
Proof. exact composite_executable. Qed.

(* history, finding F11: with the parks of the underlying layer kept unchanged (the code before the fix) an exclusion could
   leave a qubit that requires parking unparked *)
Theorem C17_composite_before_F11_refuted :
  exists xe L involved i,
    In L shipped_layouts /\
    let l := composite_layer_before_F11 xe [] false (nth i (d_layers (from_connectivity involved L)) (MkGateLayer [] [])) in
    layer_ok l = false /\ requires_parking "X3" (layer_gates l) = true /\ qmem "X3" (layer_parks l) = false.
Proof. exact composite_before_F11_refuted. Qed.

Print Assumptions C17_layouts_wf.
Print Assumptions C17_layouts_rule.
Print Assumptions C17_derived_gates.
Print Assumptions C17_derived_parks.
Print Assumptions C17_derived_no_park_and_gate.
Print Assumptions C17_derived_distinct.
Print Assumptions C17_derived_executable.
Print Assumptions C17_shipped_derived_executable.
Print Assumptions C17_derived_index_injective.
Print Assumptions C17_derived_index_bijective.
Print Assumptions C17_composite_gates.
Print Assumptions C17_composite_parks.
Print Assumptions C17_composite_executable.
Print Assumptions C17_composite_before_F11_refuted.
