(* C06 — Applying repetition modifiers unrolls n back-to-back copies, once. *)
From Coq Require Import ZArith List Bool.
From QCE Require Import Base.Prelude Core.Model C06.Proofs.
Open Scope Z_scope.
Theorem C06_count_one_is_identity : forall env ns, repeat_nodes env ns 1 = ns.
Proof. exact repeat_nodes_one. Qed.
Print Assumptions C06_count_one_is_identity.
