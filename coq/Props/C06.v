(* C06 — Applying repetition modifiers unrolls n back-to-back copies, once.
   Size hypotheses: the layered listing visits at most MAX_GRAPH_DEPTH - 1 = 4999 layers (C02: listing_truncation), so every
   statement about "all operations" carries a bound that keeps each graph within 4999 nodes:
   `unroll_small_prog p` = every command list times the count of its block has at most 4999 entries and every count is >= 1
   (C06.Proofs); `ok o` = well-formed and every graph of o has at most 4999 nodes, `reps_pos o` = every count >= 1
   (Core.UnrollProofs).  `prog_expanded p` = every leaf of p, product-of-enclosing-counts times (C06.Proofs). *)
From Coq Require Import ZArith List Bool Permutation.
Import ListNotations.
From QCE Require Import Base.Prelude Core.Model Core.BfsWf Core.TimesProofs C02.Proofs Core.UnrollProofs Core.UnrollTimes
  Core.UnrollOrder Core.UnrollDuration Core.UnrollCopy C06.Run C06.Proofs.
Open Scope Z_scope.

Theorem C06_count_one_is_identity : forall env ns, repeat_nodes env ns 1 = ns.
Proof. exact repeat_nodes_one. Qed.
Print Assumptions C06_count_one_is_identity.

(* the unrolled circuit lists every leaf of the program product-of-enclosing-counts times, and nothing else *)
Theorem C06_unroll_multiset : forall env p, unroll_small_prog p ->
  Permutation (map e_leaf (listing env (apply_modifiers env 1 (run_prog env p)))) (prog_expanded p).
Proof. exact unroll_listing_multiset. Qed.
Print Assumptions C06_unroll_multiset.

(* the same on labels, whatever the per-class copy() does to the other fields *)
Theorem C06_unroll_multiset_labels : forall env p, unroll_small_prog p ->
  Permutation (map l_lab (map e_leaf (listing env (apply_modifiers env 1 (run_prog env p))))) (map l_lab (prog_expanded p)).
Proof. exact unroll_listing_labels. Qed.
Print Assumptions C06_unroll_multiset_labels.

(* in the terms of the check (C06.Run.spec_ok compares the implementation's unrolled listing with expected_keys) *)
Theorem C06_unroll_multiset_keys : forall env p, unroll_small_prog p ->
  Permutation (map (key_of_leaf env) (map e_leaf (listing env (apply_modifiers env 1 (run_prog env p))))) (expected_keys env p).
Proof. exact unroll_listing_keys. Qed.
Print Assumptions C06_unroll_multiset_keys.

(* graph level, any circuit: nested counts multiply; f is any observation of leaves that copy() keeps *)
Theorem C06_unroll_multiset_graph : forall env (B : Type) (f : leaf -> B), (forall l, f (copy_leaf l) = f l) ->
  forall reps ns, ok (OComp reps ns) -> reps_pos (OComp reps ns) ->
  Permutation (map f (leaves_of (OComp 1 (apply_modifiers env reps ns)))) (map f (expanded (OComp reps ns))).
Proof. exact unroll_fmultiset. Qed.
Print Assumptions C06_unroll_multiset_graph.

(* repeat: n copies of the content *)
Theorem C06_repeat_multiset : forall env (B : Type) (f : leaf -> B), (forall l, f (copy_leaf l) = f l) ->
  forall r ns n, ok (OComp r ns) -> 1 <= n ->
  Permutation (map f (leaves_of (OComp r (repeat_nodes env ns n)))) (rep_app (Z.to_nat n) (map f (leaves_of (OComp r ns)))).
Proof. exact repeat_fleaves. Qed.
Print Assumptions C06_repeat_multiset.

(* extend moves the listed operations of `other` unchanged, each once, behind those of ns *)
Theorem C06_extend_ops : forall env ns other,
  map n_op (extend env ns other) = map n_op ns ++ listed n_op other (bfs (parents other)).
Proof. exact extend_ops. Qed.
Print Assumptions C06_extend_ops.

(* every count is 1 afterwards (deep), for every circuit *)
Theorem C06_counts_one : forall env reps ns, counts_one (OComp 1 (apply_modifiers env reps ns)).
Proof. exact unroll_counts_one. Qed.
Print Assumptions C06_counts_one.

(* applying again changes nothing; with all counts 1 apply_modifiers is the identity *)
Theorem C06_idempotent : forall env reps ns, apply_modifiers env 1 (apply_modifiers env reps ns) = apply_modifiers env reps ns.
Proof. exact unroll_idem. Qed.
Print Assumptions C06_idempotent.

Theorem C06_identity_on_unrolled : forall env ns, counts_one (OComp 1 ns) -> apply_modifiers env 1 ns = ns.
Proof. exact unroll_id. Qed.
Print Assumptions C06_identity_on_unrolled.

(* each copy begins when the latest-ending relation leaf of what precedes it has ended: the k-th listed node of `other`, if
   it has no relation, is stored at index length ns + k with the multi-link to the relation leaves of ns (taken BEFORE the
   extension), starts at the end of one of them, not before the end of any of them; times are those of the final table *)
Theorem C06_copy_start : forall env ns other, wf_op (OComp 1 ns) -> Forall (fun n => wf_op (n_op n)) other ->
  graph_leaves (parents ns) <> [] ->
  forall c k i n, nth_error (bfs (parents other)) k = Some i -> nth_error other i = Some n -> has_relation (n_link n) = false ->
  exists nd, nth_error (extend env ns other) (length ns + k) = Some nd /\ n_op nd = n_op n /\
    n_link nd = LMulti (graph_leaves (parents ns)) /\
    (exists p, In p (graph_leaves (parents ns)) /\
               fst (nth (length ns + k) (node_times env c (extend env ns other)) (0, 0))
               = snd (nth p (node_times env c (extend env ns other)) (0, 0))) /\
    (forall q, In q (graph_leaves (parents ns)) ->
               snd (nth q (node_times env c (extend env ns other)) (0, 0))
               <= fst (nth (length ns + k) (node_times env c (extend env ns other)) (0, 0))) /\
    (forall q, In q (graph_leaves (parents ns)) ->
               nth q (node_times env c (extend env ns other)) (0, 0) = nth q (node_times env c ns) (0, 0)).
Proof. exact extend_first_ops_start. Qed.
Print Assumptions C06_copy_start.

(* a non-empty circuit within the size limit has a relation leaf *)
Theorem C06_relation_leaf_exists : forall ps, BfsProofs.wf_parents ps -> ps <> [] -> (length ps <= max_layers)%nat ->
  graph_leaves ps <> [].
Proof. exact graph_leaves_nonempty. Qed.
Print Assumptions C06_relation_leaf_exists.

(* the whole block reappears shifted to that instant (blocks with plain links, as every program builds them) *)
Theorem C06_copy_shifted : forall env ns other, wf_op (OComp 1 ns) -> wf_nodes other ->
  Forall (fun n => wf_op (n_op n)) other -> simple_links other -> ns <> [] -> (length ns + length other <= max_layers)%nat ->
  forall k i, nth_error (bfs (parents other)) k = Some i ->
  nth (length ns + k) (node_times env None (extend env ns other)) (0, 0)
  = shift (attach_time env ns) (nth i (node_times env None other) (0, 0)).
Proof. exact extend_times_shift. Qed.
Print Assumptions C06_copy_shifted.

(* listing order: the circuit first, then the block *)
Theorem C06_extend_is_concatenation : forall env ns other, wf_op (OComp 1 ns) -> wf_nodes other ->
  Forall (fun n => wf_op (n_op n)) other -> simple_links other -> ns <> [] -> (length ns + length other <= max_layers)%nat ->
  map e_leaf (listing env (extend env ns other)) = map e_leaf (listing env ns) ++ map e_leaf (listing env other).
Proof. exact extend_listing_concat. Qed.
Print Assumptions C06_extend_is_concatenation.

(* the listing of the repeated block is its listing followed by n-1 times the listing of its copy *)
Theorem C06_unrolled_is_concatenation : forall env ns n, wf_op (OComp 1 ns) -> simple_links ns -> ns <> [] -> 1 <= n ->
  (Z.to_nat n * length ns <= max_layers)%nat ->
  map e_leaf (listing env (repeat_nodes env ns n))
  = map e_leaf (listing env ns) ++ rep_app (Z.to_nat (n - 1)) (map e_leaf (listing env (copy_nodes env (copy_nodes env ns)))).
Proof. exact repeat_listing_concat. Qed.
Print Assumptions C06_unrolled_is_concatenation.

(* one level of apply_modifiers, nested blocks included *)
Theorem C06_unroll_is_concatenation : forall env fuel r ns, wf_op (OComp 1 ns) -> simple_links ns -> ns <> [] -> 1 <= r ->
  (Z.to_nat r * length ns <= max_layers)%nat ->
  op_leaves (OComp 1 (apply_mods_fuel (S fuel) env r ns))
  = unrolled_content env fuel ns ++ rep_app (Z.to_nat (r - 1)) (unrolled_content env fuel (copy_nodes env (copy_nodes env ns))).
Proof. exact unroll_concat. Qed.
Print Assumptions C06_unroll_is_concatenation.

(* a program that is one block with count r *)
Theorem C06_block_program_is_concatenation : forall env r body,
  let sub := copy_nodes env (run_prog env body) in
  let d := op_depth (OComp r sub) in
  sub <> [] -> 1 <= r -> (Z.to_nat r * length sub <= max_layers)%nat ->
  map e_leaf (listing env (apply_modifiers env 1 (run_prog env [CSub r body])))
  = unrolled_content env (pred d) sub
    ++ rep_app (Z.to_nat (r - 1)) (unrolled_content env (pred d) (copy_nodes env (copy_nodes env sub))).
Proof. exact prog_block_concat. Qed.
Print Assumptions C06_block_program_is_concatenation.

(* n*T: a flat block (blk: nothing starts before 0, every end <= T, an operation ending at T is a relation leaf) with plain
   links and roots on distinct channels -- every flat block a program builds (run_prog_simple, run_prog_roots_apart) --
   repeated n times lasts n*T.  Uses that every class' copy() of the current source keeps all fields and the link. *)
Theorem C06_nT : forall env ns n T, blk env ns T -> simple_links ns -> roots_apart ns -> 1 <= n ->
  (Z.to_nat n * length ns <= max_layers)%nat -> comp_duration env (repeat_nodes env ns n) = n * T.
Proof. exact repeat_nT_current. Qed.
Print Assumptions C06_nT.

(* the same with the facts about copy() as hypotheses (independent of the class table) *)
Theorem C06_nT_table : forall env ns n T, (forall l, copy_leaf l = l) -> (forall l, l_keeps l = true) ->
  blk env ns T -> simple_links ns -> roots_apart ns -> 1 <= n ->
  (Z.to_nat n * length ns <= max_layers)%nat -> comp_duration env (repeat_nodes env ns n) = n * T.
Proof. exact repeat_nT_flat. Qed.
Print Assumptions C06_nT_table.

(* ... and with only a hypothesis on the copy (no assumption on classes, roots or the order of the copy) *)
Theorem C06_nT_given_copy : forall env ns n T, blk env ns T -> simple_links ns -> blk env (copy_nodes env (copy_nodes env ns)) T ->
  1 <= n -> (Z.to_nat n * length ns <= max_layers)%nat -> comp_duration env (repeat_nodes env ns n) = n * T.
Proof. exact repeat_nT. Qed.
Print Assumptions C06_nT_given_copy.

(* for flat blocks the unrolled listing is exactly the n-fold concatenation of the block's listing *)
Theorem C06_flat_block_is_nfold_concatenation : forall env ns n, wf_nodes ns -> flat ns -> simple_links ns -> roots_apart ns ->
  ns <> [] -> 1 <= n -> (Z.to_nat n * length ns <= max_layers)%nat ->
  map e_leaf (listing env (repeat_nodes env ns n)) = rep_app (Z.to_nat n) (map e_leaf (listing env ns)).
Proof. exact repeat_flat_listing_current. Qed.
Print Assumptions C06_flat_block_is_nfold_concatenation.

(* program level: one flat block with count n *)
Theorem C06_flat_block_program : forall env body n T, flat_body body = true -> blk env (run_prog env body) T ->
  1 <= n -> (Z.to_nat n * length body <= max_layers)%nat ->
  comp_duration env (apply_modifiers env 1 (run_prog env [CSub n body])) = n * T
  /\ map e_leaf (listing env (apply_modifiers env 1 (run_prog env [CSub n body])))
     = rep_app (Z.to_nat n) (map e_leaf (listing env (run_prog env body))).
Proof. exact prog_flat_block. Qed.
Print Assumptions C06_flat_block_program.

(* what programs build: plain links, roots on distinct channels *)
Theorem C06_program_blocks : forall env p, simple_links (run_prog env p) /\ roots_apart (run_prog env p).
Proof. exact run_prog_block_facts. Qed.
Print Assumptions C06_program_blocks.

Theorem C06_block_duration : forall env X T, blk env X T -> (length X <= max_layers)%nat -> comp_duration env X = T.
Proof. exact blk_duration. Qed.
Print Assumptions C06_block_duration.
