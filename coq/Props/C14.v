(* C14 — Noise dressing only adds noise, with the configured strengths.
   Property theorems only; each closed by `exact <lemma>`; assumptions printed beneath.
   Model: C14/Model.v (`dress` = StimNoiseDresserFactoryManager.construct on a flattened circuit, `apply_noise` = on a circuit
   with REPEAT blocks); tables, field wiring and `get_pauli_error` are regenerated from the source (Gen/Noise.v). *)
From Coq Require Import ZArith List Bool String Reals.
Import ListNotations.
From QCE Require Import Base.Prelude C14.Model C14.Run C14.Proofs C14.PauliBounds.
From Gen Require Import Noise.
Open Scope string_scope.
Open Scope Z_scope.
Open Scope list_scope.

(* only noise is inserted: stripping the dressed circuit gives back the flattened input (replaced measurements one per target) *)
Theorem C14_strip_dress : forall s m c, noiseless c -> strip (dress s m c) = normalise c.
Proof. exact strip_dress. Qed.
Theorem C14_strip_apply_noise : forall s m c, noiseless (flatten c) -> strip (apply_noise s m c) = normalise (flatten c).
Proof. exact strip_apply_noise. Qed.
(* ... and exactly the input when its measurements have one target each *)
Theorem C14_strip_dress_split : forall s m c, noiseless c -> (forall i, In i c -> single_target i) -> strip (dress s m c) = c.
Proof. exact strip_dress_split. Qed.

(* the lookup as coded (index -> identifier -> individual entry, defaults otherwise) is "configured for its qubit" *)
Theorem C14_params_spec : forall s m q, get_noise_settings s m q = spec_params s m q.
Proof. exact get_noise_settings_spec. Qed.

(* each measurement carries the assignment error configured for its qubit *)
Theorem C14_meas_error_spec : forall s m c i, In i (dress s m c) -> iname i = "M" ->
  exists q, itargets i = [TQ q] /\ iargs i = AErr (qp_assignment_error (spec_params s m q)).
Proof. exact meas_error_spec. Qed.
(* ... and the measurements of the dressed circuit are, in order, one per target of every input measurement *)
Theorem C14_meas_error_list : forall k op s m c, assoc String.eqb k factory_lookup = Some op ->
  filter (named k) (dress s m c) =
  flat_map (fun i => if named k i then map (fun q => MkI k [TQ q] (AErr (qp_assignment_error (spec_params s m q)))) (qubit_targets i)
                     else []) c.
Proof. exact meas_error_list. Qed.

(* around every TICK-delimited block, on every qubit of the circuit, one channel before (descending) and one after
   (ascending), with formula arguments (block maximum [halved by chan_probs], T1 q, T2 q) *)
Theorem C14_idle_spec : forall s m c,
  let c' := dress_measurements s m c in
  let qs := all_targets c in
  dress s m c =
  List.concat (map (fun b => rev (map (idle_chan s m (block_duration s b)) qs) ++ b ++ map (idle_chan s m (block_duration s b)) qs)
                   (split_blocks "TICK" c')).
Proof. exact idle_spec. Qed.
Theorem C14_blocks_partition : forall split l, List.concat (split_blocks split l) = l.
Proof. exact split_blocks_concat. Qed.
Theorem C14_blocks_shape : forall split l,
  exists bs last, split_blocks split l = bs ++ [last] /\ Forall (block_closed split) bs /\ block_open split last.
Proof. exact split_blocks_shape. Qed.
Theorem C14_all_targets : forall c q, In q (all_targets c) <-> exists i, In i c /\ In q (qubit_targets i).
Proof. exact all_targets_In. Qed.
Theorem C14_all_targets_sorted : forall c, strictly_sorted (all_targets c).
Proof. exact all_targets_sorted. Qed.
(* the block maximum is the longest configured duration among the names the block's instructions are reported under *)
Theorem C14_block_duration_ge : forall s b i, In i b -> get_operation_duration s (iname i) <= block_duration s b.
Proof. exact block_duration_ge. Qed.
Theorem C14_block_duration_attained : forall s b, b <> [] ->
  exists i, In i b /\ block_duration s b = get_operation_duration s (iname i).
Proof. exact block_duration_attained. Qed.

(* "measurements included": the duration table carries the measurement duration under the name Stim reports ("M"), so the
   block maximum is at least the measurement duration for every block containing a measurement.  (Before the fix of F6 the
   table was keyed "MZ" and this statement was refuted; see known_findings.json.) *)
Theorem C14_block_max_includes_meas :
  forall s b i, In i b -> iname i = "M" -> duration_mz (s_durations s) <= block_duration s b.
Proof. exact (block_max_includes_meas_keyed (fun d => eq_refl)). Qed.
Theorem C14_block_max_includes_keyed : forall s b i d,
  In i b -> assoc String.eqb (iname i) (duration_mapper (s_durations s)) = Some d -> d <= block_duration s b.
Proof. exact block_max_includes_keyed. Qed.

(* the T1/T2 formula over the reals *)
Theorem C14_pauli_closed_form : forall t t1 t2 : R,
  get_pauli_error t t1 t2 =
  if Req_EM_T t 0 then (0, 0, 0)%R else (clamp01 (px_raw t t1), clamp01 (px_raw t t1), clamp01 (pz_raw t t1 t2)).
Proof. exact pauli_closed_form. Qed.
Theorem C14_pauli_bounds : forall t t1 t2 : R, (0 <= t)%R -> (0 < t1)%R -> (0 < t2)%R -> probs_ok (get_pauli_error t t1 t2).
Proof. exact pauli_bounds. Qed.
Theorem C14_pauli_unclamped : forall t t1 t2 : R, (0 < t)%R -> (0 < t1)%R -> (0 < t2)%R -> (t2 <= 2 * t1)%R ->
  get_pauli_error t t1 t2 = (px_raw t t1, px_raw t t1, pz_raw t t1 t2).
Proof. exact pauli_unclamped. Qed.
(* every channel the model inserts denotes probabilities in [0,1] with X+Y+Z <= 1 *)
Theorem C14_dressed_channels_bounded : forall s m c i,
  settings_ok s -> noiseless c -> In i (dress s m c) -> is_noise i = true ->
  exists d t1 t2 p, iargs i = APauli d t1 t2 /\ chan_probs (iargs i) = Some p
                    /\ p = get_pauli_error (IZR d / 2) (IZR t1) (IZR t2) /\ probs_ok p.
Proof. exact dressed_channels_bounded. Qed.

Print Assumptions C14_strip_dress.
Print Assumptions C14_strip_apply_noise.
Print Assumptions C14_strip_dress_split.
Print Assumptions C14_params_spec.
Print Assumptions C14_meas_error_spec.
Print Assumptions C14_meas_error_list.
Print Assumptions C14_idle_spec.
Print Assumptions C14_blocks_partition.
Print Assumptions C14_blocks_shape.
Print Assumptions C14_all_targets.
Print Assumptions C14_all_targets_sorted.
Print Assumptions C14_block_duration_ge.
Print Assumptions C14_block_duration_attained.
Print Assumptions C14_pauli_closed_form.
Print Assumptions C14_pauli_bounds.
Print Assumptions C14_pauli_unclamped.
Print Assumptions C14_dressed_channels_bounded.
Print Assumptions C14_block_max_includes_meas.
Print Assumptions C14_block_max_includes_keyed.
