(* LIBBUILD, multi-round constructor -- the TOTAL forms of the theorems of Props/LIBBUILD_multi.v: Core's flatten is proved to be
   DEFINED on every block (coq/LibBuild/MultiRoundDefined.v), so the model of construct_repetition_code_multi_round_circuit
   always answers and no antecedent `multi_round_nodes ... = Some ns` / side condition `block_heralded_first` remains.
   Theorems only, each closed by `exact <lemma>`.  Vocabulary: see Props/LIBBUILD_multi.v (circuit_tags, circuit_labelled,
   multi_small = size hypotheses of the depth limit, gates_ok = the gates / parks of the description act on its qubits,
   block_small, z_of_tag, z_labelled, is_zl, has_tag, positions).

   Why flatten is defined: it answers None only when a multi-link held after the hand-off names both a listed leaf and
   something that is no listed leaf (the F10 class, Core/FlattenScope.v).  Multi-links are made by `extend` alone (unrolling
   a block whose count exceeds 1) and name the relation leaves of the block so far = its listed nodes without children;
   in get_circuit_qec_with_detectors every repeated block is  QEC round (a sub-circuit); detectors; coordinate shift
   (; Barrier)  and the operation added right behind the QEC round shares a channel with it (the round's Barrier occupies
   the ALL channel of every qubit), hence is its child: the only sub-circuit node of a repeated block is never a relation
   leaf, in the block and in every copy appended by extend (LibMulti_program_flatten_defined states this for ANY build
   program whose repeated blocks satisfy the child condition `cok`). *)
From Coq Require Import ZArith List Bool.
Import ListNotations.
From QCE Require Import Base.Prelude Core.Model Core.Run Core.BfsWf Core.CopyIso C02.Proofs C06.Proofs C09.Model C12.Model C13.Model C13.Proofs
  LibBuild.Model LibBuild.Tags LibBuild.Counts LibBuild.Chain LibBuild.Layouts LibBuild.MultiRound LibBuild.MultiRoundProofs
  LibBuild.MultiRoundOrder LibBuild.MultiRoundDefined.
From Gen Require Import Kernels Layouts.
Open Scope Z_scope.

(* ---- definedness *)
(* any build program: if every block with a count above 1, once added, has for each of its sub-circuit nodes a listed child
   holding a relation to it (cok), Core's flatten is defined on the unrolled circuit *)
Theorem LibMulti_program_flatten_defined : forall env p, sized_prog p -> Forall (cok env) p ->
  flatten env (apply_modifiers env 1 (run_prog env p)) <> None.
Proof. exact prog_flatten_defined. Qed.
Print Assumptions LibMulti_program_flatten_defined.

(* construct_repetition_code_circuit(r).apply_modifiers().flatten(): every description with a qubit, every round count *)
Theorem LibMulti_block_defined : forall env D init anc r, incl (r_anc D) (r_qubits D) -> r_qubits D <> [] ->
  unroll_small_prog (rep_code_prog D init anc r) -> block_flat env D init anc r <> None.
Proof. exact block_defined. Qed.
Print Assumptions LibMulti_block_defined.

(* the model of the multi-round constructor always answers *)
Theorem LibMulti_defined : forall env D init anc rounds, incl (r_anc D) (r_qubits D) -> r_qubits D <> [] ->
  multi_small D init anc rounds -> exists ns, multi_round_nodes env D init anc rounds = Some ns.
Proof. exact multi_defined. Qed.
Print Assumptions LibMulti_defined.

(* the decidable side condition of LibMulti_anc_tags_partial holds of every block *)
Theorem LibMulti_block_heralded_first_total : forall D init anc r a,
  desc_ok D -> gates_ok D -> block_small D init anc r -> In a (r_anc D) -> block_heralded_first D init anc r a = true.
Proof. exact block_heralded_first_total. Qed.
Print Assumptions LibMulti_block_heralded_first_total.

(* ---- 1. the tags of every ancilla in the Core listing of the constructed circuit are C13's closed form: every description,
        every list of round counts (the empty one included), no antecedent *)
Theorem LibMulti_anc_tags_total : forall env D init anc rounds a,
  desc_ok D -> gates_ok D -> multi_small D init anc rounds -> In a (r_anc D) ->
  circuit_tags env D init anc rounds a = Some (map z_of_tag (multi_round_tags rounds)).
Proof. exact multi_anc_tags_total. Qed.
Print Assumptions LibMulti_anc_tags_total.

(* ... with the block each measurement belongs to, read off the nesting of the circuit *)
Theorem LibMulti_anc_labelled_total : forall env D init anc rounds a,
  desc_ok D -> gates_ok D -> multi_small D init anc rounds -> In a (r_anc D) ->
  circuit_labelled env D init anc rounds a = Some (z_labelled (multi_round_labelled rounds)).
Proof. exact multi_labelled_total. Qed.
Print Assumptions LibMulti_anc_labelled_total.

(* ---- 2. composed with C13_kernels_agree_with_circuit (its conclusion verbatim, about the MODEL circuit of the constructor):
        per block and per calibration state the measurements sit exactly at the indices the generated kernel definitions
        return; number of acquisitions = kernel cycle length; the 0-round block is the stated exception *)
Theorem LibMulti_kernel_agrees_total : forall env D init anc rounds a data_ids anc_ids q,
  desc_ok D -> gates_ok D -> multi_small D init anc rounds -> In a (r_anc D) ->
  rounds <> [] -> NoDup rounds -> is_member q anc_ids = true ->
  exists lab e, circuit_labelled env D init anc rounds a = Some lab
  /\ circuit_kernel rounds data_ids anc_ids = Value e
  /\ Z.of_nat (length lab) = RepetitionExperimentKernel_kernel_cycle_length e
  /\ (forall n, In n rounds ->
        positions (is_zl T_HERALDED (Block n)) lab
          = concat (RepetitionExperimentKernel_get_heralded_cycle_acquisition_indices e q n)
        /\ positions (is_zl T_PARITY (Block n)) lab
          = concat (RepetitionExperimentKernel_get_stabilizer_and_projected_cycle_acquisition_indices e q n)
        /\ (1 <= n -> positions (is_zl T_FINAL (Block n)) lab = []
                      /\ concat (RepetitionExperimentKernel_get_projected_cycle_acquisition_indices e q n)
                         = [last (positions (is_zl T_PARITY (Block n)) lab) 0]))
  /\ (In 0 rounds -> exists k, In k (RepetitionExperimentKernel__repetition_kernels e)
        /\ RepetitionIndexKernel_nr_repeated_parities k = 0
        /\ positions (is_zl T_FINAL (Block 0)) lab = [RepetitionIndexKernel_stop_index k]
        /\ RepetitionExperimentKernel_get_projected_cycle_acquisition_indices e q 0 = [[]]
        /\ RepetitionExperimentKernel_get_stabilizer_and_projected_cycle_acquisition_indices e q 0 = [[]]
        /\ ~ In (RepetitionIndexKernel_stop_index k) (cycle_indices e q))
  /\ (forall st, positions (is_zl T_HERALDED (Cal st)) lab
                   = RepetitionExperimentKernel_get_heralded_calibration_acquisition_indices e q st
              /\ positions (is_zl T_FINAL (Cal st)) lab
                   = RepetitionExperimentKernel_get_projected_calibration_acquisition_indices e q st
              /\ positions (is_zl T_PARITY (Cal st)) lab = []).
Proof. exact multi_kernel_agrees_total. Qed.
Print Assumptions LibMulti_kernel_agrees_total.

(* the same on the bare tag sequence (C13_tag_positions) *)
Theorem LibMulti_tag_positions_total : forall env D init anc rounds a data_ids anc_ids q,
  desc_ok D -> gates_ok D -> multi_small D init anc rounds -> In a (r_anc D) ->
  rounds <> [] -> NoDup rounds -> is_member q anc_ids = true ->
  exists tags e, circuit_tags env D init anc rounds a = Some tags
    /\ circuit_kernel rounds data_ids anc_ids = Value e
    /\ Z.of_nat (length tags) = RepetitionExperimentKernel_kernel_cycle_length e
    /\ positions (has_tag T_HERALDED) tags
       = concat (map (fun n => concat (RepetitionExperimentKernel_get_heralded_cycle_acquisition_indices e q n)) rounds)
         ++ concat (map (RepetitionExperimentKernel_get_heralded_calibration_acquisition_indices e q) StateKey_all)
    /\ positions (has_tag T_PARITY) tags
       = concat (map (fun n => concat (RepetitionExperimentKernel_get_stabilizer_and_projected_cycle_acquisition_indices e q n)) rounds)
    /\ positions (has_tag T_FINAL) tags
       = zero_round_slots e ++ concat (map (RepetitionExperimentKernel_get_projected_calibration_acquisition_indices e q) StateKey_all)
    /\ (forall x, In x (zero_round_slots e) -> ~ In x (cycle_indices e q)).
Proof. exact multi_tag_positions_total. Qed.
Print Assumptions LibMulti_tag_positions_total.

(* ---- instances: the chain description of EVERY distance, every sub-chain of the shipped layouts *)
Theorem LibMulti_chain_anc_tags_total : forall env d rf init anc rounds a,
  multi_small (desc_of_chain d rf) init anc rounds -> In a (r_anc (desc_of_chain d rf)) ->
  circuit_tags env (desc_of_chain d rf) init anc rounds a = Some (map z_of_tag (multi_round_tags rounds)).
Proof. exact chain_anc_tags_total. Qed.
Print Assumptions LibMulti_chain_anc_tags_total.

Theorem LibMulti_layouts_anc_tags_total : forall env L ch rf init anc rounds a, In (L, ch) all_layout_subchains ->
  multi_small (desc_of_layout L ch rf) init anc rounds -> In a (r_anc (desc_of_layout L ch rf)) ->
  circuit_tags env (desc_of_layout L ch rf) init anc rounds a = Some (map z_of_tag (multi_round_tags rounds)).
Proof. exact layouts_anc_tags_total. Qed.
Print Assumptions LibMulti_layouts_anc_tags_total.
