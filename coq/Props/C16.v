(* C16 — Simultaneous two-qubit gates are accepted iff they cannot collide in frequency.
   Property theorems only; each closed by `exact <lemma>`; assumptions printed beneath.
   Model: C16/Model.v (mirrors the Python); rule: C16/Spec.v (frequency-collision reading, independent of the model);
   tables and frequency ordering: Gen/Layouts.v (regenerated from the source on every run).
   `oriented_edges` = the 24 device edges in both orientations (the finite domain; the bound is the device). *)
From Coq Require Import ZArith List Bool String Sorting.Permutation.
From QCE Require Import Base.Prelude C16.Spec C16.Model C16.Proofs.
From Gen Require Import Layouts.

(* (a) the acceptance check is a conjunction of ordered pair checks, for gate lists of ANY length *)
Theorem C16_pairwise : forall ops,
  mutually_allowed ops = forallb (fun e => forallb (fun f => pair_allowed e f) ops) ops.
Proof. exact allowed_pairwise. Qed.

(* (b) on every ordered pair of device edges (48 x 48, both orientations) the pair check is the frequency-collision rule:
   same gate, or no shared qubit and no two neighbouring members at the same operating level *)
Theorem C16_pair_table : forall e f, In e oriented_edges -> In f oriented_edges -> pair_allowed e f = spec_pair e f.
Proof. exact pair_table. Qed.

(* (c) hence: a duplicate-free list of device gates of ANY size is accepted exactly when no qubit takes part in two of them
   and no two neighbouring qubits of different gates operate at the same level *)
Theorem C16_accept : forall ops,
  incl ops oriented_edges -> edge_nodupb ops = true -> mutually_allowed ops = spec_accept ops.
Proof. exact accept_spec. Qed.

(* (d) for every accepted gate set and every one of the 17 qubits: reported as requiring parking exactly when it is idle,
   neighbours the moving (higher-frequency) member of an active gate and idles at that gate's operating level *)
Theorem C16_parking : forall ops q,
  incl ops oriented_edges -> spec_accept ops = true -> In q qubit_ids -> requires_parking q ops = spec_park q ops.
Proof. exact parking_spec. Qed.

(* (e) every sequence the generator (model) emits uses each requested gate exactly once, in steps of the requested size
   that the acceptance check accepts ... *)
Theorem C16_sequences : forall edges k maxc ptrs,
  construct_allowed_gate_sequences edges k maxc = GenOk ptrs ->
  forall s, In s (operation_sequences edges ptrs) ->
    Permutation (List.concat s) edges
    /\ (forall step, In step s -> mutually_allowed step = true /\ List.length step = Z.to_nat k).
Proof. exact sequences_ok. Qed.

(* ... and, for duplicate-free lists of device gates, in steps that satisfy the frequency-collision rule *)
Theorem C16_sequences_rule : forall edges k maxc ptrs,
  incl edges oriented_edges -> edge_nodupb edges = true ->
  construct_allowed_gate_sequences edges k maxc = GenOk ptrs ->
  forall s, In s (operation_sequences edges ptrs) ->
    Permutation (List.concat s) edges /\ (forall step, In step s -> spec_accept step = true).
Proof. exact sequences_spec. Qed.

(* the generated tables describe one device: 17 distinct qubits with a frequency group each, 24 proper, pairwise different
   edges that are exactly the ancilla-data pairs of the parity groups *)
Theorem C16_device_tables :
  spec_device qubit_ids S17_edges (S17_parity_x ++ S17_parity_z)%list
              (map (fun kv => (fst kv, FrequencyGroupIdentifier__id (snd kv))) S17_frequency) = true
  /\ forallb freq_defined (flat_map edge_qubits oriented_edges) = true
  /\ List.length qubit_ids = 17%nat /\ List.length S17_edges = 24%nat.
Proof. exact device_tables_wf. Qed.

(* the translated frequency ordering is the order LOW < MID < HIGH *)
Theorem C16_frequency_order : forall a b,
  FrequencyGroupIdentifier_is_higher_than (MkFrequencyGroupIdentifier a) (MkFrequencyGroupIdentifier b) = spec_higher a b
  /\ FrequencyGroupIdentifier_is_lower_than (MkFrequencyGroupIdentifier a) (MkFrequencyGroupIdentifier b) = spec_lower a b
  /\ FrequencyGroupIdentifier_is_equal_to (MkFrequencyGroupIdentifier a) (MkFrequencyGroupIdentifier b) = FrequencyGroup_eqb a b.
Proof. exact frequency_order. Qed.

Print Assumptions C16_pairwise.
Print Assumptions C16_pair_table.
Print Assumptions C16_accept.
Print Assumptions C16_parking.
Print Assumptions C16_sequences.
Print Assumptions C16_sequences_rule.
Print Assumptions C16_device_tables.
Print Assumptions C16_frequency_order.
