(* C12 -- Index kernels tile the acquisition index range without gaps or overlap.
   Property theorems only; each closed by `exact <lemma>`; assumptions printed beneath.
   All kernel definitions are Gen/Kernels.v (regenerated from the Python source on every run); experiment_kernel /
   estimate_experiment_repetitions are the folds of C12/Model.v.  Quantification: ALL rounds lists (any integers, in particular
   all entries >= 0; non-empty where stated), both heralded flags, both calibration flags, all identifier lists (also
   overlapping ones), every queried identifier q, all repetition counts (>= 0 where a count is used as a length). *)
From Coq Require Import ZArith List Bool.
Import ListNotations.
From QCE Require Import Base.Prelude C12.Model C12.Proofs.
From Gen Require Import Kernels.
Open Scope Z_scope.

(* the experiment kernel exists exactly for non-empty rounds lists (IndexError otherwise) *)
Theorem C12_kernel_exists : forall rounds h c data anc reps,
  rounds <> [] -> experiment_kernel rounds h c data anc reps = Value (exp_closed rounds h c data anc reps).
Proof. exact experiment_kernel_closed. Qed.
Theorem C12_kernel_empty_rounds : forall h c data anc reps, experiment_kernel [] h c data anc reps = Raised IndexError.
Proof. exact experiment_kernel_empty. Qed.

(* the translated code honours qutrit_calibration_points (fix of finding F15); fails to check on a tree where it does not *)
Theorem C12_calibration_flag_honoured : experiment_kernel_honours_calibration_flag = true.
Proof. exact honours_flag. Qed.

(* kernels contiguous: first starts at 0, each next one (the calibration kernel last, present exactly when the experiment has
   calibration points) starts right after the previous stop, every kernel has length >= 1, one kernel per rounds entry, cycle
   length = sum of the kernel lengths *)
Theorem C12_kernels_contiguous : forall rounds h c data anc reps,
  rounds <> [] ->
  exists e, experiment_kernel rounds h c data anc reps = Value e
    /\ map RepetitionIndexKernel_nr_repeated_parities (RepetitionExperimentKernel__repetition_kernels e) = rounds
    /\ RepetitionExperimentKernel_indexing_kernels e
        = map RepetitionIndexKernel_as_IIndexingKernel (RepetitionExperimentKernel__repetition_kernels e)
          ++ (if c then [QutritCalibrationIndexKernel_as_IIndexingKernel (RepetitionExperimentKernel__calibration_kernel e)] else [])
    /\ contiguous_from 0 (RepetitionExperimentKernel_indexing_kernels e)
    /\ RepetitionExperimentKernel_start_index e = 0
    /\ RepetitionExperimentKernel_kernel_cycle_length e = sum_lengths (RepetitionExperimentKernel_indexing_kernels e)
    /\ QutritCalibrationIndexKernel_start_index (RepetitionExperimentKernel__calibration_kernel e)
        = RepetitionIndexKernel_stop_index (last (RepetitionExperimentKernel__repetition_kernels e)
                                                (MkRepetitionIndexKernel 0 false 0 [] [])) + 1
    /\ RepetitionExperimentKernel_experiment_repetitions e = reps.
Proof. exact kernels_contiguous. Qed.

(* every index category (heralded, stabilizer, final, contains; the six calibration categories) lies inside its kernel's
   [start, stop]; everything of the first repetition lies inside [start, start + cycle length) *)
Theorem C12_categories_inside : forall rounds h c data anc reps e q,
  experiment_kernel rounds h c data anc reps = Value e ->
  (forall k x, In k (RepetitionExperimentKernel__repetition_kernels e) ->
     In x (RepetitionIndexKernel_get_heralded_measurement_index k q)
     \/ In x (RepetitionIndexKernel_get_ordered_stabilizer_measurement_indices k q)
     \/ In x (RepetitionIndexKernel_get_final_measurement_index k q)
     \/ In x (RepetitionIndexKernel_contains k q) ->
     RepetitionIndexKernel_start_index k <= x <= RepetitionIndexKernel_stop_index k)
  /\ (forall x, let k := RepetitionExperimentKernel__calibration_kernel e in
     In x (calibration_indices k q) \/ In x (QutritCalibrationIndexKernel_contains k q) ->
     QutritCalibrationIndexKernel_start_index k <= x <= QutritCalibrationIndexKernel_stop_index k)
  /\ (forall x, In x (cycle_indices e q) ->
     RepetitionExperimentKernel_start_index e <= x
     < RepetitionExperimentKernel_start_index e + RepetitionExperimentKernel_kernel_cycle_length e).
Proof. exact categories_inside. Qed.

(* the categories of one qubit are pairwise disjoint: the concatenation of all of them (every kernel: heralded ++ stabilizer ++
   final; then the six calibration categories) is strictly increasing, hence duplicate-free -- within a cycle and over all
   experiment repetitions *)
Theorem C12_categories_disjoint : forall rounds h c data anc reps e q,
  experiment_kernel rounds h c data anc reps = Value e ->
  NoDup (cycle_indices e q)
  /\ incr_in 0 (RepetitionExperimentKernel_kernel_cycle_length e - 1) (cycle_indices e q)
  /\ (0 <= reps -> NoDup (all_indices e q)
                   /\ incr_in 0 (reps * RepetitionExperimentKernel_kernel_cycle_length e - 1) (all_indices e q)).
Proof. exact categories_disjoint. Qed.

(* for an ancilla: heralded ++ stabilizer ++ final is exactly [start, stop] in every block with >= 1 round, the six calibration
   categories are exactly the calibration kernel's range, and when no block has 0 rounds the whole cycle / the whole index range of
   all repetitions is covered exactly once, in order *)
Theorem C12_ancilla_cover : forall rounds h c data anc reps e q,
  experiment_kernel rounds h c data anc reps = Value e -> is_member q anc = true ->
  (forall k, In k (RepetitionExperimentKernel__repetition_kernels e) -> 1 <= RepetitionIndexKernel_nr_repeated_parities k ->
     kernel_indices k q = zrange (RepetitionIndexKernel_start_index k) (RepetitionIndexKernel_stop_index k + 1))
  /\ (let k := RepetitionExperimentKernel__calibration_kernel e in
      calibration_indices k q = zrange (QutritCalibrationIndexKernel_start_index k) (QutritCalibrationIndexKernel_stop_index k + 1))
  /\ (Forall (fun r => 1 <= r) rounds ->
      cycle_indices e q = zrange 0 (RepetitionExperimentKernel_kernel_cycle_length e)
      /\ (0 <= reps -> all_indices e q = zrange 0 (reps * RepetitionExperimentKernel_kernel_cycle_length e))).
Proof. exact ancilla_cover. Qed.

(* the documented gap: in a 0-round block an ancilla has its categories cover [start, stop - 1]; exactly the final slot `stop`
   is missing (no final, no stabilizer index), and that slot exists *)
Theorem C12_ancilla_zero_round_gap : forall rounds h c data anc reps e q k,
  experiment_kernel rounds h c data anc reps = Value e -> is_member q anc = true ->
  In k (RepetitionExperimentKernel__repetition_kernels e) -> RepetitionIndexKernel_nr_repeated_parities k = 0 ->
  kernel_indices k q = zrange (RepetitionIndexKernel_start_index k) (RepetitionIndexKernel_stop_index k)
  /\ RepetitionIndexKernel_get_final_measurement_index k q = []
  /\ RepetitionIndexKernel_get_ordered_stabilizer_measurement_indices k q = []
  /\ ~ In (RepetitionIndexKernel_stop_index k) (kernel_indices k q)
  /\ RepetitionIndexKernel_start_index k <= RepetitionIndexKernel_stop_index k.
Proof. exact ancilla_zero_round_gap. Qed.

(* successive experiment repetitions are exact translates by the cycle length: every public getter returns, for repetition i,
   the kernel-level category + i * L (distinct round counts select the kernel; an absent count gives nothing) *)
Theorem C12_repetition_translate : forall rounds h c data anc reps e q,
  experiment_kernel rounds h c data anc reps = Value e ->
  let L := RepetitionExperimentKernel_kernel_cycle_length e in
  (NoDup rounds -> forall k, In k (RepetitionExperimentKernel__repetition_kernels e) ->
     let n := RepetitionIndexKernel_nr_repeated_parities k in
     RepetitionExperimentKernel_get_heralded_cycle_acquisition_indices e q n
       = translates (RepetitionIndexKernel_get_heralded_measurement_index k q) L reps
     /\ RepetitionExperimentKernel_get_stabilizer_and_projected_cycle_acquisition_indices e q n
       = translates (RepetitionIndexKernel_get_ordered_stabilizer_measurement_indices k q
                     ++ RepetitionIndexKernel_get_final_measurement_index k q) L reps
     /\ RepetitionExperimentKernel_get_projected_cycle_acquisition_indices e q n
       = translates (RepetitionIndexKernel_get_final_measurement_index k q) L reps)
  /\ (forall n, ~ In n rounds ->
     RepetitionExperimentKernel_get_heralded_cycle_acquisition_indices e q n = []
     /\ RepetitionExperimentKernel_get_stabilizer_and_projected_cycle_acquisition_indices e q n = []
     /\ RepetitionExperimentKernel_get_projected_cycle_acquisition_indices e q n = [])
  /\ (let ck := RepetitionExperimentKernel__calibration_kernel e in
     let sliced := fun base => if c then concat (translates base L reps) else [] in   (* no calibration points: nothing *)
     RepetitionExperimentKernel_get_heralded_calibration_acquisition_indices e q StateKey_STATE_0
       = sliced (QutritCalibrationIndexKernel_get_heralded_state_0_measurement_index ck q)
     /\ RepetitionExperimentKernel_get_heralded_calibration_acquisition_indices e q StateKey_STATE_1
       = sliced (QutritCalibrationIndexKernel_get_heralded_state_1_measurement_index ck q)
     /\ RepetitionExperimentKernel_get_heralded_calibration_acquisition_indices e q StateKey_STATE_2
       = sliced (QutritCalibrationIndexKernel_get_heralded_state_2_measurement_index ck q)
     /\ RepetitionExperimentKernel_get_projected_calibration_acquisition_indices e q StateKey_STATE_0
       = sliced (QutritCalibrationIndexKernel_get_state_0_measurement_index ck q)
     /\ RepetitionExperimentKernel_get_projected_calibration_acquisition_indices e q StateKey_STATE_1
       = sliced (QutritCalibrationIndexKernel_get_state_1_measurement_index ck q)
     /\ RepetitionExperimentKernel_get_projected_calibration_acquisition_indices e q StateKey_STATE_2
       = sliced (QutritCalibrationIndexKernel_get_state_2_measurement_index ck q))
  /\ all_indices e q = concat (translates (cycle_indices e q) L reps).
Proof. exact repetition_translate. Qed.
Theorem C12_translates_nth : forall base L reps i,
  0 <= i < reps -> nth (Z.to_nat i) (translates base L reps) [] = map (fun x => x + i * L) base.
Proof. exact translates_nth. Qed.
Theorem C12_translates_length : forall base L reps, length (translates base L reps) = Z.to_nat reps.
Proof. exact translates_length. Qed.

(* the repetition estimate inverts dataset size = repetitions x kernel_cycle_length of the experiment kernel built from the same
   description, for BOTH values of the calibration flag (exact integer division): it returns n exactly for the sizes n x L and
   raises its AssertionError for every other size *)
Theorem C12_estimate_inverts : forall rounds h c data anc reps,
  rounds <> [] ->
  exists e, experiment_kernel rounds h c data anc reps = Value e
    /\ 1 <= RepetitionExperimentKernel_kernel_cycle_length e
    /\ estimate_cycle_length rounds h c = Value (RepetitionExperimentKernel_kernel_cycle_length e)
    /\ estimate_experiment_repetitions rounds h c (reps * RepetitionExperimentKernel_kernel_cycle_length e) = Value reps
    /\ (forall size n, estimate_experiment_repetitions rounds h c size = Value n
                       <-> size = n * RepetitionExperimentKernel_kernel_cycle_length e)
    /\ (forall size, (forall n, size <> n * RepetitionExperimentKernel_kernel_cycle_length e) ->
                     estimate_experiment_repetitions rounds h c size = Raised AssertionError).
Proof. exact estimate_inverts. Qed.

(* recorded quirks *)
(* HISTORY (finding F15, fixed): about the OLD definition of the cycle (calibration kernel included whatever the flag), written out
   as old_kernel_cycle_length in C12/Proofs.v; nothing in the current code uses it *)
Theorem C12_old_definition_estimate_vs_kernel_cycle_flag_off_refuted :
  exists rounds h reps data anc e,
    experiment_kernel rounds h false data anc reps = Value e
    /\ estimate_experiment_repetitions rounds h false (reps * old_kernel_cycle_length e) <> Value reps.
Proof. exact old_definition_estimate_vs_kernel_cycle_flag_off_refuted. Qed.
Theorem C12_rounds_distinct_needed_refuted :
  exists rounds h data anc reps e k q,
    experiment_kernel rounds h true data anc reps = Value e
    /\ In k (RepetitionExperimentKernel__repetition_kernels e)
    /\ RepetitionExperimentKernel_get_heralded_cycle_acquisition_indices e q (RepetitionIndexKernel_nr_repeated_parities k)
       <> translates (RepetitionIndexKernel_get_heralded_measurement_index k q)
                     (RepetitionExperimentKernel_kernel_cycle_length e) reps.
Proof. exact duplicate_rounds_hide_kernel_refuted. Qed.
Theorem C12_experiment_stop_index_exclusive : forall rounds h c data anc reps e,
  experiment_kernel rounds h c data anc reps = Value e ->
  RepetitionExperimentKernel_stop_index e = reps * RepetitionExperimentKernel_kernel_cycle_length e
  /\ RepetitionExperimentKernel_kernel_length e = reps * RepetitionExperimentKernel_kernel_cycle_length e + 1.
Proof. exact experiment_stop_index_exclusive. Qed.

Print Assumptions C12_kernel_exists.
Print Assumptions C12_kernel_empty_rounds.
Print Assumptions C12_kernels_contiguous.
Print Assumptions C12_categories_inside.
Print Assumptions C12_categories_disjoint.
Print Assumptions C12_ancilla_cover.
Print Assumptions C12_ancilla_zero_round_gap.
Print Assumptions C12_repetition_translate.
Print Assumptions C12_translates_nth.
Print Assumptions C12_translates_length.
Print Assumptions C12_estimate_inverts.
Print Assumptions C12_old_definition_estimate_vs_kernel_cycle_flag_off_refuted.
Print Assumptions C12_calibration_flag_honoured.
Print Assumptions C12_rounds_distinct_needed_refuted.
Print Assumptions C12_experiment_stop_index_exclusive.
