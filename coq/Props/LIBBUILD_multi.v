(* LIBBUILD, multi-round constructor -- theorems about `multi_round_nodes` (coq/LibBuild/Model.v), the Gallina form of
   construct_repetition_code_multi_round_circuit, tied node for node to the real constructor by harness/libbuild.py.
   Theorems only, each closed by `exact <lemma>`.

   Vocabulary (coq/LibBuild/MultiRound.v):
   `circuit_tags env D init anc rounds q`      = acquisition tags of qubit q's measurements in the Core listing of the
                                                 constructed circuit, in listing order (None where Core's flatten is undefined);
   `circuit_labelled env D init anc rounds q`  = the same, each tag paired with the block it sits in, read off the NESTING of
                                                 the circuit: Block r for the sub-circuit of the entry r of `rounds`, Cal s for
                                                 the s-th sub-circuit of the calibration block;
   `multi_round_tags` / `multi_round_labelled` = C13's closed form (coq/C13/Model.v), `z_of_tag` / `z_labelled` its tags in the
                                                 harness' numbers; `positions p l` = per-qubit acquisition indices of the entries
                                                 satisfying p; `has_tag t`, `is_zl t l` = C13's `is_tag`, `is_tl` over numbers;
   `multi_small D init anc rounds`             = size hypotheses (depth limit 4999: beyond it listings are truncated and the
                                                 statements false): per round count r >= 0 C06's `unroll_small_prog` of the block's
                                                 program and at most 4999 operations in the block; 2 |rounds| + 1 <= 4999;
                                                 5 |qubits| <= 4999;
   `block_heralded_first D init anc r a`       = DECIDABLE side condition on one block: Core's flatten of
                                                 construct_repetition_code_circuit(r).apply_modifiers() is defined and in the
                                                 listing of the flattened block the first measurement of a is the heralded one;
   `block_in_order D init anc r`               = stronger, decidable: flatten is defined and keeps the block's listing order.

   `gates_ok D`                                = the gates of D have an end among, the parks lie among, the qubits of D (proved for
                                                 the chain of every distance and for the 82 sub-chains of the shipped layouts).

   MAIN RESULTS (LibMulti_anc_tags, LibMulti_anc_labelled, LibMulti_kernel_agrees): for EVERY description (desc_ok, gates_ok),
   EVERY list of round counts >= 0 within the size limits, EVERY ancilla: wherever the model of the constructor is defined
   (`multi_round_nodes ... = Some ns`, i.e. Core's flatten answers on every block: outside known finding F10) the tags of the
   ancilla's measurements in the Core listing are C13's closed form, and -- composed with C13_kernels_agree_with_circuit --
   they sit at the indices the generated kernel definitions return.  Ingredients, all proved for every description: the top
   level of the circuit is one chain (sub-circuit, Barrier, ..., calibration) listed in insertion order; nesting a flattened
   block keeps its listing (C05); every qubit's tags in the calibration block are heralded, final, three times; flatten keeps
   the multiset of a block's operations (C06 / C11) AND keeps the heralded measurement of an ancilla in front of its other
   measurements (LibMulti_flatten_heralded_first, by a depth argument on the flattened graph, coq/LibBuild/MultiRoundOrder.v).
   NOT PROVED: that Core's flatten is defined on every block for ALL round counts (it is an antecedent; it is decidable, holds
   in every evaluated case -- LibMulti_small_chains_* evaluate it for distances 2, 3 and round counts 0..4 with every state
   list -- and the tie of harness/libbuild.py observes it on the real circuits).  The `_partial` theorems are the earlier,
   weaker forms: the same conclusions under the decidable per-block side condition, without gates_ok. *)
From Coq Require Import ZArith List Bool.
Import ListNotations.
From QCE Require Import Base.Prelude Core.Model Core.Run C02.Proofs C06.Proofs C09.Model C12.Model C13.Model C13.Proofs
  LibBuild.Model LibBuild.Tags LibBuild.Counts LibBuild.Chain LibBuild.Layouts LibBuild.MultiRound LibBuild.MultiRoundProofs
  LibBuild.MultiRoundOrder LibBuild.MultiRoundCheck LibBuild.MultiRoundInst.
From Gen Require Import Kernels Layouts.
Open Scope Z_scope.

(* ---- unconditional pieces *)
(* blocks are built and flattened without consulting the duration setting *)
Theorem LibMulti_block_flat_env : forall e1 e2 D init anc r, block_flat e1 D init anc r = block_flat e2 D init anc r.
Proof. exact block_flat_env. Qed.
Print Assumptions LibMulti_block_flat_env.

(* the calibration block, every description: every qubit reads heralded, final for the states 0, 1, 2 *)
Theorem LibMulti_calibration_tags : forall env D a,
  NoDup (r_qubits D) -> In a (r_qubits D) -> 5 * Z.of_nat (length (r_qubits D)) <= 4999 ->
  op_tags a (cal_sub env D) = cal_tags /\ In (lf_meas a T_HERALDED) (op_leaves (cal_sub env D)).
Proof. exact cal_block. Qed.
Print Assumptions LibMulti_calibration_tags.

(* the top level is one chain; the tags of the circuit are the concatenation of the tags of its blocks *)
Theorem LibMulti_compose : forall env D init anc a rounds,
  In a (r_qubits D) -> (2 * length rounds + 1 <= max_layers)%nat ->
  (forall r, In r rounds -> exists f, block_flat env D init anc r = Some f
      /\ In (lf_meas a T_HERALDED) (op_leaves (OComp 1 (copy_nodes env f)))
      /\ op_tags a (OComp 1 (copy_nodes env f)) = map z_of_tag (block_tags r)) ->
  In (lf_meas a T_HERALDED) (op_leaves (cal_sub env D)) -> op_tags a (cal_sub env D) = cal_tags ->
  exists ns, multi_round_nodes env D init anc rounds = Some ns
    /\ graph_tags env a ns = map z_of_tag (multi_round_tags rounds).
Proof. exact multi_round_compose. Qed.
Print Assumptions LibMulti_compose.

(* keeping the listing order of a block is more than the side condition asks for *)
Theorem LibMulti_in_order_suffices : forall D init anc r a,
  desc_ok D -> 0 <= r -> block_small D init anc r -> In a (r_anc D) ->
  block_in_order D init anc r = true -> block_heralded_first D init anc r a = true.
Proof. exact in_order_heralded_first. Qed.
Print Assumptions LibMulti_in_order_suffices.


(* ---- MAIN: no side condition beyond the model being defined *)
(* flattening one block: the first measurement of every ancilla in the listing of the flattened block is the heralded one *)
Theorem LibMulti_flatten_heralded_first : forall env D init anc r a f,
  desc_ok D -> gates_ok D -> block_small D init anc r -> In a (r_anc D) ->
  block_flat env D init anc r = Some f -> exists T', tags_of a (op_leaves (OComp 1 f)) = T_HERALDED :: T'.
Proof. exact flat_heralded_first. Qed.
Print Assumptions LibMulti_flatten_heralded_first.

(* hence the decidable side condition is nothing but "flatten is defined on the block" *)
Theorem LibMulti_defined_suffices : forall D init anc r a,
  desc_ok D -> gates_ok D -> block_small D init anc r -> In a (r_anc D) ->
  block_flat model_env D init anc r <> None -> block_heralded_first D init anc r a = true.
Proof. exact defined_heralded_first. Qed.
Print Assumptions LibMulti_defined_suffices.

(* 1. the tags of every ancilla in the Core listing of the constructed circuit are C13's closed form *)
Theorem LibMulti_anc_tags : forall env D init anc rounds a ns,
  desc_ok D -> gates_ok D -> multi_small D init anc rounds -> In a (r_anc D) ->
  multi_round_nodes env D init anc rounds = Some ns ->
  graph_tags env a ns = map z_of_tag (multi_round_tags rounds).
Proof. exact multi_anc_tags_defined. Qed.
Print Assumptions LibMulti_anc_tags.

(* ... with the block each measurement belongs to, read off the nesting of the circuit *)
Theorem LibMulti_anc_labelled : forall env D init anc rounds a lab,
  desc_ok D -> gates_ok D -> multi_small D init anc rounds -> In a (r_anc D) ->
  circuit_labelled env D init anc rounds a = Some lab -> lab = z_labelled (multi_round_labelled rounds).
Proof. exact multi_labelled_defined. Qed.
Print Assumptions LibMulti_anc_labelled.

(* 2. composed with C13_kernels_agree_with_circuit (its conclusion verbatim, about the MODEL circuit of the constructor) *)
Theorem LibMulti_kernel_agrees : forall env D init anc rounds a lab data_ids anc_ids q,
  desc_ok D -> gates_ok D -> multi_small D init anc rounds -> In a (r_anc D) ->
  circuit_labelled env D init anc rounds a = Some lab ->
  rounds <> [] -> NoDup rounds -> is_member q anc_ids = true ->
  exists e, circuit_kernel rounds data_ids anc_ids = Value e
  /\ Z.of_nat (length lab) = RepetitionExperimentKernel_kernel_cycle_length e
  /\ (forall n, In n rounds ->
        positions (is_zl T_HERALDED (Block n)) lab
          = concat (RepetitionExperimentKernel_get_heralded_cycle_acquisition_indices e q n)
        /\ positions (is_zl T_PARITY (Block n)) lab
          = concat (RepetitionExperimentKernel_get_stabilizer_and_projected_cycle_acquisition_indices e q n)
        /\ (1 <= n -> positions (is_zl T_FINAL (Block n)) lab = []
                      /\ concat (RepetitionExperimentKernel_get_projected_cycle_acquisition_indices e q n)
                         = [last (positions (is_zl T_PARITY (Block n)) lab) 0]))
  /\ (In 0 rounds -> exists k, In k (RepetitionExperimentKernel__repetition_kernels e)
        /\ RepetitionIndexKernel_nr_repeated_parities k = 0
        /\ positions (is_zl T_FINAL (Block 0)) lab = [RepetitionIndexKernel_stop_index k]
        /\ RepetitionExperimentKernel_get_projected_cycle_acquisition_indices e q 0 = [[]]
        /\ RepetitionExperimentKernel_get_stabilizer_and_projected_cycle_acquisition_indices e q 0 = [[]]
        /\ ~ In (RepetitionIndexKernel_stop_index k) (cycle_indices e q))
  /\ (forall st, positions (is_zl T_HERALDED (Cal st)) lab
                   = RepetitionExperimentKernel_get_heralded_calibration_acquisition_indices e q st
              /\ positions (is_zl T_FINAL (Cal st)) lab
                   = RepetitionExperimentKernel_get_projected_calibration_acquisition_indices e q st
              /\ positions (is_zl T_PARITY (Cal st)) lab = []).
Proof. exact multi_kernel_agrees_defined. Qed.
Print Assumptions LibMulti_kernel_agrees.

(* the hypothesis gates_ok: the chain description of every distance, every sub-chain of the shipped layouts *)
Theorem LibMulti_chain_gates_ok : forall d rf, gates_ok (desc_of_chain d rf).
Proof. exact chain_gates_ok. Qed.
Print Assumptions LibMulti_chain_gates_ok.

Theorem LibMulti_layouts_gates_ok : forall L ch rf, In (L, ch) all_layout_subchains -> gates_ok (desc_of_layout L ch rf).
Proof. exact layouts_gates_ok. Qed.
Print Assumptions LibMulti_layouts_gates_ok.

(* ---- earlier forms: the decidable side condition instead of gates_ok and definedness *)
(* ---- 1. the tags of every ancilla are C13's closed form: every description, every rounds list (the empty one included),
        under the decidable side condition on each block *)
Theorem LibMulti_anc_tags_partial : forall env D init anc rounds a,
  desc_ok D -> multi_small D init anc rounds -> In a (r_anc D) ->
  (forall r, In r rounds -> block_heralded_first D init anc r a = true) ->
  circuit_tags env D init anc rounds a = Some (map z_of_tag (multi_round_tags rounds)).
Proof. exact multi_anc_tags. Qed.
Print Assumptions LibMulti_anc_tags_partial.

(* ... with the block each measurement belongs to *)
Theorem LibMulti_anc_labelled_partial : forall env D init anc rounds a,
  desc_ok D -> multi_small D init anc rounds -> In a (r_anc D) ->
  (forall r, In r rounds -> block_heralded_first D init anc r a = true) ->
  circuit_labelled env D init anc rounds a = Some (z_labelled (multi_round_labelled rounds)).
Proof. exact multi_labelled. Qed.
Print Assumptions LibMulti_anc_labelled_partial.

(* ---- 2. composed with C13_kernels_agree_with_circuit: per block and per calibration state the measurements of the MODEL
        circuit sit exactly at the indices the generated kernel definitions return; number of acquisitions = cycle length *)
Theorem LibMulti_kernel_agrees_partial : forall env D init anc rounds a data_ids anc_ids q,
  desc_ok D -> multi_small D init anc rounds -> In a (r_anc D) ->
  (forall r, In r rounds -> block_heralded_first D init anc r a = true) ->
  rounds <> [] -> NoDup rounds -> is_member q anc_ids = true ->
  exists lab e, circuit_labelled env D init anc rounds a = Some lab
  /\ circuit_kernel rounds data_ids anc_ids = Value e
  /\ Z.of_nat (length lab) = RepetitionExperimentKernel_kernel_cycle_length e
  /\ (forall n, In n rounds ->
        positions (is_zl T_HERALDED (Block n)) lab
          = concat (RepetitionExperimentKernel_get_heralded_cycle_acquisition_indices e q n)
        /\ positions (is_zl T_PARITY (Block n)) lab
          = concat (RepetitionExperimentKernel_get_stabilizer_and_projected_cycle_acquisition_indices e q n)
        /\ (1 <= n -> positions (is_zl T_FINAL (Block n)) lab = []
                      /\ concat (RepetitionExperimentKernel_get_projected_cycle_acquisition_indices e q n)
                         = [last (positions (is_zl T_PARITY (Block n)) lab) 0]))
  /\ (In 0 rounds -> exists k, In k (RepetitionExperimentKernel__repetition_kernels e)
        /\ RepetitionIndexKernel_nr_repeated_parities k = 0
        /\ positions (is_zl T_FINAL (Block 0)) lab = [RepetitionIndexKernel_stop_index k]
        /\ RepetitionExperimentKernel_get_projected_cycle_acquisition_indices e q 0 = [[]]
        /\ RepetitionExperimentKernel_get_stabilizer_and_projected_cycle_acquisition_indices e q 0 = [[]]
        /\ ~ In (RepetitionIndexKernel_stop_index k) (cycle_indices e q))
  /\ (forall st, positions (is_zl T_HERALDED (Cal st)) lab
                   = RepetitionExperimentKernel_get_heralded_calibration_acquisition_indices e q st
              /\ positions (is_zl T_FINAL (Cal st)) lab
                   = RepetitionExperimentKernel_get_projected_calibration_acquisition_indices e q st
              /\ positions (is_zl T_PARITY (Cal st)) lab = []).
Proof. exact multi_kernel_agrees_blocks. Qed.
Print Assumptions LibMulti_kernel_agrees_partial.

(* the same on the bare tag sequence (C13_tag_positions) *)
Theorem LibMulti_tag_positions_partial : forall env D init anc rounds a data_ids anc_ids q,
  desc_ok D -> multi_small D init anc rounds -> In a (r_anc D) ->
  (forall r, In r rounds -> block_heralded_first D init anc r a = true) ->
  rounds <> [] -> NoDup rounds -> is_member q anc_ids = true ->
  exists tags e, circuit_tags env D init anc rounds a = Some tags
    /\ circuit_kernel rounds data_ids anc_ids = Value e
    /\ Z.of_nat (length tags) = RepetitionExperimentKernel_kernel_cycle_length e
    /\ positions (has_tag T_HERALDED) tags
       = concat (map (fun n => concat (RepetitionExperimentKernel_get_heralded_cycle_acquisition_indices e q n)) rounds)
         ++ concat (map (RepetitionExperimentKernel_get_heralded_calibration_acquisition_indices e q) StateKey_all)
    /\ positions (has_tag T_PARITY) tags
       = concat (map (fun n => concat (RepetitionExperimentKernel_get_stabilizer_and_projected_cycle_acquisition_indices e q n)) rounds)
    /\ positions (has_tag T_FINAL) tags
       = zero_round_slots e ++ concat (map (RepetitionExperimentKernel_get_projected_calibration_acquisition_indices e q) StateKey_all)
    /\ (forall x, In x (zero_round_slots e) -> ~ In x (cycle_indices e q)).
Proof. exact multi_kernel_agrees. Qed.
Print Assumptions LibMulti_tag_positions_partial.

(* ---- 3. no side condition, bounded: the chains of distance 2 and 3, with and without refocusing, EVERY initial-state and
        ancilla-state list, EVERY rounds list (any length up to the depth limit, repetitions allowed) with entries 0..RMAX = 4 *)
Theorem LibMulti_small_chains_anc_tags_partial : forall env d rf init anc rounds a,
  In d [2%nat; 3%nat] -> Forall (fun r => 0 <= r <= RMAX) rounds -> 2 * Z.of_nat (length rounds) + 1 <= 4999 ->
  In a (r_anc (desc_of_chain d rf)) ->
  circuit_tags env (desc_of_chain d rf) init anc rounds a = Some (map z_of_tag (multi_round_tags rounds)).
Proof. exact small_chains_anc_tags. Qed.
Print Assumptions LibMulti_small_chains_anc_tags_partial.

Theorem LibMulti_small_chains_kernel_agrees_partial : forall env d rf init anc rounds a data_ids anc_ids q,
  In d [2%nat; 3%nat] -> Forall (fun r => 0 <= r <= RMAX) rounds -> rounds <> [] -> NoDup rounds ->
  In a (r_anc (desc_of_chain d rf)) -> is_member q anc_ids = true ->
  exists tags e, circuit_tags env (desc_of_chain d rf) init anc rounds a = Some tags
    /\ circuit_kernel rounds data_ids anc_ids = Value e
    /\ Z.of_nat (length tags) = RepetitionExperimentKernel_kernel_cycle_length e
    /\ positions (has_tag T_HERALDED) tags
       = concat (map (fun n => concat (RepetitionExperimentKernel_get_heralded_cycle_acquisition_indices e q n)) rounds)
         ++ concat (map (RepetitionExperimentKernel_get_heralded_calibration_acquisition_indices e q) StateKey_all)
    /\ positions (has_tag T_PARITY) tags
       = concat (map (fun n => concat (RepetitionExperimentKernel_get_stabilizer_and_projected_cycle_acquisition_indices e q n)) rounds)
    /\ positions (has_tag T_FINAL) tags
       = zero_round_slots e ++ concat (map (RepetitionExperimentKernel_get_projected_calibration_acquisition_indices e q) StateKey_all)
    /\ (forall x, In x (zero_round_slots e) -> ~ In x (cycle_indices e q)).
Proof. exact small_chains_kernel_agrees. Qed.
Print Assumptions LibMulti_small_chains_kernel_agrees_partial.
