(* C15 — OpenQL export is the in-order image of the circuit.
   Property theorems only; each closed by `exact <lemma>`; assumptions printed beneath.
   `ql_export` is the model of OpenQLCircuitFactoryManager.construct over the listing tree (C15/Model.v) as the structure
   of API calls it makes; `executed p` = for each item of the program in the order added: a sub-program's executed calls, a
   kernel's calls; `ql_image t` the hand-written documented calls (C15/Spec.v) of the expanded listing; `ql_wf_tree` the
   statement's domain (whole non-negative wait durations, distinct qubits on a controlled-phase, repetitions >= 1).

   The full statement does NOT hold for the code as it is (finding F7): it is proved for circuits without sub-circuits
   (`_partial`), refuted for the code on a three-operation circuit (`_refuted`), and proved in full for a walk that closes
   the kernel before each sub-circuit (`C15_openql_in_order`: what a repaired exporter satisfies). *)
From Coq Require Import ZArith List Bool String.
Import ListNotations.
From QCE Require Import Base.Prelude C08.Tree C08.Model C15.Model C15.Spec C15.Proofs.
From Gen Require Import Tables.
Open Scope string_scope.
Open Scope list_scope.
Open Scope Z_scope.

(* circuits without sub-circuits: the export exists, executes exactly the documented calls in listing order (cz + barrier +
   two phase updates for a controlled-phase, waits with their duration, unsupported kinds omitted), in one kernel, under
   the specified names *)
Theorem C15_partial : forall t cid, has_block t = false -> ql_wf_tree t = true ->
  exists p, ql_export t cid = Some p /\ executed p = ql_image t
            /\ fst p = spec_pname t cid /\ snd p = [QKernel (spec_kname t) (ql_image t)].
Proof. exact C15_partial_lemma. Qed.

(* the code as it is: x180; block x1 [y90]; x90 executes y90 first *)
Theorem C15_refuted : exists t, ql_wf_tree t = true /\
  exists p, ql_export t None = Some p /\ executed p <> ql_image t.
Proof. exact C15_refuted_lemma. Qed.

(* a walk that closes the own kernel before every sub-circuit (Model.qlc_export, any scheme `fresh` of kernel names)
   satisfies the statement in full: all trees, any nesting and repetition counts *)
Theorem C15_openql_in_order : forall fresh t cid p, ql_wf_tree t = true -> qlc_export fresh t cid = Some p ->
  executed p = ql_image t.
Proof. exact openql_in_order_documented. Qed.

(* the 12-line repair evaluated for F7 (one kernel, sub-circuits expanded in place; Model.qli_export; not applied): the full
   statement, with the specified names *)
Theorem C15_patched_walk_in_order : forall t cid p, ql_wf_tree t = true -> qli_export t cid = Some p ->
  executed p = ql_image t /\ p = (spec_pname t cid, [QKernel (spec_kname t) (ql_image t)]).
Proof. exact openql_patched_in_order. Qed.

(* the factory table is the documented one *)
Theorem C15_table_documented : forall k g, doc_ql_gate k = Some g <-> openql_gate k = Some [KT_gate g QE_ids].
Proof. exact ql_table_documented. Qed.

(* names: every program and kernel name is a function of the classes of the listing (their nesting and repetition
   counts) and the given id -- for every function standing for the uuid5 prefix *)
Theorem C15_names_deterministic : forall (uuid8 : list string -> string) t1 t2 cid p1 p2,
  kinds_tree t1 = kinds_tree t2 -> ql_export t1 cid = Some p1 -> ql_export t2 cid = Some p2 ->
  render_names uuid8 p1 = render_names uuid8 p2.
Proof. exact openql_names_deterministic. Qed.

(* the program name and the name of the own kernel (the last item) depend on the class-name sequence only *)
Theorem C15_top_names : forall (uuid8 : list string -> string) t1 t2 p1 p2,
  map kind_name (key t1) = map kind_name (key t2) -> ql_export t1 None = Some p1 -> ql_export t2 None = Some p2 ->
  render_pname uuid8 (fst p1) = render_pname uuid8 (fst p2) /\
  (forall its1 k1 c1 its2 k2 c2, snd p1 = its1 ++ [QKernel k1 c1] -> snd p2 = its2 ++ [QKernel k2 c2] ->
     render_kname uuid8 k1 = render_kname uuid8 k2).
Proof. exact openql_top_names. Qed.

Print Assumptions C15_partial.
Print Assumptions C15_refuted.
Print Assumptions C15_openql_in_order.
Print Assumptions C15_patched_walk_in_order.
Print Assumptions C15_table_documented.
Print Assumptions C15_names_deterministic.
Print Assumptions C15_top_names.
