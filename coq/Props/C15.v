(* C15 — OpenQL export is the in-order image of the circuit.
   Property theorems only; each closed by `exact <lemma>`; assumptions printed beneath.
   `ql_export` is the model of OpenQLCircuitFactoryManager.construct / _extend_kernel (as of /repo 40c98cf) over the listing
   tree (C15/Model.v): the structure of API calls it makes -- the model the correspondence run (`agree`) compares with the
   recorded calls; `executed p` = for each item of the program in the order added: a sub-program's executed calls, a kernel's
   calls; `ql_image t` the hand-written documented calls (C15/Spec.v) of the expanded listing (blocks in place, `reps`
   times); `ql_wf_tree` the statement's domain (whole non-negative wait durations, distinct qubits on a controlled-phase,
   repetition counts >= 1).  `ql_export t cid = Some p`: the export returned. *)
From Coq Require Import ZArith List Bool String.
Import ListNotations.
From QCE Require Import Base.Prelude C08.Tree C08.Model C15.Model C15.Spec C15.Proofs.
From Gen Require Import Tables.
Open Scope string_scope.
Open Scope list_scope.
Open Scope Z_scope.

(* the full statement, all trees (flat and nested, any repetition counts): the exported program executes exactly the
   documented calls of the expanded listing, in listing order (cz + barrier + two phase updates for a controlled-phase,
   waits with their duration, sub-circuits in place and `reps` times, unsupported kinds omitted), in one kernel, under the
   specified names *)
Theorem C15_openql_in_order : forall t cid p, ql_wf_tree t = true -> ql_export t cid = Some p ->
  executed p = ql_image t /\ p = (spec_pname t cid, [QKernel (spec_kname t) (ql_image t)]).
Proof. exact openql_in_order. Qed.

(* on that domain the export does return *)
Theorem C15_openql_total : forall t cid, ql_wf_tree t = true -> exists p, ql_export t cid = Some p.
Proof. exact openql_total. Qed.

(* outside the domain too: whenever the export returns it is one kernel holding the model-level calls of the expanded listing *)
Theorem C15_openql_walk : forall t cid p, ql_export t cid = Some p ->
  p = (PN 0 (base_of t cid), [QKernel (KN (key t)) (flat_map calls_list (expand t))])
  /\ Forall (fun l => leaf_calls l <> None) (expand t).
Proof. exact openql_walk. Qed.

(* the factory table is the documented one; each accepted operation makes exactly the documented calls *)
Theorem C15_table_documented : forall k g, doc_ql_gate k = Some g <-> openql_gate k = Some [KT_gate g QE_ids].
Proof. exact ql_table_documented. Qed.
Theorem C15_leaf_documented : forall l cs, ql_wf_leaf l = true -> leaf_calls l = Some cs -> cs = ql_spec_calls l.
Proof. exact ql_leaf_doc. Qed.

(* the same circuit always yields the same names: program and kernel names are a function of the class-name sequence of
   the decomposed listing (and the given id) only -- for every function standing for the uuid5 prefix *)
Theorem C15_names_deterministic : forall (uuid8 : list string -> string) t1 t2 cid p1 p2,
  map kind_name (key t1) = map kind_name (key t2) -> ql_export t1 cid = Some p1 -> ql_export t2 cid = Some p2 ->
  render_names uuid8 p1 = render_names uuid8 p2.
Proof. exact openql_names_deterministic. Qed.
Theorem C15_names_spec : forall (uuid8 : list string -> string) t cid p, ql_export t cid = Some p ->
  render_names uuid8 p = [match cid with Some s => s | None => ("program_" ++ uuid8 (map kind_name (key t)))%string end;
                          ("kernel_" ++ uuid8 (map kind_name (key t)))%string].
Proof. exact openql_names_spec. Qed.

(* HISTORY ONLY -- about `ql_export_old`, the walk of the code before commit 40c98cf (finding F7, fixed), not about the
   current code: sub-programs were added during the walk and the own kernel last; x180; block x1 [y90]; x90 executed y90 first *)
Theorem C15_old_walk_refuted : exists t, ql_wf_tree t = true /\
  exists p, ql_export_old t None = Some p /\ executed p <> ql_image t.
Proof. exact old_walk_refuted. Qed.

Print Assumptions C15_openql_in_order.
Print Assumptions C15_openql_total.
Print Assumptions C15_openql_walk.
Print Assumptions C15_table_documented.
Print Assumptions C15_leaf_documented.
Print Assumptions C15_names_deterministic.
Print Assumptions C15_names_spec.
Print Assumptions C15_old_walk_refuted.
