(* LIBBUILD x C10 -- no double-booking of a channel for the constructor program `rep_code_prog`, AS CONSTRUCTED, for EVERY
   cycle count.  Theorems only, each closed by `exact <lemma>`.

   Vocabulary: C10's `slisting` (symbolic max-plus listing), `sduration`, `cert_no_overlap` / `cert_strict` (decidable
   certificates), `no_overlap` / `barrier_clear` / `no_overlap_strict` on the Core model's observation `model_obs env ns`,
   admissible settings `env_nonneg`, `env_parity` (Props/C10.v).  `erase_nodes ns` / `erase_prog p` (LibBuild/CertCycles.v) = the
   graph / the build program with every repetition count set to 1.  `cc_lay_state D` = data values 1, 0, 1, 0, ... (one per data
   qubit of D).  `env0` = the environment Cert.v evaluates with (building never reads it: LibBuild_run_prog_env_indep).

   Why every cycle count: a repeated block is listed and timed ONCE by the scheduler (Core's ext_of / listing_op, C10's sext_of /
   slisting_op bind the count of an OComp to `_`), and building a circuit never reads a count, so the schedule of the circuit as
   constructed depends on the cycle count only through the SHAPE of the program, which is the same from four cycles on
   (LibBuild_qec_split_bulk).

   NOT covered: the UNROLLED circuit for every cycle count (apply_modifiers reads the counts, the graph grows with cycles;
   LibBuild_chain_no_overlap_partial has it for d = 2, 3 and 0..6 cycles); distance 4 beyond the listed states; distances
   >= 5 (only the reduction to the five certificates, LibBuild_rep_code_no_overlap_from_five_certificates); layouts with other
   states; the simplified / multi-round / calibration constructors. *)
From Coq Require Import ZArith List Bool.
Import ListNotations.
From QCE Require Import Base.Prelude Core.Model Core.Run Lib.Run C09.Model C10.Model C10.Run C10.Proofs
  LibBuild.Model LibBuild.Cert LibBuild.CertCycles LibBuild.CertCyclesProofs LibBuild.CertCyclesChain4
  LibBuild.CertCyclesLayoutDefs LibBuild.CertCyclesLayouts.
From Gen Require Import Layouts.
Open Scope Z_scope.

(* ---- (1) the symbolic scheduler does not read repetition counts: ANY relation graph *)
Theorem LibBuild_slisting_ignores_reps : forall ns, slisting (erase_nodes ns) = slisting ns.
Proof. exact slisting_erase. Qed.
Print Assumptions LibBuild_slisting_ignores_reps.

Theorem LibBuild_sduration_ignores_reps : forall ns, sduration (erase_nodes ns) = sduration ns.
Proof. exact sduration_erase. Qed.
Print Assumptions LibBuild_sduration_ignores_reps.

Theorem LibBuild_cert_ignores_reps : forall ns, cert_no_overlap (erase_nodes ns) = cert_no_overlap ns.
Proof. exact cert_no_overlap_erase. Qed.
Print Assumptions LibBuild_cert_ignores_reps.

Theorem LibBuild_cert_strict_ignores_reps : forall ns, cert_strict (erase_nodes ns) = cert_strict ns.
Proof. exact cert_strict_erase. Qed.
Print Assumptions LibBuild_cert_strict_ignores_reps.

(* ---- building does not read them either: ANY build program *)
Theorem LibBuild_run_prog_erase : forall env p, erase_nodes (run_prog env p) = run_prog env (erase_prog p).
Proof. exact run_prog_erase. Qed.
Print Assumptions LibBuild_run_prog_erase.

(* hence two programs that differ only in their counts have the same symbolic listing, certificates and duration *)
Theorem LibBuild_cert_same_shape : forall env p q, erase_prog p = erase_prog q ->
  cert_no_overlap (run_prog env p) = cert_no_overlap (run_prog env q) /\ cert_strict (run_prog env p) = cert_strict (run_prog env q)
  /\ sduration (run_prog env p) = sduration (run_prog env q).
Proof. exact cert_same_shape. Qed.
Print Assumptions LibBuild_cert_same_shape.

(* ---- the constructor: EVERY description, state, environment -- from four cycles on one certificate, one symbolic duration *)
Theorem LibBuild_rep_code_cert_bulk : forall env D init anc cycles, 4 <= cycles ->
  cert_no_overlap (run_prog env (rep_code_prog D init anc cycles)) = cert_no_overlap (run_prog env (rep_code_prog D init anc 4))
  /\ cert_strict (run_prog env (rep_code_prog D init anc cycles)) = cert_strict (run_prog env (rep_code_prog D init anc 4))
  /\ sduration (run_prog env (rep_code_prog D init anc cycles)) = sduration (run_prog env (rep_code_prog D init anc 4)).
Proof. exact rep_code_cert_bulk. Qed.
Print Assumptions LibBuild_rep_code_cert_bulk.

(* EVERY description and state: five evaluations of the strict certificate decide every cycle count and every admissible
   duration setting, for the circuit as constructed *)
Theorem LibBuild_rep_code_no_overlap_from_five_certificates : forall D init anc,
  (forall c, In c [0; 1; 2; 3; 4] -> cert_strict (run_prog env0 (rep_code_prog D init anc c)) = true) ->
  forall cycles, 0 <= cycles ->
    cert_strict (run_prog env0 (rep_code_prog D init anc cycles)) = true
    /\ cert_no_overlap (run_prog env0 (rep_code_prog D init anc cycles)) = true
    /\ forall env, env_nonneg env -> env_parity env ->
         let ns := run_prog env (rep_code_prog D init anc cycles) in
         no_overlap (o_ops (model_obs env ns)) = true /\ barrier_clear (o_ops (model_obs env ns)) = true
         /\ no_overlap_strict (o_ops (model_obs env ns)) = true.
Proof. exact rep_code_certified. Qed.
Print Assumptions LibBuild_rep_code_no_overlap_from_five_certificates.

(* ---- (2) chains of distance 2 and 3: both refocusing flags, EVERY list of data values, EVERY list of ancilla values (any
        length; the constructor reads the prefixes), EVERY cycle count *)
Theorem LibBuild_chain2_cert_all_cycles : forall rf init anc cycles, 0 <= cycles ->
  cert_strict (run_prog env0 (rep_code_prog (desc_of_chain 2 rf) init anc cycles)) = true
  /\ cert_no_overlap (run_prog env0 (rep_code_prog (desc_of_chain 2 rf) init anc cycles)) = true.
Proof. exact chain2_cert_all_cycles. Qed.
Print Assumptions LibBuild_chain2_cert_all_cycles.

Theorem LibBuild_chain3_cert_all_cycles : forall rf init anc cycles, 0 <= cycles ->
  cert_strict (run_prog env0 (rep_code_prog (desc_of_chain 3 rf) init anc cycles)) = true
  /\ cert_no_overlap (run_prog env0 (rep_code_prog (desc_of_chain 3 rf) init anc cycles)) = true.
Proof. exact chain3_cert_all_cycles. Qed.
Print Assumptions LibBuild_chain3_cert_all_cycles.

Theorem LibBuild_chain2_no_overlap_plain_all_cycles : forall rf init anc cycles, 0 <= cycles ->
  forall env, env_nonneg env -> env_parity env ->
    let ns := run_prog env (rep_code_prog (desc_of_chain 2 rf) init anc cycles) in
    no_overlap (o_ops (model_obs env ns)) = true /\ barrier_clear (o_ops (model_obs env ns)) = true
    /\ no_overlap_strict (o_ops (model_obs env ns)) = true.
Proof. exact chain2_no_overlap_plain_all_cycles. Qed.
Print Assumptions LibBuild_chain2_no_overlap_plain_all_cycles.

Theorem LibBuild_chain3_no_overlap_plain_all_cycles : forall rf init anc cycles, 0 <= cycles ->
  forall env, env_nonneg env -> env_parity env ->
    let ns := run_prog env (rep_code_prog (desc_of_chain 3 rf) init anc cycles) in
    no_overlap (o_ops (model_obs env ns)) = true /\ barrier_clear (o_ops (model_obs env ns)) = true
    /\ no_overlap_strict (o_ops (model_obs env ns)) = true.
Proof. exact chain3_no_overlap_plain_all_cycles. Qed.
Print Assumptions LibBuild_chain3_no_overlap_plain_all_cycles.

(* ---- distance 4, partial: every data state of length 4, ancilla state absent or all ONE *)
Theorem LibBuild_chain4_no_overlap_plain_all_cycles_partial : forall rf init anc cycles,
  List.length init = 4%nat -> anc = [] \/ anc = [true; true; true] -> 0 <= cycles ->
  forall env, env_nonneg env -> env_parity env ->
    let ns := run_prog env (rep_code_prog (desc_of_chain 4 rf) init anc cycles) in
    no_overlap (o_ops (model_obs env ns)) = true /\ barrier_clear (o_ops (model_obs env ns)) = true
    /\ no_overlap_strict (o_ops (model_obs env ns)) = true.
Proof. exact chain4_no_overlap_plain_all_cycles_partial. Qed.
Print Assumptions LibBuild_chain4_no_overlap_plain_all_cycles_partial.

(* ---- (3) the shipped layouts, partial in the state: all 82 contiguous sub-chains, both refocusing flags, ONE state each *)
Theorem LibBuild_layouts_cert_all_cycles_partial : forall L ch rf cycles, In (L, ch) all_layout_subchains -> 0 <= cycles ->
  let D := desc_of_layout L ch rf in
  cert_strict (run_prog env0 (rep_code_prog D (cc_lay_state D) [] cycles)) = true
  /\ cert_no_overlap (run_prog env0 (rep_code_prog D (cc_lay_state D) [] cycles)) = true.
Proof. exact layouts_cert_all_cycles. Qed.
Print Assumptions LibBuild_layouts_cert_all_cycles_partial.

Theorem LibBuild_layouts_no_overlap_plain_all_cycles_partial : forall L ch rf cycles,
  In (L, ch) all_layout_subchains -> 0 <= cycles ->
  forall env, env_nonneg env -> env_parity env ->
    let D := desc_of_layout L ch rf in
    let ns := run_prog env (rep_code_prog D (cc_lay_state D) [] cycles) in
    no_overlap (o_ops (model_obs env ns)) = true /\ barrier_clear (o_ops (model_obs env ns)) = true
    /\ no_overlap_strict (o_ops (model_obs env ns)) = true.
Proof. exact layouts_no_overlap_plain_all_cycles. Qed.
Print Assumptions LibBuild_layouts_no_overlap_plain_all_cycles_partial.
