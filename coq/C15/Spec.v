(* C15 — the statement's side: the documented OpenQL calls of each operation class, written by hand and independently
   of the generated tables (Gen/Tables.v) and of the exporter model (Model.v: leaf_calls, ql_export). *)
From Coq Require Import ZArith List Bool String.
Import ListNotations.
From QCE Require Import Base.Prelude C19.Model C08.Tree C08.Model C15.Model.
From Gen Require Import Tables.
Open Scope string_scope.
Open Scope list_scope.
Open Scope Z_scope.

Definition doc_ql_gate (k : kind) : option string :=
  match k with
  | K_Reset => Some "prepz"
  | K_Hadamard => Some "h"
  | K_Identity => Some "i"
  | K_DispersiveMeasure => Some "measure"
  | K_Rx180 => Some "x180"
  | K_Rx90 => Some "x90"
  | K_Rxm90 => Some "mx90"
  | K_Ry180 => Some "y180"
  | K_Ry90 => Some "y90"
  | K_Rym90 => Some "my90"
  | _ => None
  end.

(* a controlled-phase becomes cz, a barrier on its pair and a phase update on both qubits; a wait keeps its duration
   (given in quarter units in the listing tree); a barrier acts on its qubits; everything else: the named gate or nothing *)
Definition ql_spec_calls (l : leaf) : list qcall :=
  match l_kind l, l_qs l, l_args l with
  | K_CPhase, [c; t], _ => [QCz c t; QBarrier [c; t]; QGate "update_ph" [c]; QGate "update_ph" [t]]
  | K_Barrier, qs, _ => [QBarrier (nub Z.eqb qs)]
  | K_Wait, [q], [Some d] => [QWait [q] (d / 4)]
  | k, [q], _ => match doc_ql_gate k with Some g => [QGate g [q]] | None => [] end
  | _, _, _ => []
  end.

(* domain: operations that exist, distinct qubits on a controlled-phase, waits of a whole, non-negative number of time
   units (OpenQL's wait takes an unsigned integer), repetition counts >= 1 *)
Definition ql_wf_leaf (l : leaf) : bool :=
  shape_ok (l_kind l) (l_qs l) &&
  match l_kind l, l_qs l, l_args l with
  | K_CPhase, [c; t], _ => negb (c =? t)
  | K_Wait, _, [Some d] => (0 <=? d) && (d mod 4 =? 0)
  | K_Wait, _, _ => false
  | _, _, _ => true
  end.
Fixpoint ql_wf_item (i : item) : bool :=
  match i with
  | Leaf l => ql_wf_leaf l
  | Block n b => (1 <=? n) && forallb ql_wf_item b
  end.
Definition ql_wf_tree (t : list item) : bool := forallb ql_wf_item t.

(* the gates the exported program must execute, in order *)
Definition ql_image (t : list item) : list qcall := flat_map ql_spec_calls (expand t).

(* names: a function of the class-name sequence (or the given id) only *)
Definition spec_pname (t : list item) (cid : option string) : pname :=
  PN 0 (match cid with Some s => PB_id s | None => PB_hash (map l_kind (leaves t)) end).
Definition spec_kname (t : list item) : kname := KN (map l_kind (leaves t)).

Fixpoint kernel_names_item (i : qitem) : list kname :=
  match i with
  | QSub _ items => flat_map kernel_names_item items
  | QKernel n _ => [n]
  end.
Definition kernel_names (p : qprog) : list kname := flat_map kernel_names_item (snd p).   (* with multiplicity, as added *)
Definition is_raw (n : kname) : bool := match n with KRaw _ => true | KN _ => false end.

Fixpoint has_dup (l : list kname) : bool :=
  match l with [] => false | x :: r => existsb (kname_eqb x) r || has_dup r end.

(* per-qubit view of a gate sequence (what a compiler that only reorders commuting gates must preserve) *)
Definition gate_view (c : qcall) : list (string * list Z) :=
  match c with
  | QGate n qs => [(n, qs)]
  | QCz a b => [("cz", [a; b])]
  | QBarrier _ | QWait _ _ => []
  end.
Definition on_qubit (q : Z) (g : string * list Z) : bool := existsb (Z.eqb q) (snd g).
Definition gate_eqb (a b : string * list Z) : bool := String.eqb (fst a) (fst b) && leqb Z.eqb (snd a) (snd b).
Definition same_per_qubit (qs : list Z) (a b : list (string * list Z)) : bool :=
  forallb (fun q => leqb gate_eqb (filter (on_qubit q) a) (filter (on_qubit q) b)) qs.
