(* Case evaluation for the C15 correspondence run.
   agree   : the model (Model.ql_export / ql_events) applied to the listing tree = the structure and the call log the
             recording doubles observed; for the real-platform cases: OpenQL's `duplicate kernel name` error is raised
             exactly when the modelled structure adds a kernel name twice (with the current walk: never) and nothing else
             is raised.
   spec_ok : the statement of C15 on the implementation's output, without the exporter model: what the recorded program
             executes (sub-programs and kernels in the order added) is the in-order image (Spec.ql_spec_calls) of the
             expanded listing; names are the specified function of the class-name sequence and equal on a second build;
             with the real platform the export must succeed and the compiled cQASM keep every qubit's gate order. *)
From Coq Require Import ZArith List Bool String.
Import ListNotations.
From QCE Require Import Base.Prelude C08.Tree C08.Model C15.Model C15.Spec.
From Gen Require Import Tables.
Open Scope string_scope.
Open Scope list_scope.
Open Scope Z_scope.

Inductive case :=
| CRec (t : list item) (cid : option string)
       (res : option (qprog * list ev))            (* None: to_openql raised *)
       (names1 names2 : list string)               (* raw program/kernel names in creation order, first and second build *)
| CReal (t : list item)
        (dup_error : bool) (other_error : bool)    (* RuntimeError "duplicate kernel name" | any other exception *)
        (qasm : list (string * list Z)).           (* gates of the compiled cQASM (empty on error) *)

Definition agree (c : case) : bool :=
  match c with
  | CRec t cid res _ _ =>
      match ql_export t cid, ql_events t cid, res with
      | Some p, Some evs, Some (p', evs') => qprog_eqb p p' && leqb ev_eqb evs evs'
      | None, None, None => true
      | _, _, _ => false
      end
  | CReal t dup other _ =>
      match ql_export t (Some "id") with
      | Some p => Bool.eqb dup (has_dup (kernel_names p)) && negb other
      | None => false
      end
  end.

Definition last_is_kernel (n : kname) (items : list qitem) : bool :=
  match rev items with QKernel m _ :: _ => kname_eqb n m | _ => false end.

Definition spec_ok (c : case) : bool :=
  match c with
  | CRec t cid res n1 n2 =>
      if ql_wf_tree t then
        match res with
        | Some (p, _) =>
            leqb qcall_eqb (executed p) (ql_image t)
            && pname_eqb (fst p) (spec_pname t cid) && last_is_kernel (spec_kname t) (snd p)
            && negb (existsb is_raw (kernel_names p))
            && leqb String.eqb n1 n2
        | None => false
        end
      else true
  | CReal t dup other qasm =>
      if ql_wf_tree t then
        negb dup && negb other
        && same_per_qubit (flat_map l_qs (expand t)) qasm (flat_map gate_view (ql_image t))
      else true
  end.
