(* C15 — lemmas. *)
From Coq Require Import ZArith List Bool String Lia.
Import ListNotations.
From QCE Require Import Base.Prelude C19.Model C19.Proofs C08.Tree C08.Model C08.Proofs C15.Model C15.Spec.
From Gen Require Import Tables.
Open Scope string_scope.
Open Scope list_scope.
Open Scope Z_scope.

(* ------------------------------------------------------------------ one operation: model = documented calls *)
Definition calls_list (l : leaf) : list qcall := match leaf_calls l with Some cs => cs | None => [] end.

Ltac qcbn := cbn -[Z.add Z.sub Z.opp Z.leb Z.ltb Z.eqb Z.mul Z.quot Z.div Z.modulo unique_in_order nub].
Ltac qcbn_in H := cbn -[Z.add Z.sub Z.opp Z.leb Z.ltb Z.eqb Z.mul Z.quot Z.div Z.modulo unique_in_order nub] in H.

Lemma uio1 q : unique_in_order Z.eqb [q] = [q].
Proof. reflexivity. Qed.
Lemma uio_pair c t : c <> t -> unique_in_order Z.eqb [c; c; t; t] = [c; t].
Proof.
  intros N. unfold unique_in_order. simpl. rewrite !Z.eqb_refl. simpl.
  destruct (Z.eqb_spec t c) as [E|_]; [congruence|]. reflexivity.
Qed.

(* the generated factory table (the kernel calls each factory makes) against the hand-written documentation *)
Lemma ql_leaf_doc l cs : ql_wf_leaf l = true -> leaf_calls l = Some cs -> cs = ql_spec_calls l.
Proof.
  destruct l as [k qs a]. unfold ql_wf_leaf, leaf_calls, ql_spec_calls. cbn [l_kind l_qs l_args].
  destruct (shape_ok k qs) eqn:S; cbn [negb andb]; [|discriminate].
  destruct k; qcbn_in S.
  all: try (match type of S with context [Datatypes.length _] => destruct qs as [|q [|q2 [|q3 qs]]]; try discriminate S end).
  all: qcbn; try unfold eval_templ; try unfold eval_list; try unfold eval_int; try unfold eval_dur; try unfold qubits_of; try unfold channel_ids; qcbn.
  all: try (intros _ [= <-]; rewrite ?uio1; reflexivity).
  - (* Wait *)
    destruct a as [|[d|] [|? ?]]; qcbn; try discriminate.
    rewrite andb_true_iff, Z.leb_le. intros [D _] [= <-]. rewrite uio1. rewrite Z.quot_div_nonneg by lia. reflexivity.
  - (* CPhase *)
    rewrite negb_true_iff, Z.eqb_neq. intros N [= <-]. rewrite (uio_pair q q2 N). reflexivity.
  - (* Barrier *)
    intros _ [= <-]. rewrite app_nil_r. rewrite (unique_in_order_is_nub Z.eqb Z.eqb_eq). reflexivity.
  - (* CoordinateShiftOperation: not exported *)
    intros _ [= <-]. destruct qs as [|? [|? ?]]; reflexivity.
Qed.

Lemma ql_leaf_total l : ql_wf_leaf l = true -> exists cs, leaf_calls l = Some cs.
Proof.
  destruct l as [k qs a]. unfold ql_wf_leaf, leaf_calls. cbn [l_kind l_qs l_args].
  destruct (shape_ok k qs) eqn:S; cbn [negb andb]; [|discriminate].
  destruct k; qcbn_in S.
  all: try (match type of S with context [Datatypes.length _] => destruct qs as [|q [|q2 [|q3 qs]]]; try discriminate S end).
  all: qcbn; try unfold eval_templ; try unfold eval_list; try unfold eval_int; try unfold eval_dur; qcbn.
  all: try (intros _; eexists; reflexivity).
  destruct a as [|[d|] [|? ?]]; qcbn; try discriminate. intros _; eexists; reflexivity.
Qed.

Theorem ql_table_documented k g : doc_ql_gate k = Some g <-> openql_gate k = Some [KT_gate g QE_ids].
Proof. destruct k; simpl; split; intros H; try discriminate H; try (inversion H; reflexivity). Qed.

Theorem ql_table_rest k : doc_ql_gate k = None ->
  openql_gate k = match k with
                  | K_CPhase => Some [KT_cz (QE_q 0) (QE_q 1); KT_barrier QE_ids; KT_gate "update_ph" (QE_q 0); KT_gate "update_ph" (QE_q 1)]
                  | K_Barrier => Some [KT_barrier QE_ids]
                  | K_Wait => Some [KT_wait QE_ids DE_int_duration]
                  | _ => None
                  end.
Proof. destruct k; simpl; intros H; try discriminate H; reflexivity. Qed.

(* ------------------------------------------------------------------ flat circuits: the walk as coded *)
Definition run (st : wstate) : list qcall := flat_map exec_item (fst st) ++ snd st.

Lemma flat_walk t : has_block t = false ->
  forall n b st st', ofold (ql_item n b) t st = Some st' ->
    fst st' = fst st /\ snd st' = snd st ++ flat_map calls_list (expand t).
Proof.
  induction t as [|i t IH]; intros HB n b st st'; simpl.
  - intros [= <-]. now rewrite app_nil_r.
  - destruct i as [l|? ?]; [|discriminate HB]. simpl in HB. cbn [ql_item].
    destruct (leaf_calls l) as [cs|] eqn:E; [|discriminate].
    intros H. destruct (IH HB n b _ _ H) as [F S]. cbn [fst snd] in *. split; [exact F|].
    rewrite S. unfold expand. simpl.
    assert (C : calls_list l = cs) by (unfold calls_list; now rewrite E). rewrite C. now rewrite app_assoc.
Qed.

(* C15 for circuits without sub-circuits: the executed calls are the in-order image of the listing *)
Theorem openql_flat_in_order t cid p : has_block t = false -> ql_export t cid = Some p ->
  executed p = flat_map calls_list (expand t) /\ p = (PN 0 (base_of t cid), [QKernel (KN (key t)) (flat_map calls_list (expand t))]).
Proof.
  intros HB. unfold ql_export.
  destruct (ofold (ql_item 0 (base_of t cid)) t ([], [])) as [[its kc]|] eqn:E; [|discriminate].
  intros [= <-]. destruct (flat_walk t HB _ _ _ _ E) as [F S]. cbn [fst snd] in *. subst its kc.
  split; [|reflexivity]. unfold executed. simpl. now rewrite app_nil_r.
Qed.

Lemma wf_calls_image ls : forallb ql_wf_leaf ls = true -> Forall (fun l => leaf_calls l <> None) ls ->
  flat_map calls_list ls = flat_map ql_spec_calls ls.
Proof.
  induction ls as [|l ls IH]; simpl; [reflexivity|].
  rewrite andb_true_iff. intros [W Ws] F. inversion F as [|? ? Hl Hls]; subst.
  rewrite (IH Ws Hls). f_equal. unfold calls_list.
  destruct (leaf_calls l) as [cs|] eqn:E; [|congruence]. now apply ql_leaf_doc.
Qed.

Lemma forallb_rep_list {A} (f : A -> bool) n l : forallb f l = true -> forallb f (rep_list n l) = true.
Proof. intros H; induction n; simpl; [reflexivity | now rewrite forallb_app, H, IHn]. Qed.

Lemma wf_tree_expand t : ql_wf_tree t = true -> forallb ql_wf_leaf (expand t) = true.
Proof.
  unfold ql_wf_tree, expand. induction t as [|i t IHt]; [reflexivity|]. simpl.
  rewrite andb_true_iff, forallb_app. intros [Wi Wt]. rewrite (IHt Wt), andb_true_r. clear IHt Wt t.
  induction i as [l | n b IH] using item_ind'; simpl in *.
  - now rewrite Wi.
  - apply andb_true_iff in Wi. destruct Wi as [_ Wb]. apply forallb_rep_list.
    induction b as [|x b IHb]; [reflexivity|]. simpl in *. apply andb_true_iff in Wb. destruct Wb as [Wx Wb].
    inversion IH as [|? ? Hx Hb]; subst. rewrite forallb_app, (Hx Wx), (IHb Hb Wb). reflexivity.
Qed.

Theorem C15_partial_lemma t cid : has_block t = false -> ql_wf_tree t = true ->
  exists p, ql_export t cid = Some p /\ executed p = ql_image t
            /\ fst p = spec_pname t cid /\ snd p = [QKernel (spec_kname t) (ql_image t)].
Proof.
  intros HB W. pose proof (wf_tree_expand t W) as WL.
  assert (T : Forall (fun l => leaf_calls l <> None) (expand t)).
  { apply Forall_forall. intros l Hl. rewrite forallb_forall in WL. destruct (ql_leaf_total l (WL l Hl)) as [cs E]. congruence. }
  assert (D : exists st, ofold (ql_item 0 (base_of t cid)) t ([], []) = Some st).
  { generalize (@nil qitem, @nil qcall). generalize 0%nat, (base_of t cid). clear W WL.
    induction t as [|i t IH]; intros n b st; simpl; [eauto|].
    destruct i as [l|? ?]; [|discriminate HB]. simpl in HB. unfold expand in T. simpl in T. inversion T as [|? ? Hl Hr]; subst.
    cbn [ql_item]. destruct (leaf_calls l) as [cs|]; [|congruence]. apply IH; assumption. }
  destruct D as [[its kc] E].
  assert (X : ql_export t cid = Some (PN 0 (base_of t cid), its ++ [QKernel (KN (key t)) kc])) by (unfold ql_export; now rewrite E).
  destruct (openql_flat_in_order t cid _ HB X) as [Ex Ep].
  eexists. split; [exact X|]. rewrite Ex. unfold ql_image. rewrite (wf_calls_image _ WL T).
  split; [reflexivity|]. inversion Ep as [[Ei]]. rewrite Ei. cbn [fst snd]. unfold spec_pname, spec_kname, base_of, key.
  rewrite (wf_calls_image _ WL T). split; [destruct cid; reflexivity | reflexivity].
Qed.

(* ------------------------------------------------------------------ the walk as coded is not the in-order image *)
Definition f7_witness : list item :=
  [Leaf (MkLeaf K_Rx180 [0] []); Block 1 [Leaf (MkLeaf K_Ry90 [0] [])]; Leaf (MkLeaf K_Rx90 [0] [])].

Theorem C15_refuted_lemma : exists t, ql_wf_tree t = true /\
  exists p, ql_export t None = Some p /\ executed p <> ql_image t.
Proof.
  exists f7_witness. split; [reflexivity|]. eexists. split; [vm_compute; reflexivity|]. vm_compute. discriminate.
Qed.

(* what is executed instead: the sub-circuit first *)
Example f7_executed : option_map executed (ql_export f7_witness None)
                      = Some [QGate "y90" [0]; QGate "x180" [0]; QGate "x90" [0]].
Proof. vm_compute. reflexivity. Qed.

(* repetition count 2 / two blocks with equal class names: the same kernel name is added twice (OpenQL: duplicate kernel name) *)
Example f7b_duplicate : option_map (fun p => has_dup (kernel_names p))
  (ql_export [Leaf (MkLeaf K_Rx180 [0] []); Block 2 [Leaf (MkLeaf K_Ry90 [0] [])]; Leaf (MkLeaf K_Rx90 [0] [])] None) = Some true.
Proof. vm_compute. reflexivity. Qed.
Example f7c_duplicate : option_map (fun p => has_dup (kernel_names p))
  (ql_export [Block 1 [Leaf (MkLeaf K_Ry90 [0] [])]; Block 1 [Leaf (MkLeaf K_Ry90 [1] [])]] None) = Some true.
Proof. vm_compute. reflexivity. Qed.

(* ------------------------------------------------------------------ the corrected walk satisfies the statement *)
Section CorrectedWalk.
Variable fresh : nat -> list item -> kname.

Definition cwalk_ok (i : item) : Prop :=
  forall n b st st', qlc_item fresh n b i st = Some st' ->
    run st' = run st ++ flat_map calls_list (expand_item i) /\ Forall (fun l => leaf_calls l <> None) (expand_item i).

Lemma run_app_calls its kc cs : run (its, kc ++ cs) = run (its, kc) ++ cs.
Proof. unfold run. simpl. now rewrite app_assoc. Qed.

Lemma cofold_walk body : Forall cwalk_ok body ->
  forall n b st st', ofold (qlc_item fresh n b) body st = Some st' ->
    run st' = run st ++ flat_map calls_list (expand body) /\ Forall (fun l => leaf_calls l <> None) (expand body).
Proof.
  induction 1 as [|x r Hx _ IH]; intros n b st st'; simpl.
  - intros [= <-]. rewrite app_nil_r. split; [reflexivity | constructor].
  - destruct (qlc_item fresh n b x st) as [s1|] eqn:E1; [|discriminate]. intros E2.
    destruct (Hx _ _ _ _ E1) as [R1 O1]. destruct (IH _ _ _ _ E2) as [R2 O2]. split.
    + rewrite R2, R1. unfold expand. simpl. now rewrite flat_map_app, app_assoc.
    + unfold expand in *. simpl. apply Forall_app. split; assumption.
Qed.

Lemma flat_map_exec_rep n x : flat_map exec_item (rep_list n [x]) = rep_list n (exec_item x).
Proof. induction n as [|n IH]; simpl; [reflexivity | now rewrite IH]. Qed.

Lemma cwalk_item i : cwalk_ok i.
Proof.
  induction i as [l | reps body IH] using item_ind'; intros n b st st'; simpl.
  - unfold calls_list. destruct (leaf_calls l) as [cs|] eqn:E; [|discriminate]. intros [= <-].
    destruct st as [its kc]. cbn [fst snd]. rewrite run_app_calls, app_nil_r.
    split; [reflexivity | constructor; [congruence | constructor]].
  - destruct (ofold (qlc_item fresh (S n) b) body ([], [])) as [[its kc]|] eqn:E; [|discriminate]. intros [= <-].
    destruct (cofold_walk body IH _ _ _ _ E) as [R O]. unfold run in R. cbn [fst snd] in R. simpl in R.
    split; [|apply Forall_rep_list; exact O].
    unfold run. cbn [fst snd]. rewrite app_nil_r, flat_map_app. cbn [flat_map exec_item].
    rewrite flat_map_exec_rep. cbn [exec_item]. rewrite flat_map_app. cbn [flat_map exec_item]. rewrite app_nil_r, R.
    unfold expand. rewrite flat_map_rep_list. now rewrite <- !app_assoc.
Qed.

Theorem openql_in_order_lemma t cid p : qlc_export fresh t cid = Some p ->
  executed p = flat_map calls_list (expand t) /\ Forall (fun l => leaf_calls l <> None) (expand t).
Proof.
  unfold qlc_export. destruct (ofold (qlc_item fresh 0 (base_of t cid)) t ([], [])) as [[its kc]|] eqn:E; [|discriminate].
  intros [= <-].
  assert (A : Forall cwalk_ok t) by (apply Forall_forall; intros i _; apply cwalk_item).
  destruct (cofold_walk t A _ _ _ _ E) as [R O]. split; [|exact O].
  unfold executed, run in *. cbn [fst snd] in *. rewrite flat_map_app. simpl. now rewrite app_nil_r.
Qed.
End CorrectedWalk.

(* the statement of C15, for the corrected walk: on the statement's domain the executed calls are the documented image *)
Theorem openql_in_order_documented fresh t cid p : ql_wf_tree t = true -> qlc_export fresh t cid = Some p ->
  executed p = ql_image t.
Proof.
  intros W H. destruct (openql_in_order_lemma fresh t cid p H) as [E O]. rewrite E. unfold ql_image.
  apply wf_calls_image; [apply wf_tree_expand; exact W | exact O].
Qed.

Example corrected_on_witness :
  option_map executed (qlc_export (fun n _ => KRaw "k") f7_witness None)
  = Some [QGate "x180" [0]; QGate "y90" [0]; QGate "x90" [0]].
Proof. vm_compute. reflexivity. Qed.

(* ------------------------------------------------------------------ names *)
(* the listing with qubits and arguments erased *)
Inductive ktree := KLeaf (k : kind) | KBlock (reps : Z) (body : list ktree).
Fixpoint kinds_item (i : item) : ktree :=
  match i with Leaf l => KLeaf (l_kind l) | Block n b => KBlock n (map kinds_item b) end.
Definition kinds_tree (t : list item) : list ktree := map kinds_item t.

Fixpoint kkey_item (k : ktree) : list kind :=
  match k with KLeaf x => [x] | KBlock _ b => flat_map kkey_item b end.

Lemma key_kinds t : key t = flat_map kkey_item (kinds_tree t).
Proof.
  unfold key, leaves, kinds_tree. induction t as [|i t IHt]; [reflexivity|]. simpl. rewrite map_app, IHt. f_equal. clear IHt t.
  induction i as [l | n b IH] using item_ind'; [reflexivity|]. simpl.
  induction b as [|x b IHb]; [reflexivity|]. inversion IH as [|? ? Hx Hb]; subst. simpl. now rewrite map_app, Hx, (IHb Hb).
Qed.

(* names only: the structure with the calls erased *)
Inductive skel := SSub (n : pname) (items : list skel) | SKernel (n : kname).
Fixpoint skel_item (i : qitem) : skel :=
  match i with QSub n items => SSub n (map skel_item items) | QKernel n _ => SKernel n end.

(* the skeleton computed from the kinds alone *)
Fixpoint sk_item (nsub : nat) (base : pbase) (k : ktree) : list skel :=
  match k with
  | KLeaf _ => []
  | KBlock n b => rep_list (Z.to_nat n) [SSub (PN (S nsub) base) (flat_map (sk_item (S nsub) base) b ++ [SKernel (KN (flat_map kkey_item b))])]
  end.

Lemma map_rep_list {A B} (f : A -> B) n l : map f (rep_list n l) = rep_list n (map f l).
Proof. induction n; simpl; [reflexivity | now rewrite map_app, IHn]. Qed.

Definition nwalk_ok (i : item) : Prop :=
  forall n b st st', ql_item n b i st = Some st' -> map skel_item (fst st') = map skel_item (fst st) ++ sk_item n b (kinds_item i).

Lemma nofold_walk body : Forall nwalk_ok body ->
  forall n b st st', ofold (ql_item n b) body st = Some st' ->
    map skel_item (fst st') = map skel_item (fst st) ++ flat_map (sk_item n b) (kinds_tree body).
Proof.
  induction 1 as [|x r Hx _ IH]; intros n b st st'; simpl.
  - intros [= <-]. now rewrite app_nil_r.
  - destruct (ql_item n b x st) as [s1|] eqn:E1; [|discriminate]. intros E2.
    rewrite (IH _ _ _ _ E2), (Hx _ _ _ _ E1). now rewrite app_assoc.
Qed.

Lemma nwalk_item i : nwalk_ok i.
Proof.
  induction i as [l | reps body IH] using item_ind'; intros n b st st'; simpl.
  - destruct (leaf_calls l); [|discriminate]. intros [= <-]. simpl. now rewrite app_nil_r.
  - destruct (ofold (ql_item (S n) b) body ([], [])) as [[its kc]|] eqn:E; [|discriminate]. intros [= <-].
    pose proof (nofold_walk body IH _ _ _ _ E) as R. cbn [fst] in *. simpl in R.
    rewrite map_app, map_rep_list. simpl. rewrite map_app, R. simpl. rewrite key_kinds. reflexivity.
Qed.

Definition skel_prog (p : qprog) : pname * list skel := (fst p, map skel_item (snd p)).
Definition sk_prog (kt : list ktree) (cid : option string) : pname * list skel :=
  let base := match cid with Some s => PB_id s | None => PB_hash (flat_map kkey_item kt) end in
  (PN 0 base, flat_map (sk_item 0 base) kt ++ [SKernel (KN (flat_map kkey_item kt))]).

(* every program and kernel name of the export is a function of the class sequence of the listing (and the given id) *)
Theorem openql_names_lemma t cid p : ql_export t cid = Some p -> skel_prog p = sk_prog (kinds_tree t) cid.
Proof.
  unfold ql_export. destruct (ofold (ql_item 0 (base_of t cid)) t ([], [])) as [[its kc]|] eqn:E; [|discriminate].
  intros [= <-]. assert (A : Forall nwalk_ok t) by (apply Forall_forall; intros i _; apply nwalk_item).
  pose proof (nofold_walk t A _ _ _ _ E) as R. cbn [fst] in R. simpl in R.
  unfold skel_prog, sk_prog. unfold base_of in *. cbn [fst snd]. rewrite map_app, R. simpl. rewrite !key_kinds. reflexivity.
Qed.

Section Render.
(* the first 8 hex digits of uuid5(NAMESPACE_DNS, '_'.join(class names)): any function of the class-name sequence *)
Variable uuid8 : list string -> string.
Fixpoint subs (n : nat) (s : string) : string := match n with O => s | S k => "sub_" ++ subs k s end.
Definition render_pname (p : pname) : string :=
  match p with
  | PN n (PB_hash k) => subs n ("program_" ++ uuid8 (map kind_name k))
  | PN n (PB_id s) => subs n s
  end.
Definition render_kname (k : kname) : string :=
  match k with KN key => "kernel_" ++ uuid8 (map kind_name key) | KRaw s => s end.
Fixpoint render_skel (s : skel) : list string :=
  match s with
  | SSub n items => render_pname n :: flat_map render_skel items
  | SKernel n => [render_kname n]
  end.
Definition render_names (p : qprog) : list string :=
  render_pname (fst p) :: flat_map render_skel (map skel_item (snd p)).

(* same classes in the same nesting => the very same names, whatever the hash function *)
Theorem openql_names_deterministic t1 t2 cid p1 p2 :
  kinds_tree t1 = kinds_tree t2 -> ql_export t1 cid = Some p1 -> ql_export t2 cid = Some p2 ->
  render_names p1 = render_names p2.
Proof.
  intros K H1 H2. apply openql_names_lemma in H1. apply openql_names_lemma in H2. rewrite K in H1.
  assert (E : skel_prog p1 = skel_prog p2) by congruence. unfold skel_prog in E. inversion E as [[E1 E2]].
  unfold render_names. now rewrite E1, E2.
Qed.

(* the top-level names need only the class-NAME sequence of the decomposed listing *)
Theorem openql_top_names t1 t2 p1 p2 :
  map kind_name (key t1) = map kind_name (key t2) -> ql_export t1 None = Some p1 -> ql_export t2 None = Some p2 ->
  render_pname (fst p1) = render_pname (fst p2) /\
  (forall its1 k1 c1 its2 k2 c2, snd p1 = its1 ++ [QKernel k1 c1] -> snd p2 = its2 ++ [QKernel k2 c2] -> render_kname k1 = render_kname k2).
Proof.
  intros K H1 H2. unfold ql_export in *.
  destruct (ofold (ql_item 0 (base_of t1 None)) t1 ([], [])) as [[i1 c1]|]; [|discriminate].
  destruct (ofold (ql_item 0 (base_of t2 None)) t2 ([], [])) as [[i2 c2]|]; [|discriminate].
  inversion H1; subst p1. inversion H2; subst p2. cbn [fst snd base_of render_pname subs]. split.
  - now rewrite K.
  - intros a k1 x b k2 y E1 E2. apply app_inj_tail in E1. apply app_inj_tail in E2.
    destruct E1 as [_ E1], E2 as [_ E2]. inversion E1; inversion E2; subst. cbn [render_kname]. now rewrite K.
Qed.
End Render.

(* ------------------------------------------------------------------ the proposed repair (inline expansion) *)
Definition iwalk_ok (i : item) : Prop :=
  forall kc kc', qli_item i kc = Some kc' ->
    kc' = kc ++ flat_map calls_list (expand_item i) /\ Forall (fun l => leaf_calls l <> None) (expand_item i).

Lemma iofold_walk body : Forall iwalk_ok body ->
  forall kc kc', ofold qli_item body kc = Some kc' ->
    kc' = kc ++ flat_map calls_list (expand body) /\ Forall (fun l => leaf_calls l <> None) (expand body).
Proof.
  induction 1 as [|x r Hx _ IH]; intros kc kc'; simpl.
  - intros [= <-]. rewrite app_nil_r. split; [reflexivity | constructor].
  - destruct (qli_item x kc) as [k1|] eqn:E1; [|discriminate]. intros E2.
    destruct (Hx _ _ E1) as [R1 O1]. destruct (IH _ _ E2) as [R2 O2]. split.
    + rewrite R2, R1. unfold expand. simpl. now rewrite flat_map_app, app_assoc.
    + unfold expand in *. simpl. apply Forall_app. split; assumption.
Qed.

Lemma iwalk_item i : iwalk_ok i.
Proof.
  induction i as [l | reps body IH] using item_ind'; intros kc kc'; simpl.
  - unfold calls_list. destruct (leaf_calls l) as [cs|] eqn:E; [|discriminate]. intros [= <-].
    rewrite app_nil_r. split; [reflexivity | constructor; [congruence | constructor]].
  - pose proof (iofold_walk body IH) as W. unfold expand in W. rewrite flat_map_rep_list.
    generalize (Z.to_nat reps). intros n. revert kc kc'. induction n as [|n IHn]; intros kc kc'; simpl.
    + intros [= <-]. rewrite app_nil_r. split; [reflexivity | constructor].
    + destruct (ofold qli_item body kc) as [k1|] eqn:E1; [|discriminate]. intros E2.
      destruct (W _ _ E1) as [R1 O1]. destruct (IHn _ _ E2) as [R2 O2]. split.
      * rewrite R2, R1. now rewrite app_assoc.
      * apply Forall_app. split; assumption.
Qed.

Theorem openql_patched_in_order t cid p : ql_wf_tree t = true -> qli_export t cid = Some p ->
  executed p = ql_image t /\ p = (spec_pname t cid, [QKernel (spec_kname t) (ql_image t)]).
Proof.
  intros W. unfold qli_export. destruct (ofold qli_item t []) as [kc|] eqn:E; [|discriminate]. intros [= <-].
  assert (A : Forall iwalk_ok t) by (apply Forall_forall; intros i _; apply iwalk_item).
  destruct (iofold_walk t A _ _ E) as [R O]. simpl in R. subst kc.
  rewrite (wf_calls_image _ (wf_tree_expand t W) O). fold (ql_image t). split.
  - unfold executed. simpl. now rewrite app_nil_r.
  - unfold spec_pname, spec_kname, base_of, key. destruct cid; reflexivity.
Qed.

Example patched_on_witness :
  option_map executed (qli_export f7_witness None) = Some [QGate "x180" [0]; QGate "y90" [0]; QGate "x90" [0]].
Proof. vm_compute. reflexivity. Qed.

(* ------------------------------------------------------------------ non-vacuity of C15_partial and of the name theorems *)
Definition flat_example : list item :=
  [Leaf (MkLeaf K_Rx180 [0] []); Leaf (MkLeaf K_CPhase [0; 1] []); Leaf (MkLeaf K_Wait [1] [Some 12]);
   Leaf (MkLeaf K_VirtualPhase [0] []); Leaf (MkLeaf K_Barrier [0; 1; 1] []); Leaf (MkLeaf K_DispersiveMeasure [0] [])].

Example partial_nonvacuous :
  has_block flat_example = false /\ ql_wf_tree flat_example = true /\
  option_map executed (ql_export flat_example (Some "id"))
  = Some [QGate "x180" [0]; QCz 0 1; QBarrier [0; 1]; QGate "update_ph" [0]; QGate "update_ph" [1]; QWait [1] 3;
          QBarrier [0; 1]; QGate "measure" [0]].
Proof. repeat split; vm_compute; reflexivity. Qed.

Example names_nonvacuous :
  let t1 := [Leaf (MkLeaf K_Rx180 [0] []); Block 2 [Leaf (MkLeaf K_Ry90 [0] [])]] in
  let t2 := [Leaf (MkLeaf K_Rx180 [3] []); Block 2 [Leaf (MkLeaf K_Ry90 [1] [])]] in
  kinds_tree t1 = kinds_tree t2 /\ ql_export t1 None <> None /\ ql_export t2 None <> None /\ t1 <> t2.
Proof. cbn. repeat split; discriminate. Qed.
