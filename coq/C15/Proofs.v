(* C15 — lemmas. *)
From Coq Require Import ZArith List Bool String Lia.
Import ListNotations.
From QCE Require Import Base.Prelude C19.Model C19.Proofs C08.Tree C08.Model C08.Proofs C15.Model C15.Spec.
From Gen Require Import Tables.
Open Scope string_scope.
Open Scope list_scope.
Open Scope Z_scope.

(* ------------------------------------------------------------------ one operation: model = documented calls *)
Definition calls_list (l : leaf) : list qcall := match leaf_calls l with Some cs => cs | None => [] end.

Ltac qcbn := cbn -[Z.add Z.sub Z.opp Z.leb Z.ltb Z.eqb Z.mul Z.quot Z.div Z.modulo unique_in_order nub].
Ltac qcbn_in H := cbn -[Z.add Z.sub Z.opp Z.leb Z.ltb Z.eqb Z.mul Z.quot Z.div Z.modulo unique_in_order nub] in H.

Lemma uio1 q : unique_in_order Z.eqb [q] = [q].
Proof. reflexivity. Qed.
Lemma uio_pair c t : c <> t -> unique_in_order Z.eqb [c; c; t; t] = [c; t].
Proof.
  intros N. unfold unique_in_order. simpl. rewrite !Z.eqb_refl. simpl.
  destruct (Z.eqb_spec t c) as [E|_]; [congruence|]. reflexivity.
Qed.

(* the generated factory table (the kernel calls each factory makes) against the hand-written documentation *)
Lemma ql_leaf_doc l cs : ql_wf_leaf l = true -> leaf_calls l = Some cs -> cs = ql_spec_calls l.
Proof.
  destruct l as [k qs a]. unfold ql_wf_leaf, leaf_calls, ql_spec_calls. cbn [l_kind l_qs l_args].
  destruct (shape_ok k qs) eqn:S; cbn [negb andb]; [|discriminate].
  destruct k; qcbn_in S.
  all: try (match type of S with context [Datatypes.length _] => destruct qs as [|q [|q2 [|q3 qs]]]; try discriminate S end).
  all: qcbn; try unfold eval_templ; try unfold eval_list; try unfold eval_int; try unfold eval_dur; try unfold qubits_of; try unfold channel_ids; qcbn.
  all: try (intros _ [= <-]; rewrite ?uio1; reflexivity).
  - (* Wait *)
    destruct a as [|[d|] [|? ?]]; qcbn; try discriminate.
    rewrite andb_true_iff, Z.leb_le. intros [D _] [= <-]. rewrite uio1. rewrite Z.quot_div_nonneg by lia. reflexivity.
  - (* CPhase *)
    rewrite negb_true_iff, Z.eqb_neq. intros N [= <-]. rewrite (uio_pair q q2 N). reflexivity.
  - (* Barrier *)
    intros _ [= <-]. rewrite app_nil_r. rewrite (unique_in_order_is_nub Z.eqb Z.eqb_eq). reflexivity.
  - (* CoordinateShiftOperation: not exported *)
    intros _ [= <-]. destruct qs as [|? [|? ?]]; reflexivity.
Qed.

Lemma ql_leaf_total l : ql_wf_leaf l = true -> exists cs, leaf_calls l = Some cs.
Proof.
  destruct l as [k qs a]. unfold ql_wf_leaf, leaf_calls. cbn [l_kind l_qs l_args].
  destruct (shape_ok k qs) eqn:S; cbn [negb andb]; [|discriminate].
  destruct k; qcbn_in S.
  all: try (match type of S with context [Datatypes.length _] => destruct qs as [|q [|q2 [|q3 qs]]]; try discriminate S end).
  all: qcbn; try unfold eval_templ; try unfold eval_list; try unfold eval_int; try unfold eval_dur; qcbn.
  all: try (intros _; eexists; reflexivity).
  destruct a as [|[d|] [|? ?]]; qcbn; try discriminate. intros _; eexists; reflexivity.
Qed.

Theorem ql_table_documented k g : doc_ql_gate k = Some g <-> openql_gate k = Some [KT_gate g QE_ids].
Proof. destruct k; simpl; split; intros H; try discriminate H; try (inversion H; reflexivity). Qed.

Theorem ql_table_rest k : doc_ql_gate k = None ->
  openql_gate k = match k with
                  | K_CPhase => Some [KT_cz (QE_q 0) (QE_q 1); KT_barrier QE_ids; KT_gate "update_ph" (QE_q 0); KT_gate "update_ph" (QE_q 1)]
                  | K_Barrier => Some [KT_barrier QE_ids]
                  | K_Wait => Some [KT_wait QE_ids DE_int_duration]
                  | _ => None
                  end.
Proof. destruct k; simpl; intros H; try discriminate H; reflexivity. Qed.

(* ------------------------------------------------------------------ the walk *)
Lemma wf_calls_image ls : forallb ql_wf_leaf ls = true -> Forall (fun l => leaf_calls l <> None) ls ->
  flat_map calls_list ls = flat_map ql_spec_calls ls.
Proof.
  induction ls as [|l ls IH]; simpl; [reflexivity|].
  rewrite andb_true_iff. intros [W Ws] F. inversion F as [|? ? Hl Hls]; subst.
  rewrite (IH Ws Hls). f_equal. unfold calls_list.
  destruct (leaf_calls l) as [cs|] eqn:E; [|congruence]. now apply ql_leaf_doc.
Qed.

Lemma forallb_rep_list {A} (f : A -> bool) n l : forallb f l = true -> forallb f (rep_list n l) = true.
Proof. intros H; induction n; simpl; [reflexivity | now rewrite forallb_app, H, IHn]. Qed.

Lemma wf_tree_expand t : ql_wf_tree t = true -> forallb ql_wf_leaf (expand t) = true.
Proof.
  unfold ql_wf_tree, expand. induction t as [|i t IHt]; [reflexivity|]. simpl.
  rewrite andb_true_iff, forallb_app. intros [Wi Wt]. rewrite (IHt Wt), andb_true_r. clear IHt Wt t.
  induction i as [l | n b IH] using item_ind'; simpl in *.
  - now rewrite Wi.
  - apply andb_true_iff in Wi. destruct Wi as [_ Wb]. apply forallb_rep_list.
    induction b as [|x b IHb]; [reflexivity|]. simpl in *. apply andb_true_iff in Wb. destruct Wb as [Wx Wb].
    inversion IH as [|? ? Hx Hb]; subst. rewrite forallb_app, (Hx Wx), (IHb Hb Wb). reflexivity.
Qed.

Definition walk_ok (i : item) : Prop :=
  forall kc kc', ql_item i kc = Some kc' ->
    kc' = kc ++ flat_map calls_list (expand_item i) /\ Forall (fun l => leaf_calls l <> None) (expand_item i).

Lemma ofold_walk body : Forall walk_ok body ->
  forall kc kc', ofold ql_item body kc = Some kc' ->
    kc' = kc ++ flat_map calls_list (expand body) /\ Forall (fun l => leaf_calls l <> None) (expand body).
Proof.
  induction 1 as [|x r Hx _ IH]; intros kc kc'; simpl.
  - intros [= <-]. rewrite app_nil_r. split; [reflexivity | constructor].
  - destruct (ql_item x kc) as [k1|] eqn:E1; [|discriminate]. intros E2.
    destruct (Hx _ _ E1) as [R1 O1]. destruct (IH _ _ E2) as [R2 O2]. split.
    + rewrite R2, R1. unfold expand. simpl. now rewrite flat_map_app, app_assoc.
    + unfold expand in *. simpl. apply Forall_app. split; assumption.
Qed.

Lemma walk_item i : walk_ok i.
Proof.
  induction i as [l | reps body IH] using item_ind'; intros kc kc'; simpl.
  - unfold calls_list. destruct (leaf_calls l) as [cs|] eqn:E; [|discriminate]. intros [= <-].
    rewrite app_nil_r. split; [reflexivity | constructor; [congruence | constructor]].
  - pose proof (ofold_walk body IH) as W. unfold expand in W. rewrite flat_map_rep_list.
    generalize (Z.to_nat reps). intros n. revert kc kc'. induction n as [|n IHn]; intros kc kc'; simpl.
    + intros [= <-]. rewrite app_nil_r. split; [reflexivity | constructor].
    + destruct (ofold ql_item body kc) as [k1|] eqn:E1; [|discriminate]. intros E2.
      destruct (W _ _ E1) as [R1 O1]. destruct (IHn _ _ E2) as [R2 O2]. split.
      * rewrite R2, R1. now rewrite app_assoc.
      * apply Forall_app. split; assumption.
Qed.

(* the export, whenever it returns: one kernel holding the in-order image of the expanded listing (model-level calls) *)
Theorem openql_walk t cid p : ql_export t cid = Some p ->
  p = (PN 0 (base_of t cid), [QKernel (KN (key t)) (flat_map calls_list (expand t))])
  /\ Forall (fun l => leaf_calls l <> None) (expand t).
Proof.
  unfold ql_export. destruct (ofold ql_item t []) as [kc|] eqn:E; [|discriminate]. intros [= <-].
  assert (A : Forall walk_ok t) by (apply Forall_forall; intros i _; apply walk_item).
  destruct (ofold_walk t A _ _ E) as [R O]. simpl in R. subst kc. split; [reflexivity | exact O].
Qed.

(* C15, in full: on the statement's domain the executed calls are the documented image of the expanded listing -- every
   tree, any nesting, any repetition counts -- in one kernel, under the specified names *)
Theorem openql_in_order t cid p : ql_wf_tree t = true -> ql_export t cid = Some p ->
  executed p = ql_image t /\ p = (spec_pname t cid, [QKernel (spec_kname t) (ql_image t)]).
Proof.
  intros W H. destruct (openql_walk t cid p H) as [-> O].
  rewrite (wf_calls_image _ (wf_tree_expand t W) O). fold (ql_image t). split.
  - unfold executed. simpl. now rewrite app_nil_r.
  - unfold spec_pname, spec_kname, base_of, key. destruct cid; reflexivity.
Qed.

(* ... and on that domain the export does return *)
Definition total_ok (i : item) : Prop := ql_wf_item i = true -> forall kc, exists kc', ql_item i kc = Some kc'.

Lemma ofold_total body : Forall total_ok body -> forallb ql_wf_item body = true -> forall kc, exists kc', ofold ql_item body kc = Some kc'.
Proof.
  induction 1 as [|x r Hx _ IH]; simpl; intros W kc; [eauto|].
  apply andb_true_iff in W. destruct W as [Wx Wr]. destruct (Hx Wx kc) as [k1 E1]. rewrite E1. apply IH; assumption.
Qed.

Lemma total_item i : total_ok i.
Proof.
  induction i as [l | reps body IH] using item_ind'; intros W kc; simpl in *.
  - destruct (ql_leaf_total l W) as [cs E]. rewrite E. eauto.
  - apply andb_true_iff in W. destruct W as [_ Wb]. pose proof (ofold_total body IH Wb) as T.
    generalize (Z.to_nat reps). intros n. revert kc. induction n as [|n IHn]; intros kc; simpl; [eauto|].
    destruct (T kc) as [k1 E1]. rewrite E1. apply IHn.
Qed.

Theorem openql_total t cid : ql_wf_tree t = true -> exists p, ql_export t cid = Some p.
Proof.
  intros W. unfold ql_export.
  assert (A : Forall total_ok t) by (apply Forall_forall; intros i _; apply total_item).
  destruct (ofold_total t A W []) as [kc E]. rewrite E. eauto.
Qed.

(* ------------------------------------------------------------------ names *)
Section Render.
(* the first 8 hex digits of uuid5(NAMESPACE_DNS, '_'.join(class names)): any function of the class-name sequence *)
Variable uuid8 : list string -> string.
Fixpoint subs (n : nat) (s : string) : string := match n with O => s | S k => "sub_" ++ subs k s end.
Definition render_pname (p : pname) : string :=
  match p with
  | PN n (PB_hash k) => subs n ("program_" ++ uuid8 (map kind_name k))
  | PN n (PB_id s) => subs n s
  end.
Definition render_kname (k : kname) : string :=
  match k with KN key => "kernel_" ++ uuid8 (map kind_name key) | KRaw s => s end.
Fixpoint render_item (i : qitem) : list string :=
  match i with
  | QSub n items => render_pname n :: flat_map render_item items
  | QKernel n _ => [render_kname n]
  end.
(* every program and kernel name of an export, in the order the objects appear *)
Definition render_names (p : qprog) : list string := render_pname (fst p) :: flat_map render_item (snd p).

(* the same class-name sequence (and the same circuit_id, if one is given) => the very same names, whatever the hash *)
Theorem openql_names_deterministic t1 t2 cid p1 p2 :
  map kind_name (key t1) = map kind_name (key t2) -> ql_export t1 cid = Some p1 -> ql_export t2 cid = Some p2 ->
  render_names p1 = render_names p2.
Proof.
  intros K H1 H2. destruct (openql_walk _ _ _ H1) as [-> _]. destruct (openql_walk _ _ _ H2) as [-> _].
  unfold render_names, base_of. cbn [fst snd flat_map render_item render_kname app].
  destruct cid; cbn [render_pname subs]; now rewrite ?K.
Qed.

Theorem openql_names_spec t cid p : ql_export t cid = Some p ->
  render_names p = [match cid with Some s => s | None => ("program_" ++ uuid8 (map kind_name (key t)))%string end;
                    ("kernel_" ++ uuid8 (map kind_name (key t)))%string].
Proof. intros H. destruct (openql_walk _ _ _ H) as [-> _]. destruct cid; reflexivity. Qed.
End Render.

(* ------------------------------------------------------------------ non-vacuity *)
Definition f7_witness : list item :=
  [Leaf (MkLeaf K_Rx180 [0] []); Block 1 [Leaf (MkLeaf K_Ry90 [0] [])]; Leaf (MkLeaf K_Rx90 [0] [])].
Definition nested_example : list item :=
  [Leaf (MkLeaf K_Rx180 [0] []); Leaf (MkLeaf K_CPhase [0; 1] []);
   Block 2 [Leaf (MkLeaf K_Ry90 [0] []); Block 3 [Leaf (MkLeaf K_Wait [1] [Some 12]); Leaf (MkLeaf K_VirtualPhase [0] [])];
            Leaf (MkLeaf K_Barrier [0; 1; 1] [])];
   Leaf (MkLeaf K_DispersiveMeasure [0] [])].

Example in_order_nonvacuous :
  ql_wf_tree nested_example = true /\
  option_map executed (ql_export nested_example (Some "id"))
  = Some [QGate "x180" [0]; QCz 0 1; QBarrier [0; 1]; QGate "update_ph" [0]; QGate "update_ph" [1];
          QGate "y90" [0]; QWait [1] 3; QWait [1] 3; QWait [1] 3; QBarrier [0; 1];
          QGate "y90" [0]; QWait [1] 3; QWait [1] 3; QWait [1] 3; QBarrier [0; 1];
          QGate "measure" [0]].
Proof. split; vm_compute; reflexivity. Qed.

Example f7_witness_now :
  option_map executed (ql_export f7_witness None) = Some [QGate "x180" [0]; QGate "y90" [0]; QGate "x90" [0]].
Proof. vm_compute. reflexivity. Qed.

Example names_nonvacuous :
  let t1 := [Leaf (MkLeaf K_Rx180 [0] []); Block 2 [Leaf (MkLeaf K_Ry90 [0] [])]] in
  let t2 := [Block 1 [Leaf (MkLeaf K_Rx180 [3] [])]; Leaf (MkLeaf K_Ry90 [1] [])] in
  map kind_name (key t1) = map kind_name (key t2) /\ ql_export t1 None <> None /\ ql_export t2 None <> None /\ t1 <> t2.
Proof. cbn. repeat split; discriminate. Qed.

(* ------------------------------------------------------------------ history: the walk before 40c98cf (finding F7) *)
(* (a) it executed sub-circuits before all of the parent's own gates *)
Theorem old_walk_refuted : exists t, ql_wf_tree t = true /\
  exists p, ql_export_old t None = Some p /\ executed p <> ql_image t.
Proof.
  exists f7_witness. split; [reflexivity|]. eexists. split; [vm_compute; reflexivity|]. vm_compute. discriminate.
Qed.
Example old_walk_executed : option_map executed (ql_export_old f7_witness None)
                            = Some [QGate "y90" [0]; QGate "x180" [0]; QGate "x90" [0]].
Proof. vm_compute. reflexivity. Qed.
(* (b), (c) repetition count 2 / two blocks with equal class names added the same kernel name twice (OpenQL: duplicate kernel name) *)
Example old_walk_duplicate_b : option_map (fun p => has_dup (kernel_names p))
  (ql_export_old [Leaf (MkLeaf K_Rx180 [0] []); Block 2 [Leaf (MkLeaf K_Ry90 [0] [])]; Leaf (MkLeaf K_Rx90 [0] [])] None) = Some true.
Proof. vm_compute. reflexivity. Qed.
Example old_walk_duplicate_c : option_map (fun p => has_dup (kernel_names p))
  (ql_export_old [Block 1 [Leaf (MkLeaf K_Ry90 [0] [])]; Block 1 [Leaf (MkLeaf K_Ry90 [1] [])]] None) = Some true.
Proof. vm_compute. reflexivity. Qed.
(* the current walk never does *)
Lemma no_duplicate_now t cid p : ql_export t cid = Some p -> has_dup (kernel_names p) = false.
Proof. intros H. destruct (openql_walk _ _ _ H) as [-> _]. reflexivity. Qed.
