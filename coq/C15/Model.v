(* C15 — executable model of the OpenQL export (addon_openql/intrf_openql_factory.py: OpenQLCircuitFactoryManager.construct
   and _extend_kernel, as of /repo commit 40c98cf) as the sequence of calls it makes on the OpenQL API.  No proofs here.

   * construct creates ONE Program and ONE Kernel, `result_program.add_kernel(self._extend_kernel(process_circuit, kernel))`;
   * _extend_kernel walks `_circuit_graph.get_node_iterator()` (the listing tree of C08/Tree.v); a supported leaf extends the
     kernel through its factory (Gen/Tables.v `openql_gate`: the kernel calls of each factory, translated from the
     source); a composite is expanded in place: `for i in range(nr_of_repetitions): kernel = self._extend_kernel(operation,
     kernel)`; afterwards the composite's own class is looked up in the table (it is no key: `continue`);
   * names: program_<h>, kernel_<h> with h = first 8 hex digits of uuid5(NAMESPACE_DNS, '_'.join(class names of
     decomposed_operations())); a given circuit_id replaces the program name.  Names are kept symbolic here (the hash is an
     arbitrary function; see the render functions in Proofs).

   The walk of the code BEFORE 40c98cf (sub-programs added during the walk, own kernel last: finding F7) is kept at the end
   as `ql_export_old`, for the record only. *)
From Coq Require Import ZArith List Bool String.
Import ListNotations.
From QCE Require Import Base.Prelude C19.Model C08.Tree C08.Model.
From Gen Require Import Tables.
Open Scope string_scope.
Open Scope list_scope.
Open Scope Z_scope.

(* ------------------------------------------------------------------------------------------ API calls *)
Inductive qcall :=
| QGate (name : string) (qs : list Z)        (* kernel.gate(name, qubits)  (a single int is recorded as [q]) *)
| QCz (c t : Z)                              (* kernel.cz(c, t) *)
| QBarrier (qs : list Z)                     (* kernel.barrier(qubits) *)
| QWait (qs : list Z) (dur : Z).             (* kernel.wait(qubits=, duration=) *)

Definition qcall_eqb (a b : qcall) : bool :=
  match a, b with
  | QGate n1 q1, QGate n2 q2 => String.eqb n1 n2 && leqb Z.eqb q1 q2
  | QCz a1 b1, QCz a2 b2 => (a1 =? a2) && (b1 =? b2)
  | QBarrier q1, QBarrier q2 => leqb Z.eqb q1 q2
  | QWait q1 d1, QWait q2 d2 => leqb Z.eqb q1 q2 && (d1 =? d2)
  | _, _ => false
  end.

(* symbolic names *)
Inductive pbase := PB_hash (key : list kind) | PB_id (s : string).   (* program_<h(key)> | the given circuit_id *)
Inductive pname := PN (nsub : nat) (base : pbase).                   (* "sub_" * nsub + base *)
Inductive kname := KN (key : list kind) | KRaw (s : string).         (* kernel_<h(key)> | (driver only) an unrecognised name *)

Definition kinds_eqb : list kind -> list kind -> bool := leqb kind_eqb.
Definition pbase_eqb (a b : pbase) : bool :=
  match a, b with PB_hash x, PB_hash y => kinds_eqb x y | PB_id x, PB_id y => String.eqb x y | _, _ => false end.
Definition pname_eqb (a b : pname) : bool :=
  match a, b with PN n x, PN m y => Nat.eqb n m && pbase_eqb x y end.
Definition kname_eqb (a b : kname) : bool :=
  match a, b with KN x, KN y => kinds_eqb x y | KRaw x, KRaw y => String.eqb x y | _, _ => false end.

(* the class-name sequence of decomposed_operations(): every leaf once, in listing order *)
Definition key (t : list item) : list kind := map l_kind (leaves t).

(* ------------------------------------------------------------------------------------------ one operation *)
Definition eval_list (l : leaf) (e : qexpr) : option (list Z) :=
  match e with
  | QE_ids => Some (qubits_of (l_kind l) (l_qs l))                       (* get_qubit_index(operation) *)
  | QE_q i => match nth_error (l_qs l) i with Some q => Some [q] | None => None end   (* a bare int; recorded as [q] *)
  end.
Definition eval_int (l : leaf) (e : qexpr) : option Z :=
  match e with
  | QE_q i => nth_error (l_qs l) i
  | QE_ids => None
  end.
(* int(operation.duration): truncation towards zero of a duration given in quarter units *)
Definition eval_dur (l : leaf) (d : dexpr) : option Z :=
  match d, l_args l with
  | DE_int_duration, [Some ticks] => Some (Z.quot ticks 4)
  | _, _ => None
  end.
Definition eval_templ (l : leaf) (t : ktempl) : option qcall :=
  match t with
  | KT_gate n q => match eval_list l q with Some qs => Some (QGate n qs) | None => None end
  | KT_cz a b => match eval_int l a, eval_int l b with Some x, Some y => Some (QCz x y) | _, _ => None end
  | KT_barrier q => match eval_list l q with Some qs => Some (QBarrier qs) | None => None end
  | KT_wait q d => match eval_list l q, eval_dur l d with Some qs, Some x => Some (QWait qs x) | _, _ => None end
  end.
(* the kernel calls of one leaf: [] when its class is not a key of the table (`continue`) *)
Definition leaf_calls (l : leaf) : option (list qcall) :=
  if negb (shape_ok (l_kind l) (l_qs l)) then None
  else match openql_gate (l_kind l) with
       | None => Some []
       | Some ts => opt_all (map (eval_templ l) ts)
       end.

(* ------------------------------------------------------------------------------------------ the exported structure *)
Inductive qitem :=
| QSub (name : pname) (items : list qitem)        (* program.add_program(inner) *)
| QKernel (name : kname) (calls : list qcall).    (* program.add_kernel(kernel) *)
Definition qprog : Type := pname * list qitem.

Fixpoint qitem_eqb (a b : qitem) : bool :=
  match a, b with
  | QSub n x, QSub m y => pname_eqb n m && leqb qitem_eqb x y
  | QKernel n x, QKernel m y => kname_eqb n m && leqb qcall_eqb x y
  | _, _ => false
  end.
Definition qprog_eqb (a b : qprog) : bool := pname_eqb (fst a) (fst b) && leqb qitem_eqb (snd a) (snd b).

(* what the program executes: sub-programs and kernels in the order they were added *)
Fixpoint exec_item (i : qitem) : list qcall :=
  match i with
  | QSub _ items => flat_map exec_item items
  | QKernel _ calls => calls
  end.
Definition executed (p : qprog) : list qcall := flat_map exec_item (snd p).

(* ------------------------------------------------------------------------------------------ the walk *)
Section IterO.
Context {S : Type} (f : S -> option S).
Fixpoint iter_o (n : nat) (s : S) : option S :=
  match n with
  | O => Some s
  | Datatypes.S k => match f s with Some s' => iter_o k s' | None => None end
  end.
End IterO.

(* _extend_kernel: the state is the list of calls made on the kernel so far *)
Fixpoint ql_item (i : item) (kc : list qcall) : option (list qcall) :=
  match i with
  | Leaf l => match leaf_calls l with Some cs => Some (kc ++ cs) | None => None end
  | Block n body => iter_o (ofold ql_item body) (Z.to_nat n) kc     (* range(n) is empty for n <= 0 *)
  end.
Definition base_of (t : list item) (cid : option string) : pbase :=
  match cid with Some s => PB_id s | None => PB_hash (key t) end.
Definition ql_export (t : list item) (cid : option string) : option qprog :=
  match ofold ql_item t [] with
  | Some kc => Some (PN 0 (base_of t cid), [QKernel (KN (key t)) kc])
  | None => None
  end.

(* ------------------------------------------------------------------------------------------ the call log *)
(* every API call in the order it is made; programs and kernels are numbered in creation order *)
Inductive ev :=
| ENewProg (name : pname)             (* PlatformManager.construct_program(name) *)
| ENewKernel (name : kname)           (* PlatformManager.construct_kernel(name) *)
| ECall (k : nat) (c : qcall)         (* a call on kernel number k *)
| EAddProg (parent child : nat)       (* program[parent].add_program(program[child]) *)
| EAddKernel (p k : nat).             (* program[p].add_kernel(kernel[k]) *)

Definition ev_eqb (a b : ev) : bool :=
  match a, b with
  | ENewProg x, ENewProg y => pname_eqb x y
  | ENewKernel x, ENewKernel y => kname_eqb x y
  | ECall k c, ECall j d => Nat.eqb k j && qcall_eqb c d
  | EAddProg p c, EAddProg q d => Nat.eqb p q && Nat.eqb c d
  | EAddKernel p k, EAddKernel q j => Nat.eqb p q && Nat.eqb k j
  | _, _ => false
  end.

Definition ql_events (t : list item) (cid : option string) : option (list ev) :=
  match ofold ql_item t [] with
  | Some kc => Some ([ENewProg (PN 0 (base_of t cid)); ENewKernel (KN (key t))] ++ map (ECall 0) kc ++ [EAddKernel 0 0])
  | None => None
  end.

(* ------------------------------------------------------------------------------------------ history: the walk before 40c98cf *)
(* state = (items added to the program so far, calls made on the own kernel so far); a composite was exported into its own
   Program ("sub_" + parent name, kernel_<h(sub-circuit)>), added `nr_of_repetitions` times during the walk; the own kernel
   was added last. *)
Definition wstate : Type := list qitem * list qcall.
Fixpoint ql_item_old (nsub : nat) (base : pbase) (i : item) (st : wstate) : option wstate :=
  match i with
  | Leaf l => match leaf_calls l with
              | Some cs => Some (fst st, snd st ++ cs)
              | None => None
              end
  | Block n body =>
      match ofold (ql_item_old (S nsub) base) body ([], []) with
      | Some (its, kc) =>
          let inner := QSub (PN (S nsub) base) (its ++ [QKernel (KN (key body)) kc]) in
          Some (fst st ++ rep_list (Z.to_nat n) [inner], snd st)
      | None => None
      end
  end.
Definition ql_export_old (t : list item) (cid : option string) : option qprog :=
  match ofold (ql_item_old 0 (base_of t cid)) t ([], []) with
  | Some (its, kc) => Some (PN 0 (base_of t cid), its ++ [QKernel (KN (key t)) kc])
  | None => None
  end.
