(* C15 — executable model of the OpenQL export (addon_openql/intrf_openql_factory.py: OpenQLCircuitFactoryManager.construct)
   as the sequence of calls it makes on the OpenQL API.  No proofs here.  The code is mirrored as it is:

   * one Program and one Kernel are created per (sub-)circuit; the walk goes through `_circuit_graph.get_node_iterator()`
     (the listing tree of C08/Tree.v); a supported leaf extends the kernel through its factory (Gen/Tables.v
     `openql_gate`: the kernel calls of each factory, translated from the source);
   * a composite is exported recursively into its own Program, which is added to the parent Program `nr_of_repetitions`
     times AT ONCE, during the walk; the parent's own kernel is added LAST (`result_program.add_kernel(kernel)` after the
     loop).  So everything in sub-circuits runs before all of the parent's own gates (finding F7a), and the same Program
     object (same kernel name) is added several times (F7b);
   * names: program_<h>, kernel_<h> with h = first 8 hex digits of uuid5(NAMESPACE_DNS, '_'.join(class names of
     decomposed_operations())); a given circuit_id replaces the program name; a sub-circuit's program is named
     "sub_" + parent program name, its kernel kernel_<h(sub-circuit)> (so equal class-name sequences give equal kernel
     names: F7c).  Names are kept symbolic here (the hash is an arbitrary function; see Proofs: name_render). *)
From Coq Require Import ZArith List Bool String.
Import ListNotations.
From QCE Require Import Base.Prelude C19.Model C08.Tree C08.Model.
From Gen Require Import Tables.
Open Scope string_scope.
Open Scope list_scope.
Open Scope Z_scope.

(* ------------------------------------------------------------------------------------------ API calls *)
Inductive qcall :=
| QGate (name : string) (qs : list Z)        (* kernel.gate(name, qubits)  (a single int is recorded as [q]) *)
| QCz (c t : Z)                              (* kernel.cz(c, t) *)
| QBarrier (qs : list Z)                     (* kernel.barrier(qubits) *)
| QWait (qs : list Z) (dur : Z).             (* kernel.wait(qubits=, duration=) *)

Definition qcall_eqb (a b : qcall) : bool :=
  match a, b with
  | QGate n1 q1, QGate n2 q2 => String.eqb n1 n2 && leqb Z.eqb q1 q2
  | QCz a1 b1, QCz a2 b2 => (a1 =? a2) && (b1 =? b2)
  | QBarrier q1, QBarrier q2 => leqb Z.eqb q1 q2
  | QWait q1 d1, QWait q2 d2 => leqb Z.eqb q1 q2 && (d1 =? d2)
  | _, _ => false
  end.

(* symbolic names *)
Inductive pbase := PB_hash (key : list kind) | PB_id (s : string).   (* program_<h(key)> | the given circuit_id *)
Inductive pname := PN (nsub : nat) (base : pbase).                   (* "sub_" * nsub + base *)
Inductive kname := KN (key : list kind) | KRaw (s : string).         (* kernel_<h(key)> | (driver only) an unrecognised name *)

Definition kinds_eqb : list kind -> list kind -> bool := leqb kind_eqb.
Definition pbase_eqb (a b : pbase) : bool :=
  match a, b with PB_hash x, PB_hash y => kinds_eqb x y | PB_id x, PB_id y => String.eqb x y | _, _ => false end.
Definition pname_eqb (a b : pname) : bool :=
  match a, b with PN n x, PN m y => Nat.eqb n m && pbase_eqb x y end.
Definition kname_eqb (a b : kname) : bool :=
  match a, b with KN x, KN y => kinds_eqb x y | KRaw x, KRaw y => String.eqb x y | _, _ => false end.

(* the class-name sequence of decomposed_operations(): every leaf once, in listing order *)
Definition key (t : list item) : list kind := map l_kind (leaves t).

(* ------------------------------------------------------------------------------------------ one operation *)
Definition eval_list (l : leaf) (e : qexpr) : option (list Z) :=
  match e with
  | QE_ids => Some (qubits_of (l_kind l) (l_qs l))                       (* get_qubit_index(operation) *)
  | QE_q i => match nth_error (l_qs l) i with Some q => Some [q] | None => None end   (* a bare int; recorded as [q] *)
  end.
Definition eval_int (l : leaf) (e : qexpr) : option Z :=
  match e with
  | QE_q i => nth_error (l_qs l) i
  | QE_ids => None
  end.
(* int(operation.duration): truncation towards zero of a duration given in quarter units *)
Definition eval_dur (l : leaf) (d : dexpr) : option Z :=
  match d, l_args l with
  | DE_int_duration, [Some ticks] => Some (Z.quot ticks 4)
  | _, _ => None
  end.
Definition eval_templ (l : leaf) (t : ktempl) : option qcall :=
  match t with
  | KT_gate n q => match eval_list l q with Some qs => Some (QGate n qs) | None => None end
  | KT_cz a b => match eval_int l a, eval_int l b with Some x, Some y => Some (QCz x y) | _, _ => None end
  | KT_barrier q => match eval_list l q with Some qs => Some (QBarrier qs) | None => None end
  | KT_wait q d => match eval_list l q, eval_dur l d with Some qs, Some x => Some (QWait qs x) | _, _ => None end
  end.
(* the kernel calls of one leaf: [] when its class is not a key of the table (`continue`) *)
Definition leaf_calls (l : leaf) : option (list qcall) :=
  if negb (shape_ok (l_kind l) (l_qs l)) then None
  else match openql_gate (l_kind l) with
       | None => Some []
       | Some ts => opt_all (map (eval_templ l) ts)
       end.

(* ------------------------------------------------------------------------------------------ the exported structure *)
Inductive qitem :=
| QSub (name : pname) (items : list qitem)        (* program.add_program(inner) *)
| QKernel (name : kname) (calls : list qcall).    (* program.add_kernel(kernel) *)
Definition qprog : Type := pname * list qitem.

Fixpoint qitem_eqb (a b : qitem) : bool :=
  match a, b with
  | QSub n x, QSub m y => pname_eqb n m && leqb qitem_eqb x y
  | QKernel n x, QKernel m y => kname_eqb n m && leqb qcall_eqb x y
  | _, _ => false
  end.
Definition qprog_eqb (a b : qprog) : bool := pname_eqb (fst a) (fst b) && leqb qitem_eqb (snd a) (snd b).

(* what the program executes: sub-programs and kernels in the order they were added *)
Fixpoint exec_item (i : qitem) : list qcall :=
  match i with
  | QSub _ items => flat_map exec_item items
  | QKernel _ calls => calls
  end.
Definition executed (p : qprog) : list qcall := flat_map exec_item (snd p).

(* the walk as coded: state = (items added to the program so far, calls made on the own kernel so far) *)
Definition wstate : Type := list qitem * list qcall.
Fixpoint ql_item (nsub : nat) (base : pbase) (i : item) (st : wstate) : option wstate :=
  match i with
  | Leaf l => match leaf_calls l with
              | Some cs => Some (fst st, snd st ++ cs)
              | None => None
              end
  | Block n body =>
      (* inner_program = self.construct(operation, circuit_id="sub_" + program name) *)
      match ofold (ql_item (S nsub) base) body ([], []) with
      | Some (its, kc) =>
          let inner := QSub (PN (S nsub) base) (its ++ [QKernel (KN (key body)) kc]) in
          (* for i in range(nr_of_repetitions): result_program.add_program(inner_program); the composite's class is no key *)
          Some (fst st ++ rep_list (Z.to_nat n) [inner], snd st)
      | None => None
      end
  end.
Definition base_of (t : list item) (cid : option string) : pbase :=
  match cid with Some s => PB_id s | None => PB_hash (key t) end.
Definition ql_export (t : list item) (cid : option string) : option qprog :=
  match ofold (ql_item 0 (base_of t cid)) t ([], []) with
  | Some (its, kc) => Some (PN 0 (base_of t cid), its ++ [QKernel (KN (key t)) kc])      (* result_program.add_kernel(kernel) *)
  | None => None
  end.

(* ------------------------------------------------------------------------------------------ the call log *)
(* every API call in the order it is made; programs and kernels are numbered in creation order *)
Inductive ev :=
| ENewProg (name : pname)             (* PlatformManager.construct_program(name) *)
| ENewKernel (name : kname)           (* PlatformManager.construct_kernel(name) *)
| ECall (k : nat) (c : qcall)         (* a call on kernel number k *)
| EAddProg (parent child : nat)       (* program[parent].add_program(program[child]) *)
| EAddKernel (p k : nat).             (* program[p].add_kernel(kernel[k]) *)

Definition ev_eqb (a b : ev) : bool :=
  match a, b with
  | ENewProg x, ENewProg y => pname_eqb x y
  | ENewKernel x, ENewKernel y => kname_eqb x y
  | ECall k c, ECall j d => Nat.eqb k j && qcall_eqb c d
  | EAddProg p c, EAddProg q d => Nat.eqb p q && Nat.eqb c d
  | EAddKernel p k, EAddKernel q j => Nat.eqb p q && Nat.eqb k j
  | _, _ => false
  end.

Record estate := MkE { e_evs : list ev; e_np : nat; e_nk : nat }.
Definition emit (st : estate) (l : list ev) : estate := MkE (e_evs st ++ l) (e_np st) (e_nk st).

Fixpoint qle_item (nsub : nat) (base : pbase) (me mk : nat) (i : item) (st : estate) : option estate :=
  match i with
  | Leaf l => match leaf_calls l with
              | Some cs => Some (emit st (map (ECall mk) cs))
              | None => None
              end
  | Block n body =>
      let pid := e_np st in
      let kid := e_nk st in
      let st1 := MkE (e_evs st ++ [ENewProg (PN (S nsub) base); ENewKernel (KN (key body))]) (S pid) (S kid) in
      match ofold (qle_item (S nsub) base pid kid) body st1 with
      | Some st2 => Some (emit (emit st2 [EAddKernel pid kid]) (rep_list (Z.to_nat n) [EAddProg me pid]))
      | None => None
      end
  end.
Definition ql_events (t : list item) (cid : option string) : option (list ev) :=
  let base := base_of t cid in
  match ofold (qle_item 0 base 0%nat 0%nat) t (MkE [ENewProg (PN 0 base); ENewKernel (KN (key t))] 1 1) with
  | Some st => Some (e_evs st ++ [EAddKernel 0 0])
  | None => None
  end.

(* ------------------------------------------------------------------------------------------ a corrected walk *)
(* what a repaired exporter would do (NOT what the code does): close the own kernel before a sub-circuit, so that
   kernels and sub-programs alternate in listing order.  `fresh` stands for any scheme of kernel names. *)
Section Corrected.
Variable fresh : nat -> list item -> kname.
Fixpoint qlc_item (nsub : nat) (base : pbase) (i : item) (st : wstate) : option wstate :=
  match i with
  | Leaf l => match leaf_calls l with
              | Some cs => Some (fst st, snd st ++ cs)
              | None => None
              end
  | Block n body =>
      match ofold (qlc_item (S nsub) base) body ([], []) with
      | Some (its, kc) =>
          let inner := QSub (PN (S nsub) base) (its ++ [QKernel (fresh (List.length its) body) kc]) in
          Some (fst st ++ [QKernel (fresh (List.length (fst st)) []) (snd st)] ++ rep_list (Z.to_nat n) [inner], [])
      | None => None
      end
  end.
Definition qlc_export (t : list item) (cid : option string) : option qprog :=
  match ofold (qlc_item 0 (base_of t cid)) t ([], []) with
  | Some (its, kc) => Some (PN 0 (base_of t cid), its ++ [QKernel (fresh (List.length its) t) kc])
  | None => None
  end.
End Corrected.

(* ------------------------------------------------------------------------------------------ the proposed repair *)
(* The small patch evaluated for F7 (NOT applied to the code): one kernel per export; a sub-circuit is expanded in place,
   `for i in range(nr_of_repetitions): kernel = self._extend_kernel(operation, kernel)`.  When the patch is adopted,
   Run.v compares against qli_export / qli_events instead of ql_export / ql_events. *)
Section IterO.
Context {S : Type} (f : S -> option S).
Fixpoint iter_o (n : nat) (s : S) : option S :=
  match n with
  | O => Some s
  | Datatypes.S k => match f s with Some s' => iter_o k s' | None => None end
  end.
End IterO.

Fixpoint qli_item (i : item) (kc : list qcall) : option (list qcall) :=
  match i with
  | Leaf l => match leaf_calls l with Some cs => Some (kc ++ cs) | None => None end
  | Block n body => iter_o (ofold qli_item body) (Z.to_nat n) kc
  end.
Definition qli_export (t : list item) (cid : option string) : option qprog :=
  match ofold qli_item t [] with
  | Some kc => Some (PN 0 (base_of t cid), [QKernel (KN (key t)) kc])
  | None => None
  end.
Definition qli_events (t : list item) (cid : option string) : option (list ev) :=
  match ofold qli_item t [] with
  | Some kc => Some ([ENewProg (PN 0 (base_of t cid)); ENewKernel (KN (key t))] ++ map (ECall 0) kc ++ [EAddKernel 0 0])
  | None => None
  end.
