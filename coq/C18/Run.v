(* C18 — drawing shows the schedule and leaves the circuit alone: case format, tie (agree) and specification (spec_ok).
   `spec_ok` is evaluated on the implementation's output only and does not call the model. *)
From Coq Require Import ZArith List Bool String.
Import ListNotations.
From QCE Require Import Base.Prelude Core.Model Core.Run C18.Model.
From Gen Require Import Ident Classes Flags.
Open Scope string_scope.
Open Scope list_scope.
Open Scope Z_scope.

(* what the implementation drew (read from the VisualCircuitDescription plot_circuit built and from the rectilinear
   transforms its draw-component factories asked the transform constructor for) *)
Record idraw := {
  id_indices : list Z;        (* description.channel_indices *)
  id_labels : list Z;         (* description.channel_label_map, by row; a label string "L<n>" is the number n, an int itself *)
  id_width : Z;               (* description.channel_width, ticks *)
  id_height : Z;              (* description.channel_height, ticks *)
  id_ops : list oentry;       (* description.operations with the times they report while the drawing is made *)
  id_comps : list comp }.     (* one entry per constructed operation component, sorted by listing position *)

Record case := {
  k_prog : list cmd;
  k_env : denv;                         (* global + registry durations in force around the whole case *)
  k_unroll : bool;                      (* circuit = build(prog).apply_modifiers() *)
  k_pre : bool;                         (* the circuit itself is observed before it is drawn (else a twin built from the same program) *)
  k_compact : bool;
  k_order : option (list Z);            (* channel_order argument *)
  k_labels : option label_map;          (* channel_map argument *)
  k_occupied : list Z;                  (* ids of circuit.occupied_qubit_channels, first occurrences in order *)
  k_before : obs;  k_acq_before : list (Z * Z * Z);     (* (listing position, acquisition_index, circuit-level index) *)
  k_draw : option idraw;                (* None: plot_circuit raised *)
  k_error : Z;                          (* 0 no exception, 1 ValueError, 2 any other exception *)
  k_dur_first_after : Z;                (* circuit.duration read right after the drawing, before the circuit is listed again *)
  k_held_after : list (Z * Z);          (* (start, end) of the operation objects the drawing listed, read at that same moment *)
  k_after : obs;   k_acq_after : list (Z * Z * Z);
  k_ref : list oentry }.                (* a twin built afterwards from the same program, listed under the drawing's durations *)

Definition order_list (c : case) : list Z := match k_order c with None => [] | Some o => o end.

Definition pair_eqb (a b : Z * Z) : bool := (fst a =? fst b) && (snd a =? snd b).

(* ------------------------------------------------------------------ the tie *)
Definition model_nodes (c : case) : list node :=
  let ns := run_prog (k_env c) (k_prog c) in
  if k_unroll c then apply_modifiers (k_env c) 1 ns else ns.

Definition tr_eqb (a b : tr) : bool :=
  (tr_q a =? tr_q b) && rat_eqb (tr_x a) (tr_x b) && rat_eqb (tr_y a) (tr_y b) && (tr_w a =? tr_w b).
Definition comp_eqb (a b : comp) : bool := (dc_pos a =? dc_pos b) && list_eqb tr_eqb (dc_tr a) (dc_tr b).

Definition draw_agree (env : denv) (m : option drawing) (i : option idraw) : bool :=
  match m, i with
  | None, None => true
  | Some d, Some x =>
      list_eqb Z.eqb (vd_indices (dr_desc d)) (id_indices x) && list_eqb Z.eqb (vd_labels (dr_desc d)) (id_labels x)
      && (vd_width (dr_desc d) =? id_width x) && (vd_height (dr_desc d) =? id_height x)
      && list_eqb oentry_eqb (map (entry_to_o env) (dr_ops d)) (id_ops x)
      && list_eqb comp_eqb (dr_comps d) (id_comps x)
  | _, _ => false
  end.

(* the model's history of the case: [observe;] plot; observe -- all times read through the two memo tables *)
Definition model_history (c : case) : obs * option drawing * obs :=
  let env := k_env c in
  let ns := model_nodes c in
  let '(o1, st1) := m_obs src_flags (fresh_state env ns) in
  let '(d, st2) := plot (k_compact c) (order_list c) (k_labels c) (if k_pre c then st1 else fresh_state env ns) in
  let '(o2, _) := m_obs src_flags st2 in
  (o1, d, o2).

Definition agree (c : case) : bool :=
  let '(o1, d, o2) := model_history c in
  obs_eqb o1 (k_before c) && obs_eqb o2 (k_after c)
  && (k_dur_first_after c =? o_duration o2)
  && (match k_held_after c with [] => true | h => list_eqb pair_eqb h (map (fun o => (oe_s o, oe_e o)) (o_ops o2)) end)
  && list_eqb Z.eqb (channel_ids (model_nodes c)) (k_occupied c)
  && draw_agree (drawing_env src_flags (k_compact c) (k_env c)) d (k_draw c)
  && (let denv := drawing_env src_flags (k_compact c) (k_env c) in
      list_eqb oentry_eqb (map (entry_to_o denv) (listing denv (model_nodes c))) (k_ref c))
  && (k_error c =? match d with None => 1 | Some _ => 0 end).

(* ------------------------------------------------------------------ the specification, on the implementation's output *)
Definition mem_z (x : Z) (l : list Z) : bool := existsb (Z.eqb x) l.
Fixpoint nodup_z (l : list Z) : bool := match l with [] => true | x :: t => negb (mem_z x t) && nodup_z t end.
Fixpoint uniq_z (seen l : list Z) : list Z :=
  match l with [] => [] | x :: t => if mem_z x seen then uniq_z seen t else x :: uniq_z (x :: seen) t end.
Fixpoint index_z (q : Z) (l : list Z) : Z := match l with [] => 0 | x :: t => if x =? q then 0 else 1 + index_z q t end.
Fixpoint assoc_lbl (m : list (Z * Z)) (k : Z) : option Z :=
  match m with [] => None | (a, b) :: t => if a =? k then Some b else assoc_lbl t k end.
Definition zmax_l (d : Z) (l : list Z) : Z := fold_left Z.max l d.

Definition unknown_in_order (c : case) : bool := negb (forallb (fun i => mem_z i (k_occupied c)) (order_list c)).

(* rows follow the requested order, then the remaining occupied channels (a requested order with a repeated channel is
   outside the statement) *)
Definition rows_ok (c : case) (d : idraw) : bool :=
  if nodup_z (order_list c)
  then list_eqb Z.eqb (id_indices d) (order_list c ++ filter (fun i => negb (mem_z i (order_list c))) (k_occupied c))
  else true.

(* row i carries the label given for its channel, by default the channel index *)
Definition labels_ok (c : case) (d : idraw) : bool :=
  list_eqb Z.eqb (id_labels d)
           (map (fun ch => match k_labels c with
                           | None => ch
                           | Some m => match assoc_lbl m ch with Some l => l | None => ch end
                           end) (id_indices d)).

(* figure width = latest end + 1 time unit, the latest end counted as at least 1 (so the width is at least 2) *)
Definition width_ok (d : idraw) : bool := id_width d =? zmax_l 8 (map oe_e (id_ops d)) + 8.

(* operation kinds without a visual representation: the abstract two-qubit base class and the virtual two-qubit phase
   update are silently left out by the drawer; every other kind must be drawn *)
Definition not_drawable (cls : Z) : bool :=
  let n := cs_name (class_of cls) in String.eqb n "TwoQubitOperation" || String.eqb n "TwoQubitVirtualPhase".
Definition two_qubit_kind (cls : Z) : bool :=
  let n := cs_name (class_of cls) in
  String.eqb n "TwoQubitOperation" || String.eqb n "TwoQubitVirtualPhase" || String.eqb n "CPhase" || String.eqb n "VirtualTwoQubitVacant".
(* a multi-qubit kind drawn as one block on one of its rows *)
Definition one_row_kind (cls : Z) : bool := String.eqb (cs_name (class_of cls)) "CoordinateShiftOperation".

Definition op_qubits (o : oentry) : list Z := uniq_z [] (map ChannelIdentifier__id (oe_chans o)).

(* another two-qubit operation starts at the same time *)
Fixpoint shares_slot_from (p : Z) (s : Z) (i : Z) (ops : list oentry) : bool :=
  match ops with
  | [] => false
  | o :: t => ((negb (i =? p)) && two_qubit_kind (oe_cls o) && (oe_s o =? s)) || shares_slot_from p s (i + 1) t
  end.

(* pivot of one transform: y = -(row of its channel) * 1.2 time units = -row * 48/5 ticks; x = the operation's start time,
   for two-qubit gates sharing a time slot within a quarter of their own duration *)
Definition tr_ok (d : idraw) (p : Z) (o : oentry) (t : tr) : bool :=
  (0 <? snd (tr_x t)) && (0 <? snd (tr_y t))
  && mem_z (tr_q t) (id_indices d)
  && rat_eqb (tr_y t) (- index_z (tr_q t) (id_indices d) * 48, 5)
  && (if two_qubit_kind (oe_cls o) && shares_slot_from p (oe_s o) 0 (id_ops d)
      then 4 * Z.abs (fst (tr_x t) - oe_s o * snd (tr_x t)) <=? (oe_e o - oe_s o) * snd (tr_x t)
      else rat_eqb (tr_x t) (oe_s o, 1)).

Definition comp_ok (d : idraw) (p : Z) (o : oentry) : bool :=
  match filter (fun c => dc_pos c =? p) (id_comps d) with
  | [] => not_drawable (oe_cls o)
  | [c] =>
      let qs := map tr_q (dc_tr c) in
      forallb (tr_ok d p o) (dc_tr c)
      && negb (match qs with [] => true | _ => false end)
      (* every transform sits on a row of one of the operation's qubits; a multi-row operation has one on each of its qubits, in the
         order of its qubit list (a list naming a qubit twice is drawn twice on that row: the text does not forbid it) *)
      && (if one_row_kind (oe_cls o) then forallb (fun q => mem_z q (op_qubits o)) qs
          else list_eqb Z.eqb (uniq_z [] qs) (op_qubits o))
  | _ => false
  end.
Fixpoint comps_ok_from (d : idraw) (p : Z) (ops : list oentry) : bool :=
  match ops with [] => true | o :: t => comp_ok d p o && comps_ok_from d (p + 1) t end.
(* and nothing is drawn that is not a listed operation *)
Definition comps_ok (d : idraw) : bool :=
  comps_ok_from d 0 (id_ops d)
  && forallb (fun c => (0 <=? dc_pos c) && (dc_pos c <? Z.of_nat (List.length (id_ops d)))) (id_comps d).

(* drawing does not change the circuit: operations (class, channels, start, end, duration, tag, order), circuit duration,
   sub-circuit starts and durations, acquisition indices *)
Definition triple_eqb (a b : Z * Z * Z) : bool :=
  let '(a1, a2, a3) := a in let '(b1, b2, b3) := b in (a1 =? b1) && (a2 =? b2) && (a3 =? b3).
Definition unchanged (c : case) : bool :=
  list_eqb oentry_eqb (o_ops (k_before c)) (o_ops (k_after c))
  && (k_dur_first_after c =? o_duration (k_before c))
  && (match k_held_after c with
      | [] => true                                   (* nothing was listed by the drawing (it raised first) *)
      | h => list_eqb pair_eqb h (map (fun o => (oe_s o, oe_e o)) (o_ops (k_before c)))
      end)
  && (o_duration (k_before c) =? o_duration (k_after c))
  && list_eqb ocomp_eqb (o_comps (k_before c)) (o_comps (k_after c))
  && list_eqb triple_eqb (k_acq_before c) (k_acq_after c).

Definition spec_ok (c : case) : bool :=
  unchanged c
  && (if unknown_in_order c
      then (k_error c =? 1) && match k_draw c with None => true | Some _ => false end     (* rejected, never drawn *)
      else (k_error c =? 0)
           && match k_draw c with
              | None => false                                                            (* drawing must succeed *)
              | Some d => rows_ok c d && labels_ok c d && width_ok d && comps_ok d
                          && list_eqb oentry_eqb (id_ops d) (k_ref c)      (* the times drawn are the true times *)
              end).
