(* C18 — plot_circuit as a state transformer: it leaves circuit structure and duration settings as they were, draws the TRUE
   times under the drawing's durations, and leaves both memo tables coherent, so that every later observation is what it
   was before.  Instance of the generic memo theory (C18/Memo.v); the hypothesis "every schedule-mutation point invalidates,
   and the invalidation empties both tables" is discharged by computation on the flag table generated from the source. *)
From Coq Require Import ZArith List Bool String Lia.
Import ListNotations.
From QCE Require Import Base.Prelude Core.Model Core.Run C19.Model C18.Memo C18.Model C18.ProofsDraw.
From Gen Require Import Ident Classes Flags.
Open Scope string_scope.
Open Scope list_scope.
Open Scope Z_scope.

(* ------------------------------------------------------------------ the flags of the current source *)
(* all five schedule-mutation points call invalidate_start_time_cache(), and it clears both get_start_time tables *)
Lemma flags_sound_holds : flags_sound = true.
Proof. vm_compute. reflexivity. Qed.

Lemma src_flags_sound : mf_sound src_flags = true.
Proof. pose proof flags_sound_holds as H. unfold flags_sound in H. rewrite !andb_true_iff in H. tauto. Qed.

(* compact mode really swaps in VISUALIZATION_DURATION_REGISTRY *)
Lemma src_flags_override : mf_override src_flags = true.
Proof. vm_compute. reflexivity. Qed.

(* ------------------------------------------------------------------ coherence of the two tables *)
Lemma mkey_eqb_sound a b : mkey_eqb a b = true -> a = b.
Proof.
  destruct a as [a1 a2], b as [b1 b2]. unfold mkey_eqb. simpl. rewrite andb_true_iff, Nat.eqb_eq, Z.eqb_eq. intros [-> ->]. reflexivity.
Qed.

Definition coh_tables (w : world) (rl ml : mcache) : Prop :=
  coherent mkey_eqb start_truth w rl /\ coherent mkey_eqb start_truth w ml.
(* every cached start time is the start time in the current schedule *)
Definition coh (st : mstate) : Prop := coh_tables (ms_world st) (ms_rl st) (ms_ml st).

Lemma coh_fresh env ns : coh (fresh_state env ns).
Proof. split; apply coherent_nil. Qed.

Section WithFlags.
Variable F : mflags.

Lemma m_start_coh w multi rl ml k : coh_tables w rl ml ->
  fst (m_start F (start_truth w) multi rl ml k) = start_truth w k
  /\ coh_tables w (fst (snd (m_start F (start_truth w) multi rl ml k))) (snd (snd (m_start F (start_truth w) multi rl ml k))).
Proof.
  intros [Hr Hm]. unfold m_start. destruct multi.
  - destruct (mf_ml_memo F); [|simpl; repeat split; assumption].
    pose proof (coherent_obs mkey_eqb start_truth mkey_eqb_sound w ml k Hm) as [A B]. unfold lookup_or_compute in A, B.
    destruct (lookup_or_compute_f mkey_eqb (start_truth w) ml k) as [v ml']. simpl in *. repeat split; assumption.
  - destruct (mf_rl_memo F); [|simpl; repeat split; assumption].
    pose proof (coherent_obs mkey_eqb start_truth mkey_eqb_sound w rl k Hr) as [A B]. unfold lookup_or_compute in A, B.
    destruct (lookup_or_compute_f mkey_eqb (start_truth w) rl k) as [v rl']. simpl in *. repeat split; assumption.
Qed.

Lemma entry_eta e : {| e_leaf := e_leaf e; e_start := e_start e; e_end := e_start e + (e_end e - e_start e) |} = e.
Proof. destruct e as [l s t]. simpl. f_equal. lia. Qed.

Lemma start_truth_nth w L0 e t : listing (fst w) (snd w) = L0 ++ e :: t -> forall d, start_truth w (List.length L0, d) = e_start e.
Proof. intros H d. unfold start_truth. simpl. rewrite H, app_nth2, Nat.sub_diag; [reflexivity | lia]. Qed.

(* reading the listing through coherent tables gives the listing, and the tables stay coherent *)
Lemma m_entries_coh w : forall L L0 M rl ml, listing (fst w) (snd w) = L0 ++ L -> coh_tables w rl ml ->
  fst (m_entries F (start_truth w) (List.length L0) L M rl ml) = L
  /\ coh_tables w (fst (snd (m_entries F (start_truth w) (List.length L0) L M rl ml)))
                  (snd (snd (m_entries F (start_truth w) (List.length L0) L M rl ml))).
Proof.
  induction L as [|e t IH]; intros L0 M rl ml HL Hc; [simpl; split; [reflexivity | exact Hc]|].
  cbn [m_entries].
  pose proof (m_start_coh w (hd false M) rl ml (List.length L0, e_end e - e_start e) Hc) as [A B].
  destruct (m_start F (start_truth w) (hd false M) rl ml (List.length L0, e_end e - e_start e)) as [s [rl1 ml1]].
  cbn [fst snd] in A, B.
  assert (HL' : listing (fst w) (snd w) = (L0 ++ [e]) ++ t) by (rewrite <- app_assoc; exact HL).
  pose proof (IH (L0 ++ [e]) (tl M) rl1 ml1 HL' B) as [C D].
  rewrite app_length in C, D. simpl List.length in C, D. rewrite Nat.add_1_r in C, D.
  destruct (m_entries F (start_truth w) (S (List.length L0)) t (tl M) rl1 ml1) as [es [rl2 ml2]].
  cbn [fst snd] in *. split; [|exact D]. subst es. f_equal.
  rewrite A, (start_truth_nth w L0 e t HL). apply entry_eta.
Qed.

Lemma m_listing_coh st : coh st ->
  fst (m_listing F st) = listing (ms_env st) (ms_nodes st)
  /\ coh (snd (m_listing F st)) /\ ms_env (snd (m_listing F st)) = ms_env st /\ ms_nodes (snd (m_listing F st)) = ms_nodes st.
Proof.
  intros Hc. unfold m_listing.
  pose proof (m_entries_coh (ms_world st) (listing (ms_env st) (ms_nodes st)) [] (multi_flags (ms_nodes st)) (ms_rl st) (ms_ml st)
                (eq_refl : listing (fst (ms_world st)) (snd (ms_world st)) = [] ++ _) Hc) as [A B].
  simpl List.length in A, B.
  destruct (m_entries F (start_truth (ms_world st)) 0 (listing (ms_env st) (ms_nodes st)) (multi_flags (ms_nodes st)) (ms_rl st) (ms_ml st))
    as [es [rl ml]].
  cbn [fst snd] in *. split; [exact A|]. split; [exact B | split; reflexivity].
Qed.

(* an observation through coherent tables is the observation of the unmemoised model *)
Lemma m_obs_coh st : coh st ->
  fst (m_obs F st) = model_obs (ms_env st) (ms_nodes st)
  /\ coh (snd (m_obs F st)) /\ ms_env (snd (m_obs F st)) = ms_env st /\ ms_nodes (snd (m_obs F st)) = ms_nodes st.
Proof.
  intros Hc. unfold m_obs. pose proof (m_listing_coh st Hc) as [A B]. destruct (m_listing F st) as [L st'].
  cbn [fst snd] in *. subst L. split; [reflexivity | exact B].
Qed.

Lemma draw_coh order lm st : coh st ->
  fst (draw F order lm st) = true_drawing (ms_env st) (ms_nodes st) order lm
  /\ coh (snd (draw F order lm st)) /\ ms_env (snd (draw F order lm st)) = ms_env st
  /\ ms_nodes (snd (draw F order lm st)) = ms_nodes st.
Proof.
  intros Hc. unfold draw, true_drawing. destruct (reorder_indices (channel_ids (ms_nodes st)) order) as [idx|].
  - pose proof (m_listing_coh st Hc) as [A B]. destruct (m_listing F st) as [L st']. cbn [fst snd] in *. subst L.
    split; [reflexivity | exact B].
  - cbn [fst snd]. split; [reflexivity|]. split; [exact Hc | split; reflexivity].
Qed.

Lemma inner_clear_coh b st : coh st ->
  coh (inner_clear F b st) /\ ms_env (inner_clear F b st) = ms_env st /\ ms_nodes (inner_clear F b st) = ms_nodes st.
Proof.
  intros [Hr Hm]. unfold inner_clear. destruct b; [|split; [split; assumption | split; reflexivity]].
  split; [|split; reflexivity]. split; simpl.
  - destruct (mf_inner_rl F); [apply coherent_nil | exact Hr].
  - destruct (mf_inner_ml F); [apply coherent_nil | exact Hm].
Qed.

(* a change of the duration settings followed by an invalidation that empties both tables: coherent again, whatever was
   cached (the instance of Memo.coherent_mut with inv = true) *)
Lemma set_env_invalidate_coh env st : mf_inv_rl F = true -> mf_inv_ml F = true ->
  coh (invalidate F (set_env env st)) /\ ms_env (invalidate F (set_env env st)) = env
  /\ ms_nodes (invalidate F (set_env env st)) = ms_nodes st.
Proof.
  intros Hr Hm. unfold invalidate, set_env, coh, coh_tables. simpl. rewrite Hr, Hm.
  split; [split; apply coherent_nil | split; reflexivity].
Qed.

(* plot_circuit: what is drawn are the true times under the drawing's durations; structure and settings are as before; the
   tables are coherent afterwards *)
Theorem plot_with_preserves compact order lm st : mf_sound F = true -> coh st ->
  let r := plot_with F compact order lm st in
  fst r = true_drawing (drawing_env F compact (ms_env st)) (ms_nodes st) order lm
  /\ ms_env (snd r) = ms_env st /\ ms_nodes (snd r) = ms_nodes st /\ coh (snd r).
Proof.
  intros Hs Hc. unfold mf_sound in Hs. rewrite !andb_true_iff in Hs. destruct Hs as [[[Hir Him] Hen] Hle].
  unfold plot_with, drawing_env. destruct compact; simpl andb.
  2: { pose proof (draw_coh order lm st Hc) as [A [B [C D]]]. cbv zeta. tauto. }
  destruct (mf_override F).
  - rewrite Hen, Hle.
    pose proof (set_env_invalidate_coh (vis_env (ms_env st)) st Hir Him) as [A1 [A2 A3]].
    set (st1 := invalidate F (set_env (vis_env (ms_env st)) st)) in *.
    pose proof (inner_clear_coh (mf_inner_enter F) st1 A1) as [B1 [B2 B3]].
    set (st2 := inner_clear F (mf_inner_enter F) st1) in *.
    pose proof (draw_coh order lm st2 B1) as [C0 [C1 [C2 C3]]].
    destruct (draw F order lm st2) as [d st3]. cbn [fst snd] in *.
    pose proof (inner_clear_coh (mf_inner_exit F) st3 C1) as [D1 [D2 D3]].
    set (st4 := inner_clear F (mf_inner_exit F) st3) in *.
    pose proof (set_env_invalidate_coh (ms_env st) st4 Hir Him) as [E1 [E2 E3]].
    cbv zeta. cbn [fst snd]. split.
    + rewrite C0. rewrite B2, A2, B3, A3. reflexivity.
    + split; [exact E2|]. split; [|exact E1]. rewrite E3, D3, C3, B3, A3. reflexivity.
  - pose proof (inner_clear_coh (mf_inner_enter F) st Hc) as [B1 [B2 B3]].
    set (st2 := inner_clear F (mf_inner_enter F) st) in *.
    pose proof (draw_coh order lm st2 B1) as [C0 [C1 [C2 C3]]].
    destruct (draw F order lm st2) as [d st3]. cbn [fst snd] in *.
    pose proof (inner_clear_coh (mf_inner_exit F) st3 C1) as [D1 [D2 D3]].
    cbv zeta. cbn [fst snd]. split; [rewrite C0, B2, B3; reflexivity|].
    split; [rewrite D2, C2, B2; reflexivity|]. split; [rewrite D3, C3, B3; reflexivity | exact D1].
Qed.
End WithFlags.

(* ------------------------------------------------------------------ the property, for the flags of the current source *)
Theorem plot_preserves compact order lm st : coh st ->
  let r := plot compact order lm st in
  fst r = true_drawing (drawing_env src_flags compact (ms_env st)) (ms_nodes st) order lm
  /\ ms_env (snd r) = ms_env st /\ ms_nodes (snd r) = ms_nodes st /\ coh (snd r)
  /\ fst (m_obs src_flags (snd r)) = model_obs (ms_env st) (ms_nodes st)
  /\ fst (m_obs src_flags (snd r)) = fst (m_obs src_flags st).
Proof.
  intros Hc r. pose proof (plot_with_preserves src_flags compact order lm st src_flags_sound Hc) as [A [B [C D]]].
  fold plot in A, B, C, D. fold r in A, B, C, D. split; [exact A|]. split; [exact B|]. split; [exact C|]. split; [exact D|].
  pose proof (m_obs_coh src_flags (snd r) D) as [E _]. pose proof (m_obs_coh src_flags st Hc) as [G _].
  rewrite E, B, C. split; [reflexivity | symmetry; exact G].
Qed.

(* in compact mode the drawing is made under the visualization durations, whatever the global settings are *)
Lemma drawing_env_compact env : drawing_env src_flags true env = vis_env env.
Proof. unfold drawing_env. rewrite src_flags_override. reflexivity. Qed.
Lemma drawing_env_plain env : drawing_env src_flags false env = env.
Proof. reflexivity. Qed.
Lemma vis_env_durations env :
  (forall k, table_get VISUALIZATION_DURATION_REGISTRY (gkey_name k) = Some (genv (vis_env env) k)) /\ renv (vis_env env) = renv env.
Proof. split; [intros []; reflexivity | reflexivity]. Qed.

Lemma compact_durations env :
  drawing_env src_flags true env = vis_env env /\ drawing_env src_flags false env = env
  /\ (forall k, table_get VISUALIZATION_DURATION_REGISTRY (gkey_name k) = Some (genv (vis_env env) k))
  /\ renv (vis_env env) = renv env.
Proof. split; [apply drawing_env_compact|]. split; [reflexivity | apply vis_env_durations]. Qed.

(* the history of a check case: observe, draw, observe *)
Theorem history_spec env ns compact order lm :
  history env ns compact order lm
  = (model_obs env ns, true_drawing (drawing_env src_flags compact env) ns order lm, model_obs env ns).
Proof.
  unfold history.
  pose proof (m_obs_coh src_flags (fresh_state env ns) (coh_fresh env ns)) as [A [B [C D]]].
  destruct (m_obs src_flags (fresh_state env ns)) as [o1 st1]. cbn [fst snd] in *.
  pose proof (plot_preserves compact order lm st1 B) as [P1 [P2 [P3 [P4 [P5 _]]]]].
  destruct (plot compact order lm st1) as [d st2]. cbn [fst snd] in *.
  destruct (m_obs src_flags st2) as [o2 st3]. cbn [fst snd] in *.
  subst. rewrite C, D. reflexivity.
Qed.

(* a circuit first looked at by the drawing (nothing observed before): same drawing, same observation afterwards *)
Theorem unobserved_spec env ns compact order lm :
  let r := plot compact order lm (fresh_state env ns) in
  fst r = true_drawing (drawing_env src_flags compact env) ns order lm
  /\ fst (m_obs src_flags (snd r)) = model_obs env ns.
Proof.
  intros r. pose proof (plot_preserves compact order lm (fresh_state env ns) (coh_fresh env ns)) as [A [_ [_ [_ [E _]]]]].
  split; [exact A | exact E].
Qed.

(* ------------------------------------------------------------------ non-vacuity and the role of the hypothesis *)
Fixpoint class_index_from (name : string) (l : list class_spec) (i : Z) : Z :=
  match l with [] => -1 | c :: t => if String.eqb (cs_name c) name then i else class_index_from name t (i + 1) end.
Definition cls (name : string) : Z := class_index_from name class_table 0.

(* block[Rx180 q0; Wait(1) q1] x 2, unrolled; global microwave duration 5 (witness of finding F8) *)
Definition ex_env : denv := mk_env 16 40 8 16 [].
Definition ex_prog : list cmd :=
  [CSub 2 [CAdd (mk_leaf 0 (cls "Rx180") [0] QubitChannel_ALL (DGlobal GMicrowave) None) None;
           CAdd (mk_leaf 1 (cls "Wait") [1] QubitChannel_ALL (DFixed 8) None) None]].
Definition ex_nodes : list node := apply_modifiers ex_env 1 (run_prog ex_env ex_prog).

(* starts of the four listed operations under the global durations and as drawn in compact mode: they differ, the
   observation after the drawing is the one before, and the circuit is non-trivial *)
Example plot_example :
  map oe_s (o_ops (model_obs ex_env ex_nodes)) = [0; 0; 40; 40]
  /\ option_map (fun d => map e_start (dr_ops d)) (fst (plot true [] None (fresh_state ex_env ex_nodes))) = Some [0; 0; 8; 8]
  /\ option_map (fun d => vd_width (dr_desc d)) (fst (plot true [] None (fresh_state ex_env ex_nodes))) = Some 24
  /\ map oe_s (o_ops (fst (m_obs src_flags (snd (plot true [] None (fresh_state ex_env ex_nodes)))))) = [0; 0; 40; 40]
  /\ coh (fresh_state ex_env ex_nodes).
Proof. split; [|split; [|split; [|split]]]; try (vm_compute; reflexivity). apply coh_fresh. Qed.

(* the tree before the invalidation fix: entering / leaving the override did not invalidate and plot_circuit cleared only
   RelationLink's table.  The model then shows finding F8 in both directions: in a circuit first seen by the drawing the
   second Wait (held by a multi-link after unrolling, own duration the same under both settings) keeps the drawing's start 1.0
   instead of 5.0 afterwards, and in a circuit observed before it is drawn at 5.0 instead of 1.0. *)
Definition old_flags : mflags :=
  {| mf_rl_memo := true; mf_ml_memo := true; mf_inv_rl := true; mf_inv_ml := true; mf_enter_inv := false; mf_leave_inv := false;
     mf_override := true; mf_inner_rl := true; mf_inner_ml := false; mf_inner_enter := true; mf_inner_exit := true |}.

Example stale_after_plot_without_invalidation :
  mf_sound old_flags = false
  /\ map oe_s (o_ops (fst (m_obs old_flags (snd (plot_with old_flags true [] None (fresh_state ex_env ex_nodes)))))) = [0; 0; 40; 8]
  /\ map oe_s (o_ops (model_obs ex_env ex_nodes)) = [0; 0; 40; 40].
Proof. repeat split; vm_compute; reflexivity. Qed.

(* so the hypothesis of plot_with_preserves cannot be dropped *)
Lemma plot_needs_invalidation : exists F env ns, mf_sound F = false /\
  fst (m_obs F (snd (plot_with F true [] None (fresh_state env ns)))) <> model_obs env ns.
Proof.
  exists old_flags, ex_env, ex_nodes. split; [reflexivity|]. intros H.
  apply (f_equal (fun o => map oe_s (o_ops o))) in H. vm_compute in H. discriminate.
Qed.

Example stale_drawing_without_invalidation :
  let st1 := snd (m_obs old_flags (fresh_state ex_env ex_nodes)) in
  option_map (fun d => map e_start (dr_ops d)) (fst (plot_with old_flags true [] None st1)) = Some [0; 0; 8; 40]
  /\ option_map (fun d => map e_start (dr_ops d)) (true_drawing (vis_env ex_env) ex_nodes [] None) = Some [0; 0; 8; 8].
Proof. split; vm_compute; reflexivity. Qed.

(* non-vacuity of the drawing lemmas: a requested order [2; 0] of the occupied channels [0; 1; 2] and a partial label map *)
Example reorder_example :
  reorder_indices [0; 1; 2] [2; 0] = Some [2; 0; 1] /\ reorder_indices [0; 1; 2] [2; 5] = None
  /\ reorder_indices [0; 1; 2] [1; 1] = Some [1; 1; 0; 2]
  /\ map (label_of (Some [(0, 1007)])) [2; 0; 1] = [2; 1007; 1].
Proof. repeat split. Qed.

(* two CPhase gates on interleaved rows in one time slot, compact durations (8 ticks): drawn 2 ticks = a quarter of their
   duration to the right and to the left of their common start time 0 *)
Definition ex_tq (c : string) (d : dstrat) : list cmd :=
  [CAdd (mk_leaf 0 (cls c) [0; 2] QubitChannel_FLUX d None) None;
   CAdd (mk_leaf 1 (cls c) [1; 3] QubitChannel_FLUX d None) None].
Definition xs_of (p : list cmd) : list (list rat) :=
  match true_drawing (vis_env ex_env) (run_prog ex_env p) [0; 1; 2; 3] None with
  | Some d => map (fun c => map tr_x (dc_tr c)) (dr_comps d)
  | None => []
  end.
Example offset_example :
  list_eqb (list_eqb rat_eqb) (xs_of (ex_tq "CPhase" (DGlobal GFlux))) [[(2, 1); (2, 1)]; [(-2, 1); (-2, 1)]] = true.
Proof. vm_compute. reflexivity. Qed.
