(* C18 — a two-qubit gate that is the only two-qubit operation starting at its time is drawn exactly at its start time
   (group of one, no artistic offset); and a drawn qubit always has a row. *)
From Coq Require Import ZArith List Bool String Lia.
Import ListNotations.
From QCE Require Import Base.Prelude Core.Model Core.Run Core.BfsProofs Core.BfsWf Core.TimesListing Core.CopyIso
                        C19.Model C19.Proofs C18.Memo C18.Model C18.ProofsDraw.
From Gen Require Import Ident Classes Flags.
Open Scope string_scope.
Open Scope list_scope.
Open Scope Z_scope.

(* ------------------------------------------------------------------ slot lookup through concatenations *)
Lemma slot_of_app_notin a b p : ~ In p (map fst a) -> slot_of (a ++ b) p = slot_of b p.
Proof.
  induction a as [|[q jn] t IH]; intros H; simpl; [reflexivity|]. destruct (Nat.eqb q p) eqn:E.
  - apply Nat.eqb_eq in E. subst. exfalso. apply H. left. reflexivity.
  - apply IH. intros X. apply H. right. exact X.
Qed.

Lemma with_index_from_fst g : forall j n, map fst (with_index_from j n g) = g.
Proof. induction g as [|p t IH]; intros j n; simpl; [reflexivity | now rewrite IH]. Qed.

Lemma group_slots_fst gs : map fst (group_slots gs) = List.concat gs.
Proof.
  unfold group_slots. induction gs as [|g t IH]; simpl; [reflexivity|]. now rewrite map_app, with_index_from_fst, IH.
Qed.

(* ------------------------------------------------------------------ members of the space groups come from the input *)
Lemma key_insert_In key x l y : In y (key_insert key x l) <-> y = x \/ In y l.
Proof.
  induction l as [|z t IH]; simpl; [intuition|]. destruct (dy_leb (key x) (key z)); simpl; [intuition|]. rewrite IH. intuition.
Qed.

Lemma key_sort_In key l y : In y (key_sort key l) <-> In y l.
Proof. induction l as [|x t IH]; simpl; [tauto|]. rewrite key_insert_In, IH. intuition. Qed.

Lemma update_nth_In {A} (f : A -> A) l : forall i g, In g (update_nth i f l) -> In g l \/ exists g0, In g0 l /\ g = f g0.
Proof.
  induction l as [|x t IH]; intros i g H; [destruct i; destruct H|]. destruct i as [|i]; simpl in H.
  - destruct H as [H|H]; [right; exists x; split; [left; reflexivity | symmetry; exact H] | left; right; exact H].
  - destruct H as [H|H]; [left; left; exact H|]. destruct (IH i g H) as [X|[g0 [X Y]]]; [left; right; exact X|].
    right. exists g0. split; [right; exact X | exact Y].
Qed.

Definition members_in (ps : list nat) (st : list (list nat * dy)) : Prop :=
  forall g, In g st -> forall x, In x (fst g) -> In x ps.

Lemma space_step_members bot top ps st p : In p ps -> members_in ps st -> members_in ps (space_step bot top st p).
Proof.
  intros Hp Hst. unfold space_step.
  destruct (last_match_from (fun g : list nat * dy => dy_leb (bot p) (snd g)) st 0 None) as [gi|].
  - intros g Hg x Hx. destruct (update_nth_In _ _ _ _ Hg) as [H|[g0 [H ->]]]; [exact (Hst g H x Hx)|].
    simpl in Hx. apply in_app_iff in Hx. destruct Hx as [Hx|[<-|[]]]; [exact (Hst g0 H x Hx) | exact Hp].
  - intros g Hg x Hx. apply in_app_iff in Hg. destruct Hg as [Hg|[<-|[]]]; [exact (Hst g Hg x Hx)|].
    simpl in Hx. destruct Hx as [<-|[]]. exact Hp.
Qed.

Lemma space_fold_members bot top ps l : forall st, (forall x, In x l -> In x ps) -> members_in ps st ->
  members_in ps (fold_left (space_step bot top) l st).
Proof.
  induction l as [|p t IH]; intros st Hl Hst; simpl; [exact Hst|]. apply IH; [intros x Hx; apply Hl; right; exact Hx|].
  apply space_step_members; [apply Hl; left; reflexivity | exact Hst].
Qed.

Lemma space_groups_members bot top ps x : In x (List.concat (space_groups bot top ps)) -> In x ps.
Proof.
  unfold space_groups. intros H. apply in_concat in H. destruct H as [g [Hg Hx]]. apply in_map_iff in Hg.
  destruct Hg as [g0 [<- Hg0]].
  apply (space_fold_members bot top ps (key_sort bot ps) []) with (g := g0); [| intros g [] | exact Hg0 | exact Hx].
  intros y Hy. apply key_sort_In in Hy. exact Hy.
Qed.

Lemma space_groups_single bot top p : space_groups bot top [p] = [[p]].
Proof. reflexivity. Qed.

(* ------------------------------------------------------------------ alone in its time slot: group of one *)
Lemma flat_map_map {A B C} (f : B -> list C) (g : A -> B) l : flat_map f (map g l) = flat_map (fun x => f (g x)) l.
Proof. induction l as [|x t IH]; simpl; [reflexivity | now rewrite IH]. Qed.

Lemma filter_singleton {A} (f : A -> bool) l p : NoDup l -> In p l -> f p = true ->
  (forall q, In q l -> f q = true -> q = p) -> filter f l = [p].
Proof.
  induction l as [|x t IH]; intros Hn Hp Hf Hu; [destruct Hp|]. inversion Hn as [|? ? Hx Ht]; subst. simpl.
  destruct Hp as [->|Hp].
  - rewrite Hf. f_equal. apply filter_none. intros y Hy. destruct (f y) eqn:E; [|reflexivity].
    exfalso. assert (y = p) by (apply Hu; [right; exact Hy | exact E]). subst. contradiction.
  - destruct (f x) eqn:E.
    + exfalso. assert (x = p) by (apply Hu; [left; reflexivity | exact E]). subst. contradiction.
    + apply IH; try assumption. intros q Hq Hfq. apply Hu; [right; exact Hq | exact Hfq].
Qed.

Lemma slots_of_keys G (start : nat -> Z) (ps : list nat) p : NoDup ps -> In p ps ->
  (forall q, In q ps -> start q = start p -> q = p) ->
  (forall tg x, In x (map fst (G tg)) -> In x tg) ->
  (G [p] = [(p, (0, 1))]) ->
  forall ks, slot_of (flat_map (fun s => G (filter (fun q => start q =? s) ps)) ks) p = (0, 1).
Proof.
  intros Hn Hp Hu HG H1 ks. induction ks as [|s t IH]; simpl; [reflexivity|].
  destruct (Z.eq_dec s (start p)) as [->|Hs].
  - rewrite (filter_singleton (fun q => start q =? start p) ps p Hn Hp (Z.eqb_refl _)).
    + rewrite H1. simpl. now rewrite Nat.eqb_refl.
    + intros q Hq E. apply Z.eqb_eq in E. apply Hu; assumption.
  - rewrite slot_of_app_notin; [exact IH|]. intros X. apply HG in X. apply filter_In in X. destruct X as [_ X].
    apply Z.eqb_eq in X. congruence.
Qed.

Theorem alone_in_slot idx L p e : nth_error L p = Some e -> is_two_qubit (l_cls (e_leaf e)) = true ->
  (forall p' e', nth_error L p' = Some e' -> is_two_qubit (l_cls (e_leaf e')) = true -> e_start e' = e_start e -> p' = p) ->
  slot_of (two_qubit_slots idx L) p = (0, 1).
Proof.
  intros He Ht Hu. unfold two_qubit_slots, time_groups. cbv zeta. rewrite flat_map_map.
  set (at_ := fun q => nth q L dummy_entry).
  set (ps := filter (fun q => is_two_qubit (l_cls (e_leaf (at_ q)))) (seq 0 (List.length L))).
  assert (Hat : at_ p = e) by (unfold at_; apply nth_error_nth; exact He).
  assert (Hp : In p ps).
  { unfold ps. apply filter_In. split; [apply in_seq; split; [lia|]; simpl; apply nth_error_Some; congruence | now rewrite Hat]. }
  match goal with
  | |- slot_of (flat_map (fun s => group_slots (space_groups ?b ?t _)) ?ks) p = _ =>
      apply (slots_of_keys (fun tg => group_slots (space_groups b t tg)) (fun q => e_start (at_ q)) ps p)
  end.
  - unfold ps. apply nodup_filter. apply seq_NoDup.
  - exact Hp.
  - intros q Hq E. unfold ps in Hq. apply filter_In in Hq. destruct Hq as [Hq Hc]. apply in_seq in Hq.
    assert (Hq' : nth_error L q = Some (at_ q)) by (unfold at_; apply nth_error_nth'; lia).
    apply (Hu q (at_ q) Hq' Hc). rewrite E, Hat. reflexivity.
  - intros tg x Hx. rewrite group_slots_fst in Hx. eapply space_groups_members. exact Hx.
  - reflexivity.
Qed.

(* ... hence drawn exactly at its start time *)
Theorem pivot_alone_exact env ns order lm d p e : true_drawing env ns order lm = Some d ->
  nth_error (listing env ns) p = Some e -> is_two_qubit (l_cls (e_leaf e)) = true -> drawn_cls (l_cls (e_leaf e)) = true ->
  (forall p' e', nth_error (listing env ns) p' = Some e' -> is_two_qubit (l_cls (e_leaf e')) = true ->
                 e_start e' = e_start e -> p' = p) ->
  forall c t, In c (dr_comps d) -> dc_pos c = Z.of_nat p -> In t (dc_tr c) -> tr_x t = (e_start e, 1).
Proof.
  intros Hd He Ht Hdr Hu c t Hc Hpos Htr.
  assert (Hf : In c (filter (fun c => dc_pos c =? Z.of_nat p) (dr_comps d))) by (apply filter_In; split; [exact Hc | now apply Z.eqb_eq]).
  unfold true_drawing in Hd. destruct (reorder_indices (channel_ids ns) order) as [idx0|]; [|discriminate].
  inversion Hd. subst d. clear Hd. simpl in Hf. unfold draw_comps in Hf.
  pose proof (comps_from_at idx0 (two_qubit_slots idx0 (listing env ns)) (listing env ns) 0 p e He) as F. simpl in F.
  rewrite F in Hf. unfold comp_of in Hf. rewrite Hdr, Ht in Hf. destruct Hf as [<-|[]]. simpl in Htr.
  apply in_map_iff in Htr. destruct Htr as [q [<- _]]. simpl.
  rewrite (alone_in_slot idx0 (listing env ns) p e He Ht Hu). reflexivity.
Qed.

(* ------------------------------------------------------------------ every listed channel is an occupied channel *)
Lemma chid_exact_eqb_eq a b : chid_exact_eqb a b = true -> a = b.
Proof.
  destruct a as [i c], b as [j d]. unfold chid_exact_eqb. simpl. rewrite andb_true_iff, Z.eqb_eq. intros [-> H].
  destruct c, d; simpl in H; try discriminate; reflexivity.
Qed.

Lemma uniq_chans_In l : forall seen x, In x l -> In x seen \/ In x (uniq_chans seen l).
Proof.
  induction l as [|y t IH]; intros seen x H; [destruct H|]. simpl. destruct (existsb (chid_exact_eqb y) seen) eqn:E.
  - destruct H as [->|H]; [|apply IH; exact H]. left. apply existsb_exists in E. destruct E as [z [Hz Ez]].
    apply chid_exact_eqb_eq in Ez. subst. exact Hz.
  - destruct H as [->|H]; [right; left; reflexivity|]. destruct (IH (y :: seen) x H) as [[->|X]|X]; [right; left; reflexivity | left; exact X | right; right; exact X].
Qed.

Lemma listing_channels env o : forall c se e ch, In e (listing_op env o c se) -> In ch (l_chans (e_leaf e)) -> In ch (op_channels o).
Proof.
  induction o as [l | r ns IH] using op_ind'; intros c se e ch He Hch.
  - simpl in He. destruct He as [<-|[]]. simpl in Hch. exact Hch.
  - rewrite listing_op_unfold in He. apply in_flat_map in He. destruct He as [i [Hi He]].
    rewrite op_channels_unfold.
    destruct (nth_error ns i) as [n|] eqn:En.
    + destruct (uniq_chans_In (flat_map (fun i => nth i (map (fun n => op_channels (n_op n)) ns) []) (bfs (parents ns))) [] ch) as [[]|X]; [|exact X].
      apply in_flat_map. exists i. split; [exact Hi|].
      rewrite (nth_error_nth _ _ [] (x := op_channels (n_op n))) by (rewrite nth_error_map, En; reflexivity).
      rewrite (nth_error_nth _ _ (fun _ _ => []) (x := listing_op env (n_op n))) in He by (rewrite nth_error_map, En; reflexivity).
      rewrite Forall_forall in IH. eapply (IH n (nth_error_In _ _ En)); eassumption.
    + exfalso. rewrite nth_overflow in He; [destruct He|]. rewrite map_length. apply nth_error_None. exact En.
Qed.

(* the channel index of every channel of every listed operation is an occupied channel, hence a row of the drawing *)
Theorem listed_channel_occupied env ns e ch : In e (listing env ns) -> In ch (l_chans (e_leaf e)) ->
  In (ChannelIdentifier__id ch) (channel_ids ns).
Proof.
  intros He Hch. unfold channel_ids. rewrite (unique_in_order_is_nub Z.eqb Zeqb_spec'). apply (nub_In Z.eqb Zeqb_spec').
  apply in_map. exact (listing_channels env (OComp 1 ns) None (0, 0) e ch He Hch).
Qed.

Lemma reorder_keeps_channels original specific r q : reorder_indices original specific = Some r -> In q original -> In q r.
Proof.
  intros H Hq. destruct (reorder_result _ _ _ H) as [-> _]. apply in_app_iff.
  destruct (in_dec Z.eq_dec q specific); [left; assumption | right; apply rest_of_In; tauto].
Qed.

(* drawn qubits are channels of the operation, for every class of the generated table *)
Definition tpl_covers (cs : class_spec) : bool :=
  if smem "control_qubit_index" (cs_init_fields cs)
  then match cs_chan cs with
       | TplList items => existsb (fun it => Nat.eqb (fst it) 0) items && existsb (fun it => Nat.eqb (fst it) 1) items
       | TplEach _ => false
       end
  else if String.eqb (cs_name cs) "Barrier" then match cs_chan cs with TplEach _ => true | _ => false end
  else true.
Lemma class_table_covers : forallb tpl_covers (no_class :: class_table) = true.
Proof. vm_compute. reflexivity. Qed.

Lemma class_of_in c : In (class_of c) (no_class :: class_table).
Proof.
  unfold class_of. destruct (nth_in_or_default (Z.to_nat c) class_table no_class) as [H|H]; [right; exact H | left; symmetry; exact H].
Qed.

Theorem drawn_qubit_is_channel l q : l_chans l <> [] -> In q (drawn_qubits l) -> In q (map ChannelIdentifier__id (l_chans l)).
Proof.
  intros Hne Hq. pose proof class_table_covers as T. rewrite forallb_forall in T. specialize (T _ (class_of_in (l_cls l))).
  unfold tpl_covers in T. unfold drawn_qubits, is_two_qubit, draws_all_qubits, cls_name, first_channel in Hq. unfold l_chans in *.
  set (cs := class_of (l_cls l)) in *.
  destruct (smem "control_qubit_index" (cs_init_fields cs)).
  - destruct (cs_chan cs) as [items|]; [|discriminate]. apply andb_true_iff in T. destruct T as [T0 T1].
    rewrite map_map. simpl. simpl in Hq. destruct Hq as [Hq|[Hq|Hq]]; [| |destruct Hq]; subst q.
    + apply existsb_exists in T0. destruct T0 as [it [Hit E]]. apply Nat.eqb_eq in E. apply in_map_iff. exists it. rewrite E. split; [reflexivity | exact Hit].
    + apply existsb_exists in T1. destruct T1 as [it [Hit E]]. apply Nat.eqb_eq in E. apply in_map_iff. exists it. rewrite E. split; [reflexivity | exact Hit].
  - destruct (String.eqb (cs_name cs) "Barrier") eqn:EB; cbn [andb] in Hq.
    + destruct (cs_chan cs) as [items|c0]; [discriminate|]. rewrite map_map. simpl. rewrite map_id.
      destruct (smem "Barrier" draw_individual_classes); [exact Hq|].
      destruct Hq as [Hq|Hq]; [|destruct Hq]. subst q.
      destruct (l_qubits l) as [|q0 t]; [exfalso; apply Hne; reflexivity | left; reflexivity].
    + destruct Hq as [Hq|Hq]; [|destruct Hq]. subst q.
      destruct (cs_chan cs) as [items|c0].
      * destruct items as [|it t]; [exfalso; apply Hne; reflexivity | left; reflexivity].
      * destruct (l_qubits l) as [|q0 t]; [exfalso; apply Hne; reflexivity | left; reflexivity].
Qed.

(* every drawn qubit of every listed operation has a row: its channel index is one of the rows, and the row computed for
   it (list.index) really carries that channel *)
Theorem drawn_rows_exist env ns order lm d e q : true_drawing env ns order lm = Some d -> In e (listing env ns) ->
  l_chans (e_leaf e) <> [] -> In q (drawn_qubits (e_leaf e)) ->
  let idx := vd_indices (dr_desc d) in
  In q idx /\ nth_error idx (row_of q idx) = Some q.
Proof.
  intros Hd He Hne Hq idx. assert (Hin : In q idx).
  { unfold idx. unfold true_drawing in Hd. destruct (reorder_indices (channel_ids ns) order) as [idx0|] eqn:R; [|discriminate].
    inversion Hd. subst d. simpl. apply (reorder_keeps_channels _ _ _ _ R).
    pose proof (drawn_qubit_is_channel _ _ Hne Hq) as H. apply in_map_iff in H. destruct H as [ch [<- Hch]].
    eapply listed_channel_occupied; eassumption. }
  split; [exact Hin | apply row_of_spec; exact Hin].
Qed.
