(* C18 — generic memo-table theory (independent of the source tree: nothing here can break when /repo changes).

   A memo table `cache : list (key * val)` in front of a function `truth : world -> key -> val` whose value depends on a
   mutable world.  `lookup_or_compute` is one call of an @lru_cache'd method: a hit returns the stored value, a miss
   computes the current value and stores it.  Invariant: every cached pair is the current truth.  A history is a sequence
   of observations and of mutations of the world; a mutation either empties the table (invalidates) or leaves it alone.

   Main facts:
     coherent_obs   a coherent table answers with the current value and stays coherent
     coherent_mut   emptying the table, or a mutation that does not change the value of any cached key, keeps coherence
     memo_sound     in a history all of whose mutations invalidate, every observation returns the value of the world
                    as it is at that moment (= what an unmemoised run returns), and the final table is coherent
     stale_without_invalidation   non-vacuity: with a mutation that does not invalidate the statement fails *)
From Coq Require Import List Bool.
Import ListNotations.

Section Memo.
Context {W K V : Type}.
Variable keqb : K -> K -> bool.
Variable truth : W -> K -> V.

Definition cache := list (K * V).

Fixpoint lookup (c : cache) (k : K) : option V :=
  match c with
  | [] => None
  | (a, v) :: t => if keqb a k then Some v else lookup t k
  end.

(* one call, given the current value function f = truth w (passed as a closure so that an executable model evaluates the
   world-dependent part of `truth w` once, not once per key) *)
Definition lookup_or_compute_f (f : K -> V) (c : cache) (k : K) : V * cache :=
  match lookup c k with
  | Some v => (v, c)
  | None => let v := f k in (v, (k, v) :: c)
  end.
Definition lookup_or_compute (w : W) (c : cache) (k : K) : V * cache := lookup_or_compute_f (truth w) c k.

(* several calls in a row, threading the table *)
Fixpoint lookup_all_f (f : K -> V) (c : cache) (ks : list K) : list V * cache :=
  match ks with
  | [] => ([], c)
  | k :: t => let '(v, c1) := lookup_or_compute_f f c k in
              let '(vs, c2) := lookup_all_f f c1 t in (v :: vs, c2)
  end.
Definition lookup_all (w : W) (c : cache) (ks : list K) : list V * cache := lookup_all_f (truth w) c ks.

(* "every cached pair is the current truth" (for the keys the equality test can hit) *)
Definition coherent (w : W) (c : cache) : Prop :=
  forall a v k, In (a, v) c -> keqb a k = true -> v = truth w k.

Inductive step :=
| Observe (k : K)
| Mutate (f : W -> W) (invalidates : bool).

Definition do_step (st : W * cache) (s : step) : (W * cache) * list V :=
  let '(w, c) := st in
  match s with
  | Observe k => let '(v, c') := lookup_or_compute w c k in ((w, c'), [v])
  | Mutate f inv => ((f w, if inv then [] else c), [])
  end.

Fixpoint run (st : W * cache) (h : list step) : (W * cache) * list V :=
  match h with
  | [] => (st, [])
  | s :: t => let '(st1, a) := do_step st s in
              let '(st2, b) := run st1 t in (st2, a ++ b)
  end.

(* the same history with no memo table at all *)
Fixpoint run_plain (w : W) (h : list step) : W * list V :=
  match h with
  | [] => (w, [])
  | Observe k :: t => let '(w', b) := run_plain w t in (w', truth w k :: b)
  | Mutate f _ :: t => run_plain (f w) t
  end.

Definition all_invalidate (h : list step) : bool :=
  forallb (fun s => match s with Mutate _ inv => inv | Observe _ => true end) h.

Section Proofs.
Hypothesis keqb_sound : forall a b, keqb a b = true -> a = b.

Lemma coherent_nil w : coherent w [].
Proof. intros a v k H. destruct H. Qed.

Lemma lookup_some c k v : lookup c k = Some v -> exists a, In (a, v) c /\ keqb a k = true.
Proof.
  induction c as [|[a x] t IH]; simpl; [discriminate|].
  destruct (keqb a k) eqn:E.
  - intros H. inversion H. subst. exists a. split; [left; reflexivity | exact E].
  - intros H. destruct (IH H) as [b [Hb Eb]]. exists b. split; [right; exact Hb | exact Eb].
Qed.

Theorem coherent_obs w c k : coherent w c ->
  fst (lookup_or_compute w c k) = truth w k /\ coherent w (snd (lookup_or_compute w c k)).
Proof.
  intros Hc. unfold lookup_or_compute, lookup_or_compute_f. destruct (lookup c k) as [v|] eqn:E; simpl.
  - split; [|exact Hc]. destruct (lookup_some _ _ _ E) as [a [Ha Ea]]. exact (Hc a v k Ha Ea).
  - split; [reflexivity|]. intros a v k' [H|H] Ek.
    + inversion H. subst. apply keqb_sound in Ek. subst. reflexivity.
    + exact (Hc a v k' H Ek).
Qed.

Theorem lookup_all_coherent w ks : forall c, coherent w c ->
  fst (lookup_all w c ks) = map (truth w) ks /\ coherent w (snd (lookup_all w c ks)).
Proof.
  unfold lookup_all. induction ks as [|k t IH]; intros c Hc; simpl; [split; [reflexivity | exact Hc]|].
  generalize (coherent_obs w c k Hc). unfold lookup_or_compute. destruct (lookup_or_compute_f (truth w) c k) as [v c1].
  simpl. intros [Hv Hc1]. generalize (IH c1 Hc1). destruct (lookup_all_f (truth w) c1 t) as [vs c2]. simpl.
  intros [Hvs Hc2]. subst. split; [reflexivity | exact Hc2].
Qed.

(* a mutation keeps coherence if it empties the table, or if it leaves the truth of every cached key as it was *)
Theorem coherent_mut w c (f : W -> W) (inv : bool) : coherent w c ->
  (inv = true \/ forall a v k, In (a, v) c -> keqb a k = true -> truth (f w) k = truth w k) ->
  coherent (f w) (if inv then [] else c).
Proof.
  intros Hc [Hi | Hs].
  - subst. apply coherent_nil.
  - destruct inv; [apply coherent_nil|]. intros a v k Ha Ek. rewrite (Hs a v k Ha Ek). exact (Hc a v k Ha Ek).
Qed.

Theorem memo_sound h : forall w c, coherent w c -> all_invalidate h = true ->
  snd (run (w, c) h) = snd (run_plain w h) /\
  fst (fst (run (w, c) h)) = fst (run_plain w h) /\
  coherent (fst (fst (run (w, c) h))) (snd (fst (run (w, c) h))).
Proof.
  induction h as [|s t IH]; intros w c Hc Hall; simpl.
  - repeat split. exact Hc.
  - simpl in Hall. apply andb_true_iff in Hall. destruct Hall as [Hs Ht]. destruct s as [k | f inv].
    + destruct (coherent_obs w c k Hc) as [Hv Hc1]. destruct (lookup_or_compute w c k) as [v c1]. simpl in Hv, Hc1.
      generalize (IH w c1 Hc1 Ht). destruct (run (w, c1) t) as [[w2 c2] b]. destruct (run_plain w t) as [w' b'].
      simpl. intros [A [B C]]. simpl in A, B. subst. split; [reflexivity | split; [reflexivity | exact C]].
    + subst inv. generalize (IH (f w) [] (coherent_nil _) Ht). change (list (K * V)) with cache.
      destruct (run (f w, ([] : cache)) t) as [[w2 c2] b]. simpl. intros [A [B C]]. split; [exact A | split; [exact B | exact C]].
Qed.
End Proofs.
End Memo.

(* non-vacuity: one mutation that does not invalidate, and the memoised run answers with the old value *)
Example stale_without_invalidation :
  let truth := (fun (w : nat) (_ : unit) => w) in
  let h := [Observe tt; Mutate (fun _ => 5) false; Observe tt] in
  snd (run (fun _ _ => true) truth (1, []) h) = [1; 1] /\ snd (run_plain truth 1 h) = [1; 5].
Proof. split; reflexivity. Qed.

Example fresh_with_invalidation :
  let truth := (fun (w : nat) (_ : unit) => w) in
  let h := [Observe tt; Mutate (fun _ => 5) true; Observe tt] in
  snd (run (fun _ _ => true) truth (1, []) h) = [1; 5].
Proof. reflexivity. Qed.
