(* C18 — executable model of the circuit drawing (visualization/visualize_circuit/display_circuit.py,
   draw_components/transform_constructor.py, intrf_factory_draw_components.py, draw_components/factory_draw_components.py,
   draw_components/factory_multi_draw_components.py) and of plot_circuit as a state transformer over
   (circuit structure, duration settings, the two memo tables of the get_start_time methods).

   display_circuit.reorder_indices                      -> reorder_indices   (duplicates in the requested order are kept, as coded)
   display_circuit.construct_visual_description          -> visual_description (channel indices, labels per row, width, height)
   TransformConstructor.identifier_to_pivot / _width     -> pivot_x, row_y, transforms of a component
   BulkDrawComponentFactoryManager / DrawComponentFactoryManager / MultiTwoQubitBlockFactory -> draw_comps
   TimeSharedOperations.divide / SpaceSharedOperations.divide -> time_groups / space_groups   (the artistic offset)
   display_circuit.plot_circuit                          -> plot_with / plot

   Everything that is a literal or a decorator of the source is read from Gen/Flags.v (regenerated on every run).
   Times are Z in ticks of 1/8; drawing coordinates are rationals (numerator, positive denominator) in the same unit.
   No proofs in this file. *)
From Coq Require Import ZArith List Bool String.
Import ListNotations.
From QCE Require Import Base.Prelude Core.Model Core.Run C19.Model C18.Memo.
From Gen Require Import Ident Classes Flags.
Open Scope string_scope.
Open Scope list_scope.
Open Scope Z_scope.

(* ------------------------------------------------------------------ rationals *)
Definition rat := (Z * Z)%type.
Definition rat_eqb (a b : rat) : bool := fst a * snd b =? fst b * snd a.
Definition rat_of_Z (z : Z) : rat := (z, 1).

(* ------------------------------------------------------------------ channel order and labels *)
Definition zmem (x : Z) (l : list Z) : bool := existsb (Z.eqb x) l.

(* reorder_indices: ValueError (None) unless every requested index is an original one; then the requested order as given,
   followed by the original indices that were not requested, in original order *)
Definition reorder_indices (original specific : list Z) : option (list Z) :=
  if forallb (fun i => zmem i original) specific
  then Some (specific ++ filter (fun i => negb (zmem i specific)) original)
  else None.

(* unique_in_order([identifier.id for identifier in circuit.occupied_qubit_channels]) *)
Definition channel_ids (ns : list node) : list Z :=
  unique_in_order Z.eqb (map ChannelIdentifier__id (op_channels (OComp 1 ns))).

(* custom_channel_map: channel index -> label (a Python dict: first binding of a key) *)
Definition label_map := list (Z * Z).
Fixpoint assoc_opt (m : label_map) (k : Z) : option Z :=
  match m with [] => None | (a, b) :: t => if a =? k then Some b else assoc_opt t k end.
(* custom_channel_map.get(channel_index, channel_index); no map given = the identity map on the occupied channels *)
Definition label_of (lm : option label_map) (ch : Z) : Z :=
  match lm with
  | None => ch
  | Some m => match assoc_opt m ch with Some l => l | None => ch end
  end.

(* position of the first occurrence (list.index); length of the list if absent (Python: ValueError) *)
Fixpoint row_of (q : Z) (idx : list Z) : nat :=
  match idx with [] => O | x :: t => if x =? q then O else S (row_of q t) end.

(* ------------------------------------------------------------------ visual description *)
Record vdesc := { vd_indices : list Z;      (* channel index of every row, top to bottom *)
                  vd_labels : list Z;       (* label of every row *)
                  vd_width : Z;             (* channel_width, ticks *)
                  vd_height : Z }.          (* channel_height, ticks *)

(* end_time = <floor>; for operation in operations: if operation.end_time > end_time: end_time = operation.end_time *)
Definition latest_end (L : list entry) : Z :=
  fold_left (fun acc e => if e_end e >? acc then e_end e else acc) L draw_width_floor.

Definition mk_vdesc (idx : list Z) (lm : option label_map) (L : list entry) : vdesc :=
  {| vd_indices := idx; vd_labels := map (label_of lm) idx;
     vd_width := latest_end L + draw_width_margin; vd_height := draw_channel_height |}.

Definition visual_description (env : denv) (ns : list node) (order : list Z) (lm : option label_map) : option vdesc :=
  match reorder_indices (channel_ids ns) order with
  | None => None
  | Some idx => Some (mk_vdesc idx lm (listing env ns))
  end.

(* ------------------------------------------------------------------ pivots *)
(* y = -1 * channel_indices.index(identifier.id) * channel_spacing, channel_spacing = channel_height * num / den *)
Definition row_y (row : nat) : rat := (- Z.of_nat row * draw_channel_height * draw_spacing_num, draw_spacing_den).
(* x = time_component.<pivot_x_attr> *)
Definition pivot_x (e : entry) : Z := if String.eqb pivot_x_attr "start_time" then e_start e else e_end e.

Record tr := { tr_q : Z;         (* channel index the transform was asked for *)
               tr_x : rat; tr_y : rat;      (* pivot *)
               tr_w : Z }.       (* width = duration *)
Record comp := { dc_pos : Z;     (* listing position of the drawn operation *)
                 dc_tr : list tr }.

Definition mk_tr (idx : list Z) (x : rat) (w : Z) (q : Z) : tr :=
  {| tr_q := q; tr_x := x; tr_y := row_y (row_of q idx); tr_w := w |}.

(* which factory an operation class gets *)
Definition cls_name (c : Z) : string := cs_name (class_of c).
Definition smem (s : string) (l : list string) : bool := existsb (String.eqb s) l.
(* isinstance(operation, TwoQubitOperation): the classes with a control / target qubit *)
Definition is_two_qubit (c : Z) : bool := smem "control_qubit_index" (cs_init_fields (class_of c)).
(* a grouped two-qubit operation is drawn only if its exact type is in the lookup of MultiTwoQubitBlockFactory *)
Definition two_qubit_drawn (c : Z) : bool := smem (cls_name c) draw_two_qubit_classes.
Definition drawn_cls (c : Z) : bool := if is_two_qubit c then two_qubit_drawn c else draw_individual_has_default.
(* BarrierFactory (exact type Barrier, if registered) asks for one transform per qubit; every other single factory,
   including the default one, for the first channel identifier only *)
Definition draws_all_qubits (c : Z) : bool := String.eqb (cls_name c) "Barrier" && smem "Barrier" draw_individual_classes.
Definition first_channel (l : leaf) : Z := match l_chans l with [] => 0 | c :: _ => ChannelIdentifier__id c end.
Definition drawn_qubits (l : leaf) : list Z :=
  if is_two_qubit (l_cls l) then [nth 0 (l_qubits l) 0; nth 1 (l_qubits l) 0]
  else if draws_all_qubits (l_cls l) then l_qubits l
  else [first_channel l].

(* ------------------------------------------------------------------ two-qubit gates sharing a time slot *)
Definition dummy_leaf : leaf := mk_leaf 0 0 [] QubitChannel_ALL (DFixed 0) None.
Definition dummy_entry : entry := {| e_leaf := dummy_leaf; e_start := 0; e_end := 0 |}.

(* TimeSharedOperations.divide: a dict keyed by start time, in order of first appearance *)
Definition time_groups (start : nat -> Z) (ps : list nat) : list (list nat) :=
  map (fun s => filter (fun p => start p =? s) ps) (unique_in_order Z.eqb (map start ps)).

(* binary64 arithmetic on the few numbers that decide the visiting order and the grouping of SpaceSharedOperations.divide.
   A value is a dyadic m * 2^e; every operation computes the exact dyadic result and rounds it to 53 significant bits, ties
   to even (no overflow / subnormals in this range).  The bottom edges of two gates with the same lowest row are equal as
   rationals but can differ in the last bit as computed, and that decides which gate is shifted left. *)
Definition dy := (Z * Z)%type.
Definition dy_rnd (d : dy) : dy :=
  let '(m, e) := d in
  if m =? 0 then (0, 0) else
  let k := Z.log2 (Z.abs m) + 1 - 53 in
  if k <=? 0 then (m, e) else
  let q := Z.abs m / 2 ^ k in
  let r := Z.abs m mod 2 ^ k in
  let half := 2 ^ (k - 1) in
  let q' := if (r >? half) || ((r =? half) && Z.odd q) then q + 1 else q in
  (Z.sgn m * q', e + k).
Definition dy_add (a b : dy) : dy :=
  let e := Z.min (snd a) (snd b) in (fst a * 2 ^ (snd a - e) + fst b * 2 ^ (snd b - e), e).
Definition dy_neg (a : dy) : dy := (- fst a, snd a).
Definition dy_leb (a b : dy) : bool :=
  let e := Z.min (snd a) (snd b) in fst a * 2 ^ (snd a - e) <=? fst b * 2 ^ (snd b - e).
Definition fl_add (a b : dy) : dy := dy_rnd (dy_add a b).
Definition fl_mul (a b : dy) : dy := dy_rnd (fst a * fst b, snd a + snd b).
(* the binary64 literal nearest to n/d (n, d > 0): 200 extra bits and a sticky bit *)
Definition fl_of_rat (n d : Z) : dy :=
  let q := (n * 2 ^ 200) / d in
  let r := (n * 2 ^ 200) mod d in
  dy_rnd (2 * q + (if r =? 0 then 0 else 1), -201).
Definition dy_min (a b : dy) : dy := if dy_leb a b then a else b.
Definition dy_max (a b : dy) : dy := if dy_leb a b then b else a.

Definition f_height : dy := (draw_channel_height, -3).                                   (* channel_height = 1.0 *)
Definition f_spacing : dy := fl_mul f_height (fl_of_rat draw_spacing_num draw_spacing_den).   (* channel_height * 1.2 *)
Definition f_half_height : dy := fl_mul (1, -1) f_height.
(* y = -1 * index * channel_spacing ((-1 * index) is an int) *)
Definition f_row_y (row : Z) : dy := fl_mul (- row, 0) f_spacing.
(* bottom and top edge (bot_pivot.y, top_pivot.y) of combine_transforms of the two single-row transforms of a gate *)
Definition f_edges (r0 r1 : Z) : dy * dy :=
  let so := fun r => fl_add (f_row_y r) (dy_neg f_half_height) in       (* origin_pivot.y of a MID_LEFT transform *)
  let st := fun r => fl_add (f_row_y r) f_half_height in                 (* origin_opposite_pivot.y *)
  let oy := dy_min (so r0) (so r1) in
  let opp := dy_max (st r0) (st r1) in
  let H := fl_add opp (dy_neg oy) in
  let hH := fl_mul (1, -1) H in
  let center := fl_add oy hH in                                          (* BOT_LEFT: pivot.y + 0.5 * height *)
  (fl_add center (dy_neg hH), fl_add center hH).

(* stable insertion sort by increasing key (sorted(..., key=...)) *)
Fixpoint key_insert (key : nat -> dy) (x : nat) (l : list nat) : list nat :=
  match l with [] => [x] | y :: t => if dy_leb (key x) (key y) then x :: l else y :: key_insert key x t end.
Fixpoint key_sort (key : nat -> dy) (l : list nat) : list nat :=
  match l with [] => [] | x :: t => key_insert key x (key_sort key t) end.

(* SpaceSharedOperations.divide.  Gates are visited by increasing bottom edge; a gate joins the LAST group whose recorded
   upper bound is not below its bottom edge, and the group's upper bound is REPLACED by the gate's own top edge; otherwise it
   opens a new group.  (As coded: no break in the search loop, no max.) *)
Fixpoint last_match_from {A} (f : A -> bool) (l : list A) (i : nat) (best : option nat) : option nat :=
  match l with [] => best | x :: t => last_match_from f t (S i) (if f x then Some i else best) end.
Fixpoint update_nth {A} (i : nat) (f : A -> A) (l : list A) : list A :=
  match l, i with
  | [], _ => []
  | x :: t, O => f x :: t
  | x :: t, S j => x :: update_nth j f t
  end.
Definition space_step (bot top : nat -> dy) (st : list (list nat * dy)) (p : nat) : list (list nat * dy) :=
  match last_match_from (fun g : list nat * dy => dy_leb (bot p) (snd g)) st 0 None with
  | Some gi => update_nth gi (fun g => (fst g ++ [p], top p)) st
  | None => st ++ [([p], top p)]
  end.
Definition space_groups (bot top : nat -> dy) (ps : list nat) : list (list nat) :=
  map fst (fold_left (space_step bot top) (key_sort bot ps) []).

(* (operation, element_index, group_size) for every member of every group *)
Fixpoint with_index_from (j : nat) (n : nat) (g : list nat) : list (nat * (Z * Z)) :=
  match g with [] => [] | p :: t => (p, (Z.of_nat j, Z.of_nat n)) :: with_index_from (S j) n t end.
Definition group_slots (gs : list (list nat)) : list (nat * (Z * Z)) :=
  flat_map (fun g => with_index_from 0 (List.length g) g) gs.

Fixpoint slot_of (sl : list (nat * (Z * Z))) (p : nat) : Z * Z :=
  match sl with [] => (0, 1) | (a, jn) :: t => if Nat.eqb a p then jn else slot_of t p end.

(* all slots of a listing: positions of the two-qubit operations -> time groups -> space groups *)
Definition two_qubit_slots (idx : list Z) (L : list entry) : list (nat * (Z * Z)) :=
  let at_ := fun p => nth p L dummy_entry in
  let ps := filter (fun p => is_two_qubit (l_cls (e_leaf (at_ p)))) (seq 0 (List.length L)) in
  let r0 := fun p => Z.of_nat (row_of (nth 0 (l_qubits (e_leaf (at_ p))) 0) idx) in
  let r1 := fun p => Z.of_nat (row_of (nth 1 (l_qubits (e_leaf (at_ p))) 0) idx) in
  let bot := fun p => fst (f_edges (r0 p) (r1 p)) in
  let top := fun p => snd (f_edges (r0 p) (r1 p)) in
  flat_map (fun tg => group_slots (space_groups bot top tg)) (time_groups (fun p => e_start (at_ p)) ps).

(* pivot x of a grouped gate: element j of a group of n (n > 1) is shifted by
   bounded_offset * 1/2 * scalar * duration^power  (time units), bounded_offset = 2 * j / (n - 1) - 1;
   in ticks (duration D ticks): (2j - (n-1)) * scalar_num * D^power / ((n-1) * 2 * scalar_den * 8^(power-1)) *)
Definition offset_num (j n D : Z) : Z := (2 * j - (n - 1)) * draw_offset_scalar_num * D ^ draw_offset_duration_power.
Definition offset_den (n : Z) : Z := (n - 1) * 2 * draw_offset_scalar_den * 8 ^ (draw_offset_duration_power - 1).
Definition shifted_x (x0 : Z) (jn : Z * Z) (D : Z) : rat :=
  let '(j, n) := jn in
  if n <=? 1 then rat_of_Z x0 else (x0 * offset_den n + offset_num j n D, offset_den n).

(* ------------------------------------------------------------------ draw components of a listing *)
Definition comp_of (idx : list Z) (slots : list (nat * (Z * Z))) (p : nat) (e : entry) : list comp :=
  let l := e_leaf e in
  if drawn_cls (l_cls l) then
    let D := e_end e - e_start e in
    let x := if is_two_qubit (l_cls l) then shifted_x (pivot_x e) (slot_of slots p) D else rat_of_Z (pivot_x e) in
    [ {| dc_pos := Z.of_nat p; dc_tr := map (mk_tr idx x D) (drawn_qubits l) |} ]
  else [].

Fixpoint comps_from (idx : list Z) (slots : list (nat * (Z * Z))) (p : nat) (L : list entry) : list comp :=
  match L with [] => [] | e :: t => comp_of idx slots p e ++ comps_from idx slots (S p) t end.
Definition draw_comps (idx : list Z) (L : list entry) : list comp := comps_from idx (two_qubit_slots idx L) 0 L.

(* what is drawn: the description, the listing as the drawing saw it, and one component per drawn operation *)
Record drawing := { dr_desc : vdesc; dr_ops : list entry; dr_comps : list comp }.
Definition mk_drawing (idx : list Z) (lm : option label_map) (L : list entry) : drawing :=
  {| dr_desc := mk_vdesc idx lm L; dr_ops := L; dr_comps := draw_comps idx L |}.

(* the drawing of a circuit under given durations, computed from the true (unmemoised) schedule *)
Definition true_drawing (env : denv) (ns : list node) (order : list Z) (lm : option label_map) : option drawing :=
  match reorder_indices (channel_ids ns) order with
  | None => None
  | Some idx => Some (mk_drawing idx lm (listing env ns))
  end.

(* ------------------------------------------------------------------ the memoised start times *)
(* key of a memo entry: (the link object, own duration).  The link object of a listed operation is named by the operation's
   listing position -- plot_circuit does not change the circuit structure, so the name is stable while it runs. *)
Definition mkey := (nat * Z)%type.
Definition mkey_eqb (a b : mkey) : bool := Nat.eqb (fst a) (fst b) && (snd a =? snd b).
Definition world := (denv * list node)%type.
(* what get_start_time computes when nothing is cached: the start in the current schedule *)
Definition start_truth (w : world) : mkey -> Z :=
  let L := listing (fst w) (snd w) in fun k => e_start (nth (fst k) L dummy_entry).
Definition mcache := list (mkey * Z).

Record mstate := { ms_env : denv; ms_nodes : list node;
                   ms_rl : mcache;        (* RelationLink.get_start_time *)
                   ms_ml : mcache }.      (* MultiRelationLink.get_start_time *)
Definition ms_world (st : mstate) : world := (ms_env st, ms_nodes st).
Definition fresh_state (env : denv) (ns : list node) : mstate := {| ms_env := env; ms_nodes := ns; ms_rl := []; ms_ml := [] |}.

(* what the source does about the memo tables (instantiated from Gen/Flags.v below) *)
Record mflags := {
  mf_rl_memo : bool; mf_ml_memo : bool;               (* @lru_cache on the two get_start_time methods *)
  mf_inv_rl : bool; mf_inv_ml : bool;                 (* tables cleared by invalidate_start_time_cache *)
  mf_enter_inv : bool; mf_leave_inv : bool;           (* temporary_override_get_registry_at calls it on entry / in finally *)
  mf_override : bool;                                 (* compact mode enters the override with the visualization durations *)
  mf_inner_rl : bool; mf_inner_ml : bool;             (* tables named by clear_lru_cache(...) inside plot_circuit *)
  mf_inner_enter : bool; mf_inner_exit : bool }.      (* clear_lru_cache clears on entry / on exit *)

Definition src_flags : mflags :=
  {| mf_rl_memo := relation_link_memoised; mf_ml_memo := multi_relation_link_memoised;
     mf_inv_rl := invalidate_clears_relation_link; mf_inv_ml := invalidate_clears_multi_relation_link;
     mf_enter_inv := mutation_point_invalidates MP_override_enter; mf_leave_inv := mutation_point_invalidates MP_override_leave;
     mf_override := plot_compact_overrides_durations && String.eqb plot_compact_override_registry "VISUALIZATION_DURATION_REGISTRY";
     mf_inner_rl := plot_compact_clears_relation_link; mf_inner_ml := plot_compact_clears_multi_relation_link;
     mf_inner_enter := clear_lru_cache_clears_on_enter; mf_inner_exit := clear_lru_cache_clears_on_exit |}.

(* which memo table a listed operation's start goes through: the link it holds after the hand-off *)
Definition holds_multi (g : glink) : bool := match g with GMulti (_ :: _) => true | _ => false end.
Definition multi_flags (ns : list node) : list bool := map (fun x => holds_multi (snd x)) (glisting ns).

Section WithFlags.
Variable F : mflags.

(* one start-time query of listing position p (own duration d) *)
Definition m_start (f : mkey -> Z) (multi : bool) (rl ml : mcache) (k : mkey) : Z * (mcache * mcache) :=
  if multi then
    if mf_ml_memo F then let '(v, ml') := lookup_or_compute_f mkey_eqb f ml k in (v, (rl, ml')) else (f k, (rl, ml))
  else
    if mf_rl_memo F then let '(v, rl') := lookup_or_compute_f mkey_eqb f rl k in (v, (rl', ml)) else (f k, (rl, ml)).

(* the listing as reported through the memo tables: start from the table, end = start + the (never memoised) own duration *)
Fixpoint m_entries (f : mkey -> Z) (p : nat) (L : list entry) (M : list bool) (rl ml : mcache) : list entry * (mcache * mcache) :=
  match L with
  | [] => ([], (rl, ml))
  | e :: t =>
      let d := e_end e - e_start e in
      let '(s, (rl1, ml1)) := m_start f (hd false M) rl ml (p, d) in
      let '(es, c2) := m_entries f (S p) t (tl M) rl1 ml1 in
      ({| e_leaf := e_leaf e; e_start := s; e_end := s + d |} :: es, c2)
  end.
Definition m_listing (st : mstate) : list entry * mstate :=
  let '(es, (rl, ml)) := m_entries (start_truth (ms_world st)) 0 (listing (ms_env st) (ms_nodes st)) (multi_flags (ms_nodes st))
                                   (ms_rl st) (ms_ml st) in
  (es, {| ms_env := ms_env st; ms_nodes := ms_nodes st; ms_rl := rl; ms_ml := ml |}).

(* a user's observation: operations (through the memo tables), circuit duration and sub-circuit table *)
Definition obs_of (env : denv) (ns : list node) (L : list entry) : obs :=
  {| o_ops := map (entry_to_o env) L; o_duration := comp_duration env ns; o_comps := comps_op env (OComp 1 ns) None |}.
Definition m_obs (st : mstate) : obs * mstate :=
  let '(L, st') := m_listing st in (obs_of (ms_env st) (ms_nodes st) L, st').

(* invalidate_start_time_cache() *)
Definition invalidate (st : mstate) : mstate :=
  {| ms_env := ms_env st; ms_nodes := ms_nodes st;
     ms_rl := if mf_inv_rl F then [] else ms_rl st; ms_ml := if mf_inv_ml F then [] else ms_ml st |}.
Definition set_env (env : denv) (st : mstate) : mstate :=
  {| ms_env := env; ms_nodes := ms_nodes st; ms_rl := ms_rl st; ms_ml := ms_ml st |}.
(* clear_lru_cache(<method>).__enter__ / __exit__ inside plot_circuit *)
Definition inner_clear (b : bool) (st : mstate) : mstate :=
  if b then {| ms_env := ms_env st; ms_nodes := ms_nodes st;
               ms_rl := if mf_inner_rl F then [] else ms_rl st; ms_ml := if mf_inner_ml F then [] else ms_ml st |}
  else st.

(* VISUALIZATION_DURATION_REGISTRY swapped in for the global lookup; registry durations are not touched *)
Definition gkey_name (k : gkey) : string :=
  match k with GReadout => "READOUT" | GMicrowave => "MICROWAVE" | GFlux => "FLUX" | GReset => "RESET" end.
Definition vis_env (env : denv) : denv :=
  {| genv := fun k => match table_get VISUALIZATION_DURATION_REGISTRY (gkey_name k) with Some v => v | None => 0 end;
     renv := renv env |}.
(* the durations the drawing is made under *)
Definition drawing_env (compact : bool) (env : denv) : denv := if compact && mf_override F then vis_env env else env.

(* construct_visual_description + the draw components, reading every time through the memo tables.
   An unknown channel raises before any time is read. *)
Definition draw (order : list Z) (lm : option label_map) (st : mstate) : option drawing * mstate :=
  match reorder_indices (channel_ids (ms_nodes st)) order with
  | None => (None, st)
  | Some idx => let '(L, st') := m_listing st in (Some (mk_drawing idx lm L), st')
  end.

(* plot_circuit(circuit, channel_order, channel_map, compact_visualization): the `with` blocks unwind on an exception too *)
Definition plot_with (compact : bool) (order : list Z) (lm : option label_map) (st : mstate) : option drawing * mstate :=
  if compact then
    let env0 := ms_env st in
    let st1 := if mf_override F
               then (let s := set_env (vis_env env0) st in if mf_enter_inv F then invalidate s else s)
               else st in
    let st2 := inner_clear (mf_inner_enter F) st1 in
    let '(d, st3) := draw order lm st2 in
    let st4 := inner_clear (mf_inner_exit F) st3 in
    let st5 := if mf_override F
               then (let s := set_env env0 st4 in if mf_leave_inv F then invalidate s else s)
               else st4 in
    (d, st5)
  else draw order lm st.

(* every mutation of a schedule input made by plot_circuit empties both tables *)
Definition mf_sound : bool := mf_inv_rl F && mf_inv_ml F && mf_enter_inv F && mf_leave_inv F.
End WithFlags.

Definition plot := plot_with src_flags.
(* the complete condition read from the source: every schedule-mutation point of the library invalidates, and the
   invalidation empties both tables *)
Definition flags_sound : bool :=
  all_mutation_points_invalidate && invalidate_clears_relation_link && invalidate_clears_multi_relation_link
  && mf_sound src_flags.

(* the history of one check case: observe, plot, observe *)
Definition history (env : denv) (ns : list node) (compact : bool) (order : list Z) (lm : option label_map)
  : obs * option drawing * obs :=
  let '(o1, st1) := m_obs src_flags (fresh_state env ns) in
  let '(d, st2) := plot compact order lm st1 in
  let '(o2, _) := m_obs src_flags st2 in
  (o1, d, o2).
