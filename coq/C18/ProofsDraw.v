(* C18 — lemmas about the drawing itself: channel order, labels, figure width, pivots of the draw components. *)
From Coq Require Import ZArith List Bool String Lia Permutation.
Import ListNotations.
From QCE Require Import Base.Prelude Core.Model Core.Run C19.Model C18.Memo C18.Model.
From Gen Require Import Ident Classes Flags.
Open Scope string_scope.
Open Scope list_scope.
Open Scope Z_scope.

(* ------------------------------------------------------------------ reorder_indices *)
Lemma filter_none {A} (f : A -> bool) l : (forall x, In x l -> f x = false) -> filter f l = [].
Proof.
  induction l as [|x t IH]; intros H; simpl; [reflexivity|]. rewrite (H x (or_introl eq_refl)). apply IH.
  intros y Hy. apply H. right. exact Hy.
Qed.

Lemma filter_all {A} (f : A -> bool) l : (forall x, In x l -> f x = true) -> filter f l = l.
Proof.
  induction l as [|x t IH]; intros H; simpl; [reflexivity|]. rewrite (H x (or_introl eq_refl)). f_equal. apply IH.
  intros y Hy. apply H. right. exact Hy.
Qed.

Lemma zmem_In x l : zmem x l = true <-> In x l.
Proof.
  unfold zmem. rewrite existsb_exists. split.
  - intros [y [H E]]. apply Z.eqb_eq in E. subst. exact H.
  - intros H. exists x. split; [exact H | apply Z.eqb_refl].
Qed.

Lemma zmem_false x l : zmem x l = false <-> ~ In x l.
Proof. rewrite <- zmem_In. destruct (zmem x l); split; congruence. Qed.

Definition rest_of (original specific : list Z) : list Z := filter (fun i => negb (zmem i specific)) original.

Theorem reorder_some original specific : (forall i, In i specific -> In i original) ->
  reorder_indices original specific = Some (specific ++ rest_of original specific).
Proof.
  intros H. unfold reorder_indices.
  assert (E : forallb (fun i => zmem i original) specific = true).
  { apply forallb_forall. intros i Hi. apply zmem_In. auto. }
  rewrite E. reflexivity.
Qed.

(* an unknown channel in the requested order -> error, and only then *)
Theorem reorder_rejects original specific :
  reorder_indices original specific = None <-> exists i, In i specific /\ ~ In i original.
Proof.
  unfold reorder_indices. destruct (forallb (fun i => zmem i original) specific) eqn:E; split.
  - discriminate.
  - intros [i [Hi Hn]]. rewrite forallb_forall in E. apply E in Hi. apply zmem_In in Hi. contradiction.
  - intros _. assert (X : ~ forallb (fun i => zmem i original) specific = true) by congruence.
    clear E. induction specific as [|a t IH]; simpl in X; [congruence|].
    destruct (zmem a original) eqn:Ea; simpl in X.
    + destruct (IH X) as [i [Hi Hn]]. exists i. split; [right; exact Hi | exact Hn].
    + exists a. split; [left; reflexivity | apply zmem_false; exact Ea].
  - reflexivity.
Qed.

Lemma reorder_result original specific r : reorder_indices original specific = Some r ->
  r = specific ++ rest_of original specific /\ forall i, In i specific -> In i original.
Proof.
  unfold reorder_indices. destruct (forallb (fun i => zmem i original) specific) eqn:E; [|discriminate].
  intros H. inversion H. split; [reflexivity|]. intros i Hi. rewrite forallb_forall in E. apply zmem_In. auto.
Qed.

Lemma nodup_filter {A} (f : A -> bool) l : NoDup l -> NoDup (filter f l).
Proof.
  induction 1 as [|x l Hx Hl IH]; simpl; [constructor|]. destruct (f x); [|exact IH].
  constructor; [|exact IH]. intros H. apply filter_In in H. tauto.
Qed.

Lemma nodup_app {A} (a b : list A) : NoDup a -> NoDup b -> (forall x, In x a -> ~ In x b) -> NoDup (a ++ b).
Proof.
  induction 1 as [|x a Hx Ha IH]; intros Hb D; simpl; [exact Hb|].
  constructor.
  - rewrite in_app_iff. intros [H|H]; [contradiction | exact (D x (or_introl eq_refl) H)].
  - apply IH; [exact Hb|]. intros y Hy. apply D. right. exact Hy.
Qed.

Lemma rest_of_In original specific x : In x (rest_of original specific) <-> In x original /\ ~ In x specific.
Proof. unfold rest_of. rewrite filter_In, negb_true_iff, zmem_false. tauto. Qed.

(* a duplicate-free requested order made of occupied channels: the rows are a permutation of the occupied channels, they
   start with the requested order, and the remaining channels follow in their original order *)
Theorem reorder_perm original specific : NoDup original -> NoDup specific -> (forall i, In i specific -> In i original) ->
  exists rest, reorder_indices original specific = Some (specific ++ rest)
               /\ rest = filter (fun i => negb (zmem i specific)) original
               /\ Permutation (specific ++ rest) original /\ NoDup (specific ++ rest).
Proof.
  intros No Ns Hin. exists (rest_of original specific). split; [apply reorder_some; exact Hin|]. split; [reflexivity|].
  assert (ND : NoDup (specific ++ rest_of original specific)).
  { apply nodup_app; [exact Ns | apply nodup_filter; exact No|]. intros x Hx Hr. apply rest_of_In in Hr. tauto. }
  split; [|exact ND]. apply NoDup_Permutation; [exact ND | exact No|].
  intros x. rewrite in_app_iff, rest_of_In. split.
  - intros [H|[H _]]; auto.
  - intros H. destruct (in_dec Z.eq_dec x specific); [left; assumption | right; tauto].
Qed.

(* the remaining channels keep their original relative order: they are the original list with the requested ones erased *)
Lemma rest_of_nil original : rest_of original [] = original.
Proof. unfold rest_of. apply filter_all. intros x _. reflexivity. Qed.

(* no requested order: the rows are the occupied channels as they are *)
Corollary reorder_none original : reorder_indices original [] = Some original.
Proof. rewrite reorder_some; [|intros i []]. simpl. now rewrite rest_of_nil. Qed.

(* the occupied channels are duplicate-free *)
Lemma Zeqb_spec' : forall x y : Z, (x =? y) = true <-> x = y.
Proof. intros. apply Z.eqb_eq. Qed.

(* ------------------------------------------------------------------ visual description *)
Lemma visual_description_some env ns order lm d : visual_description env ns order lm = Some d ->
  exists idx, reorder_indices (channel_ids ns) order = Some idx /\ d = mk_vdesc idx lm (listing env ns).
Proof.
  unfold visual_description. destruct (reorder_indices (channel_ids ns) order) as [idx|]; [|discriminate].
  intros H. inversion H. exists idx. split; reflexivity.
Qed.

(* unknown channel: never a description *)
Theorem description_rejects env ns order lm :
  visual_description env ns order lm = None <-> exists i, In i order /\ ~ In i (channel_ids ns).
Proof.
  rewrite <- reorder_rejects. unfold visual_description. destruct (reorder_indices (channel_ids ns) order); split; congruence.
Qed.

(* ------------------------------------------------------------------ labels *)
Lemma label_of_none ch : label_of None ch = ch.
Proof. reflexivity. Qed.

Lemma assoc_opt_none m k : assoc_opt m k = None <-> ~ In k (map fst m).
Proof.
  induction m as [|[a b] t IH]; simpl; [tauto|]. destruct (a =? k) eqn:E.
  - apply Z.eqb_eq in E. split; [discriminate | intros H; exfalso; apply H; left; exact E].
  - apply Z.eqb_neq in E. rewrite IH. tauto.
Qed.

(* the label given for a channel is the first binding of that channel in the map *)
Lemma assoc_opt_some m k l : assoc_opt m k = Some l <->
  exists m1 m2, m = m1 ++ (k, l) :: m2 /\ ~ In k (map fst m1).
Proof.
  induction m as [|[a b] t IH]; simpl.
  - split; [discriminate|]. intros [m1 [m2 [H _]]]. destruct m1; discriminate.
  - destruct (a =? k) eqn:E.
    + apply Z.eqb_eq in E. subst a. split.
      * intros H. inversion H. subst. exists [], t. split; [reflexivity | intros []].
      * intros [m1 [m2 [H Hn]]]. destruct m1 as [|[a' b'] m1]; simpl in H; inversion H; subst; [reflexivity|].
        exfalso. apply Hn. left. reflexivity.
    + apply Z.eqb_neq in E. rewrite IH. split.
      * intros [m1 [m2 [H Hn]]]. exists ((a, b) :: m1), m2. split; [simpl; now rewrite H|]. simpl. intros [X|X]; [congruence | contradiction].
      * intros [m1 [m2 [H Hn]]]. destruct m1 as [|[a' b'] m1]; simpl in H; inversion H; subst; [congruence|].
        exists m1, m2. split; [reflexivity|]. intros X. apply Hn. right. exact X.
Qed.

Lemma label_of_bound m ch l : assoc_opt m ch = Some l -> label_of (Some m) ch = l.
Proof. intros H. simpl. now rewrite H. Qed.
Lemma label_of_default m ch : ~ In ch (map fst m) -> label_of (Some m) ch = ch.
Proof. intros H. apply assoc_opt_none in H. simpl. now rewrite H. Qed.

Lemma label_given m ch l : (exists m1 m2, m = m1 ++ (ch, l) :: m2 /\ ~ In ch (map fst m1)) -> label_of (Some m) ch = l.
Proof. intros H. apply label_of_bound. apply assoc_opt_some. exact H. Qed.
Lemma label_default m ch : ~ In ch (map fst m) -> label_of (Some m) ch = ch /\ label_of None ch = ch.
Proof. intros H. split; [apply label_of_default; exact H | reflexivity]. Qed.

(* row i carries the label given for its channel, by default the channel index *)
Theorem label_map_spec env ns order lm d : visual_description env ns order lm = Some d ->
  List.length (vd_labels d) = List.length (vd_indices d) /\
  forall i ch, nth_error (vd_indices d) i = Some ch -> nth_error (vd_labels d) i = Some (label_of lm ch).
Proof.
  intros H. destruct (visual_description_some _ _ _ _ _ H) as [idx [_ ->]]. simpl. split; [apply map_length|].
  intros i ch Hi. rewrite nth_error_map, Hi. reflexivity.
Qed.

(* ------------------------------------------------------------------ width *)
Lemma latest_end_fold L a :
  fold_left (fun acc e => if e_end e >? acc then e_end e else acc) L a = fold_left Z.max (map e_end L) a.
Proof.
  revert a. induction L as [|e t IH]; intros a; simpl; [reflexivity|]. rewrite <- IH. f_equal.
  destruct (e_end e >? a) eqn:E; lia.
Qed.

Lemma fold_max_ge l : forall a, a <= fold_left Z.max l a /\ forall x, In x l -> x <= fold_left Z.max l a.
Proof.
  induction l as [|y t IH]; intros a; simpl; [split; [lia | intros x []]|].
  destruct (IH (Z.max a y)) as [A B]. split; [lia|]. intros x [->|Hx]; [lia | auto].
Qed.

Lemma fold_max_attained l : forall a, fold_left Z.max l a = a \/ In (fold_left Z.max l a) l.
Proof.
  induction l as [|y t IH]; intros a; simpl; [left; reflexivity|].
  destruct (IH (Z.max a y)) as [H|H]; [|right; right; exact H].
  rewrite H. destruct (Z.max_spec a y) as [[_ E]|[_ E]]; rewrite E; [right; left; reflexivity | left; reflexivity].
Qed.

(* width = latest end + 1 time unit, the latest end being counted as at least 1; hence at least 2 time units *)
Theorem width_spec env ns order lm d : visual_description env ns order lm = Some d ->
  let L := listing env ns in
  vd_width d = fold_left Z.max (map e_end L) 8 + 8
  /\ (forall e, In e L -> e_end e + 8 <= vd_width d)
  /\ 16 <= vd_width d
  /\ (vd_width d = 16 \/ exists e, In e L /\ vd_width d = e_end e + 8).
Proof.
  intros H L. destruct (visual_description_some _ _ _ _ _ H) as [idx [_ ->]]. simpl. unfold latest_end. fold L.
  rewrite latest_end_fold. change draw_width_floor with 8. change draw_width_margin with 8.
  destruct (fold_max_ge (map e_end L) 8) as [A B]. split; [reflexivity|]. split; [|split; [lia|]].
  - intros e He. specialize (B (e_end e) (in_map e_end L e He)). lia.
  - destruct (fold_max_attained (map e_end L) 8) as [E|E]; [left; lia|]. right.
    apply in_map_iff in E. destruct E as [e [E1 E2]]. exists e. split; [exact E2 | lia].
Qed.

(* ------------------------------------------------------------------ rows *)
Lemma row_of_spec q idx : In q idx ->
  nth_error idx (row_of q idx) = Some q /\ forall j, (j < row_of q idx)%nat -> nth_error idx j <> Some q.
Proof.
  induction idx as [|x t IH]; intros H; [destruct H|]. simpl. destruct (x =? q) eqn:E.
  - apply Z.eqb_eq in E. subst. split; [reflexivity | intros j Hj; lia].
  - apply Z.eqb_neq in E. destruct H as [H|H]; [congruence|]. destruct (IH H) as [A B]. split; [exact A|].
    intros [|j] Hj; simpl; [congruence | apply B; lia].
Qed.

(* in a duplicate-free row list the row of a channel is THE position of that channel *)
Lemma row_of_unique q idx i : NoDup idx -> nth_error idx i = Some q -> row_of q idx = i.
Proof.
  revert i. induction idx as [|x t IH]; intros i Hn Hi; [destruct i; discriminate|]. simpl. inversion Hn as [|? ? Hx Ht]; subst.
  destruct i as [|i]; simpl in Hi.
  - inversion Hi. subst. now rewrite Z.eqb_refl.
  - destruct (x =? q) eqn:E; [apply Z.eqb_eq in E; subst; exfalso; apply Hx; eapply nth_error_In; eauto|].
    f_equal. apply IH; assumption.
Qed.

(* the row of a requested channel is its position in the requested order *)
Lemma row_of_app_l a b q : forall i, NoDup a -> nth_error a i = Some q -> row_of q (a ++ b) = i.
Proof.
  induction a as [|x t IH]; intros i Hn Hi; [destruct i; discriminate|].
  inversion Hn as [|? ? Hx Ht]; subst. destruct i as [|i]; simpl in Hi |- *.
  - inversion Hi. subst. now rewrite Z.eqb_refl.
  - destruct (x =? q) eqn:E; [apply Z.eqb_eq in E; subst; exfalso; apply Hx; eapply nth_error_In; eauto|].
    f_equal. apply IH; assumption.
Qed.

Lemma row_of_requested original specific r q i : reorder_indices original specific = Some r -> NoDup specific ->
  nth_error specific i = Some q -> row_of q r = i.
Proof. intros H Hn Hi. destruct (reorder_result _ _ _ H) as [-> _]. apply row_of_app_l; assumption. Qed.

(* ------------------------------------------------------------------ components *)
Lemma comps_from_pos idx slots L : forall p0 c, In c (comps_from idx slots p0 L) ->
  Z.of_nat p0 <= dc_pos c < Z.of_nat p0 + Z.of_nat (List.length L).
Proof.
  induction L as [|e t IH]; intros p0 c H; simpl in H; [destruct H|].
  apply in_app_iff in H. destruct H as [H|H].
  - unfold comp_of in H. destruct (drawn_cls (l_cls (e_leaf e))); [|destruct H]. destruct H as [<-|[]]. simpl. lia.
  - apply IH in H. simpl List.length. lia.
Qed.

Lemma comp_of_pos idx slots p e c : In c (comp_of idx slots p e) -> dc_pos c = Z.of_nat p.
Proof. unfold comp_of. destruct (drawn_cls (l_cls (e_leaf e))); [|intros []]. intros [<-|[]]. reflexivity. Qed.

(* the components whose position is p are exactly the component of the p-th listed operation *)
Lemma comps_from_at idx slots L : forall p0 i e, nth_error L i = Some e ->
  filter (fun c => dc_pos c =? Z.of_nat (p0 + i)) (comps_from idx slots p0 L) = comp_of idx slots (p0 + i) e.
Proof.
  induction L as [|e0 t IH]; intros p0 i e Hi; [destruct i; discriminate|].
  simpl. rewrite filter_app. destruct i as [|i]; simpl in Hi.
  - inversion Hi. subst e0. rewrite Nat.add_0_r.
    rewrite (filter_all _ (comp_of idx slots p0 e)).
    + rewrite (filter_none _ (comps_from idx slots (S p0) t)); [apply app_nil_r|].
      intros c Hc. apply comps_from_pos in Hc. apply Z.eqb_neq. lia.
    + intros c Hc. apply comp_of_pos in Hc. apply Z.eqb_eq. exact Hc.
  - rewrite (filter_none _ (comp_of idx slots p0 e0)).
    + simpl. replace (p0 + S i)%nat with (S p0 + i)%nat by lia. apply IH. exact Hi.
    + intros c Hc. apply comp_of_pos in Hc. apply Z.eqb_neq. lia.
Qed.

Lemma comps_from_in idx slots L : forall p0 c, In c (comps_from idx slots p0 L) ->
  exists i e, nth_error L i = Some e /\ In c (comp_of idx slots (p0 + i) e).
Proof.
  induction L as [|e0 t IH]; intros p0 c H; simpl in H; [destruct H|]. apply in_app_iff in H. destruct H as [H|H].
  - exists O, e0. rewrite Nat.add_0_r. split; [reflexivity | exact H].
  - destruct (IH _ _ H) as [i [e [A B]]]. exists (S i), e. split; [exact A|]. replace (p0 + S i)%nat with (S p0 + i)%nat by lia. exact B.
Qed.

(* ------------------------------------------------------------------ slots of the grouped two-qubit gates *)
Definition slot_ok (jn : Z * Z) : Prop := 0 <= fst jn < snd jn.
Definition slots_ok (sl : list (nat * (Z * Z))) : Prop := Forall (fun x => slot_ok (snd x)) sl.

Lemma with_index_from_ok g : forall j n, (j + List.length g <= n)%nat -> slots_ok (with_index_from j n g).
Proof.
  induction g as [|p t IH]; intros j n H; simpl; [constructor|]. simpl in H. constructor.
  - unfold slot_ok. simpl. lia.
  - apply IH. lia.
Qed.

Lemma group_slots_ok gs : slots_ok (group_slots gs).
Proof.
  unfold group_slots, slots_ok. induction gs as [|g t IH]; simpl; [constructor|]. apply Forall_app. split; [|exact IH].
  apply with_index_from_ok. lia.
Qed.

Lemma slots_ok_flat_map {A} (f : A -> list (nat * (Z * Z))) l : (forall x, slots_ok (f x)) -> slots_ok (flat_map f l).
Proof. intros H. unfold slots_ok. induction l as [|x t IH]; simpl; [constructor|]. apply Forall_app. split; [apply H | exact IH]. Qed.

Lemma two_qubit_slots_ok idx L : slots_ok (two_qubit_slots idx L).
Proof. unfold two_qubit_slots. apply slots_ok_flat_map. intros tg. apply group_slots_ok. Qed.

Lemma slot_of_ok sl p : slots_ok sl -> slot_ok (slot_of sl p).
Proof.
  induction 1 as [|[a jn] t Ha Ht IH]; simpl; [unfold slot_ok; simpl; lia|]. destruct (Nat.eqb a p); [exact Ha | exact IH].
Qed.

(* ------------------------------------------------------------------ the shift of a grouped gate *)
Lemma offset_consts : 0 <= draw_offset_scalar_num /\ 0 < draw_offset_scalar_den /\ 1 <= draw_offset_duration_power.
Proof. vm_compute. repeat split; discriminate. Qed.

Definition offset_unit : Z := 2 * draw_offset_scalar_den * 8 ^ (draw_offset_duration_power - 1).
Lemma offset_unit_pos : 0 < offset_unit.
Proof.
  destruct offset_consts as [_ [B C]]. unfold offset_unit. apply Z.mul_pos_pos; [lia|]. apply Z.pow_pos_nonneg; lia.
Qed.

(* element j of a group of n: pivot x = x0 + k/(n-1) * scalar/2 * D^power / 8^(power-1) with |k| <= n-1, so the distance to
   the start time is at most scalar/2 * D^power / 8^(power-1) ticks *)
Theorem shifted_x_spec x0 j n D : 0 <= j < n -> 0 <= D ->
  let x := shifted_x x0 (j, n) D in
  0 < snd x
  /\ Z.abs (fst x - x0 * snd x) * offset_unit <= draw_offset_scalar_num * D ^ draw_offset_duration_power * snd x
  /\ (n = 1 -> x = (x0, 1)).
Proof.
  intros Hj HD. destruct offset_consts as [A [B C]]. pose proof offset_unit_pos as U.
  assert (P : 0 <= D ^ draw_offset_duration_power) by (apply Z.pow_nonneg; exact HD).
  unfold shifted_x. destruct (n <=? 1) eqn:E.
  - apply Z.leb_le in E. unfold rat_of_Z. cbn [fst snd]. split; [lia|]. split; [|reflexivity].
    replace (x0 - x0 * 1) with 0 by lia. rewrite Z.abs_0, Z.mul_0_l, Z.mul_1_r. apply Z.mul_nonneg_nonneg; assumption.
  - apply Z.leb_gt in E. cbn [fst snd].
    assert (Den : offset_den n = (n - 1) * offset_unit) by (unfold offset_den, offset_unit; ring).
    rewrite Den. split; [apply Z.mul_pos_pos; lia|]. split; [|lia].
    replace (x0 * ((n - 1) * offset_unit) + offset_num j n D - x0 * ((n - 1) * offset_unit)) with (offset_num j n D) by ring.
    unfold offset_num. set (S := draw_offset_scalar_num * D ^ draw_offset_duration_power).
    assert (HS : 0 <= S) by (apply Z.mul_nonneg_nonneg; assumption).
    replace ((2 * j - (n - 1)) * draw_offset_scalar_num * D ^ draw_offset_duration_power) with ((2 * j - (n - 1)) * S) by (unfold S; ring).
    rewrite Z.abs_mul, (Z.abs_eq S HS).
    assert (K : Z.abs (2 * j - (n - 1)) <= n - 1) by lia.
    replace (S * ((n - 1) * offset_unit)) with ((n - 1) * (S * offset_unit)) by ring.
    replace (Z.abs (2 * j - (n - 1)) * S * offset_unit) with (Z.abs (2 * j - (n - 1)) * (S * offset_unit)) by ring.
    apply Z.mul_le_mono_nonneg_r; [apply Z.mul_nonneg_nonneg; lia | exact K].
Qed.

(* the documented bound "within a quarter of the gate's own duration": holds whenever the shift is linear in the duration,
   and for the quadratic formula of the current source exactly up to a duration of one time unit (8 ticks) *)
Lemma offset_scalar_half : draw_offset_scalar_den = 2 * draw_offset_scalar_num /\ 0 < draw_offset_scalar_num.
Proof. vm_compute. split; reflexivity. Qed.
Lemma offset_power_cases : draw_offset_duration_power = 1 \/ draw_offset_duration_power = 2.
Proof. vm_compute. first [left; reflexivity | right; reflexivity]. Qed.

Corollary shifted_x_quarter x0 j n D : 0 <= j < n -> 0 <= D -> (draw_offset_duration_power = 1 \/ D <= 8) ->
  let x := shifted_x x0 (j, n) D in 0 < snd x /\ 4 * Z.abs (fst x - x0 * snd x) <= D * snd x.
Proof.
  intros Hj HD Hc x. destruct (shifted_x_spec x0 j n D Hj HD) as [A [B _]]. fold x in A, B. split; [exact A|].
  destruct offset_scalar_half as [S1 S2]. revert B. unfold offset_unit. rewrite S1.
  set (sn := draw_offset_scalar_num) in *. set (off := Z.abs (fst x - x0 * snd x)). set (den := snd x) in *.
  assert (Hoff : 0 <= off) by apply Z.abs_nonneg.
  destruct offset_power_cases as [P|P]; rewrite P.
  - change (8 ^ (1 - 1)) with 1. rewrite Z.pow_1_r. intros B.
    assert (H2 : sn * (4 * off) <= sn * (D * den)) by nia.
    apply (Z.mul_le_mono_pos_l _ _ sn S2). exact H2.
  - destruct Hc as [Hc|Hc]; [congruence|]. change (8 ^ (2 - 1)) with 8. rewrite Z.pow_2_r. intros B.
    assert (H0 : D * D <= 8 * D) by nia.
    assert (H1 : sn * (D * D) * den <= sn * (8 * D) * den).
    { apply Z.mul_le_mono_nonneg_r; [lia|]. apply Z.mul_le_mono_nonneg_l; lia. }
    assert (H2 : sn * (4 * off) <= sn * (D * den)) by nia.
    apply (Z.mul_le_mono_pos_l _ _ sn S2). exact H2.
Qed.

(* beyond one time unit the quadratic formula leaves the quarter: two gates of duration 2 are shifted by half of it *)
Lemma shifted_x_exceeds_quarter : draw_offset_duration_power = 2 -> exists x0 j n D, 0 <= j < n /\ 0 <= D /\
  let x := shifted_x x0 (j, n) D in ~ (4 * Z.abs (fst x - x0 * snd x) <= D * snd x).
Proof.
  intros P. exists 0, 0, 2, 16. split; [lia|]. split; [lia|]. unfold shifted_x, offset_num, offset_den. rewrite P.
  destruct offset_scalar_half as [S1 S2]. rewrite S1. cbn [fst snd Z.leb]. change (2 <=? 1) with false. cbv iota.
  cbn [fst snd]. change (8 ^ (2 - 1)) with 8. change (16 ^ 2) with 256. nia.
Qed.

(* ------------------------------------------------------------------ pivots *)
Lemma pivot_x_is_start e : pivot_x e = e_start e.
Proof. reflexivity. Qed.

(* Every listed operation of a drawable kind gets exactly one component; its transforms are one per drawn qubit, each at
   y = -(row of that qubit) * spacing with the operation's duration as width; x is the operation's start time, for two-qubit
   gates the start time shifted according to the gate's slot (element j of n) in its time-and-space-sharing group. *)
Theorem pivot_spec env ns order lm d p e : true_drawing env ns order lm = Some d ->
  nth_error (listing env ns) p = Some e ->
  let idx := vd_indices (dr_desc d) in
  let l := e_leaf e in
  let D := e_end e - e_start e in
  dr_ops d = listing env ns /\
  if drawn_cls (l_cls l) then
    exists x, filter (fun c => dc_pos c =? Z.of_nat p) (dr_comps d)
              = [ {| dc_pos := Z.of_nat p;
                     dc_tr := map (fun q => {| tr_q := q; tr_x := x; tr_y := row_y (row_of q idx); tr_w := D |}) (drawn_qubits l) |} ]
      /\ if is_two_qubit (l_cls l)
         then exists j n, 0 <= j < n /\ x = shifted_x (e_start e) (j, n) D
         else x = (e_start e, 1)
  else filter (fun c => dc_pos c =? Z.of_nat p) (dr_comps d) = [].
Proof.
  unfold true_drawing. destruct (reorder_indices (channel_ids ns) order) as [idx0|]; [|discriminate].
  intros H He. inversion H. subst d. clear H. simpl. split; [reflexivity|].
  unfold draw_comps. pose proof (comps_from_at idx0 (two_qubit_slots idx0 (listing env ns)) (listing env ns) 0 p e He) as F.
  simpl in F. rewrite F. unfold comp_of. destruct (drawn_cls (l_cls (e_leaf e))); [|reflexivity].
  eexists. split; [reflexivity|]. rewrite pivot_x_is_start. destruct (is_two_qubit (l_cls (e_leaf e))); [|reflexivity].
  pose proof (slot_of_ok _ p (two_qubit_slots_ok idx0 (listing env ns))) as S.
  destruct (slot_of (two_qubit_slots idx0 (listing env ns)) p) as [j n]. exists j, n. split; [exact S | reflexivity].
Qed.

(* nothing else is drawn: every component belongs to a listed operation *)
Theorem comps_are_operations env ns order lm d c : true_drawing env ns order lm = Some d -> In c (dr_comps d) ->
  exists p e, nth_error (listing env ns) p = Some e /\ dc_pos c = Z.of_nat p /\ drawn_cls (l_cls (e_leaf e)) = true.
Proof.
  unfold true_drawing. destruct (reorder_indices (channel_ids ns) order) as [idx0|]; [|discriminate].
  intros H Hc. inversion H. subst d. clear H. simpl in Hc. unfold draw_comps in Hc.
  destruct (comps_from_in _ _ _ _ _ Hc) as [i [e [A B]]]. simpl in B. exists i, e. split; [exact A|].
  split; [eapply comp_of_pos; exact B|]. unfold comp_of in B. destruct (drawn_cls (l_cls (e_leaf e))); [reflexivity | destruct B].
Qed.

(* unknown channel in the requested order: never a drawing *)
Theorem drawing_rejects env ns order lm :
  true_drawing env ns order lm = None <-> exists i, In i order /\ ~ In i (channel_ids ns).
Proof.
  rewrite <- reorder_rejects. unfold true_drawing. destruct (reorder_indices (channel_ids ns) order); split; congruence.
Qed.

Lemma true_drawing_desc env ns order lm :
  option_map dr_desc (true_drawing env ns order lm) = visual_description env ns order lm.
Proof. unfold true_drawing, visual_description. destruct (reorder_indices (channel_ids ns) order); reflexivity. Qed.
