(* C14 — the T1/T2 formula over the reals (generated term Gen.Noise.get_pauli_error) and the probabilities of the channels the
   model inserts.  Uses the standard library's Reals (its four axioms appear in Print Assumptions). *)
From Coq Require Import Reals Lra Lia ZArith List Bool String.
Import ListNotations.
From QCE Require Import Base.Prelude C14.Model C14.Run C14.Proofs.
From Gen Require Import Noise.
Local Open Scope R_scope.

(* ------------------------------------------------------------------------------------------ closed form *)
Definition clamp01 (x : R) : R := Rmin (Rmax x 0) 1.
Definition px_raw (t t1 : R) : R := 1 / 4 * (1 - exp (- t / t1)).
Definition pz_raw (t t1 t2 : R) : R := 1 / 2 * (1 - exp (- t / t2)) - 1 / 4 * (1 - exp (- t / t1)).

(* the generated term is the textbook closed form, clamped, with (0,0,0) at t = 0; the driver evaluates exactly this in
   binary64 (harness/impl/c14_impl.py, mirror_pauli) -- an edit of the formula in the source breaks this lemma *)
Lemma pauli_closed_form t t1 t2 :
  get_pauli_error t t1 t2 =
  if Req_EM_T t 0 then (0, 0, 0) else (clamp01 (px_raw t t1), clamp01 (px_raw t t1), clamp01 (pz_raw t t1 t2)).
Proof. reflexivity. Qed.

Lemma exp_le_mono x y : x <= y -> exp x <= exp y.
Proof. intros [H | ->]; [left; now apply exp_increasing | right; reflexivity]. Qed.
Lemma exp_nonpos x : x <= 0 -> 0 < exp x <= 1.
Proof. intros H. split; [apply exp_pos|]. rewrite <- exp_0. now apply exp_le_mono. Qed.
Lemma neg_div_nonpos t t1 : 0 <= t -> 0 < t1 -> - t / t1 <= 0.
Proof.
  intros Ht Ht1. unfold Rdiv. assert (0 < / t1) by now apply Rinv_0_lt_compat.
  assert (0 <= t * / t1) by now apply Rmult_le_pos; [|left]. lra.
Qed.

Definition probs_ok (p : R * R * R) : Prop :=
  let '(x, y, z) := p in 0 <= x <= 1 /\ 0 <= y <= 1 /\ 0 <= z <= 1 /\ x + y + z <= 1.

Lemma clamp_cases x : (x <= 0 /\ clamp01 x = 0) \/ (0 <= x <= 1 /\ clamp01 x = x) \/ (1 <= x /\ clamp01 x = 1).
Proof.
  unfold clamp01, Rmin, Rmax. destruct (Rle_dec x 0) as [H0|H0].
  - left. split; [assumption|]. destruct (Rle_dec 0 1); [reflexivity | lra].
  - destruct (Rle_dec x 1) as [H1|H1].
    + right; left. split; [lra | reflexivity].
    + right; right. split; [lra | reflexivity].
Qed.

(* every probability in [0,1], X + Y + Z <= 1: for all t >= 0 and positive T1, T2 -- no relation between T1 and T2 is needed
   because the implementation clamps pz at 0 *)
Theorem pauli_bounds t t1 t2 : 0 <= t -> 0 < t1 -> 0 < t2 -> probs_ok (get_pauli_error t t1 t2).
Proof.
  intros Ht Ht1 Ht2. rewrite pauli_closed_form. destruct (Req_EM_T t 0) as [_|_]; [simpl; lra|].
  pose proof (exp_nonpos _ (neg_div_nonpos t t1 Ht Ht1)) as Ha.
  pose proof (exp_nonpos _ (neg_div_nonpos t t2 Ht Ht2)) as Hb.
  unfold probs_ok, px_raw, pz_raw.
  set (a := exp (- t / t1)) in *. set (b := exp (- t / t2)) in *.
  destruct (clamp_cases (1 / 4 * (1 - a))) as [[H1 ->]|[[H1 ->]|[H1 ->]]];
    destruct (clamp_cases (1 / 2 * (1 - b) - 1 / 4 * (1 - a))) as [[H2 ->]|[[H2 ->]|[H2 ->]]]; lra.
Qed.

(* sharper: the sum never exceeds 3/4 *)
Lemma pauli_sum_le t t1 t2 : 0 <= t -> 0 < t1 -> 0 < t2 ->
  let '(x, y, z) := get_pauli_error t t1 t2 in x + y + z <= 3 / 4.
Proof.
  intros Ht Ht1 Ht2. rewrite pauli_closed_form. destruct (Req_EM_T t 0) as [_|_]; [lra|].
  pose proof (exp_nonpos _ (neg_div_nonpos t t1 Ht Ht1)) as Ha.
  pose proof (exp_nonpos _ (neg_div_nonpos t t2 Ht Ht2)) as Hb.
  unfold px_raw, pz_raw. set (a := exp (- t / t1)) in *. set (b := exp (- t / t2)) in *.
  destruct (clamp_cases (1 / 4 * (1 - a))) as [[H1 ->]|[[H1 ->]|[H1 ->]]];
    destruct (clamp_cases (1 / 2 * (1 - b) - 1 / 4 * (1 - a))) as [[H2 ->]|[[H2 ->]|[H2 ->]]]; lra.
Qed.

(* for physical parameters (T2 <= 2*T1) the clamps are inactive: the unclamped formula is already a probability vector *)
Lemma pz_raw_nonneg t t1 t2 : 0 <= t -> 0 < t1 -> 0 < t2 -> t2 <= 2 * t1 -> 0 <= pz_raw t t1 t2.
Proof.
  intros Ht Ht1 Ht2 H. unfold pz_raw.
  set (u := exp (- t / (2 * t1))).
  assert (Ea : exp (- t / t1) = u * u).
  { unfold u. rewrite <- exp_plus. f_equal. field. lra. }
  assert (Hb : exp (- t / t2) <= u).
  { apply exp_le_mono. unfold Rdiv.
    assert (Hi : / (2 * t1) <= / t2) by (apply Rinv_le_contravar; lra).
    assert (t * / (2 * t1) <= t * / t2) by now apply Rmult_le_compat_l. lra. }
  rewrite Ea. assert (Hs : 0 <= (1 - u) * (1 - u)) by apply Rle_0_sqr.
  lra.
Qed.
Theorem pauli_unclamped t t1 t2 : 0 < t -> 0 < t1 -> 0 < t2 -> t2 <= 2 * t1 ->
  get_pauli_error t t1 t2 = (px_raw t t1, px_raw t t1, pz_raw t t1 t2).
Proof.
  intros Ht Ht1 Ht2 H. rewrite pauli_closed_form. destruct (Req_EM_T t 0) as [E|_]; [lra|].
  assert (Ht' : 0 <= t) by lra.
  pose proof (exp_nonpos _ (neg_div_nonpos t t1 Ht' Ht1)) as Ha.
  pose proof (exp_nonpos _ (neg_div_nonpos t t2 Ht' Ht2)) as Hb.
  pose proof (pz_raw_nonneg t t1 t2 Ht' Ht1 Ht2 H) as Hz.
  assert (Hx : 0 <= px_raw t t1 <= 1) by (unfold px_raw; lra).
  assert (Hz1 : pz_raw t t1 t2 <= 1) by (unfold pz_raw; lra).
  destruct (clamp_cases (px_raw t t1)) as [[H1 E1]|[[H1 E1]|[H1 E1]]];
    destruct (clamp_cases (pz_raw t t1 t2)) as [[H2 E2]|[[H2 E2]|[H2 E2]]]; rewrite E1, E2; repeat f_equal; lra.
Qed.

(* without that relation the unclamped pz can be negative, so the clamp in the implementation is what keeps pz >= 0 *)
Example clamp_is_needed : pz_raw 3 1 30 < 0 /\ get_pauli_error 3 1 30 = (clamp01 (px_raw 3 1), clamp01 (px_raw 3 1), 0).
Proof.
  assert (Ha : exp (Ropp 3 / 1) <= 1 / 4).
  { replace (Ropp 3 / 1) with (Ropp 3) by lra. rewrite exp_Ropp.
    pose proof (exp_ineq1_le 3) as H. assert (0 < exp 3) by apply exp_pos.
    apply Rmult_le_reg_l with (exp 3); [assumption|]. rewrite Rinv_r by lra. lra. }
  assert (Hb : 9 / 10 <= exp (Ropp 3 / 30)).
  { pose proof (exp_ineq1_le (Ropp 3 / 30)) as H. lra. }
  assert (Hz : pz_raw 3 1 30 < 0) by (unfold pz_raw; lra).
  split; [exact Hz|]. rewrite pauli_closed_form. destruct (Req_EM_T 3 0) as [E|_]; [lra|].
  destruct (clamp_cases (pz_raw 3 1 30)) as [[H2 ->]|[[H2 E2]|[H2 E2]]]; [reflexivity | lra | lra].
Qed.

Example pauli_bounds_default : probs_ok (get_pauli_error (IZR 60 / 2) (IZR 10000) (IZR 20000)).
Proof. apply pauli_bounds; lra. Qed.

(* ------------------------------------------------------------------------------------------ channels of the model *)
(* denotation of a model-side channel: the formula at (block maximum * 1/2, T1, T2); the unit (ns) cancels *)
Definition chan_probs (a : args) : option (R * R * R) :=
  match a with
  | APauli d t1 t2 => Some (get_pauli_error (IZR d * pauli_call_t_factor) (IZR t1) (IZR t2))
  | _ => None
  end.
Lemma chan_probs_half d t1 t2 : chan_probs (APauli d t1 t2) = Some (get_pauli_error (IZR d / 2) (IZR t1) (IZR t2)).
Proof. unfold chan_probs, pauli_call_t_factor. do 2 f_equal. lra. Qed.

Definition qp_pos (p : QubitNoiseModelParameters) : Prop := (0 < qp_t1 p)%Z /\ (0 < qp_t2 p)%Z.
Definition settings_ok (s : settings) : Prop :=
  qp_pos (s_default s) /\ (forall n p, In (n, p) (s_individual s) -> qp_pos p)
  /\ (forall k d, In (k, d) (duration_mapper (s_durations s)) -> (0 <= d)%Z) /\ (0 <= default_duration (s_durations s))%Z.

Lemma spec_params_pos s m q : settings_ok s -> qp_pos (spec_params s m q).
Proof.
  intros (Hd & Hi & _). unfold spec_params.
  destruct (find (fun e => (fst e =? q)%Z) m) as [[k qid]|]; [|exact Hd].
  destruct (find (fun e => String.eqb (fst e) qid) (s_individual s)) as [[n p]|] eqn:E; [|exact Hd].
  apply find_some in E. destruct E as [E _]. now apply (Hi n p).
Qed.

Lemma block_duration_nonneg s b : settings_ok s -> (0 <= block_duration s b)%Z.
Proof.
  intros (_ & _ & Hm & Hdd). destruct b as [|i t]; [now rewrite block_duration_empty|].
  destruct (block_duration_attained s (i :: t)) as (j & _ & ->); [discriminate|].
  unfold get_operation_duration.
  destruct (assoc String.eqb (iname j) (duration_mapper (s_durations s))) as [d|] eqn:E; [|exact Hdd].
  apply (assoc_In _ str_eqb_eq) in E. now apply (Hm (iname j)).
Qed.

Lemma dress_measurements_not_noise s m c i : noiseless c -> In i (dress_measurements s m c) -> is_noise i = false.
Proof.
  intros H Hin. unfold dress_measurements in Hin. apply in_flat_map in Hin. destruct Hin as (j & Hj & Hi).
  unfold dress_meas in Hi. destruct (assoc String.eqb (iname j) factory_lookup) as [op|] eqn:E.
  - apply in_map_iff in Hi. destruct Hi as (q & <- & _). destruct (lookup_facts _ _ E) as (_ & F2 & _). exact F2.
  - destruct Hi as [<-|[]]. now apply H.
Qed.

(* every noise channel of the dressed circuit is an idle channel whose arguments give probabilities in [0,1] with sum <= 1 *)
Theorem dressed_channels_bounded s m c i :
  settings_ok s -> noiseless c -> In i (dress s m c) -> is_noise i = true ->
  exists d t1 t2 p, iargs i = APauli d t1 t2 /\ chan_probs (iargs i) = Some p
                    /\ p = get_pauli_error (IZR d / 2) (IZR t1) (IZR t2) /\ probs_ok p.
Proof.
  intros Hs Hc Hin Hn. rewrite idle_spec in Hin. apply in_concat in Hin. destruct Hin as (l & Hl & Hi).
  apply in_map_iff in Hl. destruct Hl as (b & <- & Hb).
  assert (Hch : forall q, In i [idle_chan s m (block_duration s b) q] ->
                exists d t1 t2 p, iargs i = APauli d t1 t2 /\ chan_probs (iargs i) = Some p
                                  /\ p = get_pauli_error (IZR d / 2) (IZR t1) (IZR t2) /\ probs_ok p).
  { intros q [<-|[]]. simpl iargs.
    exists (block_duration s b), (qp_t1 (spec_params s m q)), (qp_t2 (spec_params s m q)).
    eexists. split; [reflexivity|]. split; [apply chan_probs_half|]. split; [reflexivity|].
    destruct (spec_params_pos s m q Hs) as [P1 P2]. pose proof (block_duration_nonneg s b Hs) as P0.
    apply pauli_bounds.
    - apply IZR_le in P0. lra.
    - now apply IZR_lt in P1.
    - now apply IZR_lt in P2. }
  apply in_app_or in Hi. destruct Hi as [Hi|Hi].
  - rewrite <- in_rev in Hi. apply in_map_iff in Hi. destruct Hi as (q & <- & _). apply (Hch q). now left.
  - apply in_app_or in Hi. destruct Hi as [Hi|Hi].
    + exfalso. assert (Hin' : In i (dress_measurements s m c)).
      { rewrite <- (split_blocks_concat "TICK" (dress_measurements s m c)). apply in_concat. eauto. }
      rewrite (dress_measurements_not_noise s m c i Hc Hin') in Hn. discriminate.
    + apply in_map_iff in Hi. destruct Hi as (q & <- & _). apply (Hch q). now left.
Qed.

Example settings_ok_ex : settings_ok ex_settings.
Proof.
  split; [split; simpl; lia|]. split; [|split].
  - intros n0 p0 [E|[]]. inversion E; subst. split; simpl; lia.
  - intros k0 d0 H. simpl in H. repeat (destruct H as [E|H]; [inversion E; subst; lia|]). destruct H.
  - unfold default_duration. lia.
Qed.
Example dressed_channels_bounded_ex i :
  In i (apply_noise ex_settings ex_map ex_circuit) -> is_noise i = true ->
  exists d t1 t2 p, iargs i = APauli d t1 t2 /\ chan_probs (iargs i) = Some p
                    /\ p = get_pauli_error (IZR d / 2) (IZR t1) (IZR t2) /\ probs_ok p.
Proof. apply dressed_channels_bounded; [exact settings_ok_ex | exact ex_noiseless]. Qed.
