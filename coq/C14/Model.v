(* C14 — executable model of `apply_noise` / `StimNoiseDresserFactoryManager.construct` over instruction lists.
   No proofs here.  The model mirrors the code AS IT IS (intrf_noise_factory.py, noise_factories/*.py,
   noise_settings_manager.py); tables, field wiring and the formula come from Gen/Noise.v (regenerated on every run).

   Conventions.  Times are `Z` in ns (the harness maps n to the float `float(f"{n}e-9")`, strictly monotone, halving exact).
   Probabilities are never computed here: a configured assignment error is passed through as its `float.hex` string, and an
   inserted idle channel carries the ARGUMENTS of the formula, `APauli d t1 t2`, denoting
   `get_pauli_error (d * pauli_call_t_factor) t1 t2`  (d = the block's max duration; see C14/Proofs.v `chan_probs`).
   Instruction lists are in "split" form on the implementation side (one target group per instruction: Stim fuses/splits
   adjacent equal gates freely; the driver undoes that), the model itself accepts any grouping. *)
From Coq Require Import ZArith List Bool String.
Import ListNotations.
From QCE Require Import Base.Prelude.
From Gen Require Import Noise.
Open Scope string_scope.
Open Scope Z_scope.
Open Scope list_scope.

(* ------------------------------------------------------------------------------------------ instructions *)
Inductive target := TQ (q : Z) | TRec (k : Z).            (* qubit index | measurement record rec[k] *)
Inductive args :=
| ANone
| ACoords (l : list Z)                 (* DETECTOR / SHIFT_COORDS coordinates, OBSERVABLE_INCLUDE index: integer-valued floats *)
| AErr (e : string)                    (* a configured probability passed through (float.hex) *)
| APauli (d t1 t2 : Z)                 (* model side of an idle channel: arguments of the formula *)
| AProbs (x y z : string).             (* implementation side of an idle channel: the three floats (float.hex) *)
Record instr := MkI { iname : string; itargets : list target; iargs : args }.

(* a Stim circuit as the exporter builds it: instructions and REPEAT blocks *)
Inductive item := It (i : instr) | Rep (n : Z) (body : list item).

Definition target_eqb (a b : target) : bool :=
  match a, b with TQ x, TQ y => x =? y | TRec x, TRec y => x =? y | _, _ => false end.
Definition zzz_eqb (a b : Z * Z * Z) : bool :=
  let '(a1, a2, a3) := a in let '(b1, b2, b3) := b in (a1 =? b1) && (a2 =? b2) && (a3 =? b3).
Definition args_eqb (a b : args) : bool :=
  match a, b with
  | ANone, ANone => true
  | ACoords x, ACoords y => list_eqb Z.eqb x y
  | AErr x, AErr y => String.eqb x y
  | APauli a1 a2 a3, APauli b1 b2 b3 => zzz_eqb (a1, a2, a3) (b1, b2, b3)
  | AProbs a1 a2 a3, AProbs b1 b2 b3 => String.eqb a1 b1 && String.eqb a2 b2 && String.eqb a3 b3
  | _, _ => false
  end.
Definition instr_eqb (a b : instr) : bool :=
  String.eqb (iname a) (iname b) && list_eqb target_eqb (itargets a) (itargets b) && args_eqb (iargs a) (iargs b).

Fixpoint assoc {A B} (eqb : A -> A -> bool) (k : A) (l : list (A * B)) : option B :=
  match l with [] => None | (k', v) :: t => if eqb k k' then Some v else assoc eqb k t end.
Definition mem_str (s : string) (l : list string) : bool := existsb (String.eqb s) l.

(* ------------------------------------------------------------------------------------------ model of Stim (trusted, tied by the
   correspondence run: the driver returns Stim's own `flattened()`, `without_noise()` and reported names) *)

(* the name Stim reports for an instruction created under an alias *)
Definition stim_aliases : list (string * string) :=
  [("MZ", "M"); ("RZ", "R"); ("CNOT", "CX"); ("ZCX", "CX"); ("ZCZ", "CZ"); ("H_XZ", "H")].
Definition stim_canonical (n : string) : string :=
  match assoc String.eqb n stim_aliases with Some c => c | None => n end.

(* flattened(): REPEAT unrolled, SHIFT_COORDS folded into the coordinates of later DETECTORs *)
Fixpoint vadd (a b : list Z) : list Z :=            (* running offset: longer of the two, missing entries 0 *)
  match a, b with
  | [], _ => b
  | _, [] => a
  | x :: a', y :: b' => (x + y) :: vadd a' b'
  end.
Fixpoint vshift (off c : list Z) : list Z :=         (* coordinates of a detector: its own length is kept *)
  match c, off with
  | [], _ => []
  | _, [] => c
  | x :: c', o :: off' => (x + o) :: vshift off' c'
  end.
Definition coords_of (i : instr) : list Z := match iargs i with ACoords l => l | _ => [] end.
Definition flat_instr (off : list Z) (i : instr) : list instr * list Z :=
  if String.eqb (iname i) "SHIFT_COORDS" then ([], vadd off (coords_of i))
  else if String.eqb (iname i) "DETECTOR"
       then ([MkI (iname i) (itargets i) (match iargs i with ACoords l => ACoords (vshift off l) | a => a end)], off)
       else ([i], off).
Fixpoint iter_state {S A} (n : nat) (f : S -> list A * S) (s : S) : list A * S :=
  match n with
  | O => ([], s)
  | S k => let (a, s1) := f s in let (b, s2) := iter_state k f s1 in (a ++ b, s2)
  end.
Fixpoint flat_item (it : item) (off : list Z) {struct it} : list instr * list Z :=
  match it with
  | It i => flat_instr off i
  | Rep n body =>
      let go := fix go (l : list item) (off : list Z) {struct l} : list instr * list Z :=
                  match l with
                  | [] => ([], off)
                  | x :: t => let (a, o1) := flat_item x off in let (b, o2) := go t o1 in (a ++ b, o2)
                  end in
      iter_state (Z.to_nat n) (go body) off
  end.
Fixpoint flat_items (l : list item) (off : list Z) : list instr * list Z :=
  match l with
  | [] => ([], off)
  | x :: t => let (a, o1) := flat_item x off in let (b, o2) := flat_items t o1 in (a ++ b, o2)
  end.
Definition flatten (c : list item) : list instr := fst (flat_items c []).

(* without_noise(): noise channels dropped, measurement arguments dropped (also the specification's `strip`) *)
Definition noise_channel_names : list string :=
  ["PAULI_CHANNEL_1"; "PAULI_CHANNEL_2"; "DEPOLARIZE1"; "DEPOLARIZE2"; "X_ERROR"; "Y_ERROR"; "Z_ERROR"].
Definition measurement_names : list string := ["M"; "MX"; "MY"; "MR"; "MRX"; "MRY"].
Definition is_noise (i : instr) : bool := mem_str (iname i) noise_channel_names.
Definition is_meas (i : instr) : bool := mem_str (iname i) measurement_names.
Definition strip_arg (i : instr) : instr := if is_meas i then MkI (iname i) (itargets i) ANone else i.
Definition strip (c : list instr) : list instr := map strip_arg (filter (fun i => negb (is_noise i)) c).

(* ------------------------------------------------------------------------------------------ settings *)
Record settings := MkSettings {
  s_default : QubitNoiseModelParameters;                        (* NoiseSettings.get_default_noise_settings() *)
  s_individual : list (string * QubitNoiseModelParameters);     (* individual_noise: dict keyed by QubitIDObj (== on the name, C19) *)
  s_durations : OperationDurationParameters }.
Definition index_map := list (Z * string).                      (* qubit_index_lookup: dict index -> QubitIDObj *)

(* NoiseSettings.get_noise_settings *)
Definition ns_get_noise_settings (s : settings) (qid : string) : QubitNoiseModelParameters :=
  match assoc String.eqb qid (s_individual s) with Some p => p | None => s_default s end.
(* IndexedNoiseSettings.get_noise_settings *)
Definition get_noise_settings (s : settings) (m : index_map) (index : Z) : QubitNoiseModelParameters :=
  match assoc Z.eqb index m with Some qid => ns_get_noise_settings s qid | None => s_default s end.
(* IndexedNoiseSettings.get_operation_duration *)
Definition get_operation_duration (s : settings) (identifier : string) : Z :=
  match assoc String.eqb identifier (duration_mapper (s_durations s)) with
  | Some d => d
  | None => default_duration (s_durations s)
  end.

(* ------------------------------------------------------------------------------------------ targets *)
(* extract_instruction_targets: [] for the annotation names, otherwise the (plain qubit) targets.  A non-qubit target of a
   targeted instruction makes the implementation raise ValueError; such inputs are outside the model (`supported`). *)
Definition qubit_targets (i : instr) : list Z :=
  if mem_str (iname i) untargeted_names then []
  else flat_map (fun t => match t with TQ q => [q] | TRec _ => [] end) (itargets i).
(* extract_all_targets: sorted(set(...)) *)
Fixpoint zinsert_u (x : Z) (l : list Z) : list Z :=
  match l with
  | [] => [x]
  | y :: t => if x <? y then x :: l else if x =? y then l else y :: zinsert_u x t
  end.
Definition all_targets (c : list instr) : list Z := fold_right zinsert_u [] (flat_map qubit_targets c).

(* ------------------------------------------------------------------------------------------ measurement dresser *)
(* StimNoiseDresserFactoryManager.construct, first loop: an instruction whose (reported) name is a key of factory_lookup is
   replaced by one `<op>(assignment error of the target's qubit) target` per target; Stim reports `op` canonically *)
Definition meas_instr (s : settings) (m : index_map) (op : string) (q : Z) : instr :=
  MkI (stim_canonical op) [TQ q] (AErr (meas_call_arg (get_noise_settings s m q))).
Definition dress_meas (s : settings) (m : index_map) (i : instr) : list instr :=
  match assoc String.eqb (iname i) factory_lookup with
  | None => [i]
  | Some op => map (meas_instr s m op) (qubit_targets i)
  end.
Definition dress_measurements (s : settings) (m : index_map) (c : list instr) : list instr := flat_map (dress_meas s m) c.

(* what the dresser leaves of the input once the noise is stripped again: the replaced instructions, split per target *)
Definition normalise_instr (i : instr) : list instr :=
  match assoc String.eqb (iname i) factory_lookup with
  | None => [i]
  | Some op => map (fun q => MkI (stim_canonical op) [TQ q] ANone) (qubit_targets i)
  end.
Definition normalise (c : list instr) : list instr := flat_map normalise_instr c.

(* ------------------------------------------------------------------------------------------ idle channels *)
(* split_instruction_blocks: the split instruction closes its block and belongs to it; the rest (possibly empty) is yielded last *)
Fixpoint split_blocks_from (split : string) (acc : list instr) (l : list instr) : list (list instr) :=
  match l with
  | [] => [acc]
  | i :: t => if String.eqb (iname i) split then (acc ++ [i]) :: split_blocks_from split [] t
              else split_blocks_from split (acc ++ [i]) t
  end.
Definition split_blocks (split : string) (l : list instr) : list (list instr) := split_blocks_from split [] l.

(* max([...], default=0) *)
Definition py_max_default (l : list Z) : Z :=
  match l with [] => block_duration_default | x :: t => fold_left block_duration_aggregate t x end.
(* the key is the name Stim reports for the instruction (block_duration_key_attr = "name") *)
Definition block_duration (s : settings) (b : list instr) : Z :=
  py_max_default (map (fun i => get_operation_duration s (iname i)) b).

Definition chan (name : string) (s : settings) (m : index_map) (d : Z) (q : Z) : instr :=
  let p := get_noise_settings s m q in MkI name [TQ q] (APauli d (pauli_call_t1 p) (pauli_call_t2 p)).
(* `instructions = [noise_instruction, *instructions, noise_instruction]` for each qubit target in turn *)
Definition wrap_block (name : string) (s : settings) (m : index_map) (qs : list Z) (b : list instr) : list instr :=
  let d := block_duration s b in
  fold_left (fun ins q => chan name s m d q :: ins ++ [chan name s m d q]) qs b.
(* PauliAdditiveCircuitNoiseFactory(name)._split_operation = split *)
Definition additive (f : string * string) (s : settings) (m : index_map) (c : list instr) : list instr :=
  let (name, split) := f in
  let qs := all_targets c in
  List.concat (map (wrap_block name s m qs) (split_blocks split c)).

(* construct on an already flattened circuit *)
Definition dress (s : settings) (m : index_map) (c : list instr) : list instr :=
  fold_left (fun c f => additive f s m c) factory_additives (dress_measurements s m c).
(* apply_noise *)
Definition apply_noise (s : settings) (m : index_map) (c : list item) : list instr := dress s m (flatten c).

(* ------------------------------------------------------------------------------------------ evaluation table
   (harness side: `get_pauli_error` evaluated in binary64 by the driver for every argument triple that can occur) *)
Definition ptable := list ((Z * Z * Z) * (string * string * string)).
Definition realise_instr (tb : ptable) (i : instr) : option instr :=
  match iargs i with
  | APauli d t1 t2 =>
      match assoc zzz_eqb (d, t1, t2) tb with
      | Some (x, y, z) => Some (MkI (iname i) (itargets i) (AProbs x y z))
      | None => None
      end
  | _ => Some i
  end.
Fixpoint realise (tb : ptable) (c : list instr) : option (list instr) :=
  match c with
  | [] => Some []
  | i :: t => match realise_instr tb i, realise tb t with Some i', Some t' => Some (i' :: t') | _, _ => None end
  end.
