(* C14 — lemmas about the model of apply_noise (C14/Model.v) over the generated tables and formula (Gen/Noise.v). *)
From Coq Require Import ZArith List Bool String Lia.
Import ListNotations.
From QCE Require Import Base.Prelude C14.Model C14.Run.
From Gen Require Import Noise.
Open Scope string_scope.
Open Scope Z_scope.
Open Scope list_scope.

(* ------------------------------------------------------------------------------------------ generic list facts *)
Lemma assoc_In {A B} (eqb : A -> A -> bool) (Heq : forall x y, eqb x y = true -> x = y) k (l : list (A * B)) v :
  assoc eqb k l = Some v -> In (k, v) l.
Proof.
  induction l as [|[k' v'] t IH]; simpl; [discriminate|].
  destruct (eqb k k') eqn:E.
  - intros H; inversion H; subst. apply Heq in E. subst. now left.
  - intros H. right. auto.
Qed.

Lemma str_eqb_eq x y : String.eqb x y = true -> x = y.
Proof. apply String.eqb_eq. Qed.

Lemma forallb_In {A} (f : A -> bool) l x : forallb f l = true -> In x l -> f x = true.
Proof. intros H Hin. rewrite forallb_forall in H. auto. Qed.

Lemma filter_concat {A} (P : A -> bool) (ll : list (list A)) : filter P (List.concat ll) = List.concat (map (filter P) ll).
Proof. induction ll as [|l t IH]; simpl; [reflexivity|]. now rewrite filter_app, IH. Qed.

Lemma filter_flat_map {A B} (P : B -> bool) (f : A -> list B) l : filter P (flat_map f l) = flat_map (fun x => filter P (f x)) l.
Proof. induction l as [|x t IH]; simpl; [reflexivity|]. now rewrite filter_app, IH. Qed.

(* ------------------------------------------------------------------------------------------ blocks *)
Lemma split_blocks_from_concat split acc l : List.concat (split_blocks_from split acc l) = acc ++ l.
Proof.
  revert acc; induction l as [|i t IH]; intros acc; simpl.
  - now rewrite app_nil_r.
  - destruct (String.eqb (iname i) split); simpl; rewrite IH; simpl; now rewrite <- app_assoc.
Qed.

(* the blocks are a partition of the instruction list *)
Lemma split_blocks_concat split l : List.concat (split_blocks split l) = l.
Proof. unfold split_blocks. now rewrite split_blocks_from_concat. Qed.

(* every block but the last ends with the split instruction; inside a block nothing before its last element is one *)
Definition block_closed (split : string) (b : list instr) : Prop :=
  exists body i, b = body ++ [i] /\ iname i = split /\ forall j, In j body -> iname j <> split.
Definition block_open (split : string) (b : list instr) : Prop := forall j, In j b -> iname j <> split.

Lemma split_blocks_from_shape split acc l :
  (forall j, In j acc -> iname j <> split) ->
  exists bs last, split_blocks_from split acc l = bs ++ [last] /\ Forall (block_closed split) bs /\ block_open split last.
Proof.
  revert acc; induction l as [|i t IH]; intros acc Hacc; simpl.
  - exists [], acc. repeat split; auto.
  - destruct (String.eqb (iname i) split) eqn:E.
    + destruct (IH [] (fun j H => match H with end)) as (bs & last & E1 & F & O).
      exists ((acc ++ [i]) :: bs), last. rewrite E1. repeat split; auto.
      constructor; auto. exists acc, i. apply String.eqb_eq in E. auto.
    + apply IH. intros j Hj. apply in_app_or in Hj. destruct Hj as [Hj|[<-|[]]]; auto.
      intros Hn. apply String.eqb_neq in E. contradiction.
Qed.

Lemma split_blocks_shape split l :
  exists bs last, split_blocks split l = bs ++ [last] /\ Forall (block_closed split) bs /\ block_open split last.
Proof. apply split_blocks_from_shape. intros j []. Qed.

(* ------------------------------------------------------------------------------------------ wrap *)
Lemma wrap_block_shape name s m qs b :
  wrap_block name s m qs b =
  rev (map (chan name s m (block_duration s b)) qs) ++ b ++ map (chan name s m (block_duration s b)) qs.
Proof.
  unfold wrap_block. generalize (block_duration s b) as d. intros d.
  revert b; induction qs as [|q qs IH]; intros b; simpl.
  - now rewrite app_nil_r.
  - rewrite IH. simpl. rewrite <- !app_assoc. simpl. reflexivity.
Qed.

Lemma filter_wrap_block (P : instr -> bool) name s m qs b :
  (forall d q, P (chan name s m d q) = false) -> filter P (wrap_block name s m qs b) = filter P b.
Proof.
  intros H. rewrite wrap_block_shape, !filter_app.
  assert (E : forall d l, filter P (map (chan name s m d) l) = []).
  { intros d l; induction l as [|x t IH]; simpl; [reflexivity|]. now rewrite H. }
  assert (E2 : forall d l, filter P (rev (map (chan name s m d) l)) = []).
  { intros d l. rewrite <- map_rev. apply E. }
  now rewrite E, E2, app_nil_r.
Qed.

Lemma filter_additive (P : instr -> bool) name split s m c :
  (forall d q, P (chan name s m d q) = false) -> filter P (additive (name, split) s m c) = filter P c.
Proof.
  intros H. unfold additive. rewrite filter_concat, map_map.
  rewrite (map_ext _ (filter P)) by (intros b; now apply filter_wrap_block).
  rewrite <- filter_concat. now rewrite split_blocks_concat.
Qed.

Lemma filter_additives (P : instr -> bool) s m (fs : list (string * string)) c :
  (forall f d q, In f fs -> P (chan (fst f) s m d q) = false) ->
  filter P (fold_left (fun c f => additive f s m c) fs c) = filter P c.
Proof.
  revert c; induction fs as [|[name split] fs IH]; intros c H; simpl; [reflexivity|].
  rewrite IH by (intros f d q Hf; apply H; now right).
  apply filter_additive. intros d q. apply (H (name, split)). now left.
Qed.

(* ------------------------------------------------------------------------------------------ strip (dress c) *)
Definition noiseless_instr (i : instr) : Prop := is_noise i = false /\ (is_meas i = true -> iargs i = ANone).
Definition noiseless (c : list instr) : Prop := forall i, In i c -> noiseless_instr i.

(* facts about the generated registrations, checked by computation on the current tables *)
Definition lookup_ok (kv : string * string) : bool :=
  let n := stim_canonical (snd kv) in
  mem_str n measurement_names && negb (mem_str n noise_channel_names) && negb (mem_str n untargeted_names)
  && String.eqb n (fst kv).
Lemma factory_lookup_ok : forallb lookup_ok factory_lookup = true.
Proof. vm_compute. reflexivity. Qed.
Definition additive_ok (f : string * string) : bool :=
  mem_str (fst f) noise_channel_names && negb (mem_str (fst f) measurement_names).
Lemma factory_additives_ok : forallb additive_ok factory_additives = true.
Proof. vm_compute. reflexivity. Qed.

Lemma lookup_facts k op : assoc String.eqb k factory_lookup = Some op ->
  mem_str (stim_canonical op) measurement_names = true /\ mem_str (stim_canonical op) noise_channel_names = false
  /\ mem_str (stim_canonical op) untargeted_names = false /\ stim_canonical op = k.
Proof.
  intros H. apply (assoc_In _ str_eqb_eq) in H.
  pose proof (forallb_In _ _ _ factory_lookup_ok H) as F. unfold lookup_ok in F. simpl fst in F. simpl snd in F.
  rewrite !andb_true_iff, !negb_true_iff in F. destruct F as [[[F1 F2] F3] F4]. apply String.eqb_eq in F4. auto.
Qed.

Lemma strip_app a b : strip (a ++ b) = strip a ++ strip b.
Proof. unfold strip. now rewrite filter_app, map_app. Qed.

Lemma strip_cons x l : strip (x :: l) = if is_noise x then strip l else strip_arg x :: strip l.
Proof. unfold strip. simpl. now destruct (is_noise x). Qed.

Lemma strip_flat_map {A} (f : A -> list instr) l : strip (flat_map f l) = flat_map (fun x => strip (f x)) l.
Proof. induction l as [|x t IH]; simpl; [reflexivity|]. now rewrite strip_app, IH. Qed.

Lemma strip_dress_meas s m i : noiseless_instr i -> strip (dress_meas s m i) = normalise_instr i.
Proof.
  intros [Hn Hm]. unfold dress_meas, normalise_instr.
  destruct (assoc String.eqb (iname i) factory_lookup) as [op|] eqn:E.
  - destruct (lookup_facts _ _ E) as (F1 & F2 & _).
    induction (qubit_targets i) as [|q t IH]; [reflexivity|].
    cbn [map]. rewrite strip_cons.
    change (is_noise (meas_instr s m op q)) with (mem_str (stim_canonical op) noise_channel_names). rewrite F2.
    unfold strip_arg. change (is_meas (meas_instr s m op q)) with (mem_str (stim_canonical op) measurement_names).
    rewrite F1, IH. reflexivity.
  - rewrite strip_cons, Hn. unfold strip at 1. simpl. unfold strip_arg. destruct (is_meas i) eqn:M; [|reflexivity].
    destruct i as [n t a]. simpl in *. now rewrite (Hm eq_refl).
Qed.

Lemma strip_dress_measurements s m c : noiseless c -> strip (dress_measurements s m c) = normalise c.
Proof.
  intros H. unfold dress_measurements, normalise. rewrite strip_flat_map.
  induction c as [|i t IH]; simpl; [reflexivity|].
  rewrite strip_dress_meas by (apply H; now left). rewrite IH; [reflexivity|]. intros j Hj. apply H. now right.
Qed.

Lemma chan_is_noise f s m d q : In f factory_additives -> is_noise (chan (fst f) s m d q) = true.
Proof.
  intros H. pose proof (forallb_In _ _ _ factory_additives_ok H) as F. unfold additive_ok in F.
  rewrite andb_true_iff in F. destruct F as [F _]. exact F.
Qed.

Lemma strip_dress_eq s m c : strip (dress s m c) = strip (dress_measurements s m c).
Proof.
  unfold strip, dress. f_equal. apply filter_additives.
  intros f d q Hf. now rewrite chan_is_noise.
Qed.

(* only noise is inserted *)
Lemma strip_dress s m c : noiseless c -> strip (dress s m c) = normalise c.
Proof. intros H. rewrite strip_dress_eq. now apply strip_dress_measurements. Qed.

(* for a circuit in which the replaced instructions already have one plain target each, nothing but the noise changes *)
Definition single_target (i : instr) : Prop :=
  forall op, assoc String.eqb (iname i) factory_lookup = Some op -> exists q, itargets i = [TQ q] /\ iargs i = ANone.
Lemma normalise_single c : (forall i, In i c -> single_target i) -> normalise c = c.
Proof.
  intros H. unfold normalise. induction c as [|i t IH]; simpl; [reflexivity|].
  rewrite IH by (intros j Hj; apply H; now right).
  enough (E1 : normalise_instr i = [i]) by now rewrite E1.
  unfold normalise_instr. destruct (assoc String.eqb (iname i) factory_lookup) as [op|] eqn:E; [|reflexivity].
  destruct (H i (or_introl eq_refl) op E) as (q & Ht & Ha).
  destruct (lookup_facts _ _ E) as (_ & _ & F3 & F4).
  unfold qubit_targets. rewrite <- F4, F3, Ht. simpl. destruct i as [n tg a]. simpl in *. subst. reflexivity.
Qed.

Lemma strip_dress_split s m c : noiseless c -> (forall i, In i c -> single_target i) -> strip (dress s m c) = c.
Proof. intros H1 H2. rewrite strip_dress by assumption. now apply normalise_single. Qed.

Lemma strip_apply_noise s m c : noiseless (flatten c) -> strip (apply_noise s m c) = normalise (flatten c).
Proof. apply strip_dress. Qed.

(* ------------------------------------------------------------------------------------------ parameters of a qubit *)
Lemma assoc_find_Z {B} k (l : list (Z * B)) :
  assoc Z.eqb k l = match find (fun e => fst e =? k) l with Some (_, v) => Some v | None => None end.
Proof.
  induction l as [|[k' v] t IH]; simpl; [reflexivity|].
  rewrite (Z.eqb_sym k' k). destruct (k =? k'); [reflexivity | exact IH].
Qed.
Lemma assoc_find_str {B} k (l : list (string * B)) :
  assoc String.eqb k l = match find (fun e => String.eqb (fst e) k) l with Some (_, v) => Some v | None => None end.
Proof.
  induction l as [|[k' v] t IH]; simpl; [reflexivity|].
  rewrite (String.eqb_sym k' k). destruct (String.eqb k k'); [reflexivity | exact IH].
Qed.

(* the model's lookup (as coded) is the specification's "configured for its qubit" *)
Lemma get_noise_settings_spec s m q : get_noise_settings s m q = spec_params s m q.
Proof.
  unfold get_noise_settings, spec_params, ns_get_noise_settings. rewrite assoc_find_Z.
  destruct (find (fun e => fst e =? q) m) as [[k qid]|]; [|reflexivity].
  rewrite assoc_find_str. destruct (find (fun e => String.eqb (fst e) qid) (s_individual s)) as [[k' p]|]; reflexivity.
Qed.

(* the three cases of the lookup *)
Lemma params_unmapped s m q : assoc Z.eqb q m = None -> get_noise_settings s m q = s_default s.
Proof. unfold get_noise_settings. now intros ->. Qed.
Lemma params_individual s m q qid p : assoc Z.eqb q m = Some qid -> assoc String.eqb qid (s_individual s) = Some p ->
  get_noise_settings s m q = p.
Proof. unfold get_noise_settings, ns_get_noise_settings. now intros -> ->. Qed.
Lemma params_fallback s m q qid : assoc Z.eqb q m = Some qid -> assoc String.eqb qid (s_individual s) = None ->
  get_noise_settings s m q = s_default s.
Proof. unfold get_noise_settings, ns_get_noise_settings. now intros -> ->. Qed.

(* ------------------------------------------------------------------------------------------ measurements *)
Definition named (n : string) (i : instr) : bool := String.eqb (iname i) n.

(* the wiring of the generated definitions: which field is handed over *)
Lemma meas_instr_shape s m op q :
  meas_instr s m op q = MkI (stim_canonical op) [TQ q] (AErr (qp_assignment_error (get_noise_settings s m q))).
Proof. reflexivity. Qed.

Lemma filter_named_dress n s m c :
  (forall f, In f factory_additives -> String.eqb (fst f) n = false) ->
  filter (named n) (dress s m c) = filter (named n) (dress_measurements s m c).
Proof. intros H. unfold dress. apply filter_additives. intros f d q Hf. unfold named. simpl. now apply H. Qed.

(* the replaced instructions of the dressed circuit, in order: one per target of every replaced input instruction, carrying
   the assignment error configured for that target's qubit *)
Lemma meas_error_list k op s m c :
  assoc String.eqb k factory_lookup = Some op ->
  filter (named k) (dress s m c) =
  flat_map (fun i => if named k i then map (fun q => MkI k [TQ q] (AErr (qp_assignment_error (spec_params s m q)))) (qubit_targets i)
                     else []) c.
Proof.
  intros E. destruct (lookup_facts _ _ E) as (F1 & F2 & F3 & F4).
  rewrite filter_named_dress.
  2:{ intros f Hf. pose proof (forallb_In _ _ _ factory_additives_ok Hf) as F. unfold additive_ok in F.
      rewrite andb_true_iff, negb_true_iff in F. destruct F as [G1 G2].
      destruct (String.eqb (fst f) k) eqn:Ek; [|reflexivity]. apply String.eqb_eq in Ek. rewrite Ek, <- F4 in G1.
      congruence. }
  unfold dress_measurements. rewrite filter_flat_map. apply flat_map_ext. intros i.
  unfold dress_meas, named at 2. destruct (String.eqb (iname i) k) eqn:Ei.
  - apply String.eqb_eq in Ei. rewrite Ei, E.
    induction (qubit_targets i) as [|q t IH]; [reflexivity|]. simpl.
    change (named k (meas_instr s m op q)) with (String.eqb (stim_canonical op) k).
    rewrite F4, String.eqb_refl, IH, meas_instr_shape, get_noise_settings_spec, F4. reflexivity.
  - destruct (assoc String.eqb (iname i) factory_lookup) as [op'|] eqn:E'.
    + destruct (lookup_facts _ _ E') as (_ & _ & _ & G4).
      induction (qubit_targets i) as [|q t IH]; [reflexivity|]. simpl.
      change (named k (meas_instr s m op' q)) with (String.eqb (stim_canonical op') k). now rewrite G4, Ei.
    + simpl. unfold named. now rewrite Ei.
Qed.

(* each measurement of the dressed circuit has one target and carries the assignment error configured for that qubit *)
Lemma meas_error_spec s m c i :
  In i (dress s m c) -> iname i = "M" ->
  exists q, itargets i = [TQ q] /\ iargs i = AErr (qp_assignment_error (spec_params s m q)).
Proof.
  intros Hin Hn.
  assert (E : assoc String.eqb "M" factory_lookup = Some "MZ") by reflexivity.
  assert (Hf : In i (filter (named "M") (dress s m c))).
  { apply filter_In. split; [assumption|]. unfold named. now rewrite Hn. }
  rewrite (meas_error_list _ _ s m c E) in Hf. apply in_flat_map in Hf. destruct Hf as (j & _ & Hj).
  destruct (named "M" j); [|contradiction]. apply in_map_iff in Hj. destruct Hj as (q & <- & _). now exists q.
Qed.

(* ------------------------------------------------------------------------------------------ qubit targets *)
Lemma zinsert_u_In x y l : In y (zinsert_u x l) <-> y = x \/ In y l.
Proof.
  induction l as [|z t IH]; simpl; [intuition|].
  destruct (x <? z); simpl; [intuition|]. destruct (Z.eqb_spec x z); simpl; [subst; intuition|]. rewrite IH. intuition.
Qed.

Fixpoint strictly_sorted (l : list Z) : Prop :=
  match l with [] => True | x :: t => (forall y, In y t -> x < y) /\ strictly_sorted t end.
Lemma zinsert_u_sorted x l : strictly_sorted l -> strictly_sorted (zinsert_u x l).
Proof.
  induction l as [|z t IH]; simpl; [intuition|]. intros [H1 H2].
  destruct (Z.ltb_spec x z); simpl.
  - repeat split; auto. intros y [<-|Hy]; [assumption|]. specialize (H1 y Hy). lia.
  - destruct (Z.eqb_spec x z); simpl; [auto|]. split; [|auto].
    intros y Hy. apply zinsert_u_In in Hy. destruct Hy as [->|Hy]; [lia|auto].
Qed.

(* extract_all_targets: every qubit some instruction acts on, once, ascending *)
Lemma all_targets_In c q : In q (all_targets c) <-> exists i, In i c /\ In q (qubit_targets i).
Proof.
  unfold all_targets. rewrite <- in_flat_map. induction (flat_map qubit_targets c) as [|x t IH]; simpl; [tauto|].
  rewrite zinsert_u_In, IH. intuition.
Qed.
Lemma all_targets_sorted c : strictly_sorted (all_targets c).
Proof. unfold all_targets. induction (flat_map qubit_targets c) as [|x t IH]; simpl; [exact I|]. now apply zinsert_u_sorted. Qed.

Lemma qubit_targets_dress_meas s m i : flat_map qubit_targets (dress_meas s m i) = qubit_targets i.
Proof.
  unfold dress_meas. destruct (assoc String.eqb (iname i) factory_lookup) as [op|] eqn:E; [|simpl; now rewrite app_nil_r].
  destruct (lookup_facts _ _ E) as (_ & _ & F3 & _).
  induction (qubit_targets i) as [|q t IH]; [reflexivity|]. simpl. rewrite IH.
  unfold qubit_targets. change (iname (meas_instr s m op q)) with (stim_canonical op). now rewrite F3.
Qed.
(* replacing the measurements does not change the set of qubits *)
Lemma all_targets_dress_measurements s m c : all_targets (dress_measurements s m c) = all_targets c.
Proof.
  unfold all_targets, dress_measurements. f_equal.
  induction c as [|i t IH]; simpl; [reflexivity|].
  now rewrite flat_map_app, IH, qubit_targets_dress_meas.
Qed.

(* ------------------------------------------------------------------------------------------ idle channels *)
(* wiring of the generated definitions: first T1, then T2 of the qubit's parameters; the channel is PAULI_CHANNEL_1, blocks
   end at TICK; exactly one additive factory *)
Lemma chan_shape name s m d q :
  chan name s m d q = MkI name [TQ q] (APauli d (qp_t1 (spec_params s m q)) (qp_t2 (spec_params s m q))).
Proof. unfold chan. now rewrite get_noise_settings_spec. Qed.
Lemma additives_are : factory_additives = [("PAULI_CHANNEL_1", "TICK")].
Proof. reflexivity. Qed.
Lemma key_attr_is_name : block_duration_key_attr = "name".
Proof. reflexivity. Qed.

Definition idle_chan (s : settings) (m : index_map) (d q : Z) : instr :=
  MkI "PAULI_CHANNEL_1" [TQ q] (APauli d (qp_t1 (spec_params s m q)) (qp_t2 (spec_params s m q))).

(* the dressed circuit is, block after block of the measurement-dressed circuit: the channels of all qubits of the circuit
   (descending), the block, the same channels (ascending); each channel has arguments (block maximum, T1 q, T2 q) *)
Lemma idle_spec s m c :
  let c' := dress_measurements s m c in
  let qs := all_targets c in
  dress s m c =
  List.concat (map (fun b => rev (map (idle_chan s m (block_duration s b)) qs) ++ b ++ map (idle_chan s m (block_duration s b)) qs)
                   (split_blocks "TICK" c')).
Proof.
  intros c' qs. unfold dress. rewrite additives_are. simpl. unfold additive. fold c'.
  unfold qs. rewrite <- (all_targets_dress_measurements s m c). fold c'.
  f_equal. apply map_ext. intros b. rewrite wrap_block_shape.
  rewrite (map_ext (chan "PAULI_CHANNEL_1" s m (block_duration s b)) (idle_chan s m (block_duration s b)))
    by (intros q; apply chan_shape).
  reflexivity.
Qed.

(* max([...], default=0) *)
Lemma fold_left_max_ge l x : x <= fold_left Z.max l x /\ forall y, In y l -> y <= fold_left Z.max l x.
Proof.
  revert x; induction l as [|z t IH]; intros x; simpl; [split; [lia | intros y []]|].
  destruct (IH (Z.max x z)) as [H1 H2]. split; [lia|]. intros y [<-|Hy]; [lia | auto].
Qed.
Lemma fold_left_max_In l x : fold_left Z.max l x = x \/ In (fold_left Z.max l x) l.
Proof.
  revert x; induction l as [|z t IH]; intros x; simpl; [now left|].
  destruct (IH (Z.max x z)) as [H|H]; [|now right; right].
  rewrite H. destruct (Z.max_spec x z) as [[_ ->]|[_ ->]]; [right; now left | now left].
Qed.
Lemma py_max_default_ge l y : In y l -> y <= py_max_default l.
Proof.
  destruct l as [|x t]; [intros []|]. unfold py_max_default, block_duration_aggregate.
  destruct (fold_left_max_ge t x) as [H1 H2]. intros [<-|Hy]; auto.
Qed.
Lemma py_max_default_In l : l <> [] -> In (py_max_default l) l.
Proof.
  destruct l as [|x t]; [congruence|]. intros _. unfold py_max_default, block_duration_aggregate.
  destruct (fold_left_max_In t x) as [->|H]; [now left | now right].
Qed.
Lemma py_max_default_nil : py_max_default [] = 0.
Proof. reflexivity. Qed.

(* the duration of a block is the longest configured duration among the names its instructions are REPORTED under *)
Lemma block_duration_ge s b i : In i b -> get_operation_duration s (iname i) <= block_duration s b.
Proof. intros H. unfold block_duration. apply py_max_default_ge. now apply (in_map (fun i => get_operation_duration s (iname i))). Qed.
Lemma block_duration_attained s b : b <> [] -> exists i, In i b /\ block_duration s b = get_operation_duration s (iname i).
Proof.
  intros H. unfold block_duration.
  assert (H' : map (fun i => get_operation_duration s (iname i)) b <> []) by (destruct b; [congruence | discriminate]).
  apply py_max_default_In in H'. apply in_map_iff in H'. destruct H' as (i & E & Hi). exists i. auto.
Qed.
Lemma block_duration_empty s : block_duration s [] = 0.
Proof. reflexivity. Qed.

(* ------------------------------------------------------------------------------------------ "measurements included" *)
(* every instruction whose reported name has an entry in the duration table is included in the block maximum *)
Lemma block_max_includes_keyed s b i d :
  In i b -> assoc String.eqb (iname i) (duration_mapper (s_durations s)) = Some d -> d <= block_duration s b.
Proof.
  intros Hin E. pose proof (block_duration_ge s b i Hin) as H. unfold get_operation_duration in H. now rewrite E in H.
Qed.

(* IF the duration table has the measurement duration under the name Stim reports for a measurement, the block maximum
   includes the measurements (this is the statement of C14; the hypothesis is what the current table lacks).
   Once F6 is fixed in /repo (duration_mapper keyed 'M'), this file still compiles unchanged; in Props/C14.v the two
   `_refuted` theorems stop checking (as they must) and are to be replaced, together with the two `_partial` ones, by
     Theorem C14_block_max_includes_meas :
       forall s b i, In i b -> iname i = "M" -> duration_mz (s_durations s) <= block_duration s b.
     Proof. exact (block_max_includes_meas_keyed (fun d => eq_refl)). Qed.
   (verified in a scratch copy: check exits 0 without KNOWN-FINDING lines, 430 cases, suite 61 passed) *)
Lemma block_max_includes_meas_keyed :
  (forall d, assoc String.eqb "M" (duration_mapper d) = Some (duration_mz d)) ->
  forall s b i, In i b -> iname i = "M" -> duration_mz (s_durations s) <= block_duration s b.
Proof. intros K s b i Hin Hn. apply (block_max_includes_keyed s b i); [assumption|]. rewrite Hn. apply K. Qed.

(* the code as it is: the table has no entry under "M", so a block consisting of a measurement idles for the default
   duration; witness: `M 0` under the library's default settings *)
Definition default_settings : settings := MkSettings NoiseSettings_default_qubit [] OperationDurationParameters_default.
Definition f6_circuit : list instr := [MkI "M" [TQ 0] ANone].

Lemma block_max_excludes_meas_unkeyed :
  assoc String.eqb "M" (duration_mapper OperationDurationParameters_default) = None ->
  default_duration OperationDurationParameters_default < duration_mz OperationDurationParameters_default ->
  exists s m c b i, In b (split_blocks "TICK" (dress_measurements s m c)) /\ In i b /\ iname i = "M"
                    /\ block_duration s b < duration_mz (s_durations s).
Proof.
  intros K L. exists default_settings, [], f6_circuit.
  exists [meas_instr default_settings [] "MZ" 0], (meas_instr default_settings [] "MZ" 0).
  split; [now left|]. split; [now left|]. split; [reflexivity|].
  unfold block_duration. simpl. unfold get_operation_duration. simpl s_durations.
  change (stim_canonical "MZ") with "M". rewrite K. exact L.
Qed.

(* what the unchanged code therefore returns on the witness: both channels carry duration 0 *)
Lemma f6_output :
  assoc String.eqb "M" (duration_mapper OperationDurationParameters_default) = None ->
  default_duration OperationDurationParameters_default = 0 ->
  dress default_settings [] f6_circuit =
  [idle_chan default_settings [] 0 0; meas_instr default_settings [] "MZ" 0; idle_chan default_settings [] 0 0].
Proof.
  intros K L. rewrite idle_spec. simpl.
  assert (E : block_duration default_settings [meas_instr default_settings [] "MZ" 0] = 0).
  { unfold block_duration. simpl. unfold get_operation_duration. simpl s_durations. change (stim_canonical "MZ") with "M".
    now rewrite K. }
  change (String.eqb (stim_canonical "MZ") "TICK") with false. cbn iota. simpl List.concat. rewrite E. reflexivity.
Qed.

(* ------------------------------------------------------------------------------------------ non-vacuity *)
Definition ex_settings : settings :=
  MkSettings (MkQubitNoiseModelParameters 10000 20000 "0x1.47ae147ae147bp-7" "0x0.0p+0")
             [("D1", MkQubitNoiseModelParameters 5000 7000 "0x1.eb851eb851eb8p-6" "0x0.0p+0")]
             (MkOperationDurationParameters 500 60 20 20).
Definition ex_map : index_map := [(1, "D1")].
Definition ex_circuit : list item :=
  [It (MkI "R" [TQ 0] ANone); It (MkI "R" [TQ 1] ANone); It (MkI "TICK" [] ANone);
   Rep 2 [It (MkI "H" [TQ 0] ANone); It (MkI "CZ" [TQ 0; TQ 1] ANone); It (MkI "TICK" [] ANone);
          It (MkI "M" [TQ 1; TQ 0] ANone); It (MkI "DETECTOR" [TRec (-1)] (ACoords [1; 0])); It (MkI "SHIFT_COORDS" [] (ACoords [0; 1]))]].

Example ex_noiseless : noiseless (flatten ex_circuit).
Proof.
  intros i Hi. vm_compute in Hi.
  repeat (destruct Hi as [<-|Hi]; [split; [reflexivity | (intros _; reflexivity) || (intros H; discriminate H)]|]).
  destruct Hi.
Qed.
Example ex_strip : strip (apply_noise ex_settings ex_map ex_circuit) = normalise (flatten ex_circuit).
Proof. apply strip_apply_noise, ex_noiseless. Qed.
Example ex_dressed_length : List.length (apply_noise ex_settings ex_map ex_circuit) = 31%nat.
Proof. vm_compute. reflexivity. Qed.
Example ex_meas : In (MkI "M" [TQ 1] (AErr "0x1.eb851eb851eb8p-6")) (apply_noise ex_settings ex_map ex_circuit)
               /\ In (MkI "M" [TQ 0] (AErr "0x1.47ae147ae147bp-7")) (apply_noise ex_settings ex_map ex_circuit).
Proof. vm_compute. tauto. Qed.
Example ex_idle : In (MkI "PAULI_CHANNEL_1" [TQ 1] (APauli 60 5000 7000)) (apply_noise ex_settings ex_map ex_circuit).
Proof. vm_compute. tauto. Qed.

(* the defect as an input/output pair of the model: `M 0` under the default settings is wrapped by channels of duration 0
   although the configured measurement duration is positive *)
Lemma f6_refuted :
  assoc String.eqb "M" (duration_mapper OperationDurationParameters_default) = None ->
  default_duration OperationDurationParameters_default = 0 ->
  0 < duration_mz OperationDurationParameters_default ->
  exists s m c, 0 < duration_mz (s_durations s) /\
    dress s m c = [idle_chan s m 0 0; MkI "M" [TQ 0] (AErr (qp_assignment_error (spec_params s m 0))); idle_chan s m 0 0].
Proof.
  intros K L P. exists default_settings, [], f6_circuit. split; [exact P|]. rewrite (f6_output K L). reflexivity.
Qed.
