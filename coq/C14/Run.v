(* Case evaluation for the C14 correspondence run.  `agree`: the model (C14/Model.v) reproduces what the implementation
   returned.  `spec_ok`: the statement of C14 evaluated on the implementation's output, written without the model's `dress`
   (it uses only the configuration tables of Gen/Noise.v, the instruction type, `strip` = Stim's without_noise, and Stim's
   alias table). *)
From Coq Require Import ZArith List Bool String.
Import ListNotations.
From QCE Require Import Base.Prelude C14.Model.
From Gen Require Import Noise.
Open Scope string_scope.
Open Scope Z_scope.
Open Scope list_scope.

Inductive case :=
| CDress (error : bool)                       (* the implementation raised *)
         (s : settings) (m : index_map)
         (circuit : list item)                (* the input circuit (measurements may have several targets, REPEAT blocks) *)
         (flat : list instr)                  (* Stim: circuit.flattened(), split *)
         (out : list instr)                   (* apply_noise(circuit, m, noise_settings=s), split; channels carry AProbs *)
         (stripped : list instr)              (* Stim: out.without_noise(), split *)
         (wn_eq : bool)                       (* Stim: out.without_noise() == circuit.flattened() *)
         (tb : ptable)                        (* driver: get_pauli_error evaluated in binary64 on every possible argument triple *)
         (range : list bool)                  (* harness, exactly on the floats: for each noisy instruction of `out` in order
                                                 (idle channel or measurement): every probability in [0,1] and sum <= 1 *)
| CTables (lookup additives : list (string * string))        (* NoiseFactoryManager()._factory at run time *)
          (mapper : list (string * Z)) (mapper_gen : list (string * Z))   (* duration_mapper of durations 1, 2, 3, ... ns *)
          (durs durs_gen : OperationDurationParameters) (dflt : Z)       (* OperationDurationParameters(), .default_duration *)
          (ns_default qp_default : QubitNoiseModelParameters)            (* NoiseSettings().get_default_noise_settings(), QubitNoiseModelParameters() *)
| CAlias (given reported : string).            (* stim.CircuitInstruction(given, ...).name *)

Definition qp_eqb (a b : QubitNoiseModelParameters) : bool :=
  (qp_t1 a =? qp_t1 b) && (qp_t2 a =? qp_t2 b) && String.eqb (qp_assignment_error a) (qp_assignment_error b)
  && String.eqb (qp_single_qubit_gate_error a) (qp_single_qubit_gate_error b).
Definition sz_eqb (a b : string * Z) : bool := String.eqb (fst a) (fst b) && (snd a =? snd b).
Definition ss_eqb (a b : string * string) : bool := String.eqb (fst a) (fst b) && String.eqb (snd a) (snd b).
Definition instrs_eqb := list_eqb instr_eqb.

Definition agree (c : case) : bool :=
  match c with
  | CDress error s m circuit flat out stripped wn_eq tb range =>
      let fl := flatten circuit in
      negb error
      && instrs_eqb (normalise fl) flat
      && match realise tb (apply_noise s m circuit) with Some o => instrs_eqb o out | None => false end
      && instrs_eqb (strip out) stripped
  | CTables lookup additives mapper mapper_gen durs durs_gen dflt ns_default qp_default =>
      list_eqb ss_eqb lookup factory_lookup && list_eqb ss_eqb additives factory_additives
      && list_eqb sz_eqb mapper mapper_gen
      && list_eqb sz_eqb (duration_mapper durs) (duration_mapper durs_gen)
      && (dflt =? default_duration durs)
      && qp_eqb ns_default NoiseSettings_default_qubit && qp_eqb qp_default QubitNoiseModelParameters_default
  | CAlias given reported => String.eqb (stim_canonical given) reported
  end.

(* ------------------------------------------------------------------------------------------ the statement of C14 *)
(* the parameters configured for qubit index q: those of its identifier when the map names one and the settings hold an
   individual entry for that identifier, the defaults otherwise *)
Definition spec_params (s : settings) (m : index_map) (q : Z) : QubitNoiseModelParameters :=
  match find (fun e => fst e =? q) m with
  | Some (_, qid) =>
      match find (fun e => String.eqb (fst e) qid) (s_individual s) with Some (_, p) => p | None => s_default s end
  | None => s_default s
  end.
(* the configured duration of the operation Stim calls n: the entry of the duration table under n or under one of the names
   Stim accepts for n (a measurement is `M`, alias `MZ`); operations without an entry have the default duration *)
Definition names_of (n : string) : list string := n :: map fst (filter (fun a => String.eqb (snd a) n) stim_aliases).
Definition spec_duration (d : OperationDurationParameters) (n : string) : Z :=
  match flat_map (fun k => match assoc String.eqb k (duration_mapper d) with Some v => [v] | None => [] end) (names_of n) with
  | v :: _ => v
  | [] => default_duration d
  end.
(* longest operation of a block, measurements included; an empty block lasts 0 *)
Definition spec_block_duration (d : OperationDurationParameters) (b : list instr) : Z :=
  fold_right Z.max 0 (map (fun i => spec_duration d (iname i)) b).

Definition is_tick (i : instr) : bool := String.eqb (iname i) "TICK".
Fixpoint blocks_at_tick (l : list instr) : list (list instr) :=      (* a TICK ends its block *)
  match l with
  | [] => [[]]
  | i :: t => if is_tick i then [i] :: blocks_at_tick t
              else match blocks_at_tick t with b :: bs => (i :: b) :: bs | [] => [[i]] end
  end.
Definition spec_qubits (c : list instr) : list Z :=
  nodup Z.eq_dec (flat_map (fun i => flat_map (fun t => match t with TQ q => [q] | TRec _ => [] end) (itargets i)) c).

(* the idle channel on qubit q for a block lasting d: PAULI_CHANNEL_1 with the three floats the T1/T2 formula gives for
   (d / 2, t1 q, t2 q); the floats are looked up in the driver's evaluation table *)
Definition spec_chan (tb : ptable) (s : settings) (m : index_map) (d q : Z) : option instr :=
  let p := spec_params s m q in
  match assoc zzz_eqb (d, qp_t1 p, qp_t2 p) tb with
  | Some (x, y, z) => Some (MkI "PAULI_CHANNEL_1" [TQ q] (AProbs x y z))
  | None => None
  end.
Fixpoint all_some {A} (l : list (option A)) : option (list A) :=
  match l with
  | [] => Some []
  | Some x :: t => match all_some t with Some r => Some (x :: r) | None => None end
  | None :: _ => None
  end.
Definition count_instr (x : instr) (l : list instr) : nat := List.length (filter (instr_eqb x) l).
Definition same_multiset (a b : list instr) : bool :=
  Nat.eqb (List.length a) (List.length b) && forallb (fun x => Nat.eqb (count_instr x a) (count_instr x b)) a.

(* out must be, block after block of the flattened input: the channels of the block (one per qubit, any order), the block
   itself (noise-free once stripped), the same channels again *)
Fixpoint idle_ok (tb : ptable) (s : settings) (m : index_map) (qs : list Z) (blocks : list (list instr)) (out : list instr) : bool :=
  match blocks with
  | [] => match out with [] => true | _ => false end
  | b :: bs =>
      let d := spec_block_duration (s_durations s) b in
      match all_some (map (spec_chan tb s m d) qs) with
      | None => false
      | Some chs =>
          let n := List.length qs in
          let k := List.length b in
          let pre := firstn n out in
          let body := firstn k (skipn n out) in
          let post := firstn n (skipn (n + k) out) in
          same_multiset pre chs && instrs_eqb (strip body) b && Nat.eqb (List.length body) k && same_multiset post chs
          && idle_ok tb s m qs bs (skipn (n + k + n) out)
      end
  end.

Definition meas_ok (s : settings) (m : index_map) (i : instr) : bool :=
  if is_meas i then
    match itargets i, iargs i with
    | [TQ q], AErr e => String.eqb e (qp_assignment_error (spec_params s m q))
    | _, _ => false
    end
  else true.
Definition is_noisy (i : instr) : bool := is_noise i || (is_meas i && negb (args_eqb (iargs i) ANone)).

Definition spec_ok (c : case) : bool :=
  match c with
  | CDress error s m circuit flat out stripped wn_eq tb range =>
      negb error
      (* only noise is inserted: stripping gives back exactly the flattened input (by `strip`, and by Stim itself) *)
      && instrs_eqb (strip out) flat && instrs_eqb stripped flat && wn_eq
      (* every inserted probability within [0,1], X+Y+Z <= 1 *)
      && Nat.eqb (List.length range) (List.length (filter is_noisy out)) && forallb (fun b => b) range
      (* each measurement carries the assignment error configured for its qubit *)
      && forallb (meas_ok s m) out
      (* idle channels around each TICK-delimited block on each qubit *)
      && idle_ok tb s m (spec_qubits flat) (blocks_at_tick flat) out
  | CTables _ _ _ _ _ _ _ _ _ => true       (* translator tie only: judged by `agree` *)
  | CAlias _ _ => true
  end.
