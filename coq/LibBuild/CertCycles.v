(* LIBBUILD x C10 -- the no-overlap certificate of the circuit AS CONSTRUCTED does not depend on repetition counts, hence the
   certificate of `rep_code_prog D init anc cycles` is the same for every cycles >= 4.

   1. `erase_op` / `erase_nodes` set every repetition count stored in a relation graph to 1.  C10's symbolic scheduler never
      reads a count (`sext_of (OComp _ ns)` and `slisting_op (OComp _ ns)` bind it to `_`: a repeated block is listed and
      timed once, as in Core's `ext_of` / `listing_op` and in the implementation):
          sext_of_erase, slisting_op_erase, slisting_erase (same symbolic listing up to the leaves, which carry no count),
          cert_no_overlap_erase, cert_strict_erase, sduration_erase.
   2. Building never reads a count either (`op_channels`, `leaf_at_any`, `add_node`, `rebuild`, `copy_op`, `run_cmds`):
          run_prog_erase : erase_nodes (run_prog env p) = run_prog env (erase_prog p).
      So two programs that differ only in their CSub counts have the same certificate (cert_same_shape).
   3. LibBuild_qec_split_bulk: from four cycles on the constructor program has one shape; hence, for EVERY description,
          rep_code_cert_bulk : 4 <= cycles -> cert_no_overlap (run_prog env (rep_code_prog D init anc cycles))
                                              = cert_no_overlap (run_prog env (rep_code_prog D init anc 4))
      (and the same for cert_strict and for the symbolic duration).
   The finite evaluations (cycles 0..4 for the chains of distance 2 and 3 and for the layouts) are in CertCyclesProofs.v. *)
From Coq Require Import ZArith List Bool Lia.
Import ListNotations.
From QCE Require Import Base.Prelude Core.Model Core.Run Core.BfsWf Core.CopyIso C09.Model C10.Model C10.Proofs
                        LibBuild.Model LibBuild.Cert LibBuild.Proofs.
From Gen Require Import Ident Classes.
Open Scope list_scope.
Open Scope Z_scope.

(* ------------------------------------------------------------------ erasing the repetition counts *)
Fixpoint erase_op (o : op) : op :=
  match o with
  | OLeaf l => OLeaf l
  | OComp _ ns => OComp 1 ((fix go (l : list node) : list node :=
                              match l with [] => [] | Node p k o' :: t => Node p k (erase_op o') :: go t end) ns)
  end.
Definition erase_node (n : node) : node := match n with Node p k o => Node p k (erase_op o) end.
Definition erase_nodes (ns : list node) : list node := map erase_node ns.

Fixpoint erase_cmd (c : cmd) : cmd :=
  match c with
  | CSub _ body => CSub 1 ((fix go (l : list cmd) : list cmd := match l with [] => [] | c' :: t => erase_cmd c' :: go t end) body)
  | _ => c
  end.
Definition erase_prog (p : list cmd) : list cmd := map erase_cmd p.

Lemma erase_op_comp r ns : erase_op (OComp r ns) = OComp 1 (erase_nodes ns).
Proof.
  cbn [erase_op]. f_equal. unfold erase_nodes. induction ns as [|[p k o] t IH]; [reflexivity|]. cbn [map erase_node]. now rewrite IH.
Qed.

Lemma erase_cmd_sub r body : erase_cmd (CSub r body) = CSub 1 (erase_prog body).
Proof.
  cbn [erase_cmd]. reflexivity.
Qed.

Lemma erase_node_parent n : n_parent (erase_node n) = n_parent n.  Proof. destruct n; reflexivity. Qed.
Lemma erase_node_link n : n_link (erase_node n) = n_link n.        Proof. destruct n; reflexivity. Qed.
Lemma erase_node_op n : n_op (erase_node n) = erase_op (n_op n).   Proof. destruct n; reflexivity. Qed.

Lemma erase_parents ns : parents (erase_nodes ns) = parents ns.
Proof. unfold parents, erase_nodes. rewrite map_map. apply map_ext. apply erase_node_parent. Qed.
Lemma erase_links ns : map n_link (erase_nodes ns) = map n_link ns.
Proof. unfold erase_nodes. rewrite map_map. apply map_ext. apply erase_node_link. Qed.
Lemma erase_length ns : List.length (erase_nodes ns) = List.length ns.
Proof. apply map_length. Qed.
Lemma erase_app a b : erase_nodes (a ++ b) = erase_nodes a ++ erase_nodes b.
Proof. apply map_app. Qed.
Lemma erase_nth_error ns i : nth_error (erase_nodes ns) i = option_map erase_node (nth_error ns i).
Proof. apply nth_error_map. Qed.

Lemma map_erase_ext {B} (f : op -> B) ns :
  Forall (fun n => f (erase_op (n_op n)) = f (n_op n)) ns ->
  map (fun n => f (n_op n)) (erase_nodes ns) = map (fun n => f (n_op n)) ns.
Proof.
  intros H. unfold erase_nodes. rewrite map_map. apply map_ext_in. intros n Hn. rewrite erase_node_op.
  rewrite Forall_forall in H. exact (H n Hn).
Qed.

(* ------------------------------------------------------------------ 1. the symbolic scheduler never reads a count *)
Lemma sext_of_erase o : sext_of (erase_op o) = sext_of o.
Proof.
  induction o as [l | r ns IH] using op_ind'; [reflexivity|].
  rewrite erase_op_comp, !sext_of_unfold, (map_erase_ext sext_of ns IH), erase_links, erase_parents. reflexivity.
Qed.

Lemma snode_times_erase c ns : snode_times c (erase_nodes ns) = snode_times c ns.
Proof.
  unfold snode_times. rewrite (map_erase_ext sext_of ns), erase_links; [reflexivity|].
  apply Forall_forall. intros n _. apply sext_of_erase.
Qed.

Lemma nth_fs_erase ns : Forall (fun n => forall c se, slisting_op (erase_op (n_op n)) c se = slisting_op (n_op n) c se) ns ->
  forall i d c se, nth i (map (fun n => slisting_op (n_op n)) (erase_nodes ns)) d c se
                   = nth i (map (fun n => slisting_op (n_op n)) ns) d c se.
Proof.
  induction 1 as [|n t Hn _ IH]; intros i d c se; [reflexivity|]. destruct i as [|i]; cbn [erase_nodes map nth].
  - rewrite erase_node_op. apply Hn.
  - apply IH.
Qed.

Lemma slisting_op_erase o : forall c se, slisting_op (erase_op o) c se = slisting_op o c se.
Proof.
  induction o as [l | r ns IH] using op_ind'; intros c se; [reflexivity|].
  rewrite erase_op_comp, !slisting_op_unfold, snode_times_erase.
  destruct (snode_times c ns) as [tm|]; [|reflexivity]. f_equal. f_equal. rewrite erase_parents, erase_links.
  apply map_ext. intros i. apply nth_fs_erase. exact IH.
Qed.

Theorem slisting_erase ns : slisting (erase_nodes ns) = slisting ns.
Proof. unfold slisting. rewrite <- (erase_op_comp 1 ns). apply slisting_op_erase. Qed.

Theorem sduration_erase ns : sduration (erase_nodes ns) = sduration ns.
Proof. unfold sduration. rewrite <- (erase_op_comp 1 ns). apply sext_of_erase. Qed.

Theorem cert_with_erase pk ns : cert_with pk (erase_nodes ns) = cert_with pk ns.
Proof. unfold cert_with. now rewrite slisting_erase. Qed.

Theorem cert_no_overlap_erase ns : cert_no_overlap (erase_nodes ns) = cert_no_overlap ns.
Proof. apply cert_with_erase. Qed.

Theorem cert_strict_erase ns : cert_strict (erase_nodes ns) = cert_strict ns.
Proof. apply cert_with_erase. Qed.

(* ------------------------------------------------------------------ 2. building never reads a count *)
Lemma op_channels_erase o : op_channels (erase_op o) = op_channels o.
Proof.
  induction o as [l | r ns IH] using op_ind'; [reflexivity|].
  rewrite erase_op_comp, !op_channels_unfold, (map_erase_ext op_channels ns IH), erase_parents. reflexivity.
Qed.

Lemma leaf_at_any_erase ns chans : leaf_at_any (erase_nodes ns) chans = leaf_at_any ns chans.
Proof.
  unfold leaf_at_any. rewrite erase_parents. replace (map (fun n => op_channels (n_op n)) (erase_nodes ns))
    with (map (fun n => op_channels (n_op n)) ns); [reflexivity|].
  symmetry. apply map_erase_ext. apply Forall_forall. intros n _. apply op_channels_erase.
Qed.

Lemma latest_of_erase ns ps : latest_of (erase_nodes ns) ps = latest_of ns ps.
Proof. unfold latest_of. now rewrite erase_parents. Qed.

Lemma add_node_erase env ns o l : add_node env (erase_nodes ns) (erase_op o) l = erase_nodes (add_node env ns o l).
Proof.
  unfold add_node. rewrite erase_app, op_channels_erase, leaf_at_any_erase, erase_length. f_equal. cbn [erase_nodes map]. f_equal.
  destruct l as [|t p|ps|t].
  - destruct (leaf_at_any ns (op_channels o)); reflexivity.
  - destruct (Nat.ltb p (List.length ns)); [reflexivity|]. destruct (leaf_at_any ns (op_channels o)); reflexivity.
  - rewrite latest_of_erase. destruct (latest_of ns ps); [reflexivity|]. destruct (leaf_at_any ns (op_channels o)); reflexivity.
  - destruct (leaf_at_any ns (op_channels o)); reflexivity.
Qed.

Lemma op_keeps_erase o : op_keeps (erase_op o) = op_keeps o.
Proof. destruct o; reflexivity. Qed.

Lemma rebuild_erase env ns cops : rebuild env (erase_nodes ns) (map erase_op cops) = erase_nodes (rebuild env ns cops).
Proof.
  unfold rebuild. rewrite erase_parents.
  set (step := fun (ms : list node) (cs : list op) (st : list node * idxmap) (i : nat) =>
                 let '(new, m) := st in
                 match nth_error ms i, nth_error cs i with
                 | Some n, Some o' =>
                     let l' := if op_keeps (n_op n) then map_link m (n_link n) else LNone in
                     (add_node env new o' l', (i, List.length new) :: m)
                 | _, _ => st
                 end).
  change (fst (fold_left (step (erase_nodes ns) (map erase_op cops)) (bfs (parents ns)) ([], []))
          = erase_nodes (fst (fold_left (step ns cops) (bfs (parents ns)) ([], [])))).
  assert (G : forall l new m,
             fold_left (step (erase_nodes ns) (map erase_op cops)) l (erase_nodes new, m)
             = (erase_nodes (fst (fold_left (step ns cops) l (new, m))), snd (fold_left (step ns cops) l (new, m)))).
  { induction l as [|i l IH]; intros new m; [reflexivity|]. cbn [fold_left].
    assert (E : step (erase_nodes ns) (map erase_op cops) (erase_nodes new, m) i
                = (erase_nodes (fst (step ns cops (new, m) i)), snd (step ns cops (new, m) i))).
    { unfold step. rewrite erase_nth_error, nth_error_map.
      destruct (nth_error ns i) as [n|]; [|reflexivity]. destruct (nth_error cops i) as [o'|]; [|reflexivity].
      cbn [option_map fst snd]. rewrite erase_node_op, erase_node_link, op_keeps_erase, add_node_erase, erase_length. reflexivity. }
    rewrite E. destruct (step ns cops (new, m) i) as [new' m']. cbn [fst snd]. apply IH. }
  change (@nil node) with (erase_nodes []) at 1. rewrite G. reflexivity.
Qed.

Lemma copy_op_erase env o : copy_op env (erase_op o) = erase_op (copy_op env o).
Proof.
  induction o as [l | r ns IH] using op_ind'; [reflexivity|].
  rewrite erase_op_comp, !copy_op_comp, erase_op_comp. f_equal.
  replace (map (fun n => copy_op env (n_op n)) (erase_nodes ns)) with (map erase_op (map (fun n => copy_op env (n_op n)) ns)).
  - apply rebuild_erase.
  - unfold erase_nodes. rewrite !map_map. apply map_ext_in. intros n Hn. rewrite erase_node_op.
    rewrite Forall_forall in IH. symmetry. exact (IH n Hn).
Qed.

Lemma copy_nodes_erase env ns : copy_nodes env (erase_nodes ns) = erase_nodes (copy_nodes env ns).
Proof.
  pose proof (copy_op_erase env (OComp 1 ns)) as H. rewrite erase_op_comp, !copy_op_comp, erase_op_comp in H.
  rewrite !copy_nodes_eq. injection H as H. exact H.
Qed.

Lemma cmd_link_erase c : cmd_link (erase_cmd c) = cmd_link c.
Proof. destruct c as [l [[ty p]|] | l ty | r body]; reflexivity. Qed.

Lemma run_cmds_erase env cs : Forall (fun c => cmd_op env (erase_cmd c) = erase_op (cmd_op env c)) cs ->
  forall ns, run_cmds env (erase_prog cs) (erase_nodes ns) = erase_nodes (run_cmds env cs ns).
Proof.
  induction 1 as [|c t Hc _ IH]; intros ns; [reflexivity|].
  cbn [erase_prog map]. rewrite !run_cmds_cons, Hc, cmd_link_erase, add_node_erase. apply IH.
Qed.

Lemma cmd_op_erase env c : cmd_op env (erase_cmd c) = erase_op (cmd_op env c).
Proof.
  induction c as [l r | l t | r body IH] using cmd_ind'; try reflexivity.
  rewrite erase_cmd_sub. cbn [cmd_op]. rewrite erase_op_comp. f_equal.
  pose proof (run_cmds_erase env body IH []) as H. cbn [erase_nodes map] in H. rewrite H. apply copy_nodes_erase.
Qed.

Theorem run_prog_erase env p : erase_nodes (run_prog env p) = run_prog env (erase_prog p).
Proof.
  unfold run_prog. symmetry. change (@nil node) with (erase_nodes []) at 1. apply run_cmds_erase.
  apply Forall_forall. intros c _. apply cmd_op_erase.
Qed.

(* two programs that differ only in their repetition counts: same symbolic listing, same certificate, same duration *)
Theorem slisting_same_shape env p q : erase_prog p = erase_prog q -> slisting (run_prog env p) = slisting (run_prog env q).
Proof. intros E. rewrite <- (slisting_erase (run_prog env p)), <- (slisting_erase (run_prog env q)), !run_prog_erase, E. reflexivity. Qed.

Theorem cert_same_shape env p q : erase_prog p = erase_prog q ->
  cert_no_overlap (run_prog env p) = cert_no_overlap (run_prog env q) /\ cert_strict (run_prog env p) = cert_strict (run_prog env q)
  /\ sduration (run_prog env p) = sduration (run_prog env q).
Proof.
  intros E. unfold cert_no_overlap, cert_strict, cert_with. rewrite (slisting_same_shape env p q E).
  repeat split. rewrite <- (sduration_erase (run_prog env p)), <- (sduration_erase (run_prog env q)), !run_prog_erase, E. reflexivity.
Qed.

(* ------------------------------------------------------------------ 3. the constructor program from four cycles on *)
Lemma rep_code_shape D init anc cycles : 4 <= cycles ->
  erase_prog (rep_code_prog D init anc cycles) = erase_prog (rep_code_prog D init anc 4).
Proof.
  intros H. unfold rep_code_prog. rewrite (qec_split_bulk D cycles) by lia. rewrite (qec_split_bulk D 4) by lia.
  unfold erase_prog. cbn [map app]. rewrite !erase_cmd_sub. cbn [erase_prog map]. rewrite !erase_cmd_sub. reflexivity.
Qed.

(* EVERY description, state and environment: the certificate at cycles >= 4 is the certificate at 4 cycles *)
Theorem rep_code_cert_bulk env D init anc cycles : 4 <= cycles ->
  cert_no_overlap (run_prog env (rep_code_prog D init anc cycles)) = cert_no_overlap (run_prog env (rep_code_prog D init anc 4))
  /\ cert_strict (run_prog env (rep_code_prog D init anc cycles)) = cert_strict (run_prog env (rep_code_prog D init anc 4))
  /\ sduration (run_prog env (rep_code_prog D init anc cycles)) = sduration (run_prog env (rep_code_prog D init anc 4)).
Proof. intros H. apply cert_same_shape. apply rep_code_shape. exact H. Qed.

(* the certificates at cycles 0..4 decide every cycle count *)
Theorem rep_code_cert_all_cycles env D init anc :
  (forall c, In c [0; 1; 2; 3; 4] -> cert_no_overlap (run_prog env (rep_code_prog D init anc c)) = true) ->
  forall cycles, 0 <= cycles -> cert_no_overlap (run_prog env (rep_code_prog D init anc cycles)) = true.
Proof.
  intros H cycles Hc. assert (E : cycles = 0 \/ cycles = 1 \/ cycles = 2 \/ cycles = 3 \/ 4 <= cycles) by lia.
  destruct E as [-> | [-> | [-> | [-> | E]]]]; try (apply H; simpl; tauto).
  rewrite (proj1 (rep_code_cert_bulk env D init anc cycles E)). apply H. simpl. tauto.
Qed.

Theorem rep_code_strict_all_cycles env D init anc :
  (forall c, In c [0; 1; 2; 3; 4] -> cert_strict (run_prog env (rep_code_prog D init anc c)) = true) ->
  forall cycles, 0 <= cycles -> cert_strict (run_prog env (rep_code_prog D init anc cycles)) = true.
Proof.
  intros H cycles Hc. assert (E : cycles = 0 \/ cycles = 1 \/ cycles = 2 \/ cycles = 3 \/ 4 <= cycles) by lia.
  destruct E as [-> | [-> | [-> | [-> | E]]]]; try (apply H; simpl; tauto).
  rewrite (proj1 (proj2 (rep_code_cert_bulk env D init anc cycles E))). apply H. simpl. tauto.
Qed.
