(* LIBBUILD x C10 -- definitions for the certificate of the shipped-layout descriptions (82 contiguous data-to-data sub-chains,
   C09's / C17's model of from_connectivity over the generated layout tables), ONE requested state each: data values
   1, 0, 1, 0, ..., no ancilla values.  The 82 sub-chains are dealt into four lists (interleaved, so that the sizes balance);
   each is evaluated in its own file CertCyclesLayouts{0,1,2,3}.v, CertCyclesLayouts.v puts them together. *)
From Coq Require Import ZArith List Bool String.
Import ListNotations.
From QCE Require Import Base.Prelude Core.Model Core.Run C09.Model C10.Model LibBuild.Model LibBuild.Cert LibBuild.CertCycles
                        LibBuild.CertCyclesProofs.
From Gen Require Import Layouts.
Open Scope list_scope.
Open Scope Z_scope.

Definition cc_alt_state (n : nat) : list bool := map Nat.even (seq 0 n).
Definition cc_lay_state (D : rdesc) : list bool := cc_alt_state (List.length (r_data D)).

(* the strict certificate at 0..4 cycles, for one description with its state *)
Definition lay_check (D : rdesc) : bool :=
  forallb (fun c => cert_strict (run_prog env0 (rep_code_prog D (cc_lay_state D) [] c))) five.
Definition lay_check_both (Lc : Layout * list string) : bool :=
  lay_check (desc_of_layout (fst Lc) (snd Lc) true) && lay_check (desc_of_layout (fst Lc) (snd Lc) false).

Fixpoint deal4 {A} (l : list A) : list A * list A * list A * list A :=
  match l with
  | [] => ([], [], [], [])
  | x :: t => let '(a, b, c, d) := deal4 t in (x :: d, a, b, c)
  end.
Definition lay_chunk (k : nat) : list (Layout * list string) :=
  let '(a, b, c, d) := deal4 all_layout_subchains in
  match k with 0%nat => a | 1%nat => b | 2%nat => c | _ => d end.
