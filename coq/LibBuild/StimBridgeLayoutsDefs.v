(* LIBBUILD x C08 x C09 -- the export of the model circuit vs `rep_stim` for the descriptions of the three SHIPPED LAYOUTS
   (every contiguous data-to-data sub-chain, 82 of them, through C09's / C17's model of from_connectivity over the generated
   layout tables; these have park operations and qubit indices that are not in chain order), refocusing on and off, for
   EVERY cycle count the exporter accepts -- with ONE requested state: data values 1, 0, 1, 0, ... and no ancilla values.
   Same method as StimBridgeCycles.v (the repetition count of the second sub-circuit and the round number stay free
   variables in the VM's evaluations); one case per description.  Definitions and the solver; the chunks are checked in StimBridgeLayouts0..3.v. *)
From Coq Require Import ZArith List Bool String Lia.
Import ListNotations.
From QCE Require Import Base.Prelude Core.Model Core.Run C08.Tree C08.Model C08.Proofs Bridge.TreeOfOp C09.Stim C09.Spec C09.Sem
                        C09.Model C09.Proofs LibBuild.Model LibBuild.Cert LibBuild.StimBridge LibBuild.StimBridgeProofs LibBuild.StimBridgeCycles.
From Gen Require Import Ident Classes Tables Layouts.
Open Scope list_scope.
Open Scope Z_scope.

(* 1, 0, 1, 0, ... *)
Definition alt_state (n : nat) : list bool := map Nat.even (seq 0 n).
Definition lay_state (D : rdesc) : list bool := alt_state (List.length (r_data D)).

Definition layout_descs : list rdesc :=
  flat_map (fun Lc => [desc_of_layout (fst Lc) (snd Lc) true; desc_of_layout (fst Lc) (snd Lc) false]) all_layout_subchains.
(* the 164 descriptions in four chunks, checked in four files compiled in parallel *)
Definition chunk (k : nat) : list rdesc := firstn 41 (skipn (41 * k) layout_descs).

Ltac layouts_solve :=
  lazymatch goal with
  | |- Forall _ ?l => let v := eval vm_compute in l in change l with v
  end;
  repeat (apply Forall_cons; [
    lazymatch goal with
    | |- all_cycles_ok ?D (lay_state ?D) [] => let v := eval vm_compute in (lay_state D) in change (lay_state D) with v
    end; case_solve |]);
  apply Forall_nil.
