(* LIBBUILD x C10 -- no double-booking for the constructor program `rep_code_prog`, AS CONSTRUCTED, for EVERY cycle count.

   CertCycles.v: the certificate of rep_code_prog D init anc cycles at cycles >= 4 is the one at 4 cycles (every description).
   Here:
   * rep_code_certified: for EVERY description and state, the STRICT certificate at 0, 1, 2, 3, 4 cycles gives, for every
     cycle count and every admissible duration setting, no overlap / barrier-clear / strictly no overlap in the Core model of
     the circuit as constructed (C10_certified, C10_certified_strict, LibBuild_run_prog_env_indep);
   * the five certificates evaluated by the VM for the chains of distance 2 and 3: both refocusing flags, EVERY list of data
     values and EVERY list of ancilla values (of any length: the constructor `combine`s them with the qubit lists, so only the
     prefixes of length <= d resp. <= d - 1 matter; 7 x 3 resp. 15 x 7 prefixes);
   * chain4_..._partial (CertCyclesChain4.v) and the layouts (CertCyclesLayouts*.v) are separate files.
   NOT covered: the UNROLLED circuit for all cycle counts (apply_modifiers reads the counts: the graph grows with cycles; Cert.v
   has cycles 0..6 for d = 2, 3), distances >= 4 beyond the listed states, the simplified / multi-round constructors. *)
From Coq Require Import ZArith List Bool Lia.
Import ListNotations.
From QCE Require Import Base.Prelude Core.Model Core.Run Lib.Run C09.Model C10.Model C10.Run C10.Proofs
                        LibBuild.Model LibBuild.Cert LibBuild.CertCycles.
From Gen Require Import Ident Classes.
Open Scope list_scope.
Open Scope Z_scope.

(* ------------------------------------------------------------------ from the five certificates to every setting *)
Definition plain_ok (D : rdesc) (init anc : list bool) (cycles : Z) : Prop :=
  forall env, env_nonneg env -> env_parity env ->
    let ns := run_prog env (rep_code_prog D init anc cycles) in
    no_overlap (o_ops (model_obs env ns)) = true /\ barrier_clear (o_ops (model_obs env ns)) = true
    /\ no_overlap_strict (o_ops (model_obs env ns)) = true.

Definition five : list Z := [0; 1; 2; 3; 4].

Theorem rep_code_certified D init anc :
  (forall c, In c five -> cert_strict (run_prog env0 (rep_code_prog D init anc c)) = true) ->
  forall cycles, 0 <= cycles ->
    cert_strict (run_prog env0 (rep_code_prog D init anc cycles)) = true
    /\ cert_no_overlap (run_prog env0 (rep_code_prog D init anc cycles)) = true
    /\ plain_ok D init anc cycles.
Proof.
  intros H cycles Hc. pose proof (rep_code_strict_all_cycles env0 D init anc H cycles Hc) as S.
  pose proof (cert_strict_implies _ S) as N. split; [exact S|]. split; [exact N|].
  intros env En Ep ns. unfold ns. rewrite (run_prog_env_indep env env0).
  destruct (certified _ N env En Ep) as [A B]. split; [exact A|]. split; [exact B|]. exact (certified_strict' _ S env En Ep).
Qed.

(* ------------------------------------------------------------------ only a prefix of the state lists is read *)
Lemma cc_combine_firstn {A B} (l : list A) : forall (l' : list B), combine l (firstn (List.length l) l') = combine l l'.
Proof. induction l as [|x l IH]; intros [|y l']; simpl; try reflexivity. now rewrite IH. Qed.

Lemma cc_rep_code_prog_firstn D init anc cycles :
  rep_code_prog D init anc cycles
  = rep_code_prog D (firstn (List.length (r_data D)) init) (firstn (List.length (r_anc D)) anc) cycles.
Proof.
  unfold rep_code_prog, circuit_initialize_with_heralded, circuit_initialize, init_ops. now rewrite !cc_combine_firstn.
Qed.

Fixpoint cc_prefix_states (n : nat) : list (list bool) :=
  match n with O => [[]] | S k => [] :: flat_map (fun s => [false :: s; true :: s]) (cc_prefix_states k) end.

Lemma cc_firstn_in_prefix_states n : forall l, In (firstn n l) (cc_prefix_states n).
Proof.
  induction n as [|n IH]; intros l; [left; reflexivity|]. destruct l as [|b l]; [left; reflexivity|].
  cbn [firstn cc_prefix_states]. right. apply in_flat_map. exists (firstn n l). split; [apply IH|]. destruct b; simpl; auto.
Qed.

(* the finite check for one description family: every prefix pair, cycles 0..4 *)
Definition desc_check (D : rdesc) : bool :=
  forallb (fun i => forallb (fun a => forallb (fun c => cert_strict (run_prog env0 (rep_code_prog D i a c))) five)
                            (cc_prefix_states (List.length (r_anc D))))
          (cc_prefix_states (List.length (r_data D))).

Lemma desc_check_spec D : desc_check D = true ->
  forall init anc c, In c five -> cert_strict (run_prog env0 (rep_code_prog D init anc c)) = true.
Proof.
  intros H init anc c Hc. rewrite cc_rep_code_prog_firstn. unfold desc_check in H. rewrite forallb_forall in H.
  specialize (H _ (cc_firstn_in_prefix_states (List.length (r_data D)) init)). rewrite forallb_forall in H.
  specialize (H _ (cc_firstn_in_prefix_states (List.length (r_anc D)) anc)). rewrite forallb_forall in H. exact (H c Hc).
Qed.

Theorem desc_check_all_cycles D : desc_check D = true -> forall init anc cycles, 0 <= cycles ->
  cert_strict (run_prog env0 (rep_code_prog D init anc cycles)) = true
  /\ cert_no_overlap (run_prog env0 (rep_code_prog D init anc cycles)) = true
  /\ plain_ok D init anc cycles.
Proof. intros H init anc. apply rep_code_certified. apply desc_check_spec. exact H. Qed.

(* ------------------------------------------------------------------ chains of distance 2 and 3, evaluated once by the VM *)
Lemma chain2_checked : forallb (fun rf => desc_check (desc_of_chain 2 rf)) [true; false] = true.
Proof. vm_cast_no_check (eq_refl true). Qed.
Lemma chain3_checked_rf : desc_check (desc_of_chain 3 true) = true.
Proof. vm_cast_no_check (eq_refl true). Qed.
Lemma chain3_checked_norf : desc_check (desc_of_chain 3 false) = true.
Proof. vm_cast_no_check (eq_refl true). Qed.

Lemma chain2_desc_check rf : desc_check (desc_of_chain 2 rf) = true.
Proof. pose proof chain2_checked as H. rewrite forallb_forall in H. apply H. destruct rf; simpl; auto. Qed.
Lemma chain3_desc_check rf : desc_check (desc_of_chain 3 rf) = true.
Proof. destruct rf; [exact chain3_checked_rf | exact chain3_checked_norf]. Qed.

(* the certificate itself, every cycle count (strict, hence also the exact one) *)
Theorem chain2_cert_all_cycles : forall rf init anc cycles, 0 <= cycles ->
  cert_strict (run_prog env0 (rep_code_prog (desc_of_chain 2 rf) init anc cycles)) = true
  /\ cert_no_overlap (run_prog env0 (rep_code_prog (desc_of_chain 2 rf) init anc cycles)) = true.
Proof. intros rf init anc cycles Hc. destruct (desc_check_all_cycles _ (chain2_desc_check rf) init anc cycles Hc) as (A & B & _). now split. Qed.

Theorem chain3_cert_all_cycles : forall rf init anc cycles, 0 <= cycles ->
  cert_strict (run_prog env0 (rep_code_prog (desc_of_chain 3 rf) init anc cycles)) = true
  /\ cert_no_overlap (run_prog env0 (rep_code_prog (desc_of_chain 3 rf) init anc cycles)) = true.
Proof. intros rf init anc cycles Hc. destruct (desc_check_all_cycles _ (chain3_desc_check rf) init anc cycles Hc) as (A & B & _). now split. Qed.

(* ... and what it certifies: every admissible duration setting *)
Theorem chain2_no_overlap_plain_all_cycles : forall rf init anc cycles, 0 <= cycles ->
  forall env, env_nonneg env -> env_parity env ->
    let ns := run_prog env (rep_code_prog (desc_of_chain 2 rf) init anc cycles) in
    no_overlap (o_ops (model_obs env ns)) = true /\ barrier_clear (o_ops (model_obs env ns)) = true
    /\ no_overlap_strict (o_ops (model_obs env ns)) = true.
Proof. intros rf init anc cycles Hc. exact (proj2 (proj2 (desc_check_all_cycles _ (chain2_desc_check rf) init anc cycles Hc))). Qed.

Theorem chain3_no_overlap_plain_all_cycles : forall rf init anc cycles, 0 <= cycles ->
  forall env, env_nonneg env -> env_parity env ->
    let ns := run_prog env (rep_code_prog (desc_of_chain 3 rf) init anc cycles) in
    no_overlap (o_ops (model_obs env ns)) = true /\ barrier_clear (o_ops (model_obs env ns)) = true
    /\ no_overlap_strict (o_ops (model_obs env ns)) = true.
Proof. intros rf init anc cycles Hc. exact (proj2 (proj2 (desc_check_all_cycles _ (chain3_desc_check rf) init anc cycles Hc))). Qed.

(* ------------------------------------------------------------------ non-vacuity *)
(* a cycle count far outside every evaluated list; an admissible setting with readout > microwave (a non-zero decoupling
   wait); the listing is not empty and contains barriers *)
Definition cc_env : denv := mk_env 16 4 8 32 [].
Example cc_example :
  env_nonneg cc_env /\ env_parity cc_env /\ wait_of cc_env = 6
  /\ let ns := run_prog cc_env (rep_code_prog (desc_of_chain 3 true) [true; false; true] [true; true] 1000000) in
     List.length (o_ops (model_obs cc_env ns)) = 115%nat
     /\ no_overlap (o_ops (model_obs cc_env ns)) = true /\ barrier_clear (o_ops (model_obs cc_env ns)) = true.
Proof.
  assert (N : env_nonneg cc_env) by (vm_compute; repeat split; discriminate).
  assert (P : env_parity cc_env) by reflexivity.
  split; [exact N|]. split; [exact P|]. split; [reflexivity|]. intros ns. split; [vm_compute; reflexivity|].
  destruct (chain3_no_overlap_plain_all_cycles true [true; false; true] [true; true] 1000000 ltac:(lia) cc_env N P) as (A & B & _).
  split; assumption.
Qed.

(* the reduction is not trivially true: erasing the counts changes the graph (the count of the second block is 999997) *)
Example cc_counts_differ :
  run_prog env0 (rep_code_prog (desc_of_chain 2 true) [] [] 1000000) <> run_prog env0 (rep_code_prog (desc_of_chain 2 true) [] [] 4)
  /\ erase_nodes (run_prog env0 (rep_code_prog (desc_of_chain 2 true) [] [] 1000000))
     = erase_nodes (run_prog env0 (rep_code_prog (desc_of_chain 2 true) [] [] 4)).
Proof.
  split.
  - intros E. apply (f_equal (nodes_eqb (run_prog env0 (rep_code_prog (desc_of_chain 2 true) [] [] 4)))) in E.
    vm_compute in E. discriminate.
  - rewrite !run_prog_erase, (rep_code_shape _ _ _ 1000000) by lia. reflexivity.
Qed.
