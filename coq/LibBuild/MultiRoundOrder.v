(* LIBBUILD -- flattening a block of the multi-round experiment keeps the heralded measurement of an ancilla in front of its
   other measurements: for EVERY description whose gates act on its qubits and EVERY round count.  With it the decidable side
   condition of MultiRoundProofs.multi_anc_tags reduces to "Core's flatten is defined on the block", i.e. the theorems hold
   wherever the model of the constructor (multi_round_nodes) gives an answer.

   Argument (depth in the flattened graph; the layered listing is sorted by depth):
     A  node j of the flattened graph is what add_to_graph makes of the j-th entry of the decomposed listing (flatten_nodes);
     B  the link an entry holds after the hand-off names entries below the same top-level node, or top-level nodes;
     C-E the decomposed listing of the unrolled circuit starts with the heralded-initialisation block, that block with the
        Reset of every qubit, and the heralded measurement of q holds FOLLOWED_BY (Reset q): in the flattened graph the Resets
        are roots and the heralded measurement of a has depth 1;
     F  every operation of the circuit acts on a qubit of the code (gates_ok), so nothing behind the Resets is a root;
     H  every other measurement of a shares the read-out channel of a: it is not a root, and its parent is either the last
        listed operation on that channel (at or behind the heralded measurement) or an entry of its own top-level block
        (behind the Resets) -- depth >= 2. *)
From Coq Require Import ZArith List Bool Lia Arith Permutation ZifyBool.
Import ListNotations.
From QCE Require Import Base.Prelude Core.Model Core.Run Core.BfsProofs Core.BfsWf Core.CopyOrder Core.CopyProofs Core.CopyIso
  Core.FlattenProofs Core.FlattenIdem Core.FlattenScope Core.UnrollProofs C02.Proofs C05.Proofs C06.Run C06.Proofs C09.Model C09.ProofsSem C10.Proofs C12.Model C13.Model C13.Proofs
  LibBuild.Model LibBuild.Order LibBuild.Tags LibBuild.Counts LibBuild.Chain LibBuild.Layouts LibBuild.Cert LibBuild.MultiRound LibBuild.MultiRoundProofs.
From Gen Require Import Ident Classes Kernels.
Open Scope Z_scope.
Local Opaque max_layers.

(* ================================================================== A. the nodes of a flattened graph, entry by entry *)
Definition node_of_entry (env : denv) (G : list gentry) (f : list node) (j : nat) (e : gentry) : Prop :=
  exists k, flat_link (pmap (map ge_path (firstn j G))) (ge_link e) = Some k
         /\ nth_error f j = Some (new_node env (firstn j f) (OLeaf (ge_leaf e)) k).

Lemma flat_fold_nodes env es : forall done new m new' m', flat_inv env done new m ->
  (forall j e, nth_error done j = Some e -> node_of_entry env done new j e) ->
  fold_left (flat_step env) es (Some (new, m)) = Some (new', m') ->
  forall j e, nth_error (done ++ es) j = Some e -> node_of_entry env (done ++ es) new' j e.
Proof.
  induction es as [|e0 es IH]; intros done new m new' m' Inv H F j e E; cbn [fold_left] in F.
  - inversion F; subst. rewrite app_nil_r in *. exact (H j e E).
  - rewrite flat_step_eq in F. destruct (flat_link m (ge_link e0)) as [k|] eqn:K; [|rewrite flat_fold_none in F; discriminate].
    replace (done ++ e0 :: es) with ((done ++ [e0]) ++ es) in * by (now rewrite <- app_assoc).
    pose proof (flat_inv_length _ _ _ _ Inv) as Ln.
    eapply (IH (done ++ [e0])); [apply flat_inv_step; eassumption | | exact F | exact E].
    intros j' e' E'. destruct (Nat.lt_ge_cases j' (length done)) as [Hj | Hj].
    + rewrite nth_error_app1 in E' by exact Hj. destruct (H j' e' E') as (k' & K' & N').
      exists k'. split.
      * rewrite firstn_app. replace (j' - length done)%nat with 0%nat by lia. cbn [firstn]. now rewrite app_nil_r.
      * rewrite add_node_eq, nth_error_app1 by lia. rewrite firstn_app. replace (j' - length new)%nat with 0%nat by lia.
        cbn [firstn]. rewrite app_nil_r. exact N'.
    + rewrite nth_error_app2 in E' by exact Hj. destruct (j' - length done)%nat as [|x] eqn:X; [|destruct x; discriminate].
      cbn in E'. injection E' as <-. assert (j' = length done) by lia. subst j'.
      exists k. split.
      * rewrite firstn_app, Nat.sub_diag, firstn_all. cbn [firstn]. rewrite app_nil_r.
        destruct Inv as (_ & Em & _). now rewrite <- Em.
      * rewrite add_node_eq, <- Ln, nth_error_app2, Nat.sub_diag by lia. cbn [nth_error].
        rewrite firstn_app, Nat.sub_diag, firstn_all. cbn [firstn]. now rewrite app_nil_r.
Qed.

Theorem flatten_nodes env ns f : flatten env ns = Some f ->
  forall j e, nth_error (glisting ns) j = Some e -> node_of_entry env (glisting ns) f j e.
Proof.
  rewrite flatten_eq. destruct (fold_left _ _ _) as [[f' m]|] eqn:E; simpl; intros H; inversion H; subst.
  apply (flat_fold_nodes env (glisting ns) [] [] [] f m (flat_inv_nil env)); [|exact E].
  intros j e Hj. destruct j; discriminate.
Qed.

(* ================================================================== B. what the link of a listed entry can name *)
Definition gl_targets (g : glink) : list path := match g with GRel _ t => [t] | GMulti ts => ts | _ => [] end.

Lemma glisting_op_targets o : forall P inh e, In e (glisting_op o P inh) ->
  ge_link e = inh \/ (forall t, In t (gl_targets (ge_link e)) -> exists s, t = P ++ s /\ s <> []).
Proof.
  induction o as [l | r ns IH] using op_ind'; intros P inh e H.
  - left. destruct H as [<- | []]. reflexivity.
  - rewrite glisting_op_unfold in H. apply in_flat_map in H as (i & _ & H).
    destruct (nth_error ns i) as [n|] eqn:En.
    + assert (Hi : (i < length ns)%nat) by (apply nth_error_Some; congruence).
      rewrite (nth_map_in (fun n => glisting_op (n_op n)) ns i _ n Hi), (nth_error_nth _ _ n En), (nth_link ns i n En) in H.
      rewrite Forall_forall in IH. destruct (IH n (nth_error_In _ _ En) _ _ _ H) as [E | T].
      * unfold eff_link in E. destruct (has_relation (n_link n)); [|left; exact E]. right. intros t Ht. rewrite E in Ht.
        destruct (n_link n) as [| ty p | qs | ty]; cbn in Ht; try contradiction.
        -- destruct Ht as [<- | []]. exists [p]. split; [reflexivity | discriminate].
        -- apply in_map_iff in Ht as (q & <- & _). exists [q]. split; [reflexivity | discriminate].
      * right. intros t Ht. destruct (T t Ht) as (s & -> & _). exists (i :: s). split; [now rewrite <- app_assoc | discriminate].
    + apply nth_error_None in En. rewrite (nth_overflow (map _ ns)) in H by (rewrite map_length; exact En). destruct H.
Qed.

(* ================================================================== C. a graph that starts with Reset and measurement of every qubit *)
Lemma split_nth (Q : list Z) i : (i < length Q)%nat -> exists Q1 q Q2, Q = Q1 ++ q :: Q2 /\ length Q1 = i /\ nth i Q 0 = q.
Proof.
  intros H. exists (firstn i Q), (nth i Q 0), (skipn (S i) Q). split; [|split; [apply firstn_length_le; lia | reflexivity]].
  rewrite <- (firstn_skipn i Q) at 1. f_equal. clear -H. revert i H. induction Q as [|x Q IH]; intros [|i] H; cbn in *; try lia; [reflexivity|].
  apply IH. lia.
Qed.

Lemma meas_after_resets env Q1 a Q2 t rest : NoDup (Q1 ++ a :: Q2) ->
  nth_error (run_cmds env ((reset_cmds (Q1 ++ a :: Q2) ++ map (meas t) Q1) ++ meas t a :: rest) [])
            (length (Q1 ++ a :: Q2) + length Q1)
  = Some (Node (Some (length Q1)) (LRel RelationType_FOLLOWED_BY (length Q1)) (OLeaf (lf_meas a t))).
Proof.
  intros N. set (Q := Q1 ++ a :: Q2) in *. set (c1 := reset_cmds Q ++ map (meas t) Q1).
  assert (Lx : (length Q + length Q1)%nat = length c1) by (unfold c1, reset_cmds; now rewrite app_length, !map_length).
  rewrite Lx, node_at. f_equal. cbn [cmd_op cmd_link meas add]. unfold new_node.
  set (P := run_cmds env c1 []).
  assert (WP : wf_parents (parents P)) by apply run_prog_wf.
  assert (RP : nth_error P (length Q1) = Some (Node None LNone (OLeaf (lf C_Reset [a])))) by exact (reset_root env Q1 a Q2 _ N).
  assert (Ec : nth_error c1 (length Q1) = Some (add (lf C_Reset [a]))).
  { unfold c1, reset_cmds, Q. rewrite map_app. cbn [map]. rewrite <- !app_assoc. cbn [app].
    rewrite nth_error_app2 by (rewrite map_length; lia). now rewrite map_length, Nat.sub_diag. }
  change (op_channels (OLeaf (lf_meas a t))) with [chan a QubitChannel_READOUT].
  destruct (leaf_at_any P [chan a QubitChannel_READOUT]) as [i|] eqn:EL.
  - destruct (leaf_at_any_some P _ i WP EL) as (Hi & Mi & _).
    apply bfs_lt_length in Hi. rewrite parents_length in Hi. unfold P in Hi. rewrite run_cmds_length in Hi. cbn [length Nat.add] in Hi.
    destruct (nth_error c1 i) as [c|] eqn:Eci; [|apply nth_error_None in Eci; lia].
    unfold P in Mi. rewrite (node_chans_cmds env c1 i c Eci) in Mi.
    assert (i = length Q1) as ->; [|reflexivity].
    unfold c1 in Eci. destruct (Nat.lt_ge_cases i (length (reset_cmds Q))) as [Hl | Hl].
    + rewrite nth_error_app1 in Eci by exact Hl. unfold reset_cmds in Eci, Hl. rewrite map_length in Hl.
      rewrite nth_error_map in Eci. destruct (nth_error Q i) as [q|] eqn:Eq; [|discriminate]. injection Eci as <-.
      rewrite reset_chans, any_match_single in Mi.
      destruct (Z.eq_dec q a) as [-> | Hne]; [|rewrite (nomatch_other q a _ _ Hne) in Mi; discriminate].
      apply (proj1 (NoDup_nth_error Q) N i (length Q1) Hl). rewrite Eq. unfold Q.
      rewrite nth_error_app2 by lia. now rewrite Nat.sub_diag.
    + rewrite nth_error_app2 in Eci by exact Hl. rewrite nth_error_map in Eci.
      destruct (nth_error Q1 (i - length (reset_cmds Q))) as [q|] eqn:Eq; [|discriminate]. injection Eci as <-.
      exfalso. rewrite meas_cmd_chans, any_match_single in Mi. destruct (Z.eq_dec q a) as [-> | Hne]; [|rewrite (nomatch_other q a _ _ Hne) in Mi; discriminate].
      apply nth_error_In in Eq. unfold Q in N. apply NoDup_remove_2 in N. apply N. apply in_or_app. now left.
  - exfalso. assert (L : In (length Q1) (bfs (parents P))).
    { apply root_listed; [exact WP|]. rewrite parents_nth_error, RP. reflexivity. }
    pose proof (leaf_at_any_none _ _ EL _ L) as M. unfold P in M. rewrite (node_chans_cmds env c1 _ _ Ec), reset_chans in M.
    rewrite any_match_single, match_all in M. discriminate.
Qed.

Section ResetMeas.
  Variable env : denv.
  Variables (Q : list Z) (t : Z) (tail : list cmd).
  Hypothesis N : NoDup Q.
  Hypothesis TT : Forall (touches env Q) tail.
  Let n := length Q.
  Let cmds := reset_cmds Q ++ map (meas t) Q ++ tail.
  Let g := run_cmds env cmds [].

  Lemma rm_length : length g = (n + n + length tail)%nat.
  Proof. unfold g, cmds, reset_cmds, n. rewrite run_cmds_length, !app_length, !map_length. cbn. lia. Qed.

  Lemma rm_reset i : (i < n)%nat -> nth_error g i = Some (Node None LNone (OLeaf (lf C_Reset [nth i Q 0]))).
  Proof.
    intros H. destruct (split_nth Q i H) as (Q1 & q & Q2 & E & L & Eq). rewrite Eq. unfold g, cmds. rewrite <- L.
    revert N. rewrite E. intros N'. exact (reset_root env Q1 q Q2 _ N').
  Qed.

  Lemma rm_meas k : (k < n)%nat ->
    nth_error g (n + k) = Some (Node (Some k) (LRel RelationType_FOLLOWED_BY k) (OLeaf (lf_meas (nth k Q 0) t))).
  Proof.
    intros H. destruct (split_nth Q k H) as (Q1 & q & Q2 & E & L & Eq). rewrite Eq. unfold g, cmds, n. rewrite <- L.
    revert N. rewrite E. intros N'.
    rewrite (map_app (meas t)). cbn [map]. rewrite <- !app_assoc. cbn [app].
    rewrite (app_assoc (reset_cmds (Q1 ++ q :: Q2))). exact (meas_after_resets env Q1 q Q2 t _ N').
  Qed.

  Lemma rm_not_root i nd : (n <= i)%nat -> nth_error g i = Some nd -> n_parent nd <> None.
  Proof.
    intros H E. destruct (Nat.lt_ge_cases i (n + n)) as [H2 | H2].
    - replace i with (n + (i - n))%nat in E by lia. rewrite rm_meas in E by lia. injection E as <-. discriminate.
    - assert (Hl : (i - (n + n) < length tail)%nat).
      { assert (i < length g)%nat by (apply nth_error_Some; congruence). rewrite rm_length in H0. lia. }
      destruct (nth_error tail (i - (n + n))) as [c|] eqn:Ec; [|apply nth_error_None in Ec; lia].
      apply nth_error_split in Ec as (t1 & t2 & Et & Lt).
      assert (Tc : touches env Q c). { rewrite Forall_forall in TT. apply TT. rewrite Et. apply in_or_app. right. now left. }
      destruct (touching_not_root env Q (map (meas t) Q ++ t1) c t2 N Tc) as (n' & En' & Hn').
      assert (Ecm : (reset_cmds Q ++ map (meas t) Q ++ t1) ++ c :: t2 = cmds) by (unfold cmds; rewrite Et, <- !app_assoc; reflexivity).
      rewrite Ecm in En'. fold g in En'.
      assert (Li : length (reset_cmds Q ++ map (meas t) Q ++ t1) = i) by (unfold reset_cmds; rewrite !app_length, !map_length; fold n; lia).
      rewrite Li in En'. rewrite E in En'. injection En' as <-. exact Hn'.
  Qed.

  Lemma rm_W : wf_parents (parents g).
  Proof. apply run_prog_wf. Qed.

  Lemma rm_roots : children (parents g) None = seq 0 n.
  Proof.
    apply FlattenIdem.sorted_ext; [apply children_sorted | apply FlattenIdem.seq_sorted |].
    intros i. rewrite children_spec, in_seq, parents_nth_error. split.
    - intros H. destruct (nth_error g i) as [nd|] eqn:E; [|discriminate]. cbn in H. injection H as H.
      destruct (Nat.lt_ge_cases i n) as [L | L]; [lia|]. exfalso. exact (rm_not_root i nd L E H).
    - intros [_ H]. now rewrite rm_reset by exact H.
  Qed.

  (* the listing starts with the Resets, in order *)
  Lemma rm_bfs : exists rest, bfs (parents g) = seq 0 n ++ rest /\ (forall i, In i rest -> (n <= i)%nat).
  Proof.
    unfold bfs. pose proof max_layers_pos as MP. destruct max_layers as [|m]; [lia|].
    rewrite bfs_fuel_levels. cbn [seq map concat level]. rewrite rm_roots. eexists. split; [reflexivity|].
    intros i Hi. destruct (Nat.lt_ge_cases i n) as [L | L]; [exfalso | exact L].
    apply in_concat in Hi as (lv & Hlv & Hi). apply in_map_iff in Hlv as (k & <- & Hk). apply in_seq in Hk.
    apply (level_spec _ rm_W) in Hi as [_ Dk].
    rewrite depth_root in Dk by (rewrite parents_nth_error, rm_reset by exact L; reflexivity). lia.
  Qed.
End ResetMeas.

(* ================================================================== D. the heralded-initialisation block of construct_repetition_code_circuit *)
Lemma unroll_small_sized c : unroll_small_cmd c -> sized_cmd c.
Proof.
  induction c as [l r | l t | r body IH] using cmd_ind'; intros S; [constructor | constructor |].
  inversion S as [| | ? ? Hr SL SB]; subst. constructor; [nia|]. rewrite Forall_forall in *. intros c Hc. apply IH; auto.
Qed.

Lemma unroll_small_body r body : unroll_small_cmd (CSub r body) -> sized_prog body.
Proof.
  intros S. inversion S as [| | ? ? Hr SL SB]; subst. split; [nia|]. rewrite Forall_forall in *. intros c Hc.
  apply unroll_small_sized. auto.
Qed.

Lemma first_node env c cs : nth_error (run_cmds env (c :: cs) []) 0 = Some (new_node env [] (cmd_op env c) (cmd_link c)).
Proof. exact (node_at env [] c cs). Qed.

Lemma new_node_empty env o l : match l with LNone | LDangling _ => True | LRel _ _ => True | LMulti _ => True end ->
  new_node env [] o LNone = Node None LNone o.
Proof. intros _. unfold new_node, leaf_at_any. cbn [parents map]. rewrite bfs_nil. reflexivity. Qed.

Lemma barrier_listed_first env D rest : In (barrier_leaf D) (op_leaves (OComp 1 (run_prog env (barrier D :: rest)))).
Proof.
  rewrite op_leaves_comp. apply in_flat_map. exists 0%nat.
  pose proof (first_node env (barrier D) rest) as E. cbn [cmd_op cmd_link barrier add] in E.
  rewrite (new_node_empty env _ LNone I) in E. split.
  - apply root_listed; [apply run_prog_wf|]. unfold run_prog. rewrite parents_nth_error, E. reflexivity.
  - unfold at_node, run_prog. rewrite E. now left.
Qed.

Section InitBlock.
  Variable env : denv.
  Variables (D : rdesc) (init anc : list bool).
  Let Q := r_qubits D.
  Let n := length Q.
  Hypothesis N : NoDup Q.
  Hypothesis NE : Q <> [].
  Let body := circuit_initialize_with_heralded D init anc.
  Hypothesis SB : unroll_small_cmd (CSub 1 body).
  Let g0 := run_cmds env body [].
  Let S0 := copy_nodes env g0.

  Lemma ib_body : body = reset_cmds Q ++ map (meas T_HERALDED) Q ++ [CSub 1 (circuit_initialize D init anc)].
  Proof. reflexivity. Qed.

  Lemma ib_sized : sized_prog body.
  Proof. exact (unroll_small_body 1 body SB). Qed.

  Lemma ib_touch : Forall (touches env Q) [CSub 1 (circuit_initialize D init anc)].
  Proof.
    constructor; [|constructor]. destruct Q as [|q0 Q'] eqn:EQ; [congruence|]. exists q0, QubitChannel_ALL. split; [now left|].
    assert (Sz : sized_prog (circuit_initialize D init anc)).
    { destruct ib_sized as [_ F]. rewrite Forall_forall in F. specialize (F (CSub 1 (circuit_initialize D init anc))).
      assert (In (CSub 1 (circuit_initialize D init anc)) body) as Hin by (rewrite ib_body; apply in_or_app; right; apply in_or_app; right; now left).
      specialize (F Hin). inversion F; subst. split; assumption. }
    cbn [cmd_op]. apply (leaf_chan_in_op _ (barrier_leaf D)).
    - rewrite <- (listing_leaves env). change (run_cmds env (circuit_initialize D init anc) []) with (run_prog env (circuit_initialize D init anc)).
      rewrite (copy_same_listing env _ (run_prog_cwf env 1 _ Sz)), listing_leaves. apply barrier_listed_first.
    - apply barrier_chans. fold Q. rewrite EQ. now left.
  Qed.

  Lemma ib_cwf : cwf (OComp 1 g0).
  Proof. exact (run_prog_cwf env 1 body ib_sized). Qed.

  Lemma ib_len : length g0 = (n + n + 1)%nat.
  Proof. unfold g0. rewrite ib_body. exact (rm_length env Q T_HERALDED _). Qed.

  (* sigma, the listing position of g0's nodes: the Resets stay where they are *)
  Let sigma := sigma_of g0.

  Lemma ib_sigma_low i : (i < n)%nat -> sigma i = i.
  Proof.
    intros H. unfold sigma, sigma_of, g0. rewrite ib_body.
    destruct (rm_bfs env Q T_HERALDED _ N ib_touch) as (rest & -> & _).
    rewrite pos_app_in by (apply in_seq; fold n; lia). apply pos_seq. exact H.
  Qed.

  Lemma ib_sigma_high i : (n <= i < n + n + 1)%nat -> (n <= sigma i < n + n + 1)%nat.
  Proof.
    intros H. unfold sigma, sigma_of. split.
    - unfold g0. rewrite ib_body. destruct (rm_bfs env Q T_HERALDED _ N ib_touch) as (rest & -> & _).
      rewrite pos_app_notin by (rewrite in_seq; fold n; lia). rewrite seq_length. fold n. lia.
    - destruct (copy_iso env 1 g0 ib_cwf) as (P & _). rewrite <- ib_len, <- (seq_length (length g0) 0), <- (Permutation_length P).
      apply pos_lt. apply (Permutation_in _ (Permutation_sym P)). apply in_seq. rewrite ib_len. lia.
  Qed.

  Lemma ib_S0_reset i : (i < n)%nat -> nth_error S0 i = Some (Node None LNone (OLeaf (lf C_Reset [nth i Q 0]))).
  Proof.
    intros H. destruct (copy_iso env 1 g0 ib_cwf) as (_ & _ & E & _).
    assert (G : nth_error g0 i = Some (Node None LNone (OLeaf (lf C_Reset [nth i Q 0])))).
    { unfold g0. rewrite ib_body. exact (rm_reset env Q T_HERALDED _ N i H). }
    specialize (E i _ G). fold sigma in E. rewrite ib_sigma_low in E by exact H. cbn [option_map link_map copy_op n_parent n_link n_op] in E. rewrite copy_leaf_id in E. exact E.
  Qed.

  Lemma ib_S0_meas k : (k < n)%nat ->
    nth_error S0 (sigma (n + k)) = Some (Node (Some k) (LRel RelationType_FOLLOWED_BY k) (OLeaf (lf_meas (nth k Q 0) T_HERALDED))).
  Proof.
    intros H. destruct (copy_iso env 1 g0 ib_cwf) as (_ & _ & E & _).
    assert (G : nth_error g0 (n + k) = Some (Node (Some k) (LRel RelationType_FOLLOWED_BY k) (OLeaf (lf_meas (nth k Q 0) T_HERALDED)))).
    { unfold g0. rewrite ib_body. exact (rm_meas env Q T_HERALDED _ N k H). }
    specialize (E _ _ G). fold sigma in E. cbn [option_map link_map copy_op n_parent n_link n_op] in E. rewrite (ib_sigma_low k H), copy_leaf_id in E. exact E.
  Qed.

  Lemma ib_S0_bfs : bfs (parents S0) = seq 0 (n + n + 1).
  Proof. destruct (copy_iso env 1 g0 ib_cwf) as (_ & _ & _ & E). rewrite <- ib_len. exact E. Qed.
End InitBlock.

(* ================================================================== E. the decomposed listing of the unrolled block *)
Lemma unroll_node_link env fuel nd : n_link (unroll_node env fuel nd) = n_link nd.
Proof. destruct nd as [p l [lf | r sub]]; reflexivity. Qed.

Lemma amf_one_map fuel env ns : exists g, apply_mods_fuel fuel env 1 ns = map g ns
  /\ (forall nd, n_parent (g nd) = n_parent nd /\ n_link (g nd) = n_link nd) /\ (forall p l lf, g (Node p l (OLeaf lf)) = Node p l (OLeaf lf)).
Proof.
  destruct fuel as [|f].
  - exists (fun nd => nd). cbn. rewrite map_id. repeat split.
  - exists (unroll_node env f). rewrite apply_mods_fuel_S, repeat_nodes_1. split; [reflexivity|]. split; [|reflexivity].
    intros nd. split; [apply unroll_node_parent | apply unroll_node_link].
Qed.

Lemma flat_map_singletons {A B} (F : A -> list B) (h : A -> B) l : (forall x, In x l -> F x = [h x]) -> flat_map F l = map h l.
Proof. induction l as [|x l IH]; intros H; [reflexivity|]. cbn. rewrite H by now left. cbn. f_equal. apply IH. intros y Hy. apply H. now right. Qed.

Section Sublisting.
  (* the sub-listing of a graph ns' = map g ns (g keeps parents, links and leaves) at path P *)
  Variables (ns : list node) (g : node -> node) (P : path) (inh : glink).
  Hypothesis Gpl : forall nd, n_parent (g nd) = n_parent nd /\ n_link (g nd) = n_link nd.
  Hypothesis Gleaf : forall p l lf, g (Node p l (OLeaf lf)) = Node p l (OLeaf lf).
  Let ns' := map g ns.
  Let ENT (i : nat) := nth i (map (fun n => glisting_op (n_op n)) ns') (fun _ _ => []) (P ++ [i]) (eff_link P (nth i (map n_link ns') LNone) inh).

  Lemma sl_unfold r : glisting_op (OComp r ns') P inh = flat_map ENT (bfs (parents ns)).
  Proof.
    rewrite glisting_op_unfold. f_equal. f_equal. unfold ns', parents. rewrite map_map. apply map_ext. intros nd. apply Gpl.
  Qed.

  Lemma sl_leaf i p l lf : nth_error ns i = Some (Node p l (OLeaf lf)) -> ENT i = [(P ++ [i], lf, eff_link P l inh)].
  Proof.
    intros E. assert (E' : nth_error ns' i = Some (Node p l (OLeaf lf))) by (unfold ns'; rewrite nth_error_map, E; cbn [option_map]; now rewrite Gleaf).
    assert (Hi : (i < length ns')%nat) by (apply nth_error_Some; congruence).
    unfold ENT. rewrite (nth_map_in (fun n => glisting_op (n_op n)) ns' i _ (Node p l (OLeaf lf)) Hi), (nth_error_nth _ _ _ E'), (nth_link ns' i _ E'). reflexivity.
  Qed.
End Sublisting.

Lemma nth_error_seq0 n i : (i < n)%nat -> nth_error (seq 0 n) i = Some i.
Proof. intros H. rewrite (nth_error_nth' (seq 0 n) 0%nat) by (now rewrite seq_length). now rewrite seq_nth. Qed.

Lemma init_sublisting env D init anc fuel :
  NoDup (r_qubits D) -> r_qubits D <> [] -> unroll_small_cmd (CSub 1 (circuit_initialize_with_heralded D init anc)) ->
  let Q := r_qubits D in let n := length Q in
  let S0 := copy_nodes env (run_cmds env (circuit_initialize_with_heralded D init anc) []) in
  let E0 := glisting_op (OComp 1 (apply_mods_fuel fuel env 1 S0)) [0%nat] GNone in
  (forall i, (i < n)%nat -> nth_error E0 i = Some ([0%nat; i], lf C_Reset [nth i Q 0], GNone))
  /\ (forall k, (k < n)%nat -> exists j iM, (n <= j)%nat
        /\ nth_error E0 j = Some ([0%nat; iM], lf_meas (nth k Q 0) T_HERALDED, GRel RelationType_FOLLOWED_BY [0%nat; k])).
Proof.
  intros N NE SB Q n S0 E0. destruct (amf_one_map fuel env S0) as (g & Eg & Gpl & Gleaf).
  set (ENT := fun i : nat => nth i (map (fun nd => glisting_op (n_op nd)) (map g S0)) (fun _ _ => []) ([0%nat] ++ [i])
                                 (eff_link [0%nat] (nth i (map n_link (map g S0)) LNone) GNone)).
  assert (EE : E0 = flat_map ENT (seq 0 n) ++ flat_map ENT (seq n (n + 1))).
  { unfold E0. rewrite Eg, (sl_unfold S0 g [0%nat] GNone Gpl 1). unfold S0. rewrite (ib_S0_bfs env D init anc SB).
    fold Q. fold n. replace (n + n + 1)%nat with (n + (n + 1))%nat by lia. rewrite seq_app, flat_map_app. reflexivity. }
  assert (ER : flat_map ENT (seq 0 n) = map (fun i => ([0%nat; i], lf C_Reset [nth i Q 0], GNone)) (seq 0 n)).
  { apply flat_map_singletons. intros i Hi. apply in_seq in Hi. unfold ENT.
    rewrite (sl_leaf S0 g [0%nat] GNone Gleaf i None LNone _ (ib_S0_reset env D init anc N NE SB i (proj2 Hi))). reflexivity. }
  split.
  - intros i Hi. rewrite EE, ER, nth_error_app1 by (now rewrite map_length, seq_length).
    now rewrite (map_nth_error _ _ _ (nth_error_seq0 n i Hi)).
  - intros k Hk. pose proof (ib_sigma_high env D init anc N NE SB (n + k)) as HS. fold Q in HS. fold n in HS.
    specialize (HS ltac:(lia)). set (iM := sigma_of (run_cmds env (circuit_initialize_with_heralded D init anc) []) (n + k)) in *.
    pose proof (ib_S0_meas env D init anc N NE SB k Hk) as EM. fold Q in EM. fold n in EM. fold iM in EM. fold S0 in EM.
    assert (Es : seq n (n + 1) = seq n (iM - n) ++ iM :: seq (S iM) (n + n - iM)).
    { replace (n + 1)%nat with ((iM - n) + S (n + n - iM))%nat by lia. rewrite seq_app. cbn [seq]. replace (n + (iM - n))%nat with iM by lia. reflexivity. }
    exists (n + length (flat_map ENT (seq n (iM - n))))%nat, iM. split; [lia|].
    rewrite EE, Es, flat_map_app. cbn [flat_map].
    rewrite nth_error_app2 by (rewrite ER, map_length, seq_length; lia). rewrite ER, map_length, seq_length.
    replace (n + length (flat_map ENT (seq n (iM - n))) - n)%nat with (length (flat_map ENT (seq n (iM - n)))) by lia.
    rewrite nth_error_app2, Nat.sub_diag by lia. unfold ENT at 1.
    rewrite (sl_leaf S0 g [0%nat] GNone Gleaf iM _ _ _ EM). reflexivity.
Qed.

Definition init_sub (env : denv) (D : rdesc) (init anc : list bool) : list node :=
  copy_nodes env (run_cmds env (circuit_initialize_with_heralded D init anc) []).

Lemma block_glisting env D init anc r : unroll_small_prog (rep_code_prog D init anc r) ->
  exists fuel E1,
    let E0 := glisting_op (OComp 1 (apply_mods_fuel fuel env 1 (init_sub env D init anc))) [0%nat] GNone in
    glisting (block_graph env D init anc r) = E0 ++ E1
    /\ (forall e, In e E1 -> forall t x, In t (gl_targets (ge_link e)) -> t <> [0%nat; x])
    /\ Permutation (map ge_leaf E0) (cmd_expanded (first_cmd D init anc)).
Proof.
  intros S. set (p := rep_code_prog D init anc r) in *. set (ns0 := run_prog env p).
  set (fuel := list_max (map op_depth (map n_op ns0))).
  assert (Eun : block_graph env D init anc r = map (unroll_node env fuel) ns0) by (unfold block_graph; apply unroll_top).
  set (un := map (unroll_node env fuel) ns0) in *.
  assert (W0 : wf_parents (parents ns0)) by apply run_prog_wf.
  assert (Epar : parents un = parents ns0).
  { unfold un, parents. rewrite map_map. apply map_ext. apply unroll_node_parent. }
  assert (E0n : nth_error ns0 0 = Some (Node None LNone (OComp 1 (init_sub env D init anc)))).
  { unfold ns0, run_prog, p. rewrite rep_code_prog_split, first_node. cbn [first_cmd cmd_link]. rewrite (new_node_empty env _ LNone I). reflexivity. }
  assert (Eu0 : nth_error un 0 = Some (Node None LNone (OComp 1 (apply_mods_fuel fuel env 1 (init_sub env D init anc))))).
  { unfold un. rewrite nth_error_map, E0n. reflexivity. }
  destruct (bfs_head (parents ns0) W0) as (tl & Etl).
  { intros E. assert (L0 : length (parents ns0) = 0%nat) by (rewrite E; reflexivity). rewrite parents_length in L0.
    assert ((0 < length ns0)%nat) by (apply nth_error_Some; congruence). lia. }
  pose proof (bfs_NoDup _ W0) as ND. rewrite Etl in ND. inversion ND as [|? ? N0 _]; subst.
  set (ENT := fun i : nat => nth i (map (fun nd => glisting_op (n_op nd)) un) (fun _ _ => []) ([] ++ [i])
                                 (eff_link [] (nth i (map n_link un) LNone) GNone)).
  exists fuel, (flat_map ENT tl). cbv zeta. split; [|split].
  - rewrite Eun. unfold glisting. rewrite glisting_op_unfold, Epar, Etl. cbn [flat_map]. f_equal.
    assert (Hi : (0 < length un)%nat) by (apply nth_error_Some; congruence).
    rewrite (nth_map_in (fun nd => glisting_op (n_op nd)) un 0 _ (Node None LNone (OLeaf dleaf)) Hi), (nth_error_nth _ _ _ Eu0), (nth_link un 0 _ Eu0).
    reflexivity.
  - intros e He t x Ht. apply in_flat_map in He as (i & Hi & He).
    assert (Hi0 : i <> 0%nat) by (intros ->; contradiction).
    destruct (nth_error un i) as [nd|] eqn:En.
    + assert (Hl : (i < length un)%nat) by (apply nth_error_Some; congruence).
      unfold ENT in He. rewrite (nth_map_in (fun nd => glisting_op (n_op nd)) un i _ nd Hl), (nth_error_nth _ _ _ En), (nth_link un i _ En) in He.
      destruct (glisting_op_targets _ _ _ _ He) as [E | T].
      * rewrite E in Ht. unfold eff_link in Ht. destruct (has_relation (n_link nd)); [|destruct Ht].
        destruct (n_link nd) as [| ty q | qs | ty]; cbn in Ht; try contradiction.
        -- destruct Ht as [<- | []]. discriminate.
        -- apply in_map_iff in Ht as (q & <- & _). discriminate.
      * destruct (T t Ht) as (s & -> & _). cbn. intros E. injection E as E _. contradiction.
    + apply nth_error_None in En. unfold ENT in He. rewrite (nth_overflow (map _ un)) in He by (rewrite map_length; exact En). destruct He.
  - rewrite (glisting_op_leaves env _ _ _ None (0, 0)), listing_op_leaves.
    change (OComp 1 (apply_mods_fuel fuel env 1 (init_sub env D init anc))) with (unroll_op env fuel (cmd_op env (first_cmd D init anc))).
    apply unrolled_cmd_perm.
    + destruct S as [_ F]. unfold p in F. rewrite rep_code_prog_split in F. inversion F; assumption.
    + unfold fuel. apply list_max_In_le. unfold ns0, run_prog. rewrite run_cmds_ops. cbn [map app]. apply in_map.
      unfold p. rewrite rep_code_prog_split. now left.
Qed.

(* ================================================================== F. the leaves construct_repetition_code_circuit is made of *)
Definition single_classes : list Z :=
  [C_Reset; C_Rx180; C_Identity; C_Ry90; C_Rym90; C_DetectorOperation; C_LogicalObservableOperation; C_VirtualPark].
Definition pair_classes : list Z := [C_CPhase; C_TwoQubitVirtualPhase].
Definition all_classes : list Z := [C_Barrier; C_CoordinateShiftOperation].

Inductive rc_leaf (D : rdesc) : leaf -> Prop :=
| rl_single cls q : In cls single_classes -> In q (r_qubits D) -> rc_leaf D (lf cls [q])
| rl_meas q t : In q (r_qubits D) -> rc_leaf D (lf_meas q t)
| rl_wait q : In q (r_qubits D) -> rc_leaf D (lf_wait q)
| rl_all cls : In cls all_classes -> rc_leaf D (lf cls (r_qubits D))
| rl_pair cls q1 q2 : In cls pair_classes -> In q1 (r_qubits D) \/ In q2 (r_qubits D) -> rc_leaf D (lf cls [q1; q2]).

(* the gates and parks of the description act on the code's qubits (for a gate: at least one end) *)
Definition gates_ok (D : rdesc) : Prop :=
  Forall (fun gp => Forall (fun g => In (fst g) (r_qubits D) \/ In (snd g) (r_qubits D)) (fst gp)
                    /\ Forall (fun q => In q (r_qubits D)) (snd gp))
         (combine (r_gates D) (r_parks D)).

Definition pall (P : leaf -> Prop) (p : list cmd) : Prop := Forall P (prog_expanded p).

Lemma pall_nil (P : leaf -> Prop) : pall P [].
Proof. constructor. Qed.
Lemma pall_app (P : leaf -> Prop) p1 p2 : pall P p1 -> pall P p2 -> pall P (p1 ++ p2).
Proof. unfold pall, prog_expanded. rewrite flat_map_app. intros. now apply Forall_app. Qed.
Lemma pall_cons (P : leaf -> Prop) c p : pall P [c] -> pall P p -> pall P (c :: p).
Proof. apply (pall_app P [c] p). Qed.
Lemma pall_add (P : leaf -> Prop) l r : P l -> pall P [CAdd l r].
Proof. intros H. unfold pall, prog_expanded. cbn. now constructor. Qed.
Lemma Forall_rep_app {A} (P : A -> Prop) n l : Forall P l -> Forall P (rep_app n l).
Proof. intros H. induction n as [|n IH]; [constructor|]. cbn. now apply Forall_app. Qed.
Lemma pall_sub (P : leaf -> Prop) r body : pall P body -> pall P [CSub r body].
Proof. intros H. unfold pall, prog_expanded. cbn [flat_map]. rewrite app_nil_r, cmd_expanded_sub. now apply Forall_rep_app. Qed.
Lemma pall_map {X} (P : leaf -> Prop) (g : X -> cmd) xs : (forall x, In x xs -> pall P [g x]) -> pall P (map g xs).
Proof. induction xs as [|x xs IH]; intros H; [apply pall_nil|]. cbn [map]. apply pall_cons; [apply H; now left | apply IH; intros y Hy; apply H; now right]. Qed.
Lemma pall_flat_map {X} (P : leaf -> Prop) (g : X -> list cmd) xs : (forall x, In x xs -> pall P (g x)) -> pall P (flat_map g xs).
Proof. induction xs as [|x xs IH]; intros H; [apply pall_nil|]. cbn [flat_map]. apply pall_app; [apply H; now left | apply IH; intros y Hy; apply H; now right]. Qed.

Section RcLeaves.
  Variable D : rdesc.
  Hypothesis K : desc_ok D.
  Hypothesis GO : gates_ok D.
  Let Q := r_qubits D.
  Let P := rc_leaf D.

  Lemma rc_anc q : In q (r_anc D) -> In q Q.
  Proof. destruct K as (_ & _ & _ & I & _). apply I. Qed.
  Lemma rc_data q : In q (r_data D) -> In q Q.
  Proof. destruct K as (_ & _ & _ & _ & I & _). apply I. Qed.

  Lemma rc_single cls xs r : In cls single_classes -> incl xs Q -> pall P (map (fun q => CAdd (lf cls [q]) r) xs).
  Proof. intros Hc I. apply pall_map. intros q Hq. apply pall_add. constructor; [exact Hc | apply I; exact Hq]. Qed.

  Lemma rc_barrier : pall P [barrier D].
  Proof. apply pall_add. apply rl_all. simpl; auto. Qed.
  Lemma rc_barrier_if b : pall P (barrier_if D b).
  Proof. destruct b; [apply rc_barrier | apply pall_nil]. Qed.

  Lemma rc_meas t xs : incl xs Q -> pall P (map (meas t) xs).
  Proof. intros I. apply pall_map. intros q Hq. apply pall_add. constructor. apply I. exact Hq. Qed.

  Lemma rc_active gates : incl (active (r_anc D) gates) Q.
  Proof.
    intros q Hq. unfold active in Hq. apply in_flat_map in Hq as (e & _ & Hq). apply filter_In in Hq as [_ Hq].
    apply rc_anc. unfold zmem in Hq. apply existsb_exists in Hq as (x & Hx & E). apply Z.eqb_eq in E. now subst.
  Qed.

  Lemma rc_layers : forall ls cur,
    Forall (fun gp => Forall (fun g => In (fst g) Q \/ In (snd g) Q) (fst gp) /\ Forall (fun q => In q Q) (snd gp)) ls ->
    pall P (layers_cmds D cur ls).
  Proof.
    induction ls as [|[gates parks] rest IH]; intros cur F; [apply pall_nil|]. inversion F as [|? ? [Fg Fp] Fr]; subst. cbn [fst snd] in *.
    cbn [layers_cmds].
    assert (Hf : forall (f : Z -> bool) l, incl l Q -> incl (filter f l) Q) by (intros f l I q Hq; apply filter_In in Hq as [Hq _]; now apply I).
    repeat apply pall_app; try apply rc_barrier_if.
    - apply (rc_single C_Ry90 _ None); [simpl; auto 10 | apply Hf, rc_active].
    - apply pall_map. intros e He. apply pall_add. apply rl_pair; [simpl; auto|]. rewrite Forall_forall in Fg. exact (Fg e He).
    - apply (rc_single C_VirtualPark _ None); [simpl; auto 10|]. intros q Hq. rewrite Forall_forall in Fp. exact (Fp q Hq).
    - apply pall_map. intros e He. apply pall_add. apply rl_pair; [simpl; auto|]. rewrite Forall_forall in Fg. exact (Fg e He).
    - apply (rc_single C_Rym90 _ None); [simpl; auto 10|]. destruct rest as [|[g' p'] rest']; [apply rc_active | apply Hf, rc_active].
    - apply IH. exact Fr.
  Qed.

  Lemma rc_refocus : pall P (refocus_cmds D).
  Proof.
    unfold refocus_cmds. destruct (r_refocus D); [|apply pall_nil]. apply pall_flat_map. intros q Hq.
    apply pall_cons; [apply pall_add; apply rl_wait; now apply rc_data|].
    apply pall_cons; [apply pall_add; constructor; [simpl; auto | now apply rc_data]|].
    apply pall_add. apply rl_wait. now apply rc_data.
  Qed.

  Lemma rc_round dd : pall P (circuit_qec_round D dd).
  Proof.
    unfold circuit_qec_round. repeat apply pall_app.
    - apply rc_layers. exact GO.
    - apply rc_barrier.
    - apply rc_meas. intros q. apply rc_anc.
    - destruct dd; [apply pall_app; [apply rc_refocus | apply rc_barrier] | apply pall_nil].
  Qed.

  Lemma rc_detectors : pall P (detectors D).
  Proof. apply (rc_single C_DetectorOperation _ None); [simpl; auto 10 | intros q; apply rc_anc]. Qed.
  Lemma rc_observables : pall P (observables D).
  Proof. apply (rc_single C_LogicalObservableOperation _ None); [simpl; auto 10 | intros q; apply rc_data]. Qed.
  Lemma rc_coord : pall P [coord_shift D].
  Proof. apply pall_add. apply rl_all. simpl; auto. Qed.

  Lemma rc_subs : pall P (first_sub D) /\ pall P (second_sub D) /\ pall P (third_sub D).
  Proof.
    unfold first_sub, second_sub, third_sub. repeat split; repeat apply pall_app;
      try (apply pall_sub; apply rc_round); try apply rc_detectors; try apply rc_coord.
    apply pall_cons; [apply rc_coord | apply rc_barrier].
  Qed.

  Lemma rc_qec cycles : pall P (circuit_qec_with_detectors D cycles).
  Proof.
    destruct rc_subs as (S1 & S2 & S3). unfold circuit_qec_with_detectors. destruct (cycles =? 0).
    - apply rc_meas. intros q. apply rc_anc.
    - repeat apply pall_app.
      + destruct (cycles >? 1); [apply pall_sub; exact S1 | apply pall_nil].
      + destruct (cycles >? 3); [apply pall_sub; exact S2 | apply pall_nil].
      + apply pall_sub. exact S3.
  Qed.

  Lemma rc_prep l : incl (map fst l) Q -> pall P (map prep l).
  Proof.
    intros I. apply pall_map. intros [q b] Hqb. apply pall_add. cbn [fst snd]. constructor.
    - destruct b; simpl; auto.
    - apply I. apply in_map_iff. exists (q, b). split; [reflexivity | exact Hqb].
  Qed.

  Lemma rc_combine_fst {X} (l : list Z) (l' : list X) : incl (map fst (combine l l')) l.
  Proof. intros q Hq. apply in_map_iff in Hq as ([q' x] & <- & H). exact (in_combine_l _ _ _ _ H). Qed.

  Lemma rc_init init anc : pall P (circuit_initialize_with_heralded D init anc).
  Proof.
    unfold circuit_initialize_with_heralded. repeat apply pall_app.
    - apply (rc_single C_Reset _ None); [simpl; auto | apply incl_refl].
    - apply rc_meas. apply incl_refl.
    - apply pall_sub. unfold circuit_initialize, init_ops. repeat apply pall_app; try apply rc_barrier.
      + apply rc_prep. intros q Hq. apply rc_data. exact (rc_combine_fst _ _ q Hq).
      + apply rc_prep. intros q Hq. apply rc_anc. exact (rc_combine_fst _ _ q Hq).
  Qed.

  Theorem rc_prog init anc cycles : Forall (rc_leaf D) (prog_expanded (rep_code_prog D init anc cycles)).
  Proof.
    change (pall P (rep_code_prog D init anc cycles)). unfold rep_code_prog.
    apply pall_app; [|apply pall_app; [apply rc_detectors | apply rc_observables]].
    apply pall_cons; [apply pall_sub, rc_init|]. apply pall_cons; [apply pall_sub, rc_qec|].
    apply pall_sub. unfold circuit_final_measurement. apply rc_meas. intros q. apply rc_data.
  Qed.
End RcLeaves.

(* consequences for one leaf *)
Lemma rc_leaf_acq D l q : rc_leaf D l -> is_meas_of q l = true -> exists t, l = lf_meas q t.
Proof.
  intros H M. destruct H as [cls q' _ _ | q' t _ | q' _ | cls _ | cls q1 q2 _ _]; try discriminate.
  unfold is_meas_of in M. cbn in M. apply Z.eqb_eq in M. subst. now exists t.
Qed.

Lemma rc_leaf_touches D l : r_qubits D <> [] -> rc_leaf D l -> exists q c, In q (r_qubits D) /\ In (chan q c) (l_chans l).
Proof.
  intros NE H. destruct H as [cls q Hc Hq | q t Hq | q Hq | cls Hc | cls q1 q2 Hc Hq].
  - exists q. unfold single_classes in Hc. cbn [In] in Hc.
    destruct Hc as [<- | [<- | [<- | [<- | [<- | [<- | [<- | [<- | []]]]]]]]]; eexists; (split; [exact Hq | now left]).
  - exists q, QubitChannel_READOUT. split; [exact Hq | now left].
  - exists q, QubitChannel_ALL. split; [exact Hq | now left].
  - destruct (r_qubits D) as [|q0 Q'] eqn:EQ; [congruence|]. exists q0, QubitChannel_ALL. split; [now left|].
    destruct Hc as [<- | [<- | []]]; now left.
  - destruct Hc as [<- | [<- | []]]; destruct Hq as [Hq | Hq].
    + exists q1, QubitChannel_FLUX. split; [exact Hq | now left].
    + exists q2, QubitChannel_FLUX. split; [exact Hq | right; right; left; reflexivity].
    + exists q1, QubitChannel_MICROWAVE. split; [exact Hq | now left].
    + exists q2, QubitChannel_MICROWAVE. split; [exact Hq | right; left; reflexivity].
Qed.

(* ================================================================== G. helpers for the final argument *)
Lemma nth_error_firstn_lt {A} (l : list A) k i : (i < k)%nat -> nth_error (firstn k l) i = nth_error l i.
Proof.
  revert k i. induction l as [|x l IH]; intros [|k] [|i] H; cbn; try reflexivity; try lia. apply IH. lia.
Qed.

Lemma node_chans_nth ns k nd : nth_error ns k = Some nd -> node_chans ns k = op_channels (n_op nd).
Proof. intros E. unfold node_chans. exact (nth_error_nth _ _ [] (map_nth_error (fun n => op_channels (n_op n)) _ _ E)). Qed.

Lemma new_node_no_match env ns o :
  (forall k nd, nth_error ns k = Some nd -> any_match (op_channels o) (op_channels (n_op nd)) = false) ->
  new_node env ns o LNone = Node None LNone o.
Proof.
  intros F. unfold new_node. rewrite leaf_at_any_none_intro; [reflexivity|]. intros k Hk.
  apply bfs_lt_length in Hk. rewrite parents_length in Hk.
  destruct (nth_error ns k) as [nd|] eqn:E; [|apply nth_error_None in E; lia].
  rewrite (node_chans_nth ns k nd E). exact (F k nd E).
Qed.

Lemma filter_two {A} (P : A -> bool) (l : list A) i j x y : (i < j)%nat ->
  nth_error l i = Some x -> nth_error l j = Some y -> P x = true -> P y = true -> (2 <= length (filter P l))%nat.
Proof.
  intros L Ei Ej Px Py. apply nth_error_split in Ei as (l1 & l2 & -> & Ll).
  rewrite nth_error_app2 in Ej by lia. replace (j - length l1)%nat with (S (j - length l1 - 1)) in Ej by lia. cbn in Ej.
  apply nth_error_In in Ej. rewrite filter_app, app_length. cbn [filter]. rewrite Px. cbn [length].
  assert (1 <= length (filter P l2))%nat; [|lia].
  assert (In y (filter P l2)) as Hy by (apply filter_In; split; assumption). destruct (filter P l2); [destruct Hy | cbn; lia].
Qed.

(* whom a flat link names: an entry listed before, under one of the paths the hand-off link names *)
Definition link_members (l : link) : list nat := match l with LRel _ p => [p] | LMulti qs => qs | _ => [] end.

Lemma flat_link_member ps gl k q : flat_link (pmap ps) gl = Some k -> In q (Core.FlattenIdem.link_members k) ->
  exists tg, In tg (gl_targets gl) /\ nth_error ps q = Some tg.
Proof.
  destruct gl as [| t tg | [|t0 ts] | t]; cbn [flat_link]; intros H Hq.
  - inversion H; subst. destruct Hq.
  - destruct (plookup (pmap ps) tg) as [p|] eqn:E; inversion H; subst; [|destruct Hq].
    destruct Hq as [<- | []]. exists tg. split; [now left | exact (plookup_pmap_some _ _ _ E)].
  - inversion H; subst. destruct Hq.
  - destruct (filter_map (plookup (pmap ps)) (t0 :: ts)); [inversion H; subst; destruct Hq|].
    destruct (all_some (map (plookup (pmap ps)) (t0 :: ts))) as [qs|] eqn:A; [|discriminate].
    inversion H; subst. apply all_some_spec in A. cbn [Core.FlattenIdem.link_members] in Hq.
    assert (In (Some q) (map (plookup (pmap ps)) (t0 :: ts))) as Hin by (rewrite A; apply in_map; exact Hq).
    apply in_map_iff in Hin as (tg & Etg & Htg). exists tg. split; [exact Htg | exact (plookup_pmap_some _ _ _ Etg)].
  - inversion H; subst. destruct Hq.
Qed.

(* the parent add_to_graph gives a node: the implicit predecessor, or a member of its link *)
Lemma new_node_parent env ns o k p : n_parent (new_node env ns o k) = Some p ->
  leaf_at_any ns (op_channels o) = Some p \/ In p (Core.FlattenIdem.link_members k).
Proof.
  unfold new_node. destruct (leaf_at_any ns (op_channels o)) as [i|] eqn:E.
  - destruct k as [| t q | qs | t]; cbn [n_parent Core.FlattenIdem.link_members].
    + intros H. left. exact H.
    + destruct (q <? length ns)%nat; cbn [n_parent]; intros H; [right; left; congruence | left; exact H].
    + destruct (latest_of ns qs) as [q|] eqn:L; cbn [n_parent]; intros H; [right; injection H as <-; exact (latest_of_In _ _ _ L) | left; exact H].
    + intros H. left. exact H.
  - destruct k as [| t q | qs | t]; cbn [n_parent Core.FlattenIdem.link_members]; try discriminate.
    + destruct (q <? length ns)%nat; cbn [n_parent]; [intros H; right; left; congruence | discriminate].
    + destruct (latest_of ns qs) as [q|] eqn:L; cbn [n_parent]; [intros H; right; injection H as <-; exact (latest_of_In _ _ _ L) | discriminate].
Qed.

(* ================================================================== H. the flattened block: the heralded measurement of an ancilla is listed first *)
Section HeraldedFirst.
  Variable env : denv.
  Variables (D : rdesc) (init anc : list bool) (r a : Z) (f : list node).
  Hypothesis K : desc_ok D.
  Hypothesis GO : gates_ok D.
  Hypothesis Sm : block_small D init anc r.
  Hypothesis Ha : In a (r_anc D).
  Hypothesis Ef : block_flat env D init anc r = Some f.
  Let Q := r_qubits D.
  Let n := length Q.
  Let p := rep_code_prog D init anc r.
  Let un := block_graph env D init anc r.
  Let G := glisting un.
  (* the decomposition of block_glisting / init_sublisting *)
  Variables (fuel : nat) (E1 : list gentry).
  Let E0 := glisting_op (OComp 1 (apply_mods_fuel fuel env 1 (init_sub env D init anc))) [0%nat] GNone.
  Hypothesis EG : G = E0 ++ E1.
  Hypothesis T1 : forall e, In e E1 -> forall t x, In t (gl_targets (ge_link e)) -> t <> [0%nat; x].
  Hypothesis PE0 : Permutation (map ge_leaf E0) (cmd_expanded (first_cmd D init anc)).
  Hypothesis ER : forall i, (i < n)%nat -> nth_error E0 i = Some ([0%nat; i], lf C_Reset [nth i Q 0], GNone).
  Variables (k jM iM : nat).
  Hypothesis Hk : (k < n)%nat.
  Hypothesis Ek : nth k Q 0 = a.
  Hypothesis HjM : (n <= jM)%nat.
  Hypothesis EjM : nth_error E0 jM = Some ([0%nat; iM], lf_meas a T_HERALDED, GRel RelationType_FOLLOWED_BY [0%nat; k]).

  Lemma hf_NQ : NoDup Q.
  Proof. destruct K as (H & _). exact H. Qed.
  Lemma hf_aQ : In a Q.
  Proof. exact (desc_ok_anc_qubit D a K Ha). Qed.
  Lemma hf_NE : Q <> [].
  Proof. intros E. pose proof hf_aQ as H. rewrite E in H. destruct H. Qed.
  Lemma hf_S : unroll_small_prog p.
  Proof. exact (proj1 Sm). Qed.

  Lemma hf_flat : flatten env un = Some f.
  Proof. exact Ef. Qed.

  Lemma hf_wf : wf_op (OComp 1 un).
  Proof. unfold un, block_graph. apply apply_modifiers_wf_op. apply run_prog_wf_op. Qed.

  Lemma hf_paths : NoDup (map ge_path G).
  Proof. exact (glisting_paths_NoDup 1 un hf_wf). Qed.

  Lemma hf_len : length f = length G.
  Proof. exact (flatten_length env un f hf_flat). Qed.

  Lemma hf_small : Z.of_nat (length f) <= 4999.
  Proof.
    rewrite hf_len. unfold G. rewrite (glisting_length env un).
    assert (Lun : length (listing env un) = n_ops p).
    { rewrite <- (unrolled_n_ops env p hf_S). unfold unrolled_leaves. now rewrite map_length. }
    rewrite Lun. exact (proj2 Sm).
  Qed.

  Lemma hf_W : wf_parents (parents f).
  Proof. exact (proj1 (flatten_wf env un f hf_flat)). Qed.

  Lemma hf_listed i : (i < length f)%nat -> In i (bfs (parents f)).
  Proof.
    intros H. assert (Pm : Permutation (bfs (parents f)) (seq 0 (length (parents f)))).
    { apply bfs_perm_length; [exact hf_W | rewrite parents_length; exact hf_small]. }
    apply (Permutation_in _ (Permutation_sym Pm)). apply in_seq. rewrite parents_length. lia.
  Qed.

  Lemma hf_rc j e : nth_error G j = Some e -> rc_leaf D (ge_leaf e).
  Proof.
    intros E. assert (Pm : Permutation (map ge_leaf G) (prog_expanded p)).
    { unfold G. rewrite (glisting_leaves env un). exact (unroll_listing_multiset env p hf_S). }
    pose proof (rc_prog D K GO init anc r) as F. rewrite Forall_forall in F. apply F.
    apply (Permutation_in _ Pm). apply in_map. eapply nth_error_In. exact E.
  Qed.

  Lemma hf_node j e : nth_error G j = Some e ->
    exists kj, flat_link (pmap (map ge_path (firstn j G))) (ge_link e) = Some kj
            /\ nth_error f j = Some (new_node env (firstn j f) (OLeaf (ge_leaf e)) kj).
  Proof. exact (flatten_nodes env un f hf_flat j e). Qed.

  Lemma hf_G_low i : (i < length E0)%nat -> nth_error G i = nth_error E0 i.
  Proof. intros H. rewrite EG. now apply nth_error_app1. Qed.

  Lemma hf_jM_lt : (jM < length E0)%nat.
  Proof. apply nth_error_Some. rewrite EjM. discriminate. Qed.

  Lemma hf_n_le : (n <= length E0)%nat.
  Proof. pose proof hf_jM_lt. lia. Qed.

  Lemma hf_reset_entry i : (i < n)%nat -> nth_error G i = Some ([0%nat; i], lf C_Reset [nth i Q 0], GNone).
  Proof. intros H. rewrite hf_G_low by (pose proof hf_n_le; lia). exact (ER i H). Qed.

  (* the first n nodes of f: the Resets, all roots *)
  Lemma hf_reset_node : forall i, (i < n)%nat -> nth_error f i = Some (Node None LNone (OLeaf (lf C_Reset [nth i Q 0]))).
  Proof.
    induction i as [i IH] using lt_wf_ind. intros H.
    destruct (hf_node i _ (hf_reset_entry i H)) as (kj & Kj & Nj). cbn in Kj. injection Kj as <-. rewrite Nj. f_equal.
    cbn [ge_leaf fst snd]. apply new_node_no_match. intros j nd Ej.
    assert (Hj : (j < i)%nat).
    { assert (j < length (firstn i f))%nat by (apply nth_error_Some; congruence). rewrite firstn_length in H0. lia. }
    rewrite nth_error_firstn_lt in Ej by exact Hj. rewrite (IH j Hj ltac:(lia)) in Ej. injection Ej as <-.
    cbn [n_op op_channels]. change (l_chans (lf C_Reset [nth i Q 0])) with [chan (nth i Q 0) QubitChannel_ALL].
    change (l_chans (lf C_Reset [nth j Q 0])) with [chan (nth j Q 0) QubitChannel_ALL].
    rewrite any_match_single. apply nomatch_other. intros E.
    pose proof hf_NQ as ND. rewrite (NoDup_nth Q 0) in ND. specialize (ND j i ltac:(fold n; lia) ltac:(fold n; lia) E). lia.
  Qed.

  (* the heralded measurement of a: child of the Reset of a *)
  Lemma hf_M_node : nth_error f jM = Some (Node (Some k) (LRel RelationType_FOLLOWED_BY k) (OLeaf (lf_meas a T_HERALDED))).
  Proof.
    assert (EM : nth_error G jM = Some ([0%nat; iM], lf_meas a T_HERALDED, GRel RelationType_FOLLOWED_BY [0%nat; k])).
    { rewrite hf_G_low by exact hf_jM_lt. exact EjM. }
    destruct (hf_node jM _ EM) as (kj & Kj & Nj). rewrite Nj. f_equal. cbn [ge_link ge_leaf fst snd flat_link] in *.
    assert (PL : plookup (pmap (map ge_path (firstn jM G))) [0%nat; k] = Some k).
    { apply plookup_pmap_nodup.
      - pose proof hf_paths as ND. rewrite <- (firstn_skipn jM G), map_app in ND. exact (NoDup_prefix _ _ ND).
      - rewrite <- firstn_map, nth_error_firstn_lt by lia. rewrite nth_error_map, (hf_reset_entry k Hk). reflexivity. }
    rewrite PL in Kj. injection Kj as <-. unfold new_node.
    assert (Lp : length (firstn jM f) = jM).
    { apply firstn_length_le. rewrite hf_len, EG, app_length. pose proof hf_jM_lt. lia. }
    rewrite Lp. assert (Hlt : (k <? jM)%nat = true) by (apply Nat.ltb_lt; lia). now rewrite Hlt.
  Qed.

  Lemma hf_prefix_W j : wf_parents (parents (firstn j f)).
  Proof. rewrite parents_firstn. pose proof hf_W as W. rewrite <- (firstn_skipn j (parents f)) in W. exact (wf_parents_app_l _ _ W). Qed.

  (* every operation acts on a qubit of the code: behind the Resets nothing is a root *)
  Lemma hf_not_root j nd : (n <= j)%nat -> nth_error f j = Some nd -> n_parent nd <> None.
  Proof.
    intros Hj E. assert (Lj : (j < length G)%nat) by (rewrite <- hf_len; apply nth_error_Some; congruence).
    destruct (nth_error G j) as [e|] eqn:Ee; [|apply nth_error_None in Ee; lia].
    destruct (hf_node j e Ee) as (kj & _ & Nj). rewrite E in Nj. injection Nj as ->. intros R. apply new_node_root in R.
    cbn [op_channels] in R.
    destruct (rc_leaf_touches D (ge_leaf e) hf_NE (hf_rc j e Ee)) as (q & c & Hq & Hc).
    apply (In_nth _ _ 0) in Hq as (i & Hi & Eq). fold Q in Hi. fold n in Hi.
    assert (Ei : nth_error (firstn j f) i = Some (Node None LNone (OLeaf (lf C_Reset [q])))).
    { rewrite nth_error_firstn_lt by lia. rewrite hf_reset_node by exact Hi. fold Q in Eq. now rewrite Eq. }
    assert (L : In i (bfs (parents (firstn j f)))).
    { apply root_listed; [apply hf_prefix_W|]. rewrite parents_nth_error, Ei. reflexivity. }
    pose proof (leaf_at_any_none _ _ R _ L) as M. rewrite (node_chans_nth _ _ _ Ei) in M. cbn [n_op op_channels] in M.
    change (l_chans (lf C_Reset [q])) with [chan q QubitChannel_ALL] in M.
    assert (M' : any_match (l_chans (ge_leaf e)) [chan q QubitChannel_ALL] = true).
    { apply (any_match_intro _ _ (chan q c) (chan q QubitChannel_ALL)); [exact Hc | now left | apply match_all]. }
    congruence.
  Qed.

  Lemma hf_depth_pos j : (n <= j)%nat -> (j < length f)%nat -> (1 <= depth (parents f) j)%nat.
  Proof.
    intros Hj Lj. destruct (depth (parents f) j) eqn:Dj; [exfalso | lia].
    apply depth_zero_inv in Dj; [|now rewrite parents_length]. rewrite parents_nth_error in Dj.
    destruct (nth_error f j) as [nd|] eqn:E; [|discriminate]. cbn in Dj. injection Dj as Dj. exact (hf_not_root j nd Hj E Dj).
  Qed.

  Lemma hf_depth_M : depth (parents f) jM = 1%nat.
  Proof.
    rewrite (depth_child _ _ k hf_W) by (rewrite parents_nth_error, hf_M_node; reflexivity).
    rewrite depth_root by (rewrite parents_nth_error, hf_reset_node by exact Hk; reflexivity). reflexivity.
  Qed.

  Lemma hf_meas_a_refl t : is_meas_of a (lf_meas a t) = true.
  Proof. unfold is_meas_of. cbn. apply Z.eqb_refl. Qed.

  (* the only measurement of a inside the initialisation block is the heralded one *)
  Lemma hf_unique_in_E0 j e : nth_error E0 j = Some e -> is_meas_of a (ge_leaf e) = true -> j = jM.
  Proof.
    intros E M. destruct (Nat.eq_dec j jM) as [-> | Hne]; [reflexivity | exfalso].
    assert (L1 : length (filter (is_meas_of a) (map ge_leaf E0)) = 1%nat).
    { pose proof (tags_of_perm a _ _ PE0) as Pt. apply Permutation_length in Pt. unfold tags_of in Pt at 1. rewrite map_length in Pt.
      rewrite Pt. pose proof (ptags_first_cmd a D init anc K hf_aQ) as H. unfold ptags, prog_expanded in H. cbn [flat_map] in H.
      rewrite app_nil_r in H. now rewrite H. }
    assert (Ej : nth_error (map ge_leaf E0) j = Some (ge_leaf e)) by exact (map_nth_error ge_leaf _ _ E).
    assert (EM : nth_error (map ge_leaf E0) jM = Some (lf_meas a T_HERALDED)) by exact (map_nth_error ge_leaf _ _ EjM).
    destruct (Nat.lt_gt_cases j jM) as [H _]. destruct (H Hne) as [Lt | Lt].
    - pose proof (filter_two (is_meas_of a) _ j jM _ _ Lt Ej EM M (hf_meas_a_refl _)). lia.
    - pose proof (filter_two (is_meas_of a) _ jM j _ _ Lt EM Ej (hf_meas_a_refl _) M). lia.
  Qed.

  Lemma hf_other_depth j e : nth_error G j = Some e -> is_meas_of a (ge_leaf e) = true -> j <> jM -> (2 <= depth (parents f) j)%nat.
  Proof.
    intros Ee M Hne.
    assert (Lj : (j < length G)%nat) by (apply nth_error_Some; congruence).
    assert (HE : (length E0 <= j)%nat).
    { destruct (Nat.lt_ge_cases j (length E0)) as [L | L]; [exfalso | exact L]. rewrite hf_G_low in Ee by exact L. exact (Hne (hf_unique_in_E0 j e Ee M)). }
    assert (He1 : In e E1). { rewrite EG, nth_error_app2 in Ee by exact HE. eapply nth_error_In. exact Ee. }
    pose proof hf_jM_lt as LM. pose proof hf_W as W.
    destruct (rc_leaf_acq D _ a (hf_rc j e Ee) M) as (t & El).
    destruct (hf_node j e Ee) as (kj & Kj & Nj).
    assert (Hnr := hf_not_root j _ ltac:(lia) Nj).
    destruct (n_parent (new_node env (firstn j f) (OLeaf (ge_leaf e)) kj)) as [pp|] eqn:Ep; [clear Hnr | congruence].
    assert (Hpj : nth_error (parents f) j = Some (Some pp)) by (rewrite parents_nth_error, Nj; cbn; now rewrite Ep).
    rewrite (depth_child _ _ pp W Hpj).
    assert (Hpp : (pp < j)%nat) by exact (W j pp Hpj).
    assert (1 <= depth (parents f) pp)%nat; [|lia].
    apply new_node_parent in Ep as [Imp | Mem].
    - (* implicit: the last listed node sharing the read-out channel of a -- at or behind the heralded measurement *)
      cbn [op_channels] in Imp. rewrite El in Imp. change (l_chans (lf_meas a t)) with [chan a QubitChannel_READOUT] in Imp.
      destruct (leaf_at_any_some _ _ _ (hf_prefix_W j) Imp) as (_ & _ & Last).
      assert (EMp : nth_error (firstn j f) jM = Some (Node (Some k) (LRel RelationType_FOLLOWED_BY k) (OLeaf (lf_meas a T_HERALDED)))).
      { rewrite nth_error_firstn_lt by lia. exact hf_M_node. }
      assert (LMp : In jM (bfs (parents (firstn j f)))).
      { rewrite parents_firstn. apply bfs_firstn_In; [exact W|]. split; [apply hf_listed; rewrite hf_len, EG, app_length; lia | lia]. }
      assert (MM : any_match [chan a QubitChannel_READOUT] (node_chans (firstn j f) jM) = true).
      { rewrite (node_chans_nth _ _ _ EMp). cbn [n_op op_channels]. change (l_chans (lf_meas a T_HERALDED)) with [chan a QubitChannel_READOUT].
        rewrite any_match_single. unfold ch_match, ChannelIdentifier_eq, chan. cbn. now rewrite Z.eqb_refl. }
      destruct (Last jM LMp MM) as [Eq | B]; [rewrite <- Eq, hf_depth_M; lia|].
      rewrite parents_firstn in B. apply (bfs_firstn_before _ _ _ _ W) in B. apply bfs_depth_sorted in B; [|exact W].
      rewrite hf_depth_M in B. exact B.
    - (* a member of its link: an entry of the same top-level block, hence behind the Resets *)
      destruct (flat_link_member _ _ _ _ Kj Mem) as (tg & Htg & Etg).
      apply hf_depth_pos; [|rewrite hf_len; lia].
      destruct (Nat.lt_ge_cases pp n) as [L | L]; [exfalso | exact L].
      rewrite <- firstn_map, nth_error_firstn_lt, nth_error_map, (hf_reset_entry pp L) in Etg by lia.
      cbn in Etg. injection Etg as <-. exact (T1 e He1 _ pp Htg eq_refl).
  Qed.

  Lemma flat_map_all_nil {X Y} (F : X -> list Y) l : (forall x, In x l -> F x = []) -> flat_map F l = [].
  Proof. induction l as [|x l IH]; intros H; [reflexivity|]. cbn. rewrite H by now left. apply IH. intros y Hy. apply H. now right. Qed.

  Theorem hf_head : exists T', tags_of a (op_leaves (OComp 1 f)) = T_HERALDED :: T'.
  Proof.
    pose proof hf_W as W. pose proof hf_jM_lt as LM.
    assert (LjM : (jM < length f)%nat) by (rewrite hf_len, EG, app_length; lia).
    rewrite op_leaves_comp, tags_of_flat_map.
    set (F := fun i => tags_of a (at_node f (fun nd => op_leaves (n_op nd)) i)).
    destruct (in_split _ _ (hf_listed jM LjM)) as (l1 & l2 & Eb).
    pose proof (bfs_NoDup _ W) as ND. rewrite Eb in ND |- *. rewrite flat_map_app. cbn [flat_map].
    assert (F1 : flat_map F l1 = []).
    { apply flat_map_all_nil. intros i Hi.
      assert (Ib : In i (bfs (parents f))) by (rewrite Eb; apply in_or_app; now left).
      assert (Li : (i < length f)%nat) by (apply bfs_lt_length in Ib; now rewrite parents_length in Ib).
      destruct (nth_error G i) as [e|] eqn:Ee; [|apply nth_error_None in Ee; rewrite hf_len in Li; lia].
      destruct (hf_node i e Ee) as (kj & _ & Ni). unfold F, at_node. rewrite Ni, new_node_op. cbn [op_leaves].
      unfold tags_of. cbn [filter]. destruct (is_meas_of a (ge_leaf e)) eqn:M; [exfalso | reflexivity].
      assert (Hne : i <> jM). { intros ->. apply NoDup_remove_2 in ND. apply ND. apply in_or_app. now left. }
      pose proof (hf_other_depth i e Ee M Hne) as D2.
      assert (B : before (bfs (parents f)) i jM).
      { rewrite Eb. apply in_split in Hi as (a1 & a2 & ->). exists a1, a2, l2. now rewrite <- app_assoc. }
      apply bfs_depth_sorted in B; [|exact W]. rewrite hf_depth_M in B. lia. }
    rewrite F1. cbn [app]. unfold F at 1, at_node. rewrite hf_M_node. cbn [n_op op_leaves]. unfold tags_of at 1, is_meas_of. cbn.
    rewrite Z.eqb_refl. cbn. eexists. reflexivity.
  Qed.
End HeraldedFirst.

(* ================================================================== I. the theorems *)
(* flattening a block keeps the heralded measurement of every ancilla in front of its other measurements: every description
   whose gates act on its qubits, every round count *)
Theorem flat_heralded_first env D init anc r a f :
  desc_ok D -> gates_ok D -> block_small D init anc r -> In a (r_anc D) ->
  block_flat env D init anc r = Some f -> exists T', tags_of a (op_leaves (OComp 1 f)) = T_HERALDED :: T'.
Proof.
  intros K GO Sm Ha Ef. pose proof (desc_ok_anc_qubit D a K Ha) as Hq.
  assert (NQ : NoDup (r_qubits D)) by (destruct K as (H & _); exact H).
  assert (NE : r_qubits D <> []) by (intros E; rewrite E in Hq; destruct Hq).
  assert (SB : unroll_small_cmd (CSub 1 (circuit_initialize_with_heralded D init anc))).
  { destruct Sm as [[_ F] _]. rewrite rep_code_prog_split in F. inversion F; assumption. }
  destruct (block_glisting env D init anc r (proj1 Sm)) as (fuel & E1 & EG & T1 & PE0).
  destruct (init_sublisting env D init anc fuel NQ NE SB) as [ER EMs].
  apply (In_nth _ _ 0) in Hq as (k & Hk & Ek). destruct (EMs k Hk) as (jM & iM & HjM & EjM). rewrite Ek in EjM.
  exact (hf_head env D init anc r a f K GO Sm Ha Ef fuel E1 EG T1 PE0 ER k jM iM Hk HjM EjM).
Qed.

(* so the side condition of MultiRoundProofs.multi_anc_tags reduces to: Core's flatten is defined on the block *)
Theorem defined_heralded_first D init anc r a :
  desc_ok D -> gates_ok D -> block_small D init anc r -> In a (r_anc D) ->
  block_flat model_env D init anc r <> None -> block_heralded_first D init anc r a = true.
Proof.
  intros K GO Sm Ha Df. unfold block_heralded_first. destruct (block_flat model_env D init anc r) as [f|] eqn:Ef; [|congruence].
  destruct (flat_heralded_first model_env D init anc r a f K GO Sm Ha Ef) as (T' & ET).
  rewrite graph_tags_op. unfold op_tags. rewrite ET. cbn [head_is]. apply Z.eqb_refl.
Qed.

Lemma rounds_defined env D init anc : forall rounds ns0 ns, multi_round_rounds env D init anc rounds ns0 = Some ns ->
  forall r, In r rounds -> block_flat env D init anc r <> None.
Proof.
  induction rounds as [|r0 t IH]; intros ns0 ns E r Hr; [destruct Hr|]. cbn [multi_round_rounds] in E.
  destruct (flatten env (apply_modifiers env 1 (run_prog env (rep_code_prog D init anc r0)))) as [f|] eqn:Ef; [|discriminate].
  destruct Hr as [<- | Hr]; [unfold block_flat, block_graph; rewrite Ef; discriminate | exact (IH _ _ E r Hr)].
Qed.

(* THE tags of every ancilla, wherever the model of the constructor is defined (Core's flatten answers: outside finding F10) *)
Theorem multi_anc_tags_defined env D init anc rounds a ns :
  desc_ok D -> gates_ok D -> multi_small D init anc rounds -> In a (r_anc D) ->
  multi_round_nodes env D init anc rounds = Some ns ->
  graph_tags env a ns = map z_of_tag (multi_round_tags rounds).
Proof.
  intros K GO Sm Ha E.
  assert (HF : forall r, In r rounds -> block_heralded_first D init anc r a = true).
  { intros r Hr. destruct Sm as (SB & _). rewrite Forall_forall in SB. destruct (SB r Hr) as [_ Sb].
    apply defined_heralded_first; try assumption. rewrite (block_flat_env model_env env).
    unfold multi_round_nodes in E. destruct (multi_round_rounds env D init anc rounds []) as [ns1|] eqn:E1; [|discriminate].
    exact (rounds_defined env D init anc rounds [] ns1 E1 r Hr). }
  pose proof (multi_anc_tags env D init anc rounds a K Sm Ha HF) as T. unfold circuit_tags in T. rewrite E in T.
  cbn [option_map] in T. now injection T.
Qed.

Lemma defined_side_condition env D init anc rounds a ns :
  desc_ok D -> gates_ok D -> multi_small D init anc rounds -> In a (r_anc D) ->
  multi_round_nodes env D init anc rounds = Some ns ->
  forall r, In r rounds -> block_heralded_first D init anc r a = true.
Proof.
  intros K GO Sm Ha E r Hr. destruct Sm as (SB & _). rewrite Forall_forall in SB. destruct (SB r Hr) as [_ Sb].
  apply defined_heralded_first; try assumption. rewrite (block_flat_env model_env env).
  unfold multi_round_nodes in E. destruct (multi_round_rounds env D init anc rounds []) as [ns1|] eqn:E1; [|discriminate].
  exact (rounds_defined env D init anc rounds [] ns1 E1 r Hr).
Qed.

Lemma option_map_some {A B} (g : A -> B) o y : option_map g o = Some y -> exists x, o = Some x.
Proof. destruct o as [x|]; [now exists x | discriminate]. Qed.

Theorem multi_labelled_defined env D init anc rounds a lab :
  desc_ok D -> gates_ok D -> multi_small D init anc rounds -> In a (r_anc D) ->
  circuit_labelled env D init anc rounds a = Some lab -> lab = z_labelled (multi_round_labelled rounds).
Proof.
  intros K GO Sm Ha E. destruct (option_map_some _ _ _ E) as (ns & En).
  pose proof (multi_labelled env D init anc rounds a K Sm Ha (defined_side_condition env D init anc rounds a ns K GO Sm Ha En)) as T.
  rewrite E in T. now injection T.
Qed.

(* composed with C13: wherever the model circuit is defined, its measurements sit at the indices the generated kernel
   definitions return *)
Theorem multi_kernel_agrees_defined env D init anc rounds a lab data_ids anc_ids q :
  desc_ok D -> gates_ok D -> multi_small D init anc rounds -> In a (r_anc D) ->
  circuit_labelled env D init anc rounds a = Some lab ->
  rounds <> [] -> NoDup rounds -> is_member q anc_ids = true ->
  exists e, circuit_kernel rounds data_ids anc_ids = Value e
  /\ Z.of_nat (length lab) = RepetitionExperimentKernel_kernel_cycle_length e
  /\ (forall n, In n rounds ->
        positions (is_zl T_HERALDED (Block n)) lab
          = concat (RepetitionExperimentKernel_get_heralded_cycle_acquisition_indices e q n)
        /\ positions (is_zl T_PARITY (Block n)) lab
          = concat (RepetitionExperimentKernel_get_stabilizer_and_projected_cycle_acquisition_indices e q n)
        /\ (1 <= n -> positions (is_zl T_FINAL (Block n)) lab = []
                      /\ concat (RepetitionExperimentKernel_get_projected_cycle_acquisition_indices e q n)
                         = [last (positions (is_zl T_PARITY (Block n)) lab) 0]))
  /\ (In 0 rounds -> exists k, In k (RepetitionExperimentKernel__repetition_kernels e)
        /\ RepetitionIndexKernel_nr_repeated_parities k = 0
        /\ positions (is_zl T_FINAL (Block 0)) lab = [RepetitionIndexKernel_stop_index k]
        /\ RepetitionExperimentKernel_get_projected_cycle_acquisition_indices e q 0 = [[]]
        /\ RepetitionExperimentKernel_get_stabilizer_and_projected_cycle_acquisition_indices e q 0 = [[]]
        /\ ~ In (RepetitionIndexKernel_stop_index k) (cycle_indices e q))
  /\ (forall st, positions (is_zl T_HERALDED (Cal st)) lab
                   = RepetitionExperimentKernel_get_heralded_calibration_acquisition_indices e q st
              /\ positions (is_zl T_FINAL (Cal st)) lab
                   = RepetitionExperimentKernel_get_projected_calibration_acquisition_indices e q st
              /\ positions (is_zl T_PARITY (Cal st)) lab = []).
Proof.
  intros K GO Sm Ha E NE ND Hq. destruct (option_map_some _ _ _ E) as (ns & En).
  destruct (multi_kernel_agrees_blocks env D init anc rounds a data_ids anc_ids q K Sm Ha
              (defined_side_condition env D init anc rounds a ns K GO Sm Ha En) NE ND Hq) as (lab' & e & E' & R).
  rewrite E in E'. injection E' as <-. exists e. exact R.
Qed.

(* ------------------------------------------------------------------ the hypothesis gates_ok: chains of every distance, the shipped layouts *)
Theorem chain_gates_ok d rf : gates_ok (desc_of_chain d rf).
Proof.
  unfold gates_ok. apply Forall_forall. intros [gs ps] Hin. cbn [fst snd].
  pose proof (in_combine_l _ _ _ _ Hin) as Hg. pose proof (in_combine_r _ _ _ _ Hin) as Hp.
  destruct (chain_desc_ok d rf) as (_ & _ & _ & IA & _).
  split.
  - cbn [desc_of_chain r_gates] in Hg. apply filter_In in Hg as [Hg _].
    apply Forall_forall. intros g Hgin. destruct Hg as [<- | [<- | []]]; apply in_map_iff in Hgin as (x & <- & Hx); cbn [fst snd].
    + right. apply IA. exact Hx.
    + left. apply IA. exact Hx.
  - cbn [desc_of_chain r_parks] in Hp. apply in_map_iff in Hp as (l & <- & _). constructor.
Qed.

Definition gates_okb (D : rdesc) : bool :=
  forallb (fun gp => forallb (fun g => zmem (fst g) (r_qubits D) || zmem (snd g) (r_qubits D)) (fst gp)
                     && forallb (fun q => zmem q (r_qubits D)) (snd gp))
          (combine (r_gates D) (r_parks D)).

Lemma gates_okb_ok D : gates_okb D = true -> gates_ok D.
Proof.
  unfold gates_okb, gates_ok. rewrite forallb_forall. intros H. apply Forall_forall. intros gp Hgp. specialize (H gp Hgp).
  apply andb_true_iff in H as [H1 H2]. rewrite forallb_forall in H1, H2. split; apply Forall_forall.
  - intros g Hg. specialize (H1 g Hg). apply orb_true_iff in H1 as [H1 | H1]; [left | right]; apply zmem_In; exact H1.
  - intros q Hq. apply zmem_In. exact (H2 q Hq).
Qed.

Lemma layouts_gates_checked :
  forallb (fun Lc => forallb (fun rf => gates_okb (desc_of_layout (fst Lc) (snd Lc) rf)) [true; false]) all_layout_subchains = true.
Proof. vm_compute. reflexivity. Qed.

Theorem layouts_gates_ok L ch rf : In (L, ch) all_layout_subchains -> gates_ok (desc_of_layout L ch rf).
Proof.
  intros Hin. pose proof layouts_gates_checked as H. rewrite forallb_forall in H. specialize (H _ Hin). cbn [fst snd] in H.
  rewrite forallb_forall in H. apply gates_okb_ok. apply H. destruct rf; simpl; auto.
Qed.

(* ------------------------------------------------------------------ example: the hypotheses are satisfiable, the statement is not vacuous *)
Definition ex_D : rdesc := desc_of_chain 2 true.
Definition ex_rounds : list Z := [2; 0; 3].

Example ex_small : multi_small ex_D [true; false] [true] ex_rounds.
Proof.
  split; [|split; [simpl; lia | vm_compute; discriminate]].
  repeat constructor; try lia; try (apply chain_small; simpl; lia); vm_compute; discriminate.
Qed.

Example ex_defined : multi_round_nodes model_env ex_D [true; false] [true] ex_rounds <> None.
Proof. vm_compute. discriminate. Qed.

Example ex_general : forall ns, multi_round_nodes model_env ex_D [true; false] [true] ex_rounds = Some ns ->
  graph_tags model_env 1 ns = [3; 4; 4;  3; 5;  3; 4; 4; 4;  3; 5; 3; 5; 3; 5].
Proof.
  intros ns E. rewrite (multi_anc_tags_defined model_env ex_D [true; false] [true] ex_rounds 1 ns); [reflexivity | | | | | exact E].
  - apply chain_desc_ok.
  - apply chain_gates_ok.
  - exact ex_small.
  - simpl; auto.
Qed.
