(* LIBBUILD x C08 x C09 -- the three models joined inside Coq, for the repetition-code constructor.

     (1) LibBuild/Model.v   rep_code_prog D init anc cycles : list cmd          the constructor as a build program
     (2) Core/Model.v       run_prog / apply_modifiers                          the circuit (relation graph) it builds
     (3) Bridge/TreeOfOp.v  tree_of_nodes                                       the listing tree the exporter walks
         C08/Model.v        to_stim, normalise                                  the Stim exporter and Stim's flattened()
         C09/Stim.v         decode1                                             Stim's report -> C09's `instr`
         C09/Model.v        rep_stim                                            the closed form C09_record is about

   `lib_export D init anc cycles` is the composition (1) -> (2) -> (3): the model circuit exported by the model exporter, in the
   normal form `rep_stim` is written in.  It is compared with `rep_stim` in LibBuild/StimBridgeProofs.v (bounded domain, as
   constructed and unrolled), StimBridgeCycles.v (chains of distance 2 and 3, every state, every cycle count) and
   StimBridgeLayouts.v (the shipped layouts, every cycle count).

   WHAT CANNOT BE RECOVERED.  A Core leaf carries class, qubits, channel, duration strategy and acquisition tag.  The exporter
   additionally reads integer attributes of three annotation classes (C08/Tree.v `l_args`):
     CoordinateShiftOperation   time_shift, space_shift       the constructor passes the CONSTANTS time_shift=1, space_shift=0
                                                              at all three call sites (circuit_components.py); supplied here;
     DetectorOperation          last_acquisition_index, main_target, secondary_target, reference_offset, secondary_offset
     LogicalObservableOperation last_acquisition_index, main_target
                                                              read from the acquisition registry while the circuit is built;
                                                              not part of LibBuild's programs ("not modelled", labels 0), and
                                                              NOT a function of the leaf (the detectors of the first, second,
                                                              third sub-circuit and the final ones are equal leaves with
                                                              different arguments), so no `args_of` can supply them.
   `lib_args` therefore gives every detector / observable the placeholder arguments (0, 0[, None...]) -- the export is then
   DETECTOR(qubit, 0) rec[-1] / OBSERVABLE_INCLUDE(0) rec[-1] -- and the comparison is made modulo `skeleton`, which erases
   exactly the rec[..] target lists of DETECTOR and OBSERVABLE_INCLUDE and nothing else.  What IS compared: every gate,
   reset, measurement and TICK with its qubit(s), in order; the position of every DETECTOR and OBSERVABLE_INCLUDE in that
   order; each detector's coordinates (qubit index, round number -- the latter arises from folding the exported
   SHIFT_COORDS(0, 1) through the REPEAT blocks); the observable index.

   Definitions only; no proofs in this file. *)
From Coq Require Import ZArith List Bool String.
Import ListNotations.
From QCE Require Import Base.Prelude Core.Model Core.Run C08.Tree C08.Model Bridge.TreeOfOp C09.Stim C09.Model
                        LibBuild.Model LibBuild.Cert.
From Gen Require Import Ident Classes Tables.
Open Scope Z_scope.

(* ------------------------------------------------------------------ the annotation arguments that a leaf determines *)
Definition lib_args (l : cleaf) : list (option Z) :=
  if l_cls l =? C_CoordinateShiftOperation then [Some 1; Some 0]                       (* time_shift = 1, space_shift = 0 *)
  else if l_cls l =? C_DetectorOperation then [Some 0; Some 0; None; None; None]       (* placeholder: rec[-1] *)
  else if l_cls l =? C_LogicalObservableOperation then [Some 0; Some 0]                (* placeholder: rec[-1] *)
  else [].

(* ------------------------------------------------------------------ C08's instruction type -> C09's *)
Definition rtarget_of (t : starget) : rtarget := match t with TQ q => RQ q | TRec k => RR k end.

(* one instruction of a C08 circuit in normal form (no REPEAT left; kept total: a REPEAT would be outside C09's fragment) *)
Definition instrs_of_sinstr (i : sinstr) : list instr :=
  match i with
  | SI g a ts => decode1 (RI g a (map rtarget_of ts))
  | SRep _ _ => [IOther "REPEAT"]
  end.

(* C08.Model.normalise = REPEAT unrolled, one target (pair) per instruction, SHIFT_COORDS folded: stim's flattened() up to
   target fusion, which C09's decoder splits as well *)
Definition c09_of_circuit (c : C08.Model.circuit) : list instr := flat_map instrs_of_sinstr (C08.Model.normalise c).

(* ------------------------------------------------------------------ A. the export of the model circuit *)
Definition lib_circuit (D : rdesc) (init anc : list bool) (cycles : Z) : list node :=
  run_prog env0 (rep_code_prog D init anc cycles).
Definition lib_circuit_unrolled (D : rdesc) (init anc : list bool) (cycles : Z) : list node :=
  apply_modifiers env0 1 (lib_circuit D init anc cycles).

(* to_stim(circuit) of a Core circuit; None: the exporter raised *)
Definition export_nodes (ns : list node) : option C08.Model.circuit := to_stim (tree_of_nodes lib_args ns).
Definition export_nodes_c09 (ns : list node) : option (list instr) := option_map c09_of_circuit (export_nodes ns).

Definition lib_export_opt (D : rdesc) (init anc : list bool) (cycles : Z) : option (list instr) :=
  export_nodes_c09 (lib_circuit D init anc cycles).
Definition lib_export_unrolled_opt (D : rdesc) (init anc : list bool) (cycles : Z) : option (list instr) :=
  export_nodes_c09 (lib_circuit_unrolled D init anc cycles).

(* total versions: a raising export is a program outside C09's fragment (`skeleton` keeps IOther, `rep_stim` has none) *)
Definition or_raised (o : option (list instr)) : list instr := match o with Some p => p | None => [IOther "EXPORT_RAISED"] end.
Definition lib_export (D : rdesc) (init anc : list bool) (cycles : Z) : list instr :=
  or_raised (lib_export_opt D init anc cycles).
Definition lib_export_unrolled (D : rdesc) (init anc : list bool) (cycles : Z) : list instr :=
  or_raised (lib_export_unrolled_opt D init anc cycles).

(* ------------------------------------------------------------------ what is compared *)
(* erases the rec[..] targets of DETECTOR and OBSERVABLE_INCLUDE; every other instruction, the detector coordinates and the
   observable index are kept *)
Definition skel1 (i : instr) : instr :=
  match i with
  | IDet a _ => IDet a []
  | IObs k _ => IObs k []
  | _ => i
  end.
Definition skeleton (p : list instr) : list instr := map skel1 p.

(* the instructions `skeleton` leaves untouched: gates, resets, measurements, ticks *)
Definition is_annotation (i : instr) : bool := match i with IDet _ _ | IObs _ _ => true | _ => false end.
Definition gate_part (p : list instr) : list instr := filter (fun i => negb (is_annotation i)) p.

Definition raised_free (p : list instr) : bool := forallb (fun i => match i with IOther _ | IRepeat _ _ => false | _ => true end) p.

(* ------------------------------------------------------------------ B. the finite domain of the bounded theorem *)
(* every value list of length n *)
Fixpoint all_states (n : nat) : list (list bool) :=
  match n with O => [[]] | S k => flat_map (fun s => [false :: s; true :: s]) (all_states k) end.
Definition all_one (n : nat) : list bool := repeat true n.

(* (distance, refocusing, data state, ancilla state, cycles): every data state, ancilla state absent / all ONE *)
Definition sb_inputs_of (d : nat) (cs : list Z) : list cert_input :=
  prod5 [d] (all_states d) [[]; all_one (d - 1)] cs.
Definition sb_cycles : list Z := [0; 1; 2; 3; 4; 5; 6].
Definition sb_inputs : list cert_input := sb_inputs_of 2 sb_cycles ++ sb_inputs_of 3 sb_cycles ++ sb_inputs_of 4 sb_cycles.

Definition sb_want (x : cert_input) : list instr :=
  let '(d, rf, init, anc, cycles) := x in rep_stim (desc_of_chain d rf) init anc (Z.to_nat cycles).
Definition sb_got (x : cert_input) : option (list instr) :=
  let '(d, rf, init, anc, cycles) := x in lib_export_opt (desc_of_chain d rf) init anc cycles.
Definition sb_got_unrolled (x : cert_input) : option (list instr) :=
  let '(d, rf, init, anc, cycles) := x in lib_export_unrolled_opt (desc_of_chain d rf) init anc cycles.

Definition skel_matches (got : option (list instr)) (want : list instr) : bool :=
  match got with Some p => prog_eqb (skeleton p) (skeleton want) | None => false end.
Definition sb_check (x : cert_input) : bool := skel_matches (sb_got x) (sb_want x).
Definition sb_check_unrolled (x : cert_input) : bool := skel_matches (sb_got_unrolled x) (sb_want x).
