(* LIBBUILD -- the measurement tags of every ancilla in the Core listing of the MULTI-ROUND constructor's circuit. *)
From Coq Require Import ZArith List Bool Lia Arith Permutation ZifyBool.
Import ListNotations.
From QCE Require Import Base.Prelude Core.Model Core.Run Core.BfsProofs Core.BfsWf Core.CopyProofs Core.CopyIso
  Core.FlattenProofs Core.FlattenIdem C02.Proofs C05.Proofs C06.Proofs C09.Model C10.Proofs C12.Model C13.Model C13.Proofs
  LibBuild.Model LibBuild.Order LibBuild.Tags LibBuild.Counts LibBuild.Layouts LibBuild.Cert LibBuild.MultiRound.
From Gen Require Import Ident Classes Kernels.
Open Scope Z_scope.

(* ================================================================== 1. graphs that are one chain *)
Definition pred_opt (i : nat) : option nat := match i with O => None | S k => Some k end.
Definition chain_parents (n : nat) : list (option nat) := map pred_opt (seq 0 n).

Lemma chain_parents_length n : length (chain_parents n) = n.
Proof. unfold chain_parents. now rewrite map_length, seq_length. Qed.

Lemma chain_parents_nth n i : (i < n)%nat -> nth_error (chain_parents n) i = Some (pred_opt i).
Proof.
  intros H. unfold chain_parents. rewrite nth_error_map.
  rewrite (nth_error_nth' (seq 0 n) 0%nat) by (now rewrite seq_length). now rewrite seq_nth.
Qed.

Lemma chain_parents_S n : chain_parents (S n) = chain_parents n ++ [pred_opt n].
Proof. unfold chain_parents. now rewrite seq_S, map_app. Qed.

Lemma chain_wf n : wf_parents (chain_parents n).
Proof.
  intros i p H. destruct (Nat.lt_ge_cases i n) as [L | L].
  - rewrite chain_parents_nth in H by exact L. destruct i; simpl in H; [discriminate|]. injection H as <-. lia.
  - assert (nth_error (chain_parents n) i = None) by (apply nth_error_None; now rewrite chain_parents_length). congruence.
Qed.

Lemma chain_mono n : mono_parents (chain_parents n).
Proof.
  intros i j a b L Ei Ej.
  assert (Hj : (j < n)%nat) by (rewrite <- (chain_parents_length n); apply nth_error_Some; congruence).
  rewrite chain_parents_nth in Ei, Ej by lia. injection Ei as <-. injection Ej as <-.
  destruct i, j; simpl; lia.
Qed.

Lemma chain_depth n i : (i < n)%nat -> depth (chain_parents n) i = i.
Proof.
  induction i as [|i IH]; intros H.
  - apply depth_root. now rewrite chain_parents_nth.
  - rewrite (depth_child _ _ i (chain_wf n)) by (now rewrite chain_parents_nth). rewrite IH by lia. reflexivity.
Qed.

Lemma chain_bfs n : (n <= max_layers)%nat -> bfs (chain_parents n) = seq 0 n.
Proof.
  intros H. rewrite <- (chain_parents_length n) at 2. apply mono_bfs_seq; [apply chain_wf | apply chain_mono |].
  intros i Hi. rewrite chain_parents_length in Hi. rewrite chain_depth by exact Hi. lia.
Qed.

Definition is_chain (ns : list node) : Prop := parents ns = chain_parents (length ns).

Lemma is_chain_nil : is_chain [].
Proof. reflexivity. Qed.

(* adding an operation without relation to a chain whose last node shares a channel with it extends the chain *)
Lemma add_to_chain env ns o :
  is_chain ns -> (length ns <= max_layers)%nat ->
  (forall n, nth_error ns (length ns - 1) = Some n -> any_match (op_channels o) (op_channels (n_op n)) = true) ->
  is_chain (add_node env ns o LNone).
Proof.
  intros C L M. unfold is_chain. rewrite add_node_eq, app_length, parents_app, C. simpl length.
  rewrite Nat.add_1_r, chain_parents_S. f_equal. unfold new_node. cbn [parents map n_parent]. f_equal.
  unfold leaf_at_any. rewrite C, chain_bfs by exact L.
  destruct ns as [|n0 ns'] eqn:E; [reflexivity|]. rewrite <- E in *.
  assert (Hl : length ns = S (length ns')) by (subst ns; reflexivity). rewrite Hl.
  rewrite seq_S, rev_app_distr. cbn [rev app find Nat.add pred_opt].
  destruct (nth_error ns (length ns - 1)) as [n|] eqn:En.
  - specialize (M n eq_refl). replace (length ns - 1)%nat with (length ns') in En by lia.
    rewrite (nth_error_nth _ _ [] (map_nth_error (fun n => op_channels (n_op n)) _ _ En)). rewrite M. reflexivity.
  - apply nth_error_None in En. lia.
Qed.

Lemma chain_leaves ns : is_chain ns -> (length ns <= max_layers)%nat ->
  op_leaves (OComp 1 ns) = flat_map (fun o => op_leaves o) (map n_op ns).
Proof.
  intros C L. rewrite op_leaves_comp, C, chain_bfs, flat_map_at_node_seq by exact L.
  rewrite flat_map_concat_map, flat_map_concat_map, map_map. reflexivity.
Qed.

(* ================================================================== 2. the channels of a listed leaf are channels of the block *)
Lemma chid_exact_eq x y : chid_exact_eqb x y = true -> x = y.
Proof.
  destruct x as [i c], y as [j d]. unfold chid_exact_eqb. cbn. intros H. apply andb_true_iff in H as [H1 H2].
  apply Z.eqb_eq in H1. subst j. destruct c, d; try discriminate; reflexivity.
Qed.

Lemma uniq_chans_keeps l : forall seen x, In x l -> In x seen \/ In x (uniq_chans seen l).
Proof.
  induction l as [|y l IH]; intros seen x H; [destruct H|]. cbn [uniq_chans].
  destruct (existsb (chid_exact_eqb y) seen) eqn:E.
  - destruct H as [<- | H]; [|apply IH; exact H]. left. apply existsb_exists in E as (z & Hz & Ez).
    apply chid_exact_eq in Ez. now subst z.
  - destruct H as [<- | H]; [right; now left|]. destruct (IH (y :: seen) x H) as [[<- | S] | U]; [right; now left | now left | right; now right].
Qed.

Lemma leaf_chan_in_op o : forall l c, In l (op_leaves o) -> In c (l_chans l) -> In c (op_channels o).
Proof.
  induction o as [l0 | r ns IH] using op_ind'; intros l c Hl Hc.
  - destruct Hl as [<- | []]. exact Hc.
  - rewrite op_leaves_comp in Hl. apply in_flat_map in Hl as (i & Hi & Hl). unfold at_node in Hl.
    destruct (nth_error ns i) as [n|] eqn:En; [|destruct Hl].
    rewrite Forall_forall in IH. specialize (IH n (nth_error_In _ _ En) l c Hl Hc).
    rewrite op_channels_unfold.
    destruct (uniq_chans_keeps (flat_map (fun i => nth i (map (fun n => op_channels (n_op n)) ns) []) (bfs (parents ns))) [] c) as [[] | U]; [|exact U].
    apply in_flat_map. exists i. split; [exact Hi|].
    now rewrite (nth_error_nth _ _ [] (map_nth_error (fun n => op_channels (n_op n)) _ _ En)).
Qed.

Definition barrier_leaf (D : rdesc) : leaf := lf C_Barrier (r_qubits D).

Lemma barrier_chans D a : In a (r_qubits D) -> In (MkChannelIdentifier a QubitChannel_ALL) (l_chans (barrier_leaf D)).
Proof. intros H. unfold barrier_leaf, l_chans, lf. cbn. apply in_map_iff. exists a. split; [reflexivity | exact H]. Qed.

Lemma meas_chans a t : l_chans (lf_meas a t) = [MkChannelIdentifier a QubitChannel_READOUT].
Proof. reflexivity. Qed.

Lemma match_all_readout a : ch_match (MkChannelIdentifier a QubitChannel_ALL) (MkChannelIdentifier a QubitChannel_READOUT) = true
  /\ ch_match (MkChannelIdentifier a QubitChannel_READOUT) (MkChannelIdentifier a QubitChannel_ALL) = true.
Proof. unfold ch_match, ChannelIdentifier_eq. cbn. rewrite Z.eqb_refl. split; reflexivity. Qed.

Lemma any_match_intro a b x y : In x a -> In y b -> ch_match y x = true -> any_match a b = true.
Proof.
  intros Hx Hy M. unfold any_match. apply existsb_exists. exists x. split; [exact Hx|].
  apply existsb_exists. exists y. split; assumption.
Qed.

(* a block that lists a measurement of a, and the Barrier over all qubits: each shares a channel with the other *)
Lemma block_barrier_match D a t o : In a (r_qubits D) -> In (lf_meas a t) (op_leaves o) ->
  any_match (op_channels o) (op_channels (OLeaf (barrier_leaf D))) = true
  /\ any_match (op_channels (OLeaf (barrier_leaf D))) (op_channels o) = true.
Proof.
  intros Ha Hm. assert (Hc : In (MkChannelIdentifier a QubitChannel_READOUT) (op_channels o)).
  { apply (leaf_chan_in_op o (lf_meas a t)); [exact Hm | now left]. }
  pose proof (barrier_chans D a Ha) as Hb. destruct (match_all_readout a) as [M1 M2]. cbn [op_channels]. split.
  - exact (any_match_intro _ _ _ _ Hc Hb M1).
  - exact (any_match_intro _ _ _ _ Hb Hc M2).
Qed.

Lemma block_block_match a t t' o o' : In (lf_meas a t) (op_leaves o) -> In (lf_meas a t') (op_leaves o') ->
  any_match (op_channels o) (op_channels o') = true.
Proof.
  intros H H'. apply (any_match_intro _ _ (MkChannelIdentifier a QubitChannel_READOUT) (MkChannelIdentifier a QubitChannel_READOUT)).
  - apply (leaf_chan_in_op o (lf_meas a t)); [exact H | now left].
  - apply (leaf_chan_in_op o' (lf_meas a t')); [exact H' | now left].
  - unfold ch_match, ChannelIdentifier_eq. cbn. now rewrite Z.eqb_refl.
Qed.

(* ================================================================== 3. the loop over the rounds: one chain *)
Definition block_sub (env : denv) (D : rdesc) (init anc : list bool) (r : Z) (o : op) : Prop :=
  exists f, block_flat env D init anc r = Some f /\ o = OComp 1 (copy_nodes env f).

Definition last_is_barrier (D : rdesc) (ns : list node) : Prop :=
  forall n, nth_error ns (length ns - 1) = Some n -> n_op n = OLeaf (barrier_leaf D).

Lemma last_added env ns o l n : nth_error (add_node env ns o l) (length (add_node env ns o l) - 1) = Some n -> n_op n = o.
Proof.
  rewrite add_node_length, add_node_eq. replace (S (length ns) - 1)%nat with (length ns) by lia.
  rewrite nth_error_app2, Nat.sub_diag by lia. cbn. intros H. injection H as <-. apply new_node_op.
Qed.

Lemma rounds_loop env D init anc a : In a (r_qubits D) -> forall rounds ns,
  (forall r, In r rounds -> exists o, block_sub env D init anc r o /\ In (lf_meas a T_HERALDED) (op_leaves o)) ->
  is_chain ns -> (length ns + 2 * length rounds <= max_layers)%nat -> last_is_barrier D ns ->
  exists ns' subs, multi_round_rounds env D init anc rounds ns = Some ns' /\ is_chain ns' /\ last_is_barrier D ns'
    /\ Forall2 (block_sub env D init anc) rounds subs
    /\ map n_op ns' = map n_op ns ++ flat_map (fun o => [o; OLeaf (barrier_leaf D)]) subs.
Proof.
  intros Ha. induction rounds as [|r t IH]; intros ns HB C L B.
  - exists ns, []. cbn. rewrite app_nil_r. repeat split; try assumption. constructor.
  - destruct (HB r (or_introl eq_refl)) as (o & (f & Ef & ->) & Hm). cbn [multi_round_rounds].
    unfold block_flat, block_graph in Ef. rewrite Ef. unfold add_sub.
    set (o := OComp 1 (copy_nodes env f)) in *. set (ns1 := add_node env ns o LNone).
    set (ns2 := add_node env ns1 (OLeaf (lf C_Barrier (r_qubits D))) LNone).
    destruct (block_barrier_match D a T_HERALDED o Ha Hm) as [M1 M2]. cbn [length] in L.
    assert (C1 : is_chain ns1).
    { apply add_to_chain; [exact C | lia |]. intros n En. rewrite (B n En). exact M1. }
    assert (L1 : length ns1 = S (length ns)) by apply add_node_length.
    assert (C2 : is_chain ns2).
    { apply add_to_chain; [exact C1 | lia |]. intros n En. apply last_added in En. rewrite En. exact M2. }
    assert (L2 : length ns2 = S (S (length ns))) by (unfold ns2; now rewrite add_node_length, L1).
    destruct (IH ns2) as (ns' & subs & E & C' & B' & F & Ho).
    + intros r' Hr'. apply HB. now right.
    + exact C2.
    + lia.
    + intros n En. apply last_added in En. exact En.
    + exists ns', (o :: subs). split; [exact E|]. split; [exact C'|]. split; [exact B'|]. split.
      * constructor; [exists f; split; [exact Ef | reflexivity] | exact F].
      * rewrite Ho. unfold ns2, ns1. rewrite !add_node_ops. cbn [flat_map app]. now rewrite <- !app_assoc.
Qed.

Definition cal_sub (env : denv) (D : rdesc) : op := OComp 1 (copy_nodes env (cal_graph env (r_qubits D))).

Lemma multi_round_structure env D init anc a rounds : In a (r_qubits D) ->
  (forall r, In r rounds -> exists o, block_sub env D init anc r o /\ In (lf_meas a T_HERALDED) (op_leaves o)) ->
  (2 * length rounds + 1 <= max_layers)%nat ->
  In (lf_meas a T_HERALDED) (op_leaves (cal_sub env D)) ->
  exists ns subs, multi_round_nodes env D init anc rounds = Some ns /\ is_chain ns /\ (length ns <= max_layers)%nat
    /\ Forall2 (block_sub env D init anc) rounds subs
    /\ map n_op ns = flat_map (fun o => [o; OLeaf (barrier_leaf D)]) subs ++ [cal_sub env D].
Proof.
  intros Ha HB L Hc.
  destruct (rounds_loop env D init anc a Ha rounds [] HB is_chain_nil) as (ns1 & subs & E & C & B & F & Ho).
  { cbn [length]. lia. }
  { intros n En. destruct n; discriminate. }
  cbn [map app] in Ho.
  assert (L1 : length ns1 = (2 * length rounds)%nat).
  { rewrite <- (map_length n_op), Ho. clear -F. induction F as [|r o t s _ _ IH]; [reflexivity|]. cbn [flat_map app length]. rewrite IH. lia. }
  unfold multi_round_nodes. rewrite E. unfold add_sub. fold (cal_graph env (r_qubits D)). fold (cal_sub env D).
  exists (add_node env ns1 (cal_sub env D) LNone), subs. split; [reflexivity|]. split; [|split; [|split]].
  - apply add_to_chain; [exact C | lia |]. intros n En. rewrite (B n En).
    exact (proj1 (block_barrier_match D a T_HERALDED _ Ha Hc)).
  - rewrite add_node_length. lia.
  - exact F.
  - rewrite add_node_ops, Ho. reflexivity.
Qed.

(* ================================================================== 4. tags of the whole circuit from the tags of its blocks *)
Lemma tags_of_flat_map {X} q (g : X -> list leaf) l : tags_of q (flat_map g l) = flat_map (fun x => tags_of q (g x)) l.
Proof. induction l as [|x l IH]; [reflexivity|]. cbn [flat_map]. now rewrite tags_of_app, IH. Qed.

Lemma op_tags_barrier q D : op_tags q (OLeaf (barrier_leaf D)) = [].
Proof. reflexivity. Qed.

Lemma graph_tags_op env q ns : graph_tags env q ns = op_tags q (OComp 1 ns).
Proof. unfold graph_tags, op_tags. now rewrite listing_leaves. Qed.

Lemma chain_tags env q ns : is_chain ns -> (length ns <= max_layers)%nat ->
  graph_tags env q ns = flat_map (op_tags q) (map n_op ns).
Proof. intros C L. rewrite graph_tags_op. unfold op_tags at 1. rewrite chain_leaves by assumption. apply tags_of_flat_map. Qed.

Lemma multi_round_tags_eq rounds : multi_round_tags rounds = flat_map block_tags rounds ++ map fst calibration_labelled.
Proof.
  unfold multi_round_tags, multi_round_labelled. rewrite map_app. f_equal.
  induction rounds as [|r t IH]; [reflexivity|]. cbn [flat_map]. rewrite map_app, IH, map_map. cbn [fst]. now rewrite map_id.
Qed.

Lemma blocks_tags q D (W : Z -> list Z) (P : Z -> op -> Prop) rounds subs :
  Forall2 P rounds subs -> (forall r o, In r rounds -> P r o -> op_tags q o = W r) ->
  flat_map (op_tags q) (flat_map (fun o => [o; OLeaf (barrier_leaf D)]) subs) = flat_map W rounds.
Proof.
  induction 1 as [|r o t s Hro _ IH]; intros H; [reflexivity|]. cbn [flat_map app].
  rewrite op_tags_barrier, (H r o (or_introl eq_refl) Hro). cbn [app]. f_equal. apply IH.
  intros r' o' Hr'. apply H. now right.
Qed.

(* the composition: whatever makes each block carry block_tags and the calibration block cal_tags *)
Theorem multi_round_compose env D init anc a rounds :
  In a (r_qubits D) -> (2 * length rounds + 1 <= max_layers)%nat ->
  (forall r, In r rounds -> exists f, block_flat env D init anc r = Some f
      /\ In (lf_meas a T_HERALDED) (op_leaves (OComp 1 (copy_nodes env f)))
      /\ op_tags a (OComp 1 (copy_nodes env f)) = map z_of_tag (block_tags r)) ->
  In (lf_meas a T_HERALDED) (op_leaves (cal_sub env D)) -> op_tags a (cal_sub env D) = cal_tags ->
  exists ns, multi_round_nodes env D init anc rounds = Some ns
    /\ graph_tags env a ns = map z_of_tag (multi_round_tags rounds).
Proof.
  intros Ha L HB Hc Tc.
  destruct (multi_round_structure env D init anc a rounds Ha) as (ns & subs & E & C & Ln & F & Ho); try assumption.
  { intros r Hr. destruct (HB r Hr) as (f & Ef & Hm & _). exists (OComp 1 (copy_nodes env f)). split; [|exact Hm].
    exists f. split; [exact Ef | reflexivity]. }
  exists ns. split; [exact E|]. rewrite (chain_tags env a ns C Ln), Ho, flat_map_app. cbn [flat_map]. rewrite app_nil_r, Tc.
  rewrite (blocks_tags a D (fun r => map z_of_tag (block_tags r)) _ rounds subs F).
  - rewrite multi_round_tags_eq, map_app. unfold cal_tags. f_equal.
    clear. induction rounds as [|r t IH]; [reflexivity|]. cbn [flat_map]. now rewrite map_app, IH.
  - intros r o Hr (f' & Ef' & ->). destruct (HB r Hr) as (f & Ef & _ & T). rewrite Ef in Ef'. injection Ef' as <-. exact T.
Qed.
