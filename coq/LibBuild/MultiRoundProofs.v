(* LIBBUILD -- the measurement tags of every ancilla in the Core listing of the MULTI-ROUND constructor's circuit. *)
From Coq Require Import ZArith List Bool Lia Arith Permutation ZifyBool.
Import ListNotations.
From QCE Require Import Base.Prelude Core.Model Core.Run Core.BfsProofs Core.BfsWf Core.CopyProofs Core.CopyIso
  Core.FlattenProofs Core.FlattenIdem Core.UnrollProofs C02.Proofs C05.Proofs C06.Run C06.Proofs C09.Model C10.Proofs C12.Model C13.Model C13.Proofs
  LibBuild.Model LibBuild.Order LibBuild.Tags LibBuild.Counts LibBuild.Layouts LibBuild.Cert LibBuild.MultiRound.
From Gen Require Import Ident Classes Kernels.
Open Scope Z_scope.
(* max_layers = Z.to_nat 4999: keep conversion from computing the unary numeral *)
Local Opaque max_layers.

(* ================================================================== 1. graphs that are one chain *)
Definition pred_opt (i : nat) : option nat := match i with O => None | S k => Some k end.
Definition chain_parents (n : nat) : list (option nat) := map pred_opt (seq 0 n).

Lemma chain_parents_length n : length (chain_parents n) = n.
Proof. unfold chain_parents. now rewrite map_length, seq_length. Qed.

Lemma chain_parents_nth n i : (i < n)%nat -> nth_error (chain_parents n) i = Some (pred_opt i).
Proof.
  intros H. unfold chain_parents. rewrite nth_error_map.
  rewrite (nth_error_nth' (seq 0 n) 0%nat) by (now rewrite seq_length). now rewrite seq_nth.
Qed.

Lemma chain_parents_S n : chain_parents (S n) = chain_parents n ++ [pred_opt n].
Proof. unfold chain_parents. now rewrite seq_S, map_app. Qed.

Lemma chain_wf n : wf_parents (chain_parents n).
Proof.
  intros i p H. destruct (Nat.lt_ge_cases i n) as [L | L].
  - rewrite chain_parents_nth in H by exact L. destruct i; simpl in H; [discriminate|]. injection H as <-. lia.
  - assert (nth_error (chain_parents n) i = None) by (apply nth_error_None; now rewrite chain_parents_length). congruence.
Qed.

Lemma chain_mono n : mono_parents (chain_parents n).
Proof.
  intros i j a b L Ei Ej.
  assert (Hj : (j < n)%nat) by (rewrite <- (chain_parents_length n); apply nth_error_Some; congruence).
  rewrite chain_parents_nth in Ei, Ej by lia. injection Ei as <-. injection Ej as <-.
  destruct i, j; simpl; lia.
Qed.

Lemma chain_depth n i : (i < n)%nat -> depth (chain_parents n) i = i.
Proof.
  induction i as [|i IH]; intros H.
  - apply depth_root. now rewrite chain_parents_nth.
  - rewrite (depth_child _ _ i (chain_wf n)) by (now rewrite chain_parents_nth). rewrite IH by lia. reflexivity.
Qed.

Lemma chain_bfs n : (n <= max_layers)%nat -> bfs (chain_parents n) = seq 0 n.
Proof.
  intros H. rewrite <- (chain_parents_length n) at 2. apply mono_bfs_seq; [apply chain_wf | apply chain_mono |].
  intros i Hi. rewrite chain_parents_length in Hi. rewrite chain_depth by exact Hi. lia.
Qed.

Definition is_chain (ns : list node) : Prop := parents ns = chain_parents (length ns).

Lemma is_chain_nil : is_chain [].
Proof. reflexivity. Qed.

(* adding an operation without relation to a chain whose last node shares a channel with it extends the chain *)
Lemma add_to_chain env ns o :
  is_chain ns -> (length ns <= max_layers)%nat ->
  (forall n, nth_error ns (length ns - 1) = Some n -> any_match (op_channels o) (op_channels (n_op n)) = true) ->
  is_chain (add_node env ns o LNone).
Proof.
  intros C L M. unfold is_chain. rewrite add_node_eq, app_length, parents_app, C. simpl length.
  rewrite Nat.add_1_r, chain_parents_S. f_equal. unfold new_node. cbn [parents map n_parent]. f_equal.
  unfold leaf_at_any. rewrite C, chain_bfs by exact L.
  destruct ns as [|n0 ns'] eqn:E; [reflexivity|]. rewrite <- E in *.
  assert (Hl : length ns = S (length ns')) by (subst ns; reflexivity). rewrite Hl.
  rewrite seq_S, rev_app_distr. cbn [rev app find Nat.add pred_opt].
  destruct (nth_error ns (length ns - 1)) as [n|] eqn:En.
  - specialize (M n eq_refl). replace (length ns - 1)%nat with (length ns') in En by lia.
    rewrite (nth_error_nth _ _ [] (map_nth_error (fun n => op_channels (n_op n)) _ _ En)). rewrite M. reflexivity.
  - apply nth_error_None in En. lia.
Qed.

Lemma chain_leaves ns : is_chain ns -> (length ns <= max_layers)%nat ->
  op_leaves (OComp 1 ns) = flat_map (fun o => op_leaves o) (map n_op ns).
Proof.
  intros C L. rewrite op_leaves_comp, C, chain_bfs, flat_map_at_node_seq by exact L.
  rewrite flat_map_concat_map, flat_map_concat_map, map_map. reflexivity.
Qed.

(* ================================================================== 2. the channels of a listed leaf are channels of the block *)
Lemma chid_exact_eq x y : chid_exact_eqb x y = true -> x = y.
Proof.
  destruct x as [i c], y as [j d]. unfold chid_exact_eqb. cbn. intros H. apply andb_true_iff in H as [H1 H2].
  apply Z.eqb_eq in H1. subst j. destruct c, d; try discriminate; reflexivity.
Qed.

Lemma uniq_chans_keeps l : forall seen x, In x l -> In x seen \/ In x (uniq_chans seen l).
Proof.
  induction l as [|y l IH]; intros seen x H; [destruct H|]. cbn [uniq_chans].
  destruct (existsb (chid_exact_eqb y) seen) eqn:E.
  - destruct H as [<- | H]; [|apply IH; exact H]. left. apply existsb_exists in E as (z & Hz & Ez).
    apply chid_exact_eq in Ez. now subst z.
  - destruct H as [<- | H]; [right; now left|]. destruct (IH (y :: seen) x H) as [[<- | S] | U]; [right; now left | now left | right; now right].
Qed.

Lemma leaf_chan_in_op o : forall l c, In l (op_leaves o) -> In c (l_chans l) -> In c (op_channels o).
Proof.
  induction o as [l0 | r ns IH] using op_ind'; intros l c Hl Hc.
  - destruct Hl as [<- | []]. exact Hc.
  - rewrite op_leaves_comp in Hl. apply in_flat_map in Hl as (i & Hi & Hl). unfold at_node in Hl.
    destruct (nth_error ns i) as [n|] eqn:En; [|destruct Hl].
    rewrite Forall_forall in IH. specialize (IH n (nth_error_In _ _ En) l c Hl Hc).
    rewrite op_channels_unfold.
    destruct (uniq_chans_keeps (flat_map (fun i => nth i (map (fun n => op_channels (n_op n)) ns) []) (bfs (parents ns))) [] c) as [[] | U]; [|exact U].
    apply in_flat_map. exists i. split; [exact Hi|].
    now rewrite (nth_error_nth _ _ [] (map_nth_error (fun n => op_channels (n_op n)) _ _ En)).
Qed.

Definition barrier_leaf (D : rdesc) : leaf := lf C_Barrier (r_qubits D).

Lemma barrier_chans D a : In a (r_qubits D) -> In (MkChannelIdentifier a QubitChannel_ALL) (l_chans (barrier_leaf D)).
Proof. intros H. unfold barrier_leaf, l_chans, lf. cbn. apply in_map_iff. exists a. split; [reflexivity | exact H]. Qed.

Lemma meas_chans a t : l_chans (lf_meas a t) = [MkChannelIdentifier a QubitChannel_READOUT].
Proof. reflexivity. Qed.

Lemma match_all_readout a : ch_match (MkChannelIdentifier a QubitChannel_ALL) (MkChannelIdentifier a QubitChannel_READOUT) = true
  /\ ch_match (MkChannelIdentifier a QubitChannel_READOUT) (MkChannelIdentifier a QubitChannel_ALL) = true.
Proof. unfold ch_match, ChannelIdentifier_eq. cbn. rewrite Z.eqb_refl. split; reflexivity. Qed.

Lemma any_match_intro a b x y : In x a -> In y b -> ch_match y x = true -> any_match a b = true.
Proof.
  intros Hx Hy M. unfold any_match. apply existsb_exists. exists x. split; [exact Hx|].
  apply existsb_exists. exists y. split; assumption.
Qed.

(* a block that lists a measurement of a, and the Barrier over all qubits: each shares a channel with the other *)
Lemma block_barrier_match D a t o : In a (r_qubits D) -> In (lf_meas a t) (op_leaves o) ->
  any_match (op_channels o) (op_channels (OLeaf (barrier_leaf D))) = true
  /\ any_match (op_channels (OLeaf (barrier_leaf D))) (op_channels o) = true.
Proof.
  intros Ha Hm. assert (Hc : In (MkChannelIdentifier a QubitChannel_READOUT) (op_channels o)).
  { apply (leaf_chan_in_op o (lf_meas a t)); [exact Hm | now left]. }
  pose proof (barrier_chans D a Ha) as Hb. destruct (match_all_readout a) as [M1 M2]. cbn [op_channels]. split.
  - exact (any_match_intro _ _ _ _ Hc Hb M1).
  - exact (any_match_intro _ _ _ _ Hb Hc M2).
Qed.

Lemma block_block_match a t t' o o' : In (lf_meas a t) (op_leaves o) -> In (lf_meas a t') (op_leaves o') ->
  any_match (op_channels o) (op_channels o') = true.
Proof.
  intros H H'. apply (any_match_intro _ _ (MkChannelIdentifier a QubitChannel_READOUT) (MkChannelIdentifier a QubitChannel_READOUT)).
  - apply (leaf_chan_in_op o (lf_meas a t)); [exact H | now left].
  - apply (leaf_chan_in_op o' (lf_meas a t')); [exact H' | now left].
  - unfold ch_match, ChannelIdentifier_eq. cbn. now rewrite Z.eqb_refl.
Qed.

(* ================================================================== 3. the loop over the rounds: one chain *)
Definition block_sub (env : denv) (D : rdesc) (init anc : list bool) (r : Z) (o : op) : Prop :=
  exists f, block_flat env D init anc r = Some f /\ o = OComp 1 (copy_nodes env f).

Definition last_is_barrier (D : rdesc) (ns : list node) : Prop :=
  forall n, nth_error ns (length ns - 1) = Some n -> n_op n = OLeaf (barrier_leaf D).

Lemma last_added env ns o l n : nth_error (add_node env ns o l) (length (add_node env ns o l) - 1) = Some n -> n_op n = o.
Proof.
  rewrite add_node_length, add_node_eq. replace (S (length ns) - 1)%nat with (length ns) by lia.
  rewrite nth_error_app2, Nat.sub_diag by lia. cbn. intros H. injection H as <-. apply new_node_op.
Qed.

Lemma rounds_loop env D init anc a : In a (r_qubits D) -> forall rounds ns,
  (forall r, In r rounds -> exists o, block_sub env D init anc r o /\ In (lf_meas a T_HERALDED) (op_leaves o)) ->
  is_chain ns -> (length ns + 2 * length rounds <= max_layers)%nat -> last_is_barrier D ns ->
  exists ns' subs, multi_round_rounds env D init anc rounds ns = Some ns' /\ is_chain ns' /\ last_is_barrier D ns'
    /\ Forall2 (block_sub env D init anc) rounds subs
    /\ map n_op ns' = map n_op ns ++ flat_map (fun o => [o; OLeaf (barrier_leaf D)]) subs.
Proof.
  intros Ha. induction rounds as [|r t IH]; intros ns HB C L B.
  - exists ns, []. cbn. rewrite app_nil_r. repeat split; try assumption. constructor.
  - destruct (HB r (or_introl eq_refl)) as (o & (f & Ef & ->) & Hm). cbn [multi_round_rounds].
    unfold block_flat, block_graph in Ef. rewrite Ef. unfold add_sub.
    set (o := OComp 1 (copy_nodes env f)) in *. set (ns1 := add_node env ns o LNone).
    set (ns2 := add_node env ns1 (OLeaf (lf C_Barrier (r_qubits D))) LNone).
    destruct (block_barrier_match D a T_HERALDED o Ha Hm) as [M1 M2]. cbn [length] in L.
    assert (C1 : is_chain ns1).
    { apply add_to_chain; [exact C | lia |]. intros n En. rewrite (B n En). exact M1. }
    assert (L1 : length ns1 = S (length ns)) by apply add_node_length.
    assert (C2 : is_chain ns2).
    { apply add_to_chain; [exact C1 | lia |]. intros n En. apply last_added in En. rewrite En. exact M2. }
    assert (L2 : length ns2 = S (S (length ns))) by (unfold ns2; now rewrite add_node_length, L1).
    destruct (IH ns2) as (ns' & subs & E & C' & B' & F & Ho).
    + intros r' Hr'. apply HB. now right.
    + exact C2.
    + lia.
    + intros n En. apply last_added in En. exact En.
    + exists ns', (o :: subs). split; [exact E|]. split; [exact C'|]. split; [exact B'|]. split.
      * constructor; [exists f; split; [exact Ef | reflexivity] | exact F].
      * rewrite Ho. unfold ns2, ns1. rewrite !add_node_ops. cbn [flat_map app]. now rewrite <- !app_assoc.
Qed.

Definition cal_sub (env : denv) (D : rdesc) : op := OComp 1 (copy_nodes env (cal_graph env (r_qubits D))).

Lemma multi_round_structure env D init anc a rounds : In a (r_qubits D) ->
  (forall r, In r rounds -> exists o, block_sub env D init anc r o /\ In (lf_meas a T_HERALDED) (op_leaves o)) ->
  (2 * length rounds + 1 <= max_layers)%nat ->
  In (lf_meas a T_HERALDED) (op_leaves (cal_sub env D)) ->
  exists ns subs, multi_round_nodes env D init anc rounds = Some ns /\ is_chain ns /\ (length ns <= max_layers)%nat
    /\ Forall2 (block_sub env D init anc) rounds subs
    /\ map n_op ns = flat_map (fun o => [o; OLeaf (barrier_leaf D)]) subs ++ [cal_sub env D].
Proof.
  intros Ha HB L Hc.
  destruct (rounds_loop env D init anc a Ha rounds [] HB is_chain_nil) as (ns1 & subs & E & C & B & F & Ho).
  { cbn [length]. lia. }
  { intros n En. destruct n; discriminate. }
  cbn [map app] in Ho.
  assert (L1 : length ns1 = (2 * length rounds)%nat).
  { rewrite <- (map_length n_op), Ho. clear -F. induction F as [|r o t s _ _ IH]; [reflexivity|]. cbn [flat_map app length]. rewrite IH. lia. }
  unfold multi_round_nodes. rewrite E. unfold add_sub. fold (cal_graph env (r_qubits D)). fold (cal_sub env D).
  exists (add_node env ns1 (cal_sub env D) LNone), subs. split; [reflexivity|]. split; [|split; [|split]].
  - apply add_to_chain; [exact C | lia |]. intros n En. rewrite (B n En).
    exact (proj1 (block_barrier_match D a T_HERALDED _ Ha Hc)).
  - rewrite add_node_length. lia.
  - exact F.
  - rewrite add_node_ops, Ho. reflexivity.
Qed.

(* ================================================================== 4. tags of the whole circuit from the tags of its blocks *)
Lemma tags_of_flat_map {X} q (g : X -> list leaf) l : tags_of q (flat_map g l) = flat_map (fun x => tags_of q (g x)) l.
Proof. induction l as [|x l IH]; [reflexivity|]. cbn [flat_map]. now rewrite tags_of_app, IH. Qed.

Lemma op_tags_barrier q D : op_tags q (OLeaf (barrier_leaf D)) = [].
Proof. reflexivity. Qed.

Lemma graph_tags_op env q ns : graph_tags env q ns = op_tags q (OComp 1 ns).
Proof. unfold graph_tags, op_tags. now rewrite listing_leaves. Qed.

Lemma chain_tags env q ns : is_chain ns -> (length ns <= max_layers)%nat ->
  graph_tags env q ns = flat_map (op_tags q) (map n_op ns).
Proof. intros C L. rewrite graph_tags_op. unfold op_tags at 1. rewrite chain_leaves by assumption. apply tags_of_flat_map. Qed.

Lemma multi_round_tags_eq rounds : multi_round_tags rounds = flat_map block_tags rounds ++ map fst calibration_labelled.
Proof.
  unfold multi_round_tags, multi_round_labelled. rewrite map_app. f_equal.
  induction rounds as [|r t IH]; [reflexivity|]. cbn [flat_map]. rewrite map_app, IH, map_map. cbn [fst]. now rewrite map_id.
Qed.

Lemma blocks_tags q D (W : Z -> list Z) (P : Z -> op -> Prop) rounds subs :
  Forall2 P rounds subs -> (forall r o, In r rounds -> P r o -> op_tags q o = W r) ->
  flat_map (op_tags q) (flat_map (fun o => [o; OLeaf (barrier_leaf D)]) subs) = flat_map W rounds.
Proof.
  induction 1 as [|r o t s Hro _ IH]; intros H; [reflexivity|]. cbn [flat_map app].
  rewrite op_tags_barrier, (H r o (or_introl eq_refl) Hro). cbn [app]. f_equal. apply IH.
  intros r' o' Hr'. apply H. now right.
Qed.

(* the composition: whatever makes each block carry block_tags and the calibration block cal_tags *)
Theorem multi_round_compose env D init anc a rounds :
  In a (r_qubits D) -> (2 * length rounds + 1 <= max_layers)%nat ->
  (forall r, In r rounds -> exists f, block_flat env D init anc r = Some f
      /\ In (lf_meas a T_HERALDED) (op_leaves (OComp 1 (copy_nodes env f)))
      /\ op_tags a (OComp 1 (copy_nodes env f)) = map z_of_tag (block_tags r)) ->
  In (lf_meas a T_HERALDED) (op_leaves (cal_sub env D)) -> op_tags a (cal_sub env D) = cal_tags ->
  exists ns, multi_round_nodes env D init anc rounds = Some ns
    /\ graph_tags env a ns = map z_of_tag (multi_round_tags rounds).
Proof.
  intros Ha L HB Hc Tc.
  destruct (multi_round_structure env D init anc a rounds Ha) as (ns & subs & E & C & Ln & F & Ho); try assumption.
  { intros r Hr. destruct (HB r Hr) as (f & Ef & Hm & _). exists (OComp 1 (copy_nodes env f)). split; [|exact Hm].
    exists f. split; [exact Ef | reflexivity]. }
  exists ns. split; [exact E|]. rewrite (chain_tags env a ns C Ln), Ho, flat_map_app. cbn [flat_map]. rewrite app_nil_r, Tc.
  rewrite (blocks_tags a D (fun r => map z_of_tag (block_tags r)) _ rounds subs F).
  - rewrite multi_round_tags_eq, map_app. unfold cal_tags. f_equal.
    clear. induction rounds as [|r t IH]; [reflexivity|]. cbn [flat_map]. now rewrite map_app, IH.
  - intros r o Hr (f' & Ef' & ->). destruct (HB r Hr) as (f & Ef & _ & T). rewrite Ef in Ef'. injection Ef' as <-. exact T.
Qed.

(* ================================================================== 5. one block *)
(* the constructors, unrolling and flattening never consult the duration setting *)
Lemma flatten_env e1 e2 ns : flatten e1 ns = flatten e2 ns.
Proof. reflexivity. Qed.

Lemma block_flat_env e1 e2 D init anc r : block_flat e1 D init anc r = block_flat e2 D init anc r.
Proof.
  unfold block_flat, block_graph. rewrite (run_prog_env_indep e1 e2), (apply_modifiers_env_indep e1 e2). apply flatten_env.
Qed.

(* the flattened graph is one the copy theorems (C05) apply to *)
Lemma flat_fold_ginv env es : forall done new m new' m', flat_inv env done new m -> ginv new ->
  fold_left (flat_step env) es (Some (new, m)) = Some (new', m') -> ginv new'.
Proof.
  induction es as [|e es IH]; intros done new m new' m' Inv G H; cbn [fold_left] in H.
  - inversion H; subst. exact G.
  - rewrite flat_step_eq in H. destruct (flat_link m (ge_link e)) as [k|] eqn:K; [|rewrite flat_fold_none in H; discriminate].
    eapply (IH (done ++ [e])); [apply flat_inv_step; eassumption | | exact H].
    apply add_node_ginv; [exact G|]. pose proof (flat_inv_length _ _ _ _ Inv) as Ln. destruct Inv as (_ & -> & _).
    apply flat_link_in_range in K. rewrite map_length in K. now rewrite Ln.
Qed.

Lemma flatten_ginv env ns f : flatten env ns = Some f -> ginv f.
Proof.
  rewrite flatten_eq. destruct (fold_left _ _ _) as [[f' m]|] eqn:E; simpl; intros H; inversion H; subst.
  exact (flat_fold_ginv env _ [] [] [] f m (flat_inv_nil env) ginv_nil E).
Qed.

Lemma flatten_cwf env ns f r : flatten env ns = Some f -> (Z.of_nat (length f) <= 4999)%Z -> cwf (OComp r f).
Proof.
  intros H L. constructor.
  - exact (flatten_ginv env ns f H).
  - apply small_all_listed; [exact (flatten_wf env ns f H)|]. pose proof max_layers_eq. lia.
  - apply flatten_no_comp in H. rewrite Forall_forall in *. intros n Hn. specialize (H n Hn).
    destruct (n_op n); [constructor | discriminate].
Qed.

Lemma head_is_inv t l : head_is t l = true -> exists l', l = t :: l'.
Proof. destruct l as [|x l']; [discriminate|]. cbn. intros H. apply Z.eqb_eq in H. subst. now exists l'. Qed.

Lemma heralded_in_prog D init anc r a : In a (r_qubits D) -> In (lf_meas a T_HERALDED) (prog_expanded (rep_code_prog D init anc r)).
Proof.
  intros Ha. rewrite rep_code_prog_split. unfold prog_expanded. cbn [flat_map]. apply in_or_app. left.
  unfold first_cmd. rewrite cmd_expanded_sub. change (Z.to_nat 1) with 1%nat. rewrite rep_app_one.
  apply in_flat_map. exists (meas T_HERALDED a). split; [|now left].
  unfold circuit_initialize_with_heralded. apply in_or_app. right. apply in_or_app. left. now apply in_map.
Qed.

(* the listing of the flattened block and of its nested copy: the same leaves; a permutation of what the program expands to *)
Lemma block_flat_leaves env D init anc r f : block_small D init anc r -> block_flat env D init anc r = Some f ->
  op_leaves (OComp 1 (copy_nodes env f)) = op_leaves (OComp 1 f)
  /\ Permutation (op_leaves (OComp 1 f)) (prog_expanded (rep_code_prog D init anc r)).
Proof.
  intros [S N] Ef. unfold block_flat in Ef. set (un := block_graph env D init anc r) in *.
  set (p := rep_code_prog D init anc r) in *.
  assert (Lun : length (listing env un) = n_ops p).
  { rewrite <- (unrolled_n_ops env p S). unfold unrolled_leaves. now rewrite map_length. }
  assert (Lf : (Z.of_nat (length f) <= 4999)%Z).
  { rewrite (flatten_length env un f Ef), (glisting_length env un), Lun. exact N. }
  split.
  - rewrite <- !(listing_leaves env). f_equal. apply copy_same_listing. exact (flatten_cwf env un f 1 Ef Lf).
  - rewrite <- (listing_leaves env). etransitivity.
    + apply (flatten_multiset_bound env un f Ef). rewrite Lun. exact N.
    + exact (unroll_listing_multiset env p S).
Qed.

Lemma block_facts env D init anc r a :
  desc_ok D -> 0 <= r -> block_small D init anc r -> In a (r_anc D) -> block_heralded_first D init anc r a = true ->
  exists f, block_flat env D init anc r = Some f
    /\ In (lf_meas a T_HERALDED) (op_leaves (OComp 1 (copy_nodes env f)))
    /\ op_tags a (OComp 1 (copy_nodes env f)) = map z_of_tag (block_tags r).
Proof.
  intros K Hr Sm Ha HF. unfold block_heralded_first in HF. rewrite (block_flat_env model_env env) in HF.
  destruct (block_flat env D init anc r) as [f|] eqn:Ef; [|discriminate]. exists f. split; [reflexivity|].
  destruct (block_flat_leaves env D init anc r f Sm Ef) as [Ec P]. unfold op_tags. rewrite Ec.
  assert (Hq : In a (r_qubits D)) by (destruct K as (_ & _ & _ & I & _); now apply I).
  split.
  - apply (Permutation_in _ (Permutation_sym P)). now apply heralded_in_prog.
  - rewrite graph_tags_op in HF. unfold op_tags in HF. apply head_is_inv in HF as (T' & ET).
    pose proof (tags_of_perm a _ _ P) as PT. rewrite ET in PT. fold (ptags a (rep_code_prog D init anc r)) in PT.
    rewrite rep_code_prog_split, ptags_cons, (ptags_first_cmd a D init anc K Hq), (ptags_other_anc a D r K Hr Ha) in PT.
    cbn [app] in PT. apply Permutation_cons_inv in PT.
    rewrite ET, <- (want_anc_tags_block r Hr). unfold want_anc_tags. f_equal.
    destruct (r =? 0).
    + apply Permutation_length_1_inv. symmetry. exact PT.
    + apply Permutation_repeat. exact PT.
Qed.

(* ================================================================== 6. graphs built by a command list: node by node *)
Lemma run_cmds_app env c1 : forall c2 ns, run_cmds env (c1 ++ c2) ns = run_cmds env c2 (run_cmds env c1 ns).
Proof. induction c1 as [|c t IH]; intros c2 ns; [reflexivity|]. cbn [app]. rewrite !run_cmds_cons. apply IH. Qed.

Lemma run_cmds_extends env cs : forall ns, exists t, run_cmds env cs ns = ns ++ t.
Proof.
  induction cs as [|c t IH]; intros ns; [exists []; now rewrite app_nil_r|].
  rewrite run_cmds_cons, add_node_eq. destruct (IH (ns ++ [new_node env ns (cmd_op env c) (cmd_link c)])) as (u & ->).
  exists ([new_node env ns (cmd_op env c) (cmd_link c)] ++ u). now rewrite app_assoc.
Qed.

(* node |c1| of the graph of c1 ++ c :: c2 is what add_to_graph makes of c in the graph of c1 *)
Lemma node_at env c1 c c2 :
  nth_error (run_cmds env (c1 ++ c :: c2) []) (length c1) = Some (new_node env (run_cmds env c1 []) (cmd_op env c) (cmd_link c)).
Proof.
  rewrite run_cmds_app, run_cmds_cons, add_node_eq.
  destruct (run_cmds_extends env c2 (run_cmds env c1 [] ++ [new_node env (run_cmds env c1 []) (cmd_op env c) (cmd_link c)])) as (u & ->).
  rewrite <- app_assoc. rewrite nth_error_app2 by (rewrite run_cmds_length; cbn; lia).
  rewrite run_cmds_length. cbn [length Nat.add]. now rewrite Nat.sub_diag.
Qed.

Lemma prefix_node env c1 c2 i : (i < length c1)%nat ->
  nth_error (run_cmds env (c1 ++ c2) []) i = nth_error (run_cmds env c1 []) i.
Proof.
  intros H. rewrite run_cmds_app. destruct (run_cmds_extends env c2 (run_cmds env c1 [])) as (u & ->).
  apply nth_error_app1. rewrite run_cmds_length. cbn. lia.
Qed.

Lemma node_chans_cmds env cs i c : nth_error cs i = Some c -> node_chans (run_cmds env cs []) i = op_channels (cmd_op env c).
Proof.
  intros H. unfold node_chans. rewrite <- (map_map n_op op_channels), run_cmds_ops. cbn [map app].
  rewrite map_map. exact (nth_error_nth _ _ [] (map_nth_error (fun c => op_channels (cmd_op env c)) _ _ H)).
Qed.

(* an operation added without relation that shares no channel with anything added before is a root *)
Lemma no_match_root env c1 o :
  Forall (fun c => any_match (op_channels o) (op_channels (cmd_op env c)) = false) c1 ->
  new_node env (run_cmds env c1 []) o LNone = Node None LNone o.
Proof.
  intros F. unfold new_node. rewrite leaf_at_any_none_intro; [reflexivity|]. intros k Hk.
  apply bfs_lt_length in Hk. rewrite parents_length, run_cmds_length in Hk. cbn [length Nat.add] in Hk.
  destruct (nth_error c1 k) as [c|] eqn:E; [|apply nth_error_None in E; lia].
  rewrite (node_chans_cmds env c1 k c E). rewrite Forall_forall in F. apply F. eapply nth_error_In. exact E.
Qed.

Definition reset_cmds (Q : list Z) : list cmd := map (fun q => add (lf C_Reset [q])) Q.
Definition chan (q : Z) (c : QubitChannel) : ChannelIdentifier := MkChannelIdentifier q c.

Lemma match_all q c : ch_match (chan q QubitChannel_ALL) (chan q c) = true.
Proof. unfold ch_match, ChannelIdentifier_eq, chan. cbn. rewrite Z.eqb_refl. destruct c; reflexivity. Qed.

Lemma nomatch_other q q' c c' : q <> q' -> ch_match (chan q c) (chan q' c') = false.
Proof. intros H. unfold ch_match, ChannelIdentifier_eq, chan. cbn. apply Z.eqb_neq in H. rewrite H. reflexivity. Qed.

Lemma any_match_single x y : any_match [x] [y] = ch_match y x.
Proof. unfold any_match. cbn [existsb]. now rewrite !orb_false_r. Qed.

Lemma meas_cmd_chans env q t : op_channels (cmd_op env (meas t q)) = [chan q QubitChannel_READOUT].
Proof. reflexivity. Qed.

Lemma reset_chans env q : op_channels (cmd_op env (add (lf C_Reset [q]))) = [chan q QubitChannel_ALL].
Proof. reflexivity. Qed.

(* the Resets of distinct qubits at the start of a command list are roots of its graph *)
Lemma reset_root env Q1 q Q2 rest : NoDup (Q1 ++ q :: Q2) ->
  nth_error (run_cmds env (reset_cmds (Q1 ++ q :: Q2) ++ rest) []) (length Q1) = Some (Node None LNone (OLeaf (lf C_Reset [q]))).
Proof.
  intros N. unfold reset_cmds. rewrite map_app. cbn [map]. rewrite <- app_assoc. cbn [app].
  rewrite <- (map_length (fun q => add (lf C_Reset [q])) Q1). rewrite node_at. f_equal.
  apply no_match_root. apply Forall_map. apply Forall_forall. intros q' Hq'. cbn [cmd_op add op_channels].
  change (l_chans (lf C_Reset [q])) with [chan q QubitChannel_ALL]. change (l_chans (lf C_Reset [q'])) with [chan q' QubitChannel_ALL].
  cbn. rewrite nomatch_other; [reflexivity|]. intros ->. apply NoDup_remove_2 in N. apply N. apply in_or_app. now left.
Qed.

(* an operation with a channel on one of those qubits is not a root, whatever its relation *)
Definition touches (env : denv) (Q : list Z) (c : cmd) : Prop := exists q c', In q Q /\ In (chan q c') (op_channels (cmd_op env c)).

Lemma touching_not_root env Q c1 c c2 : NoDup Q -> touches env Q c ->
  exists n, nth_error (run_cmds env ((reset_cmds Q ++ c1) ++ c :: c2) []) (length (reset_cmds Q ++ c1)) = Some n /\ n_parent n <> None.
Proof.
  intros N (q & c' & Hq & Hc). rewrite node_at. eexists. split; [reflexivity|]. intros E.
  apply new_node_root in E. apply in_split in Hq as (Q1 & Q2 & ->).
  pose proof (reset_root env Q1 q Q2 c1 N) as R.
  assert (W : wf_parents (parents (run_cmds env (reset_cmds (Q1 ++ q :: Q2) ++ c1) []))) by apply run_prog_wf.
  assert (L : In (length Q1) (bfs (parents (run_cmds env (reset_cmds (Q1 ++ q :: Q2) ++ c1) [])))).
  { apply root_listed; [exact W|]. rewrite parents_nth_error, R. reflexivity. }
  pose proof (leaf_at_any_none _ _ E _ L) as M.
  assert (Ec : nth_error (reset_cmds (Q1 ++ q :: Q2) ++ c1) (length Q1) = Some (add (lf C_Reset [q]))).
  { unfold reset_cmds. rewrite map_app. cbn [map]. rewrite <- app_assoc. cbn [app].
    rewrite nth_error_app2 by (rewrite map_length; lia). now rewrite map_length, Nat.sub_diag. }
  rewrite (node_chans_cmds env _ _ _ Ec), reset_chans in M.
  assert (any_match (op_channels (cmd_op env c)) [chan q QubitChannel_ALL] = true) as M'.
  { apply (any_match_intro _ _ (chan q c') (chan q QubitChannel_ALL)); [exact Hc | now left | apply match_all]. }
  congruence.
Qed.

(* ================================================================== 7. one calibration state: heralded before final *)
Lemma two_in_order (F : nat -> list Z) l x y u v : before l x y -> F x = [u] -> F y = [v] ->
  length (flat_map F l) = 2%nat -> flat_map F l = [u; v].
Proof.
  intros (l1 & l2 & l3 & ->) Fx Fy. rewrite !flat_map_app. cbn [flat_map]. rewrite !flat_map_app. cbn [flat_map]. rewrite Fx, Fy.
  rewrite !app_length. cbn [length]. intros H.
  assert (E1 : flat_map F l1 = []) by (apply length_zero_iff_nil; lia).
  assert (E2 : flat_map F l2 = []) by (apply length_zero_iff_nil; lia).
  assert (E3 : flat_map F l3 = []) by (apply length_zero_iff_nil; lia).
  now rewrite E1, E2, E3.
Qed.

Lemma ptags_measr_one q t x r : ptags q [CAdd (lf_meas x t) r] = if x =? q then [t] else [].
Proof. unfold ptags, prog_expanded, tags_of, is_meas_of, lf_meas. simpl. destruct (x =? q); reflexivity. Qed.

Lemma ptags_measr_notin q t r xs : ~ In q xs -> ptags q (map (fun x => CAdd (lf_meas x t) r) xs) = [].
Proof.
  induction xs as [|x xs IH]; intros H; [reflexivity|]. cbn [map]. rewrite ptags_cons, ptags_measr_one.
  destruct (x =? q) eqn:E; [apply Z.eqb_eq in E; subst; exfalso; apply H; now left|].
  apply IH. intros Hq. apply H. now right.
Qed.

Lemma ptags_measr_in q t r xs : NoDup xs -> In q xs -> ptags q (map (fun x => CAdd (lf_meas x t) r) xs) = [t].
Proof.
  induction xs as [|x xs IH]; intros N H; [destruct H|]. inversion N as [|? ? Nx Nxs]; subst.
  cbn [map]. rewrite ptags_cons, ptags_measr_one. destruct (x =? q) eqn:E.
  - apply Z.eqb_eq in E. subst. rewrite ptags_measr_notin by exact Nx. reflexivity.
  - destruct H as [H|H]; [subst; rewrite Z.eqb_refl in E; discriminate|]. now rewrite IH.
Qed.

(* a graph of leaves is not changed by apply_modifiers *)
Lemma flat_unrolled env p : flat_body p = true -> apply_modifiers env 1 (run_prog env p) = run_prog env p.
Proof.
  intros H. rewrite unroll_top. apply map_id_on. eapply Forall_impl; [|exact (run_prog_flat env p H)].
  intros nd. apply unroll_node_leaf.
Qed.

Lemma rel_last_some acc : (1 <= length acc)%nat -> rel_last acc = Some (RelationType_FOLLOWED_BY, (length acc - 1)%nat).
Proof. destruct acc; cbn [length]; [lia | reflexivity]. Qed.

Section CalState.
  Variable env : denv.
  Variables (Q1 Q2 : list Z) (a s : Z).
  Let Q := Q1 ++ a :: Q2.
  Hypothesis N : NoDup Q.
  Hypothesis Small : 5 * Z.of_nat (length Q) <= 4999.

  Let A := reset_cmds Q ++ map (meas T_HERALDED) Q.
  Let xpart (q : Z) : list cmd :=
    if s =? 0 then [] else if s =? 1 then [CAdd (lf C_Rx180 [q]) (rel_last A)]
    else [CAdd (lf C_Rx180 [q]) (rel_last A); add (lf C_Rx180ef [q])].
  Let X := flat_map xpart Q.
  Let B := A ++ X.
  Let mf (q : Z) : cmd := CAdd (lf_meas q T_FINAL) (rel_last B).
  Let cmds := B ++ map mf Q.
  Let g := run_cmds env cmds [].

  Lemma cs_cmds : calibrate_with_heralded Q s = cmds.
  Proof. reflexivity. Qed.

  Lemma cs_Q_in : In a Q.
  Proof. unfold Q. apply in_or_app. right. now left. Qed.

  Lemma cs_xpart_len q : (length (xpart q) <= 2)%nat.
  Proof. unfold xpart. destruct (s =? 0); [cbn; lia|]. destruct (s =? 1); cbn; lia. Qed.

  Lemma cs_X_len : (length X <= 2 * length Q)%nat.
  Proof.
    assert (H : forall l, (length (flat_map xpart l) <= 2 * length l)%nat).
    { induction l as [|q t IH]; [cbn; lia|]. cbn [flat_map]. rewrite app_length. pose proof (cs_xpart_len q). cbn [length]. lia. }
    apply H.
  Qed.

  Lemma cs_A_len : length A = (2 * length Q)%nat.
  Proof. unfold A, reset_cmds. rewrite app_length, !map_length. lia. Qed.

  Lemma cs_B_len : (2 * length Q <= length B <= 4 * length Q)%nat.
  Proof. unfold B. rewrite app_length, cs_A_len. pose proof cs_X_len. lia. Qed.

  Lemma cs_len : length cmds = (length B + length Q)%nat.
  Proof. unfold cmds. now rewrite app_length, map_length. Qed.

  Lemma cs_Q_pos : (1 <= length Q)%nat.
  Proof. unfold Q. rewrite app_length. cbn. lia. Qed.

  Lemma cs_flat : flat_body cmds = true.
  Proof.
    unfold flat_body, cmds, B, A, X, reset_cmds. rewrite !forallb_app. rewrite !andb_true_iff. repeat split.
    - apply forallb_forall. intros c Hc. apply in_map_iff in Hc as (q & <- & _). reflexivity.
    - apply forallb_forall. intros c Hc. apply in_map_iff in Hc as (q & <- & _). reflexivity.
    - apply forallb_forall. intros c Hc. apply in_flat_map in Hc as (q & _ & Hc). unfold xpart in Hc.
      destruct (s =? 0); [destruct Hc|]. destruct (s =? 1); cbn in Hc; intuition (subst; reflexivity).
    - apply forallb_forall. intros c Hc. apply in_map_iff in Hc as (q & <- & _). reflexivity.
  Qed.

  Lemma cs_small : unroll_small_prog cmds.
  Proof.
    split.
    - rewrite cs_len. pose proof cs_B_len. lia.
    - pose proof cs_flat as H. unfold flat_body in H. rewrite forallb_forall in H. apply Forall_forall. intros c Hc.
      specialize (H c Hc). destruct c; [constructor | constructor | discriminate].
  Qed.

  (* what is listed: a permutation of the program's leaves *)
  Lemma cs_perm : Permutation (op_leaves (OComp 1 g)) (prog_expanded cmds).
  Proof.
    rewrite <- (listing_leaves env). change g with (run_prog env cmds). rewrite <- (flat_unrolled env cmds cs_flat).
    exact (unroll_listing_multiset env cmds cs_small).
  Qed.

  Lemma cs_ptags : ptags a cmds = [T_HERALDED; T_FINAL].
  Proof.
    unfold cmds, B, A, X, reset_cmds. rewrite !ptags_app.
    rewrite (ptags_map_quiet a) by (intros x; apply ptags_lf).
    rewrite (ptags_meas_in a T_HERALDED Q N cs_Q_in).
    rewrite (ptags_flat_map_quiet a).
    - unfold mf. rewrite (ptags_measr_in a T_FINAL _ Q N cs_Q_in). reflexivity.
    - intros q. unfold xpart. destruct (s =? 0); [reflexivity|]. destruct (s =? 1); [apply ptags_lf|].
      rewrite ptags_cons. unfold add. now rewrite !ptags_lf.
  Qed.

  Lemma cs_tags_len : length (tags_of a (op_leaves (OComp 1 g))) = 2%nat.
  Proof.
    rewrite (Permutation_length (tags_of_perm a _ _ cs_perm)). fold (ptags a cmds). now rewrite cs_ptags.
  Qed.

  Lemma cs_heralded_in : In (lf_meas a T_HERALDED) (op_leaves (OComp 1 g)).
  Proof.
    apply (Permutation_in _ (Permutation_sym cs_perm)). unfold prog_expanded. apply in_flat_map.
    exists (meas T_HERALDED a). split; [|now left]. unfold cmds, B, A. apply in_or_app. left. apply in_or_app. left.
    apply in_or_app. right. apply in_map. exact cs_Q_in.
  Qed.

  (* the nodes of the two measurements of a *)
  Let x := (length Q + length Q1)%nat.
  Let y := (length B + length Q1)%nat.

  Lemma cs_W : wf_parents (parents g).
  Proof. apply run_prog_wf. Qed.

  Lemma cs_root : nth_error g (length Q1) = Some (Node None LNone (OLeaf (lf C_Reset [a]))).
  Proof.
    unfold g, cmds, B, A. rewrite <- !app_assoc. exact (reset_root env Q1 a Q2 _ N).
  Qed.

  Lemma cs_node_x : nth_error g x = Some (Node (Some (length Q1)) (LRel RelationType_FOLLOWED_BY (length Q1)) (OLeaf (lf_meas a T_HERALDED))).
  Proof.
    set (c1 := reset_cmds Q ++ map (meas T_HERALDED) Q1).
    assert (E : cmds = c1 ++ meas T_HERALDED a :: (map (meas T_HERALDED) Q2 ++ X ++ map mf Q)).
    { unfold cmds, B, A, c1, Q. rewrite (map_app (meas T_HERALDED)). cbn [map]. now rewrite <- !app_assoc. }
    assert (Lx : x = length c1) by (unfold x, c1, reset_cmds; now rewrite app_length, !map_length).
    unfold g. rewrite E, Lx, node_at. f_equal. cbn [cmd_op cmd_link meas add]. unfold new_node.
    set (P := run_cmds env c1 []).
    assert (WP : wf_parents (parents P)) by apply run_prog_wf.
    assert (RP : nth_error P (length Q1) = Some (Node None LNone (OLeaf (lf C_Reset [a])))) by exact (reset_root env Q1 a Q2 _ N).
    assert (Ec : nth_error c1 (length Q1) = Some (add (lf C_Reset [a]))).
    { unfold c1, reset_cmds, Q. rewrite map_app. cbn [map]. rewrite <- !app_assoc. cbn [app].
      rewrite nth_error_app2 by (rewrite map_length; lia). now rewrite map_length, Nat.sub_diag. }
    change (op_channels (OLeaf (lf_meas a T_HERALDED))) with [chan a QubitChannel_READOUT].
    destruct (leaf_at_any P [chan a QubitChannel_READOUT]) as [i|] eqn:EL.
    - destruct (leaf_at_any_some P _ i WP EL) as (Hi & Mi & _).
      apply bfs_lt_length in Hi. rewrite parents_length in Hi. unfold P in Hi. rewrite run_cmds_length in Hi. cbn [length Nat.add] in Hi.
      destruct (nth_error c1 i) as [c|] eqn:Eci; [|apply nth_error_None in Eci; lia].
      unfold P in Mi. rewrite (node_chans_cmds env c1 i c Eci) in Mi.
      assert (i = length Q1) as ->; [|reflexivity].
      unfold c1 in Eci. destruct (Nat.lt_ge_cases i (length (reset_cmds Q))) as [Hl | Hl].
      + rewrite nth_error_app1 in Eci by exact Hl. unfold reset_cmds in Eci, Hl. rewrite map_length in Hl.
        rewrite nth_error_map in Eci. destruct (nth_error Q i) as [q|] eqn:Eq; [|discriminate]. injection Eci as <-.
        rewrite reset_chans, any_match_single in Mi.
        destruct (Z.eq_dec q a) as [-> | Hne]; [|rewrite (nomatch_other q a _ _ Hne) in Mi; discriminate].
        apply (proj1 (NoDup_nth_error Q) N i (length Q1) Hl). rewrite Eq. unfold Q.
        rewrite nth_error_app2 by lia. now rewrite Nat.sub_diag.
      + rewrite nth_error_app2 in Eci by exact Hl. rewrite nth_error_map in Eci.
        destruct (nth_error Q1 (i - length (reset_cmds Q))) as [q|] eqn:Eq; [|discriminate]. injection Eci as <-.
        exfalso. rewrite meas_cmd_chans, any_match_single in Mi. destruct (Z.eq_dec q a) as [-> | Hne]; [|rewrite (nomatch_other q a _ _ Hne) in Mi; discriminate].
        apply nth_error_In in Eq. unfold Q in N. apply NoDup_remove_2 in N. apply N. apply in_or_app. now left.
    - exfalso. assert (L : In (length Q1) (bfs (parents P))).
      { apply root_listed; [exact WP|]. rewrite parents_nth_error, RP. reflexivity. }
      pose proof (leaf_at_any_none _ _ EL _ L) as M. unfold P in M. rewrite (node_chans_cmds env c1 _ _ Ec), reset_chans in M.
      rewrite any_match_single, match_all in M. discriminate.
  Qed.

  Lemma cs_B_pos : (1 <= length B)%nat.
  Proof. pose proof cs_B_len. pose proof cs_Q_pos. lia. Qed.

  Lemma cs_node_y : nth_error g y = Some (Node (Some (length B - 1)%nat) (LRel RelationType_FOLLOWED_BY (length B - 1)%nat) (OLeaf (lf_meas a T_FINAL))).
  Proof.
    set (c1 := B ++ map mf Q1).
    assert (E : cmds = c1 ++ mf a :: map mf Q2).
    { unfold cmds, c1, Q. rewrite (map_app mf). cbn [map]. now rewrite <- !app_assoc. }
    assert (Ly : y = length c1) by (unfold y, c1; now rewrite app_length, map_length).
    unfold g. rewrite E, Ly, node_at. f_equal. unfold mf. rewrite (rel_last_some B cs_B_pos).
    cbn [cmd_op cmd_link]. unfold new_node. rewrite run_cmds_length. cbn [length Nat.add]. rewrite <- Ly.
    assert (Hlt : (length B - 1 <? y)%nat = true) by (apply Nat.ltb_lt; pose proof cs_B_pos; unfold y; lia). now rewrite Hlt.
  Qed.

  (* every operation of the calibration block acts on one of the qubits *)
  Lemma cs_touches c : In c (map (meas T_HERALDED) Q ++ X) -> touches env Q c.
  Proof.
    intros H. apply in_app_or in H as [H | H].
    - apply in_map_iff in H as (q & <- & Hq). exists q, QubitChannel_READOUT. split; [exact Hq | now left].
    - apply in_flat_map in H as (q & Hq & H). exists q, QubitChannel_MICROWAVE. split; [exact Hq|]. unfold xpart in H.
      destruct (s =? 0); [destruct H|]. destruct (s =? 1); cbn in H; intuition (subst; now left).
  Qed.

  Lemma cs_parent_not_root : nth_error (parents g) (length B - 1)%nat <> Some None.
  Proof.
    set (T := map (meas T_HERALDED) Q ++ X).
    assert (EB : B = reset_cmds Q ++ T) by (unfold B, A, T; now rewrite <- app_assoc).
    assert (TN : T <> []).
    { unfold T. pose proof cs_Q_pos. destruct Q; [cbn in *; lia | discriminate]. }
    destruct (exists_last TN) as (T' & c & ET).
    assert (E : cmds = (reset_cmds Q ++ T') ++ c :: map mf Q).
    { unfold cmds. rewrite EB, ET. now rewrite <- !app_assoc. }
    assert (Lp : (length B - 1)%nat = length (reset_cmds Q ++ T')).
    { rewrite EB, ET, !app_length. cbn. lia. }
    assert (Tc : touches env Q c). { apply cs_touches. fold T. rewrite ET. apply in_or_app. right. now left. }
    destruct (touching_not_root env Q T' c (map mf Q) N Tc) as (n & En & Hn).
    unfold g. rewrite E, Lp, parents_nth_error, En. cbn. intros H. injection H as H. contradiction.
  Qed.

  Lemma cs_before : before (bfs (parents g)) x y.
  Proof.
    pose proof cs_W as W. pose proof cs_B_len as HB. pose proof cs_Q_pos as HQ.
    assert (Lg : length (parents g) = (length B + length Q)%nat).
    { rewrite parents_length. unfold g. rewrite run_cmds_length, cs_len. reflexivity. }
    assert (Hlen : Z.of_nat (length (parents g)) <= 4999) by lia.
    pose proof (bfs_perm_length _ W Hlen) as Pm.
    assert (Hl : (length Q1 < length Q)%nat) by (unfold Q; rewrite app_length; cbn; lia).
    assert (Ix : In x (bfs (parents g))) by (apply (Permutation_in _ (Permutation_sym Pm)), in_seq; unfold x; lia).
    assert (Iy : In y (bfs (parents g))) by (apply (Permutation_in _ (Permutation_sym Pm)), in_seq; unfold y; lia).
    assert (Dx : depth (parents g) x = 1%nat).
    { rewrite (depth_child _ _ (length Q1) W) by (rewrite parents_nth_error, cs_node_x; reflexivity).
      rewrite depth_root by (rewrite parents_nth_error, cs_root; reflexivity). reflexivity. }
    assert (Dy : (2 <= depth (parents g) y)%nat).
    { rewrite (depth_child _ _ (length B - 1)%nat W) by (rewrite parents_nth_error, cs_node_y; reflexivity).
      destruct (depth (parents g) (length B - 1)%nat) eqn:Dp; [|lia]. exfalso. apply cs_parent_not_root.
      apply depth_zero_inv; [lia | exact Dp]. }
    destruct (before_total _ x y Ix Iy) as [H | H]; [unfold x, y; lia | exact H |].
    apply bfs_depth_sorted in H; [lia | exact W].
  Qed.

  Theorem cal_state_tags : tags_of a (op_leaves (OComp 1 g)) = [T_HERALDED; T_FINAL].
  Proof.
    rewrite op_leaves_comp, tags_of_flat_map.
    apply (two_in_order _ _ x y).
    - exact cs_before.
    - unfold at_node. rewrite cs_node_x. unfold tags_of, is_meas_of. cbn. now rewrite Z.eqb_refl.
    - unfold at_node. rewrite cs_node_y. unfold tags_of, is_meas_of. cbn. now rewrite Z.eqb_refl.
    - rewrite <- tags_of_flat_map, <- (op_leaves_comp 1). exact cs_tags_len.
  Qed.
End CalState.

Lemma flat_body_sized p : flat_body p = true -> Z.of_nat (length p) <= 4999 -> sized_prog p.
Proof.
  intros F L. split; [exact L|]. unfold flat_body in F. rewrite forallb_forall in F. apply Forall_forall. intros c Hc.
  specialize (F c Hc). destruct c; [constructor | constructor | discriminate].
Qed.

Lemma cal_state_small Q s : 5 * Z.of_nat (length Q) <= 4999 ->
  flat_body (calibrate_with_heralded Q s) = true /\ Z.of_nat (length (calibrate_with_heralded Q s)) <= 4999.
Proof.
  intros S. unfold calibrate_with_heralded. cbv zeta.
  set (A := map (fun q => add (lf C_Reset [q])) Q ++ map (meas T_HERALDED) Q).
  set (xp := fun q : Z => if s =? 0 then [] else if s =? 1 then [CAdd (lf C_Rx180 [q]) (rel_last A)]
                          else [CAdd (lf C_Rx180 [q]) (rel_last A); add (lf C_Rx180ef [q])]).
  assert (Hx : forall q, (length (xp q) <= 2)%nat /\ forallb (fun c => match c with CSub _ _ => false | _ => true end) (xp q) = true).
  { intros q. unfold xp. destruct (s =? 0); [split; [cbn; lia | reflexivity]|]. destruct (s =? 1); split; cbn; (lia || reflexivity). }
  assert (HX : forall l, (length (flat_map xp l) <= 2 * length l)%nat
                         /\ forallb (fun c => match c with CSub _ _ => false | _ => true end) (flat_map xp l) = true).
  { induction l as [|q t [IH1 IH2]]; [split; [cbn; lia | reflexivity]|]. cbn [flat_map]. destruct (Hx q) as [H1 H2].
    rewrite app_length, forallb_app, H2, IH2. cbn [length]. split; [lia | reflexivity]. }
  destruct (HX Q) as [LX FX]. split.
  - unfold flat_body, A. rewrite !forallb_app, FX. rewrite !andb_true_iff. repeat split;
      apply forallb_forall; intros c Hc; apply in_map_iff in Hc as (q & <- & _); reflexivity.
  - unfold A. rewrite !app_length, !map_length. lia.
Qed.

(* one calibration state, as a graph and as the nested copy the constructor adds *)
Lemma cal_state env Q a s : NoDup Q -> In a Q -> 5 * Z.of_nat (length Q) <= 4999 ->
  let o := cmd_op env (CSub 1 (calibrate_with_heralded Q s)) in
  tags_of a (op_leaves o) = [T_HERALDED; T_FINAL] /\ In (lf_meas a T_HERALDED) (op_leaves o).
Proof.
  intros N Ha S o.
  assert (Eo : op_leaves o = op_leaves (OComp 1 (run_prog env (calibrate_with_heralded Q s)))).
  { unfold o. cbn [cmd_op]. rewrite <- !(listing_leaves env). f_equal. apply copy_same_listing. apply run_prog_cwf.
    destruct (cal_state_small Q s S) as [F L]. exact (flat_body_sized _ F L). }
  rewrite Eo. apply in_split in Ha as (Q1 & Q2 & ->). split.
  - apply cal_state_tags; assumption.
  - apply cs_heralded_in; assumption.
Qed.

Lemma cal_sized Q : 5 * Z.of_nat (length Q) <= 4999 -> sized_prog (calibration_prog Q true).
Proof.
  intros S. split; [cbn; lia|]. unfold calibration_prog. cbn [app].
  repeat constructor; try (destruct (cal_state_small Q 0 S) as [F L]; first [exact L | exact (proj2 (flat_body_sized _ F L))]);
    try (destruct (cal_state_small Q 1 S) as [F L]; first [exact L | exact (proj2 (flat_body_sized _ F L))]);
    try (destruct (cal_state_small Q 2 S) as [F L]; first [exact L | exact (proj2 (flat_body_sized _ F L))]).
Qed.

Theorem cal_block env D a : NoDup (r_qubits D) -> In a (r_qubits D) -> 5 * Z.of_nat (length (r_qubits D)) <= 4999 ->
  op_tags a (cal_sub env D) = cal_tags /\ In (lf_meas a T_HERALDED) (op_leaves (cal_sub env D)).
Proof.
  intros N Ha S. set (Q := r_qubits D) in *.
  pose proof (cal_state env Q a 0 N Ha S) as [T0 I0]. pose proof (cal_state env Q a 1 N Ha S) as [T1 I1].
  pose proof (cal_state env Q a 2 N Ha S) as [T2 I2].
  set (o0 := cmd_op env (CSub 1 (calibrate_with_heralded Q 0))) in *.
  set (o1 := cmd_op env (CSub 1 (calibrate_with_heralded Q 1))) in *.
  set (o2 := cmd_op env (CSub 1 (calibrate_with_heralded Q 2))) in *.
  assert (Eg : cal_graph env Q = add_node env (add_node env (add_node env [] o0 LNone) o1 LNone) o2 LNone).
  { unfold cal_graph, calibration_prog, run_prog. cbn [app]. rewrite !run_cmds_cons. reflexivity. }
  set (g1 := add_node env [] o0 LNone) in *. set (g2 := add_node env g1 o1 LNone) in *.
  assert (L1 : length g1 = 1%nat) by apply add_node_length.
  assert (L2 : length g2 = 2%nat) by (unfold g2; now rewrite add_node_length, L1).
  pose proof max_layers_eq as ML.
  assert (C1 : is_chain g1). { apply add_to_chain; [apply is_chain_nil | cbn; lia |]. intros n En. destruct n; discriminate. }
  assert (C2 : is_chain g2).
  { apply add_to_chain; [exact C1 | lia |]. intros n En. apply last_added in En. rewrite En. exact (block_block_match a _ _ o1 o0 I1 I0). }
  assert (C3 : is_chain (cal_graph env Q)).
  { rewrite Eg. apply add_to_chain; [exact C2 | lia |]. intros n En. apply last_added in En. rewrite En. exact (block_block_match a _ _ o2 o1 I2 I1). }
  assert (L3 : length (cal_graph env Q) = 3%nat) by (rewrite Eg; now rewrite add_node_length, L2).
  assert (El : op_leaves (cal_sub env D) = op_leaves o0 ++ op_leaves o1 ++ op_leaves o2).
  { unfold cal_sub, cal_graph. fold Q. rewrite <- (listing_leaves env), (copy_same_listing env _ (run_prog_cwf env 1 _ (cal_sized Q S))).
    change (run_prog env (calibration_prog Q true)) with (cal_graph env Q). rewrite listing_leaves, (chain_leaves _ C3) by lia.
    rewrite Eg. unfold g2, g1. rewrite !add_node_ops. cbn [map app flat_map]. now rewrite app_nil_r. }
  unfold op_tags. rewrite El. split.
  - rewrite !tags_of_app, T0, T1, T2. reflexivity.
  - apply in_or_app. now left.
Qed.

(* ================================================================== 8. the theorems *)
Lemma desc_ok_anc_qubit D a : desc_ok D -> In a (r_anc D) -> In a (r_qubits D).
Proof. intros (_ & _ & _ & I & _) H. now apply I. Qed.

(* every ancilla, every description, every list of round counts: the tags of the constructed circuit are C13's closed form,
   PROVIDED each block satisfies the decidable side condition block_heralded_first *)
Theorem multi_anc_tags env D init anc rounds a :
  desc_ok D -> multi_small D init anc rounds -> In a (r_anc D) ->
  (forall r, In r rounds -> block_heralded_first D init anc r a = true) ->
  circuit_tags env D init anc rounds a = Some (map z_of_tag (multi_round_tags rounds)).
Proof.
  intros K (SB & SL & SC) Ha HF. pose proof (desc_ok_anc_qubit D a K Ha) as Hq.
  assert (NQ : NoDup (r_qubits D)) by (destruct K as (NQ & _); exact NQ).
  destruct (cal_block env D a NQ Hq SC) as [Tc Ic].
  destruct (multi_round_compose env D init anc a rounds Hq) as (ns & E & T); [| | exact Ic | exact Tc |].
  - pose proof max_layers_eq. lia.
  - intros r Hr. rewrite Forall_forall in SB. destruct (SB r Hr) as [Hr0 Sm].
    exact (block_facts env D init anc r a K Hr0 Sm Ha (HF r Hr)).
  - unfold circuit_tags. rewrite E. cbn [option_map]. now rewrite T.
Qed.

(* flattening that keeps the listing order of a block is more than the side condition asks for *)
Lemma in_order_heralded_first D init anc r a :
  desc_ok D -> 0 <= r -> block_small D init anc r -> In a (r_anc D) ->
  block_in_order D init anc r = true -> block_heralded_first D init anc r a = true.
Proof.
  intros K Hr [S N] Ha. unfold block_in_order, block_heralded_first.
  destruct (block_flat model_env D init anc r) as [f|] eqn:Ef; [|discriminate]. intros HO.
  apply (list_eqb_spec Nat.eqb Nat.eqb_eq) in HO.
  unfold block_flat in Ef. pose proof (flatten_ops_listing model_env _ f Ef) as Ho.
  rewrite graph_tags_op. unfold op_tags. rewrite op_leaves_comp, HO, flat_map_at_node_seq.
  rewrite <- (flat_map_map n_op (fun o => op_leaves o)), Ho, flat_map_map. cbn [op_leaves].
  rewrite flat_map_single, map_id.
  change (map e_leaf (listing model_env (block_graph model_env D init anc r))) with (unrolled_leaves model_env (rep_code_prog D init anc r)).
  rewrite (anc_tags model_env D init anc r a K Hr S Ha). unfold want_anc_tags. cbn [head_is]. apply Z.eqb_refl.
Qed.

Corollary multi_anc_tags_in_order env D init anc rounds a :
  desc_ok D -> multi_small D init anc rounds -> In a (r_anc D) ->
  forallb (block_in_order D init anc) rounds = true ->
  circuit_tags env D init anc rounds a = Some (map z_of_tag (multi_round_tags rounds)).
Proof.
  intros K Sm Ha HO. apply multi_anc_tags; try assumption. intros r Hr.
  rewrite forallb_forall in HO. destruct Sm as (SB & _). rewrite Forall_forall in SB. destruct (SB r Hr) as [Hr0 Sb].
  apply in_order_heralded_first; auto.
Qed.

(* ================================================================== 9. composed with C13: the kernel's indices *)
Lemma positions_z_of_tag t l : positions (has_tag (z_of_tag t)) (map z_of_tag l) = positions (is_tag t) l.
Proof.
  unfold positions. rewrite positions_from_map. apply positions_from_ext. intros x _.
  unfold has_tag, is_tag. destruct x, t; reflexivity.
Qed.

Theorem multi_kernel_agrees env D init anc rounds a data_ids anc_ids q :
  desc_ok D -> multi_small D init anc rounds -> In a (r_anc D) ->
  (forall r, In r rounds -> block_heralded_first D init anc r a = true) ->
  rounds <> [] -> NoDup rounds -> is_member q anc_ids = true ->
  exists tags e, circuit_tags env D init anc rounds a = Some tags
    /\ circuit_kernel rounds data_ids anc_ids = Value e
    /\ Z.of_nat (length tags) = RepetitionExperimentKernel_kernel_cycle_length e
    /\ positions (has_tag T_HERALDED) tags
       = concat (map (fun n => concat (RepetitionExperimentKernel_get_heralded_cycle_acquisition_indices e q n)) rounds)
         ++ concat (map (RepetitionExperimentKernel_get_heralded_calibration_acquisition_indices e q) StateKey_all)
    /\ positions (has_tag T_PARITY) tags
       = concat (map (fun n => concat (RepetitionExperimentKernel_get_stabilizer_and_projected_cycle_acquisition_indices e q n)) rounds)
    /\ positions (has_tag T_FINAL) tags
       = zero_round_slots e ++ concat (map (RepetitionExperimentKernel_get_projected_calibration_acquisition_indices e q) StateKey_all)
    /\ (forall x, In x (zero_round_slots e) -> ~ In x (cycle_indices e q)).
Proof.
  intros K Sm Ha HF NE ND Hq.
  assert (Pos : Forall (fun r => 0 <= r) rounds).
  { destruct Sm as (SB & _). eapply Forall_impl; [|exact SB]. intros r [H _]. exact H. }
  pose proof (multi_anc_tags env D init anc rounds a K Sm Ha HF) as T.
  destruct (tag_positions rounds data_ids anc_ids q NE ND Pos Hq) as (e & Ee & PH & PP & PF & Z0).
  destruct (kernels_agree_with_circuit rounds data_ids anc_ids q NE ND Pos Hq) as (e' & Ee' & Len & _).
  rewrite Ee in Ee'. injection Ee' as <-.
  exists (map z_of_tag (multi_round_tags rounds)), e. split; [exact T|]. split; [exact Ee|]. split; [now rewrite map_length|].
  change T_HERALDED with (z_of_tag THeralded). change T_PARITY with (z_of_tag TParity). change T_FINAL with (z_of_tag TFinal).
  rewrite !positions_z_of_tag. repeat split; assumption.
Qed.

(* ================================================================== 10. the labelled sequence (which block a measurement belongs to) *)
Lemma listed_ops_chain ns : is_chain ns -> (length ns <= max_layers)%nat -> listed_ops ns = map n_op ns.
Proof.
  intros C L. unfold listed_ops. rewrite C, chain_bfs by exact L.
  rewrite <- (map_map (fun i => nth i ns (Node None LNone (OComp 0 []))) n_op). f_equal. apply map_nth_seq.
Qed.

Lemma labelled_blocks q D rounds subs rest (W : Z -> list Z) :
  Forall2 (fun r o => op_tags q o = W r) rounds subs ->
  labelled_ops q rounds (flat_map (fun o => [o; OLeaf (barrier_leaf D)]) subs ++ rest)
  = flat_map (fun r => map (fun x => (x, Block r)) (W r)) rounds ++ labelled_ops q [] rest.
Proof.
  induction 1 as [|r o t s Hro _ IH]; [reflexivity|]. cbn [flat_map app labelled_ops]. rewrite Hro, IH. now rewrite app_assoc.
Qed.

Definition cal_op (env : denv) (Q : list Z) (s : Z) : op := cmd_op env (CSub 1 (calibrate_with_heralded Q s)).

Lemma cal_graph_facts env Q a : NoDup Q -> In a Q -> 5 * Z.of_nat (length Q) <= 4999 ->
  is_chain (cal_graph env Q) /\ map n_op (cal_graph env Q) = [cal_op env Q 0; cal_op env Q 1; cal_op env Q 2].
Proof.
  intros N Ha S.
  pose proof (cal_state env Q a 0 N Ha S) as [T0 I0]. pose proof (cal_state env Q a 1 N Ha S) as [T1 I1].
  pose proof (cal_state env Q a 2 N Ha S) as [T2 I2]. fold (cal_op env Q 0) in *. fold (cal_op env Q 1) in *. fold (cal_op env Q 2) in *.
  set (o0 := cal_op env Q 0) in *. set (o1 := cal_op env Q 1) in *. set (o2 := cal_op env Q 2) in *.
  assert (Eg : cal_graph env Q = add_node env (add_node env (add_node env [] o0 LNone) o1 LNone) o2 LNone).
  { unfold cal_graph, calibration_prog, run_prog. cbn [app]. rewrite !run_cmds_cons. reflexivity. }
  set (g1 := add_node env [] o0 LNone) in *. set (g2 := add_node env g1 o1 LNone) in *.
  assert (L1 : length g1 = 1%nat) by apply add_node_length.
  assert (L2 : length g2 = 2%nat) by (unfold g2; now rewrite add_node_length, L1).
  pose proof max_layers_eq as ML.
  assert (C1 : is_chain g1). { apply add_to_chain; [apply is_chain_nil | cbn; lia |]. intros n En. destruct n; discriminate. }
  assert (C2 : is_chain g2).
  { apply add_to_chain; [exact C1 | lia |]. intros n En. apply last_added in En. rewrite En. exact (block_block_match a _ _ o1 o0 I1 I0). }
  split.
  - rewrite Eg. apply add_to_chain; [exact C2 | lia |]. intros n En. apply last_added in En. rewrite En. exact (block_block_match a _ _ o2 o1 I2 I1).
  - rewrite Eg. unfold g2, g1. now rewrite !add_node_ops.
Qed.

Lemma copy_op_leaves env o : cwf o -> op_leaves (copy_op env o) = op_leaves o.
Proof.
  intros C. rewrite <- (listing_op_leaves env (copy_op env o) None (0, 0)), <- (listing_op_leaves env o None (0, 0)).
  f_equal. apply copy_same_listing_op. exact C.
Qed.

(* the calibration sub-circuit as it is nested: three nodes in listing order, the copies of the three states' sub-circuits *)
Lemma cal_sub_nodes env D a : NoDup (r_qubits D) -> In a (r_qubits D) -> 5 * Z.of_nat (length (r_qubits D)) <= 4999 ->
  exists cs, cal_sub env D = OComp 1 cs /\ length cs = 3%nat
    /\ listed_ops cs = map (fun s => copy_op env (cal_op env (r_qubits D) s)) [0; 1; 2]
    /\ forall s, In s [0; 1; 2] -> op_leaves (copy_op env (cal_op env (r_qubits D) s)) = op_leaves (cal_op env (r_qubits D) s).
Proof.
  intros N Ha S. set (Q := r_qubits D) in *. destruct (cal_graph_facts env Q a N Ha S) as [C Ho].
  pose proof (run_prog_cwf env 1 _ (cal_sized Q S)) as W. change (run_prog env (calibration_prog Q true)) with (cal_graph env Q) in W.
  assert (L3 : length (cal_graph env Q) = 3%nat) by (rewrite <- (map_length n_op), Ho; reflexivity).
  destruct (copy_iso env 1 _ W) as (_ & Ec & _ & Eb).
  pose proof max_layers_eq as ML.
  rewrite C, chain_bfs, L3 in Ec by lia.
  exists (copy_nodes env (cal_graph env Q)). split; [reflexivity|].
  assert (Lc : length (copy_nodes env (cal_graph env Q)) = 3%nat) by (rewrite Ec; reflexivity).
  split; [exact Lc|]. split.
  - unfold listed_ops. rewrite Eb, L3. rewrite Ec. cbn [seq map nth n_op].
    assert (Hn : forall i, n_op (nth i (cal_graph env Q) dummy_node) = nth i (map n_op (cal_graph env Q)) (n_op dummy_node)) by (intros i; now rewrite map_nth).
    rewrite !Hn, Ho. reflexivity.
  - intros s Hs. apply copy_op_leaves. apply cwf_comp_inv in W as (_ & _ & F).
    assert (In (cal_op env Q s) (map n_op (cal_graph env Q))) as Hin.
    { rewrite Ho. destruct Hs as [<- | [<- | [<- | []]]]; simpl; auto. }
    apply in_map_iff in Hin as (n & <- & Hn). rewrite Forall_forall in F. exact (F n Hn).
Qed.

Lemma Forall2_impl_In {A B} (P R : A -> B -> Prop) l l' : Forall2 P l l' -> (forall x y, In x l -> P x y -> R x y) -> Forall2 R l l'.
Proof.
  induction 1 as [|x y l l' Hxy _ IH]; intros H; constructor.
  - apply H; [now left | exact Hxy].
  - apply IH. intros x' y' Hx'. apply H. now right.
Qed.

Lemma z_labelled_eq rounds : z_labelled (multi_round_labelled rounds)
  = flat_map (fun r => map (fun x => (x, Block r)) (map z_of_tag (block_tags r))) rounds ++ z_labelled calibration_labelled.
Proof.
  unfold z_labelled, multi_round_labelled. rewrite map_app. f_equal.
  induction rounds as [|r t IH]; [reflexivity|]. cbn [flat_map]. rewrite map_app, IH, !map_map. reflexivity.
Qed.

Theorem multi_labelled env D init anc rounds a :
  desc_ok D -> multi_small D init anc rounds -> In a (r_anc D) ->
  (forall r, In r rounds -> block_heralded_first D init anc r a = true) ->
  circuit_labelled env D init anc rounds a = Some (z_labelled (multi_round_labelled rounds)).
Proof.
  intros K (SB & SL & SC) Ha HF. pose proof (desc_ok_anc_qubit D a K Ha) as Hq.
  assert (NQ : NoDup (r_qubits D)) by (destruct K as (NQ & _); exact NQ).
  destruct (cal_block env D a NQ Hq SC) as [Tc Ic].
  assert (HB : forall r, In r rounds -> exists f, block_flat env D init anc r = Some f
      /\ In (lf_meas a T_HERALDED) (op_leaves (OComp 1 (copy_nodes env f)))
      /\ op_tags a (OComp 1 (copy_nodes env f)) = map z_of_tag (block_tags r)).
  { intros r Hr. rewrite Forall_forall in SB. destruct (SB r Hr) as [Hr0 Sm].
    exact (block_facts env D init anc r a K Hr0 Sm Ha (HF r Hr)). }
  destruct (multi_round_structure env D init anc a rounds Hq) as (ns & subs & E & C & Ln & F & Ho); [| | exact Ic |].
  { intros r Hr. destruct (HB r Hr) as (f & Ef & Hm & _). exists (OComp 1 (copy_nodes env f)). split; [|exact Hm].
    exists f. split; [exact Ef | reflexivity]. }
  { pose proof max_layers_eq. lia. }
  unfold circuit_labelled. rewrite E. cbn [option_map]. f_equal.
  rewrite (listed_ops_chain ns C Ln), Ho.
  rewrite (labelled_blocks a D rounds subs [cal_sub env D] (fun r => map z_of_tag (block_tags r))).
  - rewrite z_labelled_eq. f_equal.
    destruct (cal_sub_nodes env D a NQ Hq SC) as (cs & Ecs & Lc & Eo & El). rewrite Ecs. cbn [labelled_ops]. rewrite Lc, Eo.
    cbn [seq map combine flat_map fst snd app]. unfold op_tags. rewrite !El by (simpl; auto).
    destruct (cal_state env (r_qubits D) a 0 NQ Hq SC) as [T0 _]. destruct (cal_state env (r_qubits D) a 1 NQ Hq SC) as [T1 _].
    destruct (cal_state env (r_qubits D) a 2 NQ Hq SC) as [T2 _]. unfold cal_op. rewrite T0, T1, T2. reflexivity.
  - eapply Forall2_impl_In; [exact F|]. intros r o Hr (f' & Ef' & ->). destruct (HB r Hr) as (f & Ef & _ & T).
    rewrite Ef in Ef'. injection Ef' as <-. exact T.
Qed.

(* ================================================================== 10. per block, in the form of C13_kernels_agree_with_circuit *)
Lemma pos_zl t l L : positions (is_zl (z_of_tag t) l) (z_labelled L) = positions (is_tl t l) L.
Proof.
  unfold positions, z_labelled. rewrite positions_from_map. apply positions_from_ext. intros x _.
  unfold is_zl, is_tl. cbn [fst snd]. f_equal. destruct (fst x), t; reflexivity.
Qed.

Theorem multi_kernel_agrees_blocks env D init anc rounds a data_ids anc_ids q :
  desc_ok D -> multi_small D init anc rounds -> In a (r_anc D) ->
  (forall r, In r rounds -> block_heralded_first D init anc r a = true) ->
  rounds <> [] -> NoDup rounds -> is_member q anc_ids = true ->
  exists lab e, circuit_labelled env D init anc rounds a = Some lab
  /\ circuit_kernel rounds data_ids anc_ids = Value e
  /\ Z.of_nat (length lab) = RepetitionExperimentKernel_kernel_cycle_length e
  /\ (forall n, In n rounds ->
        positions (is_zl T_HERALDED (Block n)) lab
          = concat (RepetitionExperimentKernel_get_heralded_cycle_acquisition_indices e q n)
        /\ positions (is_zl T_PARITY (Block n)) lab
          = concat (RepetitionExperimentKernel_get_stabilizer_and_projected_cycle_acquisition_indices e q n)
        /\ (1 <= n -> positions (is_zl T_FINAL (Block n)) lab = []
                      /\ concat (RepetitionExperimentKernel_get_projected_cycle_acquisition_indices e q n)
                         = [last (positions (is_zl T_PARITY (Block n)) lab) 0]))
  /\ (In 0 rounds -> exists k, In k (RepetitionExperimentKernel__repetition_kernels e)
        /\ RepetitionIndexKernel_nr_repeated_parities k = 0
        /\ positions (is_zl T_FINAL (Block 0)) lab = [RepetitionIndexKernel_stop_index k]
        /\ RepetitionExperimentKernel_get_projected_cycle_acquisition_indices e q 0 = [[]]
        /\ RepetitionExperimentKernel_get_stabilizer_and_projected_cycle_acquisition_indices e q 0 = [[]]
        /\ ~ In (RepetitionIndexKernel_stop_index k) (cycle_indices e q))
  /\ (forall st, positions (is_zl T_HERALDED (Cal st)) lab
                   = RepetitionExperimentKernel_get_heralded_calibration_acquisition_indices e q st
              /\ positions (is_zl T_FINAL (Cal st)) lab
                   = RepetitionExperimentKernel_get_projected_calibration_acquisition_indices e q st
              /\ positions (is_zl T_PARITY (Cal st)) lab = []).
Proof.
  intros K Sm Ha HF NE ND Hq.
  assert (Pos : Forall (fun r => 0 <= r) rounds).
  { destruct Sm as (SB & _). eapply Forall_impl; [|exact SB]. intros r [H _]. exact H. }
  pose proof (multi_labelled env D init anc rounds a K Sm Ha HF) as T.
  destruct (kernels_agree_with_circuit rounds data_ids anc_ids q NE ND Pos Hq) as (e & Ee & Len & HB & H0 & HC).
  exists (z_labelled (multi_round_labelled rounds)), e. split; [exact T|]. split; [exact Ee|].
  change T_HERALDED with (z_of_tag THeralded). change T_PARITY with (z_of_tag TParity). change T_FINAL with (z_of_tag TFinal).
  split; [|split; [|split]].
  - rewrite <- Len. unfold z_labelled, multi_round_tags. now rewrite !map_length.
  - intros n Hn. rewrite !pos_zl. exact (HB n Hn).
  - intros Hz. rewrite !pos_zl. exact (H0 Hz).
  - intros st. rewrite !pos_zl. exact (HC st).
Qed.
