(* LIBBUILD -- MultiRoundCheck.inst_rf evaluated for the distance-3 chain, with refocusing (vm_compute, about two minutes). *)
From Coq Require Import ZArith List Bool.
From QCE Require Import LibBuild.MultiRoundCheck.

Lemma inst_checked_3t : inst_rf 3 true = true.
Proof. vm_compute. reflexivity. Qed.
