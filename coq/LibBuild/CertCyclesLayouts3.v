(* LIBBUILD x C10 -- chunk 3 of 4 of the layout certificates (see CertCyclesLayoutDefs.v); evaluated once by the kernel's VM. *)
From Coq Require Import ZArith List Bool.
From QCE Require Import LibBuild.CertCyclesLayoutDefs.
Lemma lay_chunk3_checked : forallb lay_check_both (lay_chunk 3) = true.
Proof. vm_cast_no_check (eq_refl true). Qed.
