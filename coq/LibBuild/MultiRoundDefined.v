(* LIBBUILD -- Core's flatten is DEFINED on every block of the multi-round experiment, for every description and every round
   count: the model of construct_repetition_code_multi_round_circuit (multi_round_nodes) always answers, and the theorems of
   MultiRoundProofs / MultiRoundOrder lose their antecedent.

   flatten answers None only when a multi-link held after the hand-off names both a listed leaf and something that is no
   listed leaf (Core/FlattenScope.flatten_none_built: the F10 class).  Multi-links are made by `extend` alone (unrolling a
   block with a count above 1): to the RELATION LEAVES of the block so far, i.e. its listed nodes without children.
     1  if at every nesting level every multi-link names listed leaf nodes only (mok), flatten is defined (flatten_defined);
     2  extend keeps "every sub-circuit node has a child" -- so the relation leaves are leaf operations -- provided every
        sub-circuit node of the repeated block has a listed child holding a relation to it (kidsplus): extend_ok;
     3  repeat_nodes / apply_modifiers, by recursion over the nesting (uok_unrolled);
     4  a sub-circuit added by a build program is its own copy, has no multi-links, and its sub-circuit nodes are those of
        the program (cok_uok, prog_flatten_defined: any build program whose repeated blocks satisfy kidsplus);
     5  in construct_repetition_code_circuit the repeated blocks are  QEC round (sub-circuit); detectors; coordinate shift
        (; Barrier):  the operation added right behind the QEC round shares a channel with it (the round's Barrier occupies
        ALL channels of all qubits), so it is its child (cok_rep_code). *)
From Coq Require Import ZArith List Bool Lia Arith Permutation ZifyBool.
Import ListNotations.
From QCE Require Import Base.Prelude Core.Model Core.Run Core.BfsProofs Core.BfsWf Core.CopyOrder Core.CopyProofs Core.CopyIso
  Core.FlattenProofs Core.FlattenIdem Core.FlattenScope Core.UnrollProofs Core.UnrollTimes Core.UnrollOrder C02.Proofs C05.Proofs C06.Run C06.Proofs C09.Model
  C09.ProofsSem C10.Proofs C12.Model C13.Model C13.Proofs
  LibBuild.Model LibBuild.Order LibBuild.Tags LibBuild.Counts LibBuild.Chain LibBuild.Layouts LibBuild.Cert LibBuild.MultiRound
  LibBuild.MultiRoundProofs LibBuild.MultiRoundOrder.
From Gen Require Import Ident Classes Kernels.
Open Scope Z_scope.
Local Opaque max_layers.

(* ================================================================== 1. multi-links that name listed leaves only *)
Definition is_leaf_node (n : node) : Prop := exists l, n_op n = OLeaf l.
Definition mem_ok (ns : list node) (q : nat) : Prop := In q (bfs (parents ns)) /\ exists n, nth_error ns q = Some n /\ is_leaf_node n.
Definition multi_ok (ns : list node) : Prop :=
  forall i n qs q, nth_error ns i = Some n -> n_link n = LMulti qs -> In q qs -> mem_ok ns q.
Inductive mok : op -> Prop :=
| mok_leaf l : mok (OLeaf l)
| mok_comp r ns : multi_ok ns -> Forall (fun n => mok (n_op n)) ns -> mok (OComp r ns).

Lemma mok_inv r ns : mok (OComp r ns) -> multi_ok ns /\ Forall (fun n => mok (n_op n)) ns.
Proof. intros H. inversion H; subst. auto. Qed.

(* a GMulti link held after the hand-off names listed entries only *)
Lemma glisting_multi_listed o : mok o -> forall P inh e, In e (glisting_op o P inh) ->
  ge_link e = inh \/ (forall tgs t, ge_link e = GMulti tgs -> In t tgs -> In t (map ge_path (glisting_op o P inh))).
Proof.
  induction o as [l | r ns IH] using op_ind'; intros M P inh e H.
  - left. destruct H as [<- | []]. reflexivity.
  - apply mok_inv in M as [Mn MD]. pose proof H as H0. rewrite glisting_op_unfold in H. apply in_flat_map in H as (i & Hib & H).
    destruct (nth_error ns i) as [n|] eqn:En.
    + assert (Hi : (i < length ns)%nat) by (apply nth_error_Some; congruence).
      rewrite (nth_map_in (fun n => glisting_op (n_op n)) ns i _ n Hi), (nth_error_nth _ _ n En), (nth_link ns i n En) in H.
      rewrite Forall_forall in IH, MD. pose proof (nth_error_In _ _ En) as Hn.
      assert (Sub : forall x, In x (map ge_path (glisting_op (n_op n) (P ++ [i]) (eff_link P (n_link n) inh))) ->
                              In x (map ge_path (glisting_op (OComp r ns) P inh))).
      { intros x Hx. apply in_map_iff in Hx as (e' & <- & He'). apply in_map. rewrite glisting_op_unfold. apply in_flat_map.
        exists i. split; [exact Hib|].
        now rewrite (nth_map_in (fun n => glisting_op (n_op n)) ns i _ n Hi), (nth_error_nth _ _ n En), (nth_link ns i n En). }
      destruct (IH n Hn (MD n Hn) _ _ _ H) as [E | T].
      * unfold eff_link in E. destruct (has_relation (n_link n)) eqn:HR; [|left; exact E]. right. intros tgs t Hl Ht.
        rewrite E in Hl. destruct (n_link n) as [| ty p | qs | ty] eqn:L; cbn in Hl; try discriminate.
        injection Hl as <-. apply in_map_iff in Ht as (q & <- & Hq).
        destruct (Mn i n qs q En L Hq) as (Hqb & nq & Enq & (lq & Eop)).
        apply in_map_iff. exists (P ++ [q], lq, eff_link P (n_link nq) inh). split; [reflexivity|].
        rewrite glisting_op_unfold. apply in_flat_map. exists q. split; [exact Hqb|].
        assert (Hql : (q < length ns)%nat) by (apply nth_error_Some; congruence).
        rewrite (nth_map_in (fun n => glisting_op (n_op n)) ns q _ nq Hql), (nth_error_nth _ _ nq Enq), (nth_link ns q nq Enq), Eop.
        now left.
      * right. intros tgs t Hl Ht. apply Sub. exact (T tgs t Hl Ht).
    + apply nth_error_None in En. rewrite (nth_overflow (map _ ns)) in H by (rewrite map_length; exact En). destruct H.
Qed.

Theorem flatten_defined env r ns : wf_op (OComp r ns) -> mb_op (OComp r ns) -> mok (OComp 1 ns) -> flatten env ns <> None.
Proof.
  intros W B M H. apply (flatten_none_built env r ns W B) in H as (done & e & rest & tgs & t & t' & G & L & _ & _ & Hin' & Hni).
  assert (He : In e (glisting_op (OComp 1 ns) [] GNone)) by (change (In e (glisting ns)); rewrite G; apply in_or_app; right; now left).
  destruct (glisting_multi_listed _ M _ _ _ He) as [E | T]; [rewrite E in L; discriminate|].
  apply Hni. exact (T tgs t' L Hin').
Qed.

(* ================================================================== 2. extend: the multi-link to the relation leaves names leaves *)
Definition kid (ns : list node) (c : nat) : Prop := exists j nj, nth_error ns j = Some nj /\ n_parent nj = Some c.
Definition kids (ns : list node) : Prop := forall c nd, nth_error ns c = Some nd -> is_comp (n_op nd) = true -> kid ns c.
(* every sub-circuit node has a listed child that holds a relation to it *)
Definition kidsplus (ns : list node) : Prop :=
  forall c nd, nth_error ns c = Some nd -> is_comp (n_op nd) = true ->
  exists j nj t, In j (bfs (parents ns)) /\ nth_error ns j = Some nj /\ n_link nj = LRel t c /\ n_parent nj = Some c.

Lemma mem_ok_snoc ns x q : wf_parents (parents ns) -> mem_ok ns q -> mem_ok (ns ++ [x]) q.
Proof.
  intros W (Hb & n & En & Hl). unfold mem_ok. split.
  - assert (E : parents (ns ++ [x]) = parents ns ++ [n_parent x]) by apply parents_app. rewrite E.
    unfold bfs in *. apply bfs_fuel_snoc_In. exact W. exact Hb.
  - exists n. split; [|exact Hl]. rewrite nth_error_app1. exact En. apply nth_error_Some. congruence.
Qed.

Lemma add_node_multi_ok env ns o l : wf_nodes ns -> multi_ok ns ->
  (forall qs q, l = LMulti qs -> In q qs -> mem_ok ns q) -> multi_ok (add_node env ns o l).
Proof.
  intros W M Hl i n qs q En L Hq. rewrite add_node_eq in *. pose proof (proj1 W) as WP.
  destruct (Nat.lt_ge_cases i (length ns)) as [Hi | Hi].
  - rewrite nth_error_app1 in En by exact Hi. apply mem_ok_snoc; [exact WP|]. exact (M i n qs q En L Hq).
  - rewrite nth_error_app2 in En by exact Hi. destruct (i - length ns)%nat as [|k]; [|destruct k; discriminate].
    cbn in En. injection En as <-. destruct (CopyIso.new_node_multi _ _ _ _ _ L) as [El _]. apply mem_ok_snoc; [exact WP|]. exact (Hl qs q El Hq).
Qed.

Lemma kid_snoc ns x c : kid ns c -> kid (ns ++ [x]) c.
Proof. intros (j & nj & E & P). exists j, nj. split; [|exact P]. rewrite nth_error_app1; [exact E | apply nth_error_Some; congruence]. Qed.

Lemma map_link_simple m l : simple_link l -> simple_link (map_link m l).
Proof. destruct l as [| t p | qs | t]; cbn; try tauto. intros _. destruct (lookup m p); exact I. Qed.

(* the relation leaves of a graph whose sub-circuit nodes all have children are leaves *)
Lemma graph_leaves_mem_ok ns q : kids ns -> In q (graph_leaves (parents ns)) -> mem_ok ns q.
Proof.
  intros K H. apply graph_leaves_spec in H as [Hb Hn]. split; [exact Hb|].
  assert (Hq : (q < length ns)%nat) by (apply bfs_lt_length in Hb; now rewrite parents_length in Hb).
  destruct (nth_error ns q) as [n|] eqn:En; [|apply nth_error_None in En; lia]. exists n. split; [reflexivity|].
  destruct (n_op n) as [l | r sub] eqn:Eo; [now exists l | exfalso].
  destruct (K q n En) as (j & nj & Ej & Pj); [now rewrite Eo|]. apply (Hn j). now rewrite parents_nth_error, Ej, <- Pj.
Qed.

Section ExtendFold.
  Variable env : denv.
  Variables (cur0 other : list node) (rel : link).
  Hypothesis Wo : wf_nodes other.
  Hypothesis So : simple_links other.
  Hypothesis Ko : kidsplus other.
  Hypothesis Rel : forall qs q, rel = LMulti qs -> In q qs -> mem_ok cur0 q.
  Hypothesis RelR : multi_in_range (length cur0) rel.
  Let B := bfs (parents other).

  (* the state after the entries `done` of B *)
  Definition ext_inv (done : list nat) (cur : list node) (m : idxmap) : Prop :=
    (exists t, cur = cur0 ++ t) /\ wf_nodes cur /\ idx_ok m (length cur) /\ multi_ok cur
    /\ (forall i i', lookup m i = Some i' -> In i done)
    /\ (forall i, In i done -> exists i', lookup m i = Some i')
    /\ (forall c' nd', nth_error cur c' = Some nd' -> is_comp (n_op nd') = true ->
          kid cur c' \/ exists c j nj t, lookup m c = Some c' /\ nth_error other j = Some nj /\ n_link nj = LRel t c
                                         /\ In j B /\ ~ In j done).

  Lemma ext_step done i rest cur m : B = done ++ i :: rest -> ext_inv done cur m ->
    let '(cur', m') := extend_step env other rel (cur, m) i in ext_inv (done ++ [i]) cur' m'.
  Proof.
    intros EB (Pre & W & IM & M & Keys & Proc & Kd). unfold extend_step.
    assert (WoP : wf_parents (parents other)) by exact (proj1 Wo).
    assert (NDB : NoDup B) by (apply bfs_NoDup; exact WoP).
    assert (Hi : In i B) by (rewrite EB; apply in_or_app; right; now left).
    assert (Hil : (i < length other)%nat) by (apply bfs_lt_length in Hi; now rewrite parents_length in Hi).
    destruct (nth_error other i) as [n|] eqn:En; [|apply nth_error_None in En; lia]. cbv beta iota zeta.
    set (l' := if has_relation (n_link n) then map_link m (n_link n) else rel).
    assert (Rl : multi_in_range (length cur) l').
    { unfold l'. destruct (has_relation (n_link n)); [apply map_link_in_range; exact IM|].
      destruct Pre as (t & ->). apply (multi_in_range_mono (length cur0)); [rewrite app_length; lia | exact RelR]. }
    assert (Ml : forall qs q, l' = LMulti qs -> In q qs -> mem_ok cur q).
    { intros qs q E Hq. unfold l' in E. destruct (has_relation (n_link n)) eqn:HR.
      - exfalso. pose proof So as So'. unfold simple_links in So'. rewrite Forall_forall in So'. pose proof (So' n (nth_error_In _ _ En)) as Sl.
        apply (map_link_simple m) in Sl. rewrite E in Sl. exact Sl.
      - destruct Pre as (t & ->). clear -Rel E Hq W. revert W. induction t as [|x t IH] using rev_ind; intros W.
        + rewrite app_nil_r. exact (Rel qs q E Hq).
        + rewrite app_assoc. rewrite app_assoc in W. apply mem_ok_snoc.
          * destruct W as [W _]. rewrite parents_app in W. exact (wf_parents_app_l _ _ W).
          * apply IH. destruct W as [WP WL]. split.
            -- rewrite parents_app in WP. exact (wf_parents_app_l _ _ WP).
            -- intros j nj Ej. apply (WL j nj). rewrite nth_error_app1; [exact Ej | apply nth_error_Some; congruence]. }
    unfold ext_inv. refine (conj _ (conj _ (conj _ (conj _ (conj _ (conj _ _)))))).
    - destruct Pre as (t & ->). rewrite add_node_eq. eexists. now rewrite <- app_assoc.
    - apply add_node_wf; assumption.
    - rewrite add_node_length. apply idx_ok_cons. exact IM.
    - apply add_node_multi_ok; assumption.
    - intros j j' Hl. cbn [lookup] in Hl. destruct (Nat.eqb i j) eqn:Eij.
      + apply Nat.eqb_eq in Eij. subst. apply in_or_app. right. now left.
      + apply in_or_app. left. exact (Keys _ _ Hl).
    - intros j Hj. cbn [lookup]. destruct (Nat.eqb i j) eqn:Eij; [eexists; reflexivity|].
      apply in_app_or in Hj as [Hj | [<- | []]]; [exact (Proc j Hj) | rewrite Nat.eqb_refl in Eij; discriminate].
    - intros c' nd' Ec' Hc'. rewrite add_node_eq in Ec'.
      destruct (Nat.lt_ge_cases c' (length cur)) as [Hlt | Hge].
      + rewrite nth_error_app1 in Ec' by exact Hlt.
        destruct (Kd c' nd' Ec' Hc') as [Kc | (c & j & nj & t & Lc & Ej & Lj & HjB & Hjd)].
        * left. rewrite add_node_eq. apply kid_snoc. exact Kc.
        * destruct (Nat.eq_dec j i) as [-> | Hne].
          -- (* the designated child is the entry added now: it keeps its relation, renumbered *)
             left. rewrite En in Ej. injection Ej as <-. rewrite add_node_eq. exists (length cur), (new_node env cur (n_op n) l').
             split; [rewrite nth_error_app2, Nat.sub_diag by lia; reflexivity|].
             unfold l'. rewrite Lj. cbn [has_relation map_link]. rewrite Lc. unfold new_node.
             assert (Hlt' : (c' <? length cur)%nat = true) by (apply Nat.ltb_lt; exact Hlt). now rewrite Hlt'.
          -- right. exists c, j, nj, t. repeat split; try assumption.
             ++ cbn [lookup]. destruct (Nat.eqb i c) eqn:Eic; [|exact Lc]. apply Nat.eqb_eq in Eic. subst c.
                exfalso. apply Keys in Lc. rewrite EB in NDB. apply NoDup_remove_2 in NDB. apply NDB. apply in_or_app. now left.
             ++ intros Hin. apply in_app_or in Hin as [Hin | [Hin | []]]; [exact (Hjd Hin) | congruence].
      + rewrite nth_error_app2 in Ec' by exact Hge. destruct (c' - length cur)%nat as [|k] eqn:Ek; [|destruct k; discriminate].
        cbn in Ec'. injection Ec' as <-. rewrite new_node_op in Hc'. assert (c' = length cur) by lia. subst c'.
        destruct (Ko i n En Hc') as (j & nj & t & HjB & Ej & Lj & Pj). right. exists i, j, nj, t.
        split; [cbn [lookup]; now rewrite Nat.eqb_refl|]. repeat split; try assumption.
        (* the child is listed behind its parent *)
        assert (Bij : before B i j).
        { apply (bfs_parent_before (parents other) max_layers j i WoP); [now rewrite parents_nth_error, Ej, <- Pj | exact HjB]. }
        intros Hin. apply in_app_or in Hin as [Hin | [Hin | []]].
        * rewrite EB in Bij, NDB. apply (before_NoDup_asym _ _ _ NDB Bij).
          apply (before_app_lr done (i :: rest)); [exact Hin | now left].
        * subst j. exact (before_NoDup_neq _ _ _ NDB Bij eq_refl).
  Qed.
End ExtendFold.

Lemma ext_fold env cur0 other rel : wf_nodes other -> simple_links other -> kidsplus other ->
  (forall qs q, rel = LMulti qs -> In q qs -> mem_ok cur0 q) -> multi_in_range (length cur0) rel ->
  forall is done cur m, bfs (parents other) = done ++ is -> ext_inv cur0 other done cur m ->
  let st := fold_left (extend_step env other rel) is (cur, m) in ext_inv cur0 other (done ++ is) (fst st) (snd st).
Proof.
  intros Wo So Ko Rel RelR. induction is as [|i is IH]; intros done cur m EB Inv; cbn [fold_left].
  - rewrite app_nil_r. exact Inv.
  - pose proof (ext_step env cur0 other rel Wo So Ko Rel RelR done i is cur m EB Inv) as St.
    destruct (extend_step env other rel (cur, m) i) as [cur' m'].
    replace (done ++ i :: is) with ((done ++ [i]) ++ is) by (now rewrite <- app_assoc).
    apply IH; [now rewrite <- app_assoc | exact St].
Qed.

Theorem extend_ok env cur0 other : wf_nodes cur0 -> multi_ok cur0 -> kids cur0 ->
  wf_nodes other -> simple_links other -> kidsplus other ->
  wf_nodes (extend env cur0 other) /\ multi_ok (extend env cur0 other) /\ kids (extend env cur0 other).
Proof.
  intros W0 M0 K0 Wo So Ko. rewrite extend_eq.
  set (rel := match cur0 with [] => LNone | _ => LMulti (graph_leaves (parents cur0)) end).
  assert (Rel : forall qs q, rel = LMulti qs -> In q qs -> mem_ok cur0 q).
  { intros qs q E Hq. unfold rel in E. destruct cur0 as [|a t]; [discriminate|]. injection E as <-. exact (graph_leaves_mem_ok _ q K0 Hq). }
  assert (RelR : multi_in_range (length cur0) rel).
  { unfold rel. destruct cur0 as [|a t]; [exact I|].
    change (Forall (fun q => (q < length (a :: t))%nat) (graph_leaves (parents (a :: t)))). apply Forall_forall. intros q Hq.
    apply graph_leaves_lt in Hq. now rewrite parents_length in Hq. }
  assert (I0 : ext_inv cur0 other [] cur0 []).
  { unfold ext_inv. refine (conj _ (conj _ (conj _ (conj _ (conj _ (conj _ _)))))).
    - exists []. now rewrite app_nil_r.
    - exact W0.
    - apply idx_ok_nil.
    - exact M0.
    - intros i i' H. discriminate.
    - intros i [].
    - intros c' nd' E C. left. exact (K0 c' nd' E C). }
  pose proof (ext_fold env cur0 other rel Wo So Ko Rel RelR (bfs (parents other)) [] cur0 [] eq_refl I0) as F.
  cbv zeta in F. cbn [app] in F. destruct F as (_ & W & _ & M & _ & _ & Kd). split; [exact W|]. split; [exact M|].
  intros c' nd' E C. destruct (Kd c' nd' E C) as [Kc | (c & j & nj & t & _ & _ & _ & HjB & Hjd)]; [exact Kc | contradiction].
Qed.

(* ================================================================== 3. unrolling: repeat_nodes / apply_modifiers *)
Lemma simple_multi_ok ns : simple_links ns -> multi_ok ns.
Proof.
  intros S i n qs q En L _. exfalso. unfold simple_links in S. rewrite Forall_forall in S.
  pose proof (S n (nth_error_In _ _ En)) as H. rewrite L in H. exact H.
Qed.

Lemma kidsplus_kids ns : kidsplus ns -> kids ns.
Proof. intros K c nd E C. destruct (K c nd E C) as (j & nj & t & _ & Ej & _ & Pj). now exists j, nj. Qed.

(* a graph that is its own (second) copy, without multi-links, every sub-circuit node with a related child: what a
   sub-circuit added by a build program looks like; or any graph without multi-links when the count is 1 *)
Inductive uok (env : denv) : op -> Prop :=
| uok_leaf l : uok env (OLeaf l)
| uok_comp r ns : wf_nodes ns -> simple_links ns ->
    (r <= 1 \/ (copy_nodes env (copy_nodes env ns) = ns /\ kidsplus ns)) ->
    Forall (fun n => uok env (n_op n)) ns -> uok env (OComp r ns).

Lemma uok_inv env r ns : uok env (OComp r ns) ->
  wf_nodes ns /\ simple_links ns /\ (r <= 1 \/ (copy_nodes env (copy_nodes env ns) = ns /\ kidsplus ns))
  /\ Forall (fun n => uok env (n_op n)) ns.
Proof. intros H. inversion H; subst. auto. Qed.

Lemma uok_plain env o : uok env o -> mok o.
Proof.
  induction o as [l | r ns IH] using op_ind'; intros U; [constructor|].
  apply uok_inv in U as (_ & S & _ & F). constructor; [apply simple_multi_ok; exact S|].
  rewrite Forall_forall in *. intros n Hn. apply IH; auto.
Qed.

Lemma repeat_ok env ns r : uok env (OComp r ns) ->
  let X := repeat_nodes env ns r in wf_nodes X /\ multi_ok X /\ Forall (fun n => uok env (n_op n)) X.
Proof.
  intros U. apply uok_inv in U as (W & S & C & F). cbv zeta. unfold repeat_nodes.
  destruct C as [C | [CC KP]].
  - replace (Z.to_nat (r - 1)) with 0%nat by lia. cbn [iter_n]. split; [exact W|]. split; [apply simple_multi_ok; exact S | exact F].
  - rewrite CC.
    assert (G : forall x, (wf_nodes x /\ multi_ok x /\ kids x /\ Forall (uok env) (map n_op x)) ->
                          (wf_nodes (extend env x ns) /\ multi_ok (extend env x ns) /\ kids (extend env x ns)
                           /\ Forall (uok env) (map n_op (extend env x ns)))).
    { intros x (Wx & Mx & Kx & Fx). destruct (extend_ok env x ns Wx Mx Kx W S KP) as (W' & M' & K').
      split; [exact W'|]. split; [exact M'|]. split; [exact K'|]. apply extend_ops_Forall; [exact Fx | apply Forall_map; exact F]. }
    pose proof (iter_n_inv _ _ G (Z.to_nat (r - 1)) ns) as H.
    destruct H as (W' & M' & _ & F').
    + split; [exact W|]. split; [apply simple_multi_ok; exact S|]. split; [apply kidsplus_kids; exact KP | apply Forall_map; exact F].
    + split; [exact W'|]. split; [exact M'|]. exact (proj1 (Forall_map n_op (uok env) _) F').
Qed.

Lemma multi_ok_unrolled env f X : multi_ok X -> multi_ok (map (unroll_node env f) X).
Proof.
  intros M i n qs q En L Hq. rewrite nth_error_map in En. destruct (nth_error X i) as [x|] eqn:Ex; [|discriminate].
  cbn in En. injection En as <-. rewrite unroll_node_link in L. destruct (M i x qs q Ex L Hq) as (Hb & nq & Enq & (lq & Eo)).
  split.
  - assert (E : parents (map (unroll_node env f) X) = parents X).
    { unfold parents. rewrite map_map. apply map_ext. apply unroll_node_parent. }
    rewrite E. exact Hb.
  - exists (unroll_node env f nq). split; [now rewrite nth_error_map, Enq|]. exists lq.
    destruct nq as [p l [lf | r sub]]; cbn in *; [exact Eo | discriminate].
Qed.

Theorem uok_unrolled env : forall fuel r ns, uok env (OComp r ns) -> mok (OComp 1 (apply_mods_fuel fuel env r ns)).
Proof.
  induction fuel as [|f IH]; intros r ns U.
  - cbn [apply_mods_fuel]. apply uok_inv in U as (_ & S & _ & F). constructor; [apply simple_multi_ok; exact S|].
    rewrite Forall_forall in *. intros n Hn. apply (uok_plain env). auto.
  - rewrite apply_mods_fuel_S. destruct (repeat_ok env ns r U) as (W & M & F). constructor.
    + apply multi_ok_unrolled. exact M.
    + apply Forall_map. rewrite Forall_forall in *. intros x Hx. specialize (F x Hx).
      destruct x as [p l [lf | r' sub]]; cbn [unroll_node n_op] in *; [constructor | apply IH; exact F].
Qed.

(* ================================================================== 4. sub-circuits added by a build program *)
Lemma copy_simple env g : cwf (OComp 1 g) -> simple_links g -> simple_links (copy_nodes env g).
Proof.
  intros C S. destruct (copy_iso env 1 g C) as (_ & E & _ & _). rewrite E. unfold simple_links. apply Forall_map.
  apply Forall_forall. intros i Hi. cbn [n_link].
  assert (Hl : (i < length g)%nat) by (apply bfs_lt_length in Hi; now rewrite parents_length in Hi).
  unfold simple_links in S. rewrite Forall_forall in S. pose proof (S (nth i g dummy_node) (nth_In _ _ Hl)) as H.
  destruct (n_link (nth i g dummy_node)); cbn; tauto.
Qed.

Lemma is_comp_copy env o : is_comp (copy_op env o) = is_comp o.
Proof. destruct o; reflexivity. Qed.

Lemma kidsplus_copy env g : cwf (OComp 1 g) -> kidsplus g -> kidsplus (copy_nodes env g).
Proof.
  intros C K. destruct (copy_iso env 1 g C) as (Pm & E & E3 & Eb). set (B := bfs (parents g)) in *.
  assert (WP : wf_parents (parents g)) by (apply cwf_comp_inv in C as ((W & _) & _); exact (proj1 W)).
  assert (NDB : NoDup B) by (apply bfs_NoDup; exact WP).
  assert (LB : length B = length g) by (rewrite (Permutation_length Pm); apply seq_length).
  intros c nd Ec Hc. rewrite E in Ec. rewrite nth_error_map in Ec. destruct (nth_error B c) as [c0|] eqn:Ec0; [|discriminate].
  cbn in Ec. injection Ec as <-. cbn [n_op] in Hc. rewrite is_comp_copy in Hc.
  assert (Hc0 : In c0 B) by (eapply nth_error_In; exact Ec0).
  assert (Hl : (c0 < length g)%nat) by (apply bfs_lt_length in Hc0; now rewrite parents_length in Hc0).
  destruct (nth_error g c0) as [n0|] eqn:En0; [|apply nth_error_None in En0; lia].
  rewrite (nth_error_nth _ _ dummy_node En0) in Hc.
  destruct (K c0 n0 En0 Hc) as (j0 & nj0 & t & Hj0 & Ej0 & Lj0 & Pj0).
  pose proof (E3 j0 nj0 Ej0) as Ej. rewrite Lj0, Pj0 in Ej. cbn [option_map link_map] in Ej.
  assert (Es : sigma_of g c0 = c) by (unfold sigma_of; apply pos_nth_error; assumption).
  rewrite Es in Ej. exists (sigma_of g j0), (Node (Some c) (LRel t c) (copy_op env (n_op nj0))), t. split; [|split; [exact Ej | split; reflexivity]].
  rewrite Eb. apply in_seq. split; [lia|]. rewrite <- LB. unfold sigma_of. apply pos_lt. exact Hj0.
Qed.

(* the condition on a program: every block with a count above 1, once added (copied), has a related child for each of its
   sub-circuit nodes *)
Inductive cok (env : denv) : cmd -> Prop :=
| cok_add l r : cok env (CAdd l r)
| cok_dangling l t : cok env (CDangling l t)
| cok_sub r body : Forall (cok env) body -> (r <= 1 \/ kidsplus (copy_nodes env (run_prog env body))) -> cok env (CSub r body).

Lemma copy_op_comp_nodes env r ns : copy_op env (OComp r ns) = OComp r (copy_nodes env ns).
Proof. now rewrite copy_op_comp, copy_nodes_eq. Qed.

Lemma cok_uok env c : sized_cmd c -> cok env c -> uok env (cmd_op env c) /\ copy_op env (cmd_op env c) = cmd_op env c.
Proof.
  induction c as [l r | l t | r body IH] using cmd_ind'; intros Sz K.
  - split; [constructor | cbn; now rewrite copy_leaf_id].
  - split; [constructor | cbn; now rewrite copy_leaf_id].
  - inversion Sz as [| | ? ? SL SB]; subst. inversion K as [| | ? ? KB KC]; subst. cbn [cmd_op].
    change (run_cmds env body []) with (run_prog env body). set (g := run_prog env body).
    assert (C : cwf (OComp 1 g)) by (apply run_prog_cwf; split; assumption).
    assert (CC : copy_nodes env (copy_nodes env g) = copy_nodes env g) by (apply copy_of_copy; exact C).
    split.
    + constructor.
      * apply copy_nodes_wf.
      * apply copy_simple; [exact C | apply run_prog_simple].
      * destruct KC as [KC | KC]; [left; exact KC | right]. split; [now rewrite !CC | exact KC].
      * apply (proj1 (Forall_map n_op (uok env) _)). apply (CopyIso.copy_nodes_ops_Forall (uok env) env g). intros n Hn.
        assert (Hin : In (n_op n) (map (cmd_op env) body)).
        { unfold g, run_prog in Hn. apply (in_map n_op) in Hn. rewrite run_cmds_ops in Hn. exact Hn. }
        apply in_map_iff in Hin as (c & <- & Hc). rewrite Forall_forall in IH, SB, KB.
        destruct (IH c Hc (SB c Hc) (KB c Hc)) as [U E]. rewrite E. exact U.
    + rewrite copy_op_comp_nodes. now rewrite CC.
Qed.

Theorem prog_uok env p : sized_prog p -> Forall (cok env) p -> uok env (OComp 1 (run_prog env p)).
Proof.
  intros [SL SB] K. constructor; [apply run_prog_wf | apply run_prog_simple | left; lia |].
  apply (proj1 (Forall_map n_op (uok env) _)). unfold run_prog. rewrite run_cmds_ops. cbn [map app]. apply Forall_map.
  rewrite Forall_forall in *. intros c Hc. exact (proj1 (cok_uok env c (SB c Hc) (K c Hc))).
Qed.

(* Core's flatten is defined on the unrolled circuit of such a program *)
Theorem prog_flatten_defined env p : sized_prog p -> Forall (cok env) p ->
  flatten env (apply_modifiers env 1 (run_prog env p)) <> None.
Proof.
  intros Sz K. apply (flatten_defined env 1).
  - apply apply_modifiers_wf_op. apply run_prog_wf_op.
  - apply apply_modifiers_mb. apply run_prog_mb.
  - unfold apply_modifiers. apply uok_unrolled. exact (prog_uok env p Sz K).
Qed.

(* ================================================================== 5. construct_repetition_code_circuit satisfies the condition *)
Lemma cok_flat env body : flat_body body = true -> Forall (cok env) body.
Proof.
  intros F. unfold flat_body in F. rewrite forallb_forall in F. apply Forall_forall. intros c Hc. specialize (F c Hc).
  destruct c; [constructor | constructor | discriminate].
Qed.

Lemma flat_unroll_small p : flat_body p = true -> Z.of_nat (length p) <= 4999 -> unroll_small_prog p.
Proof.
  intros F L. split; [exact L|]. unfold flat_body in F. rewrite forallb_forall in F. apply Forall_forall. intros c Hc.
  specialize (F c Hc). destruct c; [constructor | constructor | discriminate].
Qed.

Lemma flat_body_app a b : flat_body (a ++ b) = flat_body a && flat_body b.
Proof. unfold flat_body. apply forallb_app. Qed.
Lemma flat_body_adds {X} (g : X -> leaf) xs : flat_body (map (fun x => add (g x)) xs) = true.
Proof. unfold flat_body. apply forallb_forall. intros c Hc. apply in_map_iff in Hc as (x & <- & _). reflexivity. Qed.
Lemma flat_body_meas t xs : flat_body (map (meas t) xs) = true.
Proof. unfold flat_body. apply forallb_forall. intros c Hc. apply in_map_iff in Hc as (x & <- & _). reflexivity. Qed.
Lemma flat_barrier_if D b : flat_body (barrier_if D b) = true.
Proof. destruct b; reflexivity. Qed.

Lemma flat_layers D : forall ls cur, flat_body (layers_cmds D cur ls) = true.
Proof.
  induction ls as [|[gates parks] rest IH]; intros cur; [reflexivity|]. cbn [layers_cmds].
  rewrite !flat_body_app, !flat_barrier_if, IH.
  rewrite (flat_body_adds (fun q => lf C_Ry90 [q])), (flat_body_adds (fun e => lf C_CPhase [fst e; snd e])),
    (flat_body_adds (fun q => lf C_VirtualPark [q])), (flat_body_adds (fun e => lf C_TwoQubitVirtualPhase [fst e; snd e])),
    (flat_body_adds (fun q => lf C_Rym90 [q])). reflexivity.
Qed.

Lemma flat_refocus D : flat_body (refocus_cmds D) = true.
Proof.
  unfold refocus_cmds. destruct (r_refocus D); [|reflexivity]. unfold flat_body. apply forallb_forall. intros c Hc.
  apply in_flat_map in Hc as (q & _ & Hc). cbn in Hc. intuition (subst; reflexivity).
Qed.

Lemma flat_round D dd : flat_body (circuit_qec_round D dd) = true.
Proof.
  unfold circuit_qec_round. rewrite !flat_body_app, flat_layers, flat_body_meas. cbn [andb].
  destruct dd; [rewrite flat_body_app, flat_refocus|]; reflexivity.
Qed.

Lemma flat_initialize D init anc : flat_body (circuit_initialize D init anc) = true.
Proof.
  unfold circuit_initialize, init_ops. rewrite !flat_body_app. unfold prep.
  rewrite (flat_body_adds (fun qb : Z * bool => lf (prep_cls (snd qb)) [fst qb])), (flat_body_adds (fun qb : Z * bool => lf (prep_cls (snd qb)) [fst qb])).
  reflexivity.
Qed.

(* the QEC round, added as a sub-circuit, occupies the ALL channel of every qubit (its Barrier) *)
Lemma round_sub_chans env D dd q : sized_prog (circuit_qec_round D dd) -> In q (r_qubits D) ->
  In (chan q QubitChannel_ALL) (op_channels (cmd_op env (CSub 1 (circuit_qec_round D dd)))).
Proof.
  intros Sz Hq. set (round := circuit_qec_round D dd) in *. apply (leaf_chan_in_op _ (barrier_leaf D)); [|apply barrier_chans; exact Hq].
  cbn [cmd_op]. change (run_cmds env round []) with (run_prog env round).
  rewrite <- (listing_leaves env), (copy_same_listing env _ (run_prog_cwf env 1 _ Sz)).
  rewrite <- (flat_unrolled env round (flat_round D dd)).
  apply (Permutation_in _ (Permutation_sym (unroll_listing_multiset env round (flat_unroll_small _ (flat_round D dd) (proj1 Sz))))).
  unfold prog_expanded. apply in_flat_map. exists (barrier D). split; [|now left].
  unfold round, circuit_qec_round. apply in_or_app. right. apply in_or_app. left. now left.
Qed.

(* a graph  sub-circuit, leaf sharing a channel with it, further leaves *)
Lemma kidsplus_sub_then_leaf env body l rest :
  flat_body rest = true -> any_match (l_chans l) (op_channels (cmd_op env (CSub 1 body))) = true ->
  Z.of_nat (length rest) + 2 <= 4999 ->
  kidsplus (run_prog env (CSub 1 body :: CAdd l None :: rest)).
Proof.
  intros Fr M L. set (c0 := CSub 1 body). set (g := run_prog env (c0 :: CAdd l None :: rest)).
  assert (E0 : run_cmds env [c0] [] = [Node None LNone (cmd_op env c0)]).
  { rewrite run_cmds_cons. cbn [run_cmds]. rewrite add_node_eq. cbn [app cmd_link c0]. now rewrite (new_node_empty env _ LNone I). }
  assert (E1 : nth_error g 1 = Some (Node (Some 0%nat) (LRel RelationType_FOLLOWED_BY 0) (OLeaf l))).
  { unfold g, run_prog. change (c0 :: CAdd l None :: rest) with ([c0] ++ CAdd l None :: rest). rewrite (node_at env [c0]).
    rewrite E0. cbn [cmd_op cmd_link]. unfold new_node, leaf_at_any. cbn [parents map n_parent]. rewrite bfs_single. cbn [rev app find map nth n_op op_channels].
    fold c0 in M. now rewrite M. }
  assert (Lg : length g = (length rest + 2)%nat) by (unfold g, run_prog; rewrite run_cmds_length; cbn; lia).
  intros c nd Ec Hc.
  assert (c = 0%nat) as ->.
  { destruct c as [|c']; [reflexivity | exfalso].
    assert (Eo : nth_error (map n_op g) (S c') = Some (n_op nd)) by (now rewrite nth_error_map, Ec).
    unfold g, run_prog in Eo. rewrite run_cmds_ops in Eo. cbn [map app nth_error] in Eo.
    destruct c' as [|c'']; cbn [nth_error] in Eo.
    - injection Eo as Eo. rewrite <- Eo in Hc. discriminate.
    - rewrite nth_error_map in Eo. destruct (nth_error rest c'') as [c|] eqn:E; [|discriminate].
      cbn in Eo. injection Eo as Eo. apply nth_error_In in E.
      unfold flat_body in Fr. rewrite forallb_forall in Fr. pose proof (Fr c E) as Fc.
      rewrite <- Eo in Hc. destruct c; cbn in Hc, Fc; discriminate. }
  exists 1%nat, (Node (Some 0%nat) (LRel RelationType_FOLLOWED_BY 0) (OLeaf l)), RelationType_FOLLOWED_BY.
  split; [|split; [exact E1 | split; reflexivity]].
  assert (Pm : Permutation (bfs (parents g)) (seq 0 (length (parents g)))).
  { apply bfs_perm_length; [apply run_prog_wf | rewrite parents_length, Lg; lia]. }
  apply (Permutation_in _ (Permutation_sym Pm)). apply in_seq. rewrite parents_length, Lg. lia.
Qed.

Lemma sized_sub_inv r body : sized_cmd (CSub r body) -> sized_prog body.
Proof. intros S. inversion S; subst. split; assumption. Qed.

Lemma sized_prog_in p c : sized_prog p -> In c p -> sized_cmd c.
Proof. intros [_ F] H. rewrite Forall_forall in F. exact (F c H). Qed.

(* the three sub-circuits of get_circuit_qec_with_detectors: QEC round, detectors, coordinate shift (and Barrier) *)
Lemma qec_sub_kidsplus env D dd tail' : incl (r_anc D) (r_qubits D) -> r_qubits D <> [] -> flat_body tail' = true ->
  let sub := [CSub 1 (circuit_qec_round D dd)] ++ detectors D ++ coord_shift D :: tail' in
  sized_prog sub -> kidsplus (copy_nodes env (run_prog env sub)).
Proof.
  intros IA NE Ft sub Sz. apply kidsplus_copy; [apply run_prog_cwf; exact Sz|].
  assert (Sr : sized_prog (circuit_qec_round D dd)).
  { apply (sized_sub_inv 1). apply (sized_prog_in sub); [exact Sz | now left]. }
  assert (Ls : Z.of_nat (length sub) <= 4999) by exact (proj1 Sz).
  assert (Hm : forall l q, In q (r_qubits D) -> In (chan q QubitChannel_ALL) (l_chans l) ->
               any_match (l_chans l) (op_channels (cmd_op env (CSub 1 (circuit_qec_round D dd)))) = true).
  { intros l q Hq Hl. apply (any_match_intro _ _ (chan q QubitChannel_ALL) (chan q QubitChannel_ALL)); [exact Hl | | apply match_all].
    apply round_sub_chans; assumption. }
  unfold sub in *. unfold detectors in *. destruct (r_anc D) as [|a1 anc'] eqn:EA; cbn [map app] in *.
  - apply kidsplus_sub_then_leaf; [exact Ft | | cbn [length] in Ls; lia].
    destruct (r_qubits D) as [|q0 Q'] eqn:EQ; [congruence|]. apply (Hm _ q0); now left.
  - apply kidsplus_sub_then_leaf.
    + rewrite flat_body_app, (flat_body_adds (fun a => lf C_DetectorOperation [a])). cbn [andb]. exact Ft.
    + apply (Hm _ a1); [apply IA; now left | now left].
    + cbn [length] in Ls. lia.
Qed.

Lemma cok_qec_sub env D dd k tail' : incl (r_anc D) (r_qubits D) -> r_qubits D <> [] -> flat_body tail' = true ->
  let sub := [CSub 1 (circuit_qec_round D dd)] ++ detectors D ++ coord_shift D :: tail' in
  sized_cmd (CSub k sub) -> cok env (CSub k sub).
Proof.
  intros IA NE Ft sub Sz. constructor.
  - unfold sub. apply Forall_app. split; [constructor; [|constructor]|].
    + constructor; [apply cok_flat, flat_round | left; lia].
    + apply cok_flat. unfold detectors. rewrite flat_body_app, (flat_body_adds (fun a => lf C_DetectorOperation [a])). exact Ft.
  - right. apply qec_sub_kidsplus; try assumption. exact (sized_sub_inv k sub Sz).
Qed.

Lemma cok_qec env D cycles : incl (r_anc D) (r_qubits D) -> r_qubits D <> [] ->
  sized_cmd (CSub 1 (circuit_qec_with_detectors D cycles)) -> cok env (CSub 1 (circuit_qec_with_detectors D cycles)).
Proof.
  intros IA NE Sz. constructor; [|left; lia]. pose proof (sized_sub_inv _ _ Sz) as Sb.
  apply Forall_forall. intros c Hc. pose proof (sized_prog_in _ c Sb Hc) as Sc.
  unfold circuit_qec_with_detectors in Hc. destruct (cycles =? 0).
  - apply in_map_iff in Hc as (x & <- & _). constructor.
  - apply in_app_or in Hc as [Hc | Hc]; [|apply in_app_or in Hc as [Hc | Hc]].
    + destruct (cycles >? 1); [|destruct Hc]. destruct Hc as [<- | []].
      exact (cok_qec_sub env D true _ [] IA NE eq_refl Sc).
    + destruct (cycles >? 3); [|destruct Hc]. destruct Hc as [<- | []].
      exact (cok_qec_sub env D true _ [barrier D] IA NE eq_refl Sc).
    + destruct Hc as [<- | []]. exact (cok_qec_sub env D false _ [] IA NE eq_refl Sc).
Qed.

Theorem cok_rep_code env D init anc cycles : incl (r_anc D) (r_qubits D) -> r_qubits D <> [] ->
  sized_prog (rep_code_prog D init anc cycles) -> Forall (cok env) (rep_code_prog D init anc cycles).
Proof.
  intros IA NE Sz. unfold rep_code_prog in *. apply Forall_app. split.
  - constructor; [|constructor; [|constructor; [|constructor]]].
    + constructor; [|left; lia]. unfold circuit_initialize_with_heralded. apply Forall_app. split; [apply cok_flat, flat_body_adds|].
      apply Forall_app. split; [apply cok_flat, flat_body_meas|]. constructor; [|constructor].
      constructor; [apply cok_flat, flat_initialize | left; lia].
    + apply cok_qec; try assumption. apply (sized_prog_in _ _ Sz). right. now left.
    + constructor; [|left; lia]. apply cok_flat. unfold circuit_final_measurement. apply flat_body_meas.
  - apply cok_flat. unfold detectors, observables. rewrite flat_body_app.
    now rewrite (flat_body_adds (fun a => lf C_DetectorOperation [a])), (flat_body_adds (fun q => lf C_LogicalObservableOperation [q])).
Qed.

(* ================================================================== 6. the theorems *)
Lemma unroll_small_sized_prog p : unroll_small_prog p -> sized_prog p.
Proof. intros [L F]. split; [exact L|]. rewrite Forall_forall in *. intros c Hc. apply unroll_small_sized. auto. Qed.

(* Core's flatten is defined on every block: every description with a qubit, every round count *)
Theorem block_defined env D init anc r : incl (r_anc D) (r_qubits D) -> r_qubits D <> [] ->
  unroll_small_prog (rep_code_prog D init anc r) -> block_flat env D init anc r <> None.
Proof.
  intros IA NE S. unfold block_flat, block_graph. pose proof (unroll_small_sized_prog _ S) as Sz.
  exact (prog_flatten_defined env _ Sz (cok_rep_code env D init anc r IA NE Sz)).
Qed.

Lemma rounds_total env D init anc : forall rounds ns0, (forall r, In r rounds -> block_flat env D init anc r <> None) ->
  multi_round_rounds env D init anc rounds ns0 <> None.
Proof.
  induction rounds as [|r t IH]; intros ns0 H; [discriminate|]. cbn [multi_round_rounds].
  pose proof (H r (or_introl eq_refl)) as Hr. unfold block_flat, block_graph in Hr.
  destruct (flatten env (apply_modifiers env 1 (run_prog env (rep_code_prog D init anc r)))) as [f|]; [|congruence].
  apply IH. intros r' Hr'. apply H. now right.
Qed.

(* the model of the multi-round constructor always answers *)
Theorem multi_defined env D init anc rounds : incl (r_anc D) (r_qubits D) -> r_qubits D <> [] ->
  multi_small D init anc rounds -> exists ns, multi_round_nodes env D init anc rounds = Some ns.
Proof.
  intros IA NE (SB & _). unfold multi_round_nodes.
  destruct (multi_round_rounds env D init anc rounds []) as [ns1|] eqn:E; [eexists; reflexivity | exfalso].
  apply (rounds_total env D init anc rounds []); [|exact E]. intros r Hr. rewrite Forall_forall in SB.
  destruct (SB r Hr) as (_ & S & _). exact (block_defined env D init anc r IA NE S).
Qed.

Lemma side_condition_total D init anc rounds a : desc_ok D -> gates_ok D -> multi_small D init anc rounds -> In a (r_anc D) ->
  forall r, In r rounds -> block_heralded_first D init anc r a = true.
Proof.
  intros K GO (SB & _) Ha r Hr. rewrite Forall_forall in SB. destruct (SB r Hr) as (_ & Sb).
  apply defined_heralded_first; try assumption. apply block_defined; [|intros E; pose proof (desc_ok_anc_qubit D a K Ha) as H; rewrite E in H; destruct H | exact (proj1 Sb)].
  destruct K as (_ & _ & _ & I & _). exact I.
Qed.

(* no side condition: one block *)
Theorem block_heralded_first_total D init anc r a :
  desc_ok D -> gates_ok D -> block_small D init anc r -> In a (r_anc D) -> block_heralded_first D init anc r a = true.
Proof.
  intros K GO Sb Ha. apply defined_heralded_first; try assumption. apply block_defined; [| | exact (proj1 Sb)].
  - destruct K as (_ & _ & _ & I & _). exact I.
  - intros E. pose proof (desc_ok_anc_qubit D a K Ha) as H. rewrite E in H. destruct H.
Qed.

(* 1. the tags of every ancilla, for every description and every rounds list: no antecedent *)
Theorem multi_anc_tags_total env D init anc rounds a :
  desc_ok D -> gates_ok D -> multi_small D init anc rounds -> In a (r_anc D) ->
  circuit_tags env D init anc rounds a = Some (map z_of_tag (multi_round_tags rounds)).
Proof. intros K GO Sm Ha. apply multi_anc_tags; try assumption. exact (side_condition_total D init anc rounds a K GO Sm Ha). Qed.

Theorem multi_labelled_total env D init anc rounds a :
  desc_ok D -> gates_ok D -> multi_small D init anc rounds -> In a (r_anc D) ->
  circuit_labelled env D init anc rounds a = Some (z_labelled (multi_round_labelled rounds)).
Proof. intros K GO Sm Ha. apply multi_labelled; try assumption. exact (side_condition_total D init anc rounds a K GO Sm Ha). Qed.

(* 2. composed with C13_kernels_agree_with_circuit *)
Theorem multi_kernel_agrees_total env D init anc rounds a data_ids anc_ids q :
  desc_ok D -> gates_ok D -> multi_small D init anc rounds -> In a (r_anc D) ->
  rounds <> [] -> NoDup rounds -> is_member q anc_ids = true ->
  exists lab e, circuit_labelled env D init anc rounds a = Some lab
  /\ circuit_kernel rounds data_ids anc_ids = Value e
  /\ Z.of_nat (length lab) = RepetitionExperimentKernel_kernel_cycle_length e
  /\ (forall n, In n rounds ->
        positions (is_zl T_HERALDED (Block n)) lab
          = concat (RepetitionExperimentKernel_get_heralded_cycle_acquisition_indices e q n)
        /\ positions (is_zl T_PARITY (Block n)) lab
          = concat (RepetitionExperimentKernel_get_stabilizer_and_projected_cycle_acquisition_indices e q n)
        /\ (1 <= n -> positions (is_zl T_FINAL (Block n)) lab = []
                      /\ concat (RepetitionExperimentKernel_get_projected_cycle_acquisition_indices e q n)
                         = [last (positions (is_zl T_PARITY (Block n)) lab) 0]))
  /\ (In 0 rounds -> exists k, In k (RepetitionExperimentKernel__repetition_kernels e)
        /\ RepetitionIndexKernel_nr_repeated_parities k = 0
        /\ positions (is_zl T_FINAL (Block 0)) lab = [RepetitionIndexKernel_stop_index k]
        /\ RepetitionExperimentKernel_get_projected_cycle_acquisition_indices e q 0 = [[]]
        /\ RepetitionExperimentKernel_get_stabilizer_and_projected_cycle_acquisition_indices e q 0 = [[]]
        /\ ~ In (RepetitionIndexKernel_stop_index k) (cycle_indices e q))
  /\ (forall st, positions (is_zl T_HERALDED (Cal st)) lab
                   = RepetitionExperimentKernel_get_heralded_calibration_acquisition_indices e q st
              /\ positions (is_zl T_FINAL (Cal st)) lab
                   = RepetitionExperimentKernel_get_projected_calibration_acquisition_indices e q st
              /\ positions (is_zl T_PARITY (Cal st)) lab = []).
Proof.
  intros K GO Sm Ha NE ND Hq.
  exact (multi_kernel_agrees_blocks env D init anc rounds a data_ids anc_ids q K Sm Ha (side_condition_total D init anc rounds a K GO Sm Ha) NE ND Hq).
Qed.

Theorem multi_tag_positions_total env D init anc rounds a data_ids anc_ids q :
  desc_ok D -> gates_ok D -> multi_small D init anc rounds -> In a (r_anc D) ->
  rounds <> [] -> NoDup rounds -> is_member q anc_ids = true ->
  exists tags e, circuit_tags env D init anc rounds a = Some tags
    /\ circuit_kernel rounds data_ids anc_ids = Value e
    /\ Z.of_nat (length tags) = RepetitionExperimentKernel_kernel_cycle_length e
    /\ positions (has_tag T_HERALDED) tags
       = concat (map (fun n => concat (RepetitionExperimentKernel_get_heralded_cycle_acquisition_indices e q n)) rounds)
         ++ concat (map (RepetitionExperimentKernel_get_heralded_calibration_acquisition_indices e q) StateKey_all)
    /\ positions (has_tag T_PARITY) tags
       = concat (map (fun n => concat (RepetitionExperimentKernel_get_stabilizer_and_projected_cycle_acquisition_indices e q n)) rounds)
    /\ positions (has_tag T_FINAL) tags
       = zero_round_slots e ++ concat (map (RepetitionExperimentKernel_get_projected_calibration_acquisition_indices e q) StateKey_all)
    /\ (forall x, In x (zero_round_slots e) -> ~ In x (cycle_indices e q)).
Proof.
  intros K GO Sm Ha NE ND Hq.
  exact (multi_kernel_agrees env D init anc rounds a data_ids anc_ids q K Sm Ha (side_condition_total D init anc rounds a K GO Sm Ha) NE ND Hq).
Qed.

(* ------------------------------------------------------------------ chains of every distance, the shipped layouts *)
Theorem chain_anc_tags_total env d rf init anc rounds a :
  multi_small (desc_of_chain d rf) init anc rounds -> In a (r_anc (desc_of_chain d rf)) ->
  circuit_tags env (desc_of_chain d rf) init anc rounds a = Some (map z_of_tag (multi_round_tags rounds)).
Proof. intros Sm Ha. apply multi_anc_tags_total; [apply chain_desc_ok | apply chain_gates_ok | exact Sm | exact Ha]. Qed.

Theorem layouts_anc_tags_total env L ch rf init anc rounds a : In (L, ch) all_layout_subchains ->
  multi_small (desc_of_layout L ch rf) init anc rounds -> In a (r_anc (desc_of_layout L ch rf)) ->
  circuit_tags env (desc_of_layout L ch rf) init anc rounds a = Some (map z_of_tag (multi_round_tags rounds)).
Proof.
  intros Hin Sm Ha. apply multi_anc_tags_total; [exact (proj1 (layout_facts L ch rf Hin)) | apply layouts_gates_ok; exact Hin | exact Sm | exact Ha].
Qed.

(* ------------------------------------------------------------------ example: hypotheses satisfiable, statement not vacuous *)
Example ex_total : circuit_tags model_env ex_D [true; false] [true] ex_rounds 1
  = Some [3; 4; 4;  3; 5;  3; 4; 4; 4;  3; 5; 3; 5; 3; 5].
Proof.
  rewrite (multi_anc_tags_total model_env ex_D [true; false] [true] ex_rounds 1); [reflexivity | | | | ].
  - apply chain_desc_ok.
  - apply chain_gates_ok.
  - exact ex_small.
  - simpl; auto.
Qed.

Example ex_defined_total : exists ns, multi_round_nodes model_env ex_D [true; false] [true] ex_rounds = Some ns.
Proof.
  apply multi_defined; [|discriminate | exact ex_small]. destruct (chain_desc_ok 2 true) as (_ & _ & _ & I & _). exact I.
Qed.
