(* LIBBUILD x C10 -- the shipped layouts: for every contiguous data-to-data sub-chain (82), both refocusing flags, the state
   1, 0, 1, 0, ... / no ancilla values, and EVERY cycle count: the strict certificate holds for the circuit as constructed,
   hence no overlap / barrier-clear / strictly no overlap under every admissible duration setting. *)
From Coq Require Import ZArith List Bool String Lia.
Import ListNotations.
From QCE Require Import Base.Prelude Core.Model Core.Run Lib.Run C09.Model C10.Model C10.Run C10.Proofs
                        LibBuild.Model LibBuild.Cert LibBuild.CertCycles LibBuild.CertCyclesProofs LibBuild.CertCyclesLayoutDefs
                        LibBuild.CertCyclesLayouts0 LibBuild.CertCyclesLayouts1 LibBuild.CertCyclesLayouts2 LibBuild.CertCyclesLayouts3.
From Gen Require Import Layouts.
Open Scope list_scope.
Open Scope Z_scope.

Lemma deal4_in {A} (x : A) l : In x l ->
  let '(a, b, c, d) := deal4 l in In x a \/ In x b \/ In x c \/ In x d.
Proof.
  induction l as [|y t IH]; intros H; [destruct H|]. cbn [deal4]. destruct (deal4 t) as [[[a b] c] d].
  destruct H as [-> | H]; [left; left; reflexivity|]. specialize (IH H).
  destruct IH as [I | [I | [I | I]]]; [right; left | right; right; left | right; right; right | left; right]; exact I.
Qed.

Lemma layouts_checked Lc : In Lc all_layout_subchains -> lay_check_both Lc = true.
Proof.
  intros H. pose proof (deal4_in Lc all_layout_subchains H) as G.
  pose proof lay_chunk0_checked as C0. pose proof lay_chunk1_checked as C1.
  pose proof lay_chunk2_checked as C2. pose proof lay_chunk3_checked as C3.
  unfold lay_chunk in C0, C1, C2, C3. destruct (deal4 all_layout_subchains) as [[[a b] c] d].
  rewrite forallb_forall in C0, C1, C2, C3. destruct G as [I | [I | [I | I]]]; auto.
Qed.

Theorem layouts_cert_all_cycles : forall L ch rf cycles, In (L, ch) all_layout_subchains -> 0 <= cycles ->
  let D := desc_of_layout L ch rf in
  cert_strict (run_prog env0 (rep_code_prog D (cc_lay_state D) [] cycles)) = true
  /\ cert_no_overlap (run_prog env0 (rep_code_prog D (cc_lay_state D) [] cycles)) = true.
Proof.
  intros L ch rf cycles Hin Hc D. pose proof (layouts_checked _ Hin) as H. unfold lay_check_both in H. cbn [fst snd] in H.
  apply andb_true_iff in H as [Ht Hf].
  assert (K : lay_check D = true) by (unfold D; destruct rf; assumption).
  unfold lay_check in K. rewrite forallb_forall in K.
  destruct (rep_code_certified D (cc_lay_state D) [] K cycles Hc) as (A & B & _). now split.
Qed.

Theorem layouts_no_overlap_plain_all_cycles : forall L ch rf cycles, In (L, ch) all_layout_subchains -> 0 <= cycles ->
  forall env, env_nonneg env -> env_parity env ->
    let D := desc_of_layout L ch rf in
    let ns := run_prog env (rep_code_prog D (cc_lay_state D) [] cycles) in
    no_overlap (o_ops (model_obs env ns)) = true /\ barrier_clear (o_ops (model_obs env ns)) = true
    /\ no_overlap_strict (o_ops (model_obs env ns)) = true.
Proof.
  intros L ch rf cycles Hin Hc env En Ep D. pose proof (layouts_checked _ Hin) as H. unfold lay_check_both in H. cbn [fst snd] in H.
  apply andb_true_iff in H as [Ht Hf].
  assert (K : lay_check D = true) by (unfold D; destruct rf; assumption).
  unfold lay_check in K. rewrite forallb_forall in K.
  exact (proj2 (proj2 (rep_code_certified D (cc_lay_state D) [] K cycles Hc)) env En Ep).
Qed.
