(* LIBBUILD -- a general listing-order fact about unrolled build programs:

     the unrolled listing of a program c0 :: rest is  A ++ B  where A is a permutation of everything c0 contributes (its
     leaves, product-of-enclosing-counts times) and B a permutation of everything the other commands contribute.

   Reason: the first inserted node of a graph is always a root and the layered listing starts with the smallest root, so the
   first command's (unrolled) block is listed first -- whatever relations the later commands carry.  Size hypothesis as in
   C06 (`unroll_small_prog`: every block times its count has at most 4999 entries): beyond it the documented depth limit
   truncates the listing.  Built on Core/UnrollProofs.v and C06/Proofs.v. *)
From Coq Require Import ZArith List Bool Lia Arith Permutation.
Import ListNotations.
From QCE Require Import Base.Prelude Core.Model Core.BfsProofs Core.BfsWf Core.TimesWf C02.Proofs Core.UnrollProofs C06.Proofs.
From Gen Require Import Ident Classes.
Local Open Scope nat_scope.

(* ------------------------------------------------------------------ the layered listing starts with node 0 *)
Lemma bfs_head ps : wf_parents ps -> ps <> [] -> exists tl, bfs ps = 0 :: tl.
Proof.
  intros W N. destruct ps as [|q ps']; [congruence|].
  assert (Q : q = None). { destruct q as [p|]; [|reflexivity]. specialize (W 0 p eq_refl). lia. }
  subst q. unfold bfs. rewrite bfs_fuel_levels. pose proof max_layers_eq as E.
  destruct max_layers as [|m]; [simpl in E; lia|].
  cbn [seq map concat level]. unfold children. cbn [children_from opt_nat_eqb option_eqb].
  eexists. reflexivity.
Qed.

(* ------------------------------------------------------------------ apply_modifiers at the top level (count 1) *)
Lemma unroll_top env ns :
  apply_modifiers env 1 ns = map (unroll_node env (list_max (map op_depth (map n_op ns)))) ns.
Proof.
  unfold apply_modifiers. rewrite op_depth_comp. rewrite apply_mods_fuel_S. now rewrite repeat_nodes_1.
Qed.

Lemma unroll_node_parent env fuel n : n_parent (unroll_node env fuel n) = n_parent n.
Proof. destruct n as [p l [lf | r sub]]; reflexivity. Qed.

Lemma at_node_map {B} (g : node -> node) ns (F : node -> list B) i : at_node (map g ns) F i = at_node ns (fun n => F (g n)) i.
Proof. unfold at_node. rewrite nth_error_map. destruct (nth_error ns i); reflexivity. Qed.

Lemma op_leaves_unrolled_top env fuel ns :
  op_leaves (OComp 1%Z (map (unroll_node env fuel) ns))
  = flat_map (at_node ns (fun n => op_leaves (unroll_op env fuel (n_op n)))) (bfs (parents ns)).
Proof.
  rewrite op_leaves_comp.
  assert (P : parents (map (unroll_node env fuel) ns) = parents ns).
  { unfold parents. rewrite map_map. apply map_ext. apply unroll_node_parent. }
  rewrite P. apply flat_map_ext. intros i. rewrite at_node_map. unfold at_node.
  destruct (nth_error ns i) as [n|]; [|reflexivity]. now rewrite unroll_node_op.
Qed.

(* ------------------------------------------------------------------ one command: its unrolled block lists what it expands to *)
Lemma unrolled_cmd_perm env c fuel : unroll_small_cmd c -> op_depth (cmd_op env c) <= fuel ->
  Permutation (op_leaves (unroll_op env fuel (cmd_op env c))) (cmd_expanded c).
Proof.
  intros S D. destruct c as [l r | l t | r body]; try apply Permutation_refl.
  pose proof (cmd_op_wf env (CSub r body)) as W.
  pose proof (unroll_small_cmd_rsize env _ S) as RS.
  cbn [cmd_op] in *. set (sub := copy_nodes env (run_cmds env body [])) in *. cbn [unroll_op].
  assert (K : ok (OComp 1%Z (apply_mods_fuel fuel env r sub))).
  { split; [|apply unroll_fuel_size_ok; assumption]. apply (wf_op_reps r). apply apply_mods_fuel_wf_op. exact W. }
  rewrite (op_leaves_perm _ (ok_listable_op _ K)).
  pose proof (unroll_fuel_multiset env leaf (fun l => l) copy_leaf_id_current fuel r sub D
                (rsize_ok_ok _ W RS) (rsize_ok_reps_pos _ RS)) as P1.
  unfold fleaves, fexpanded in P1. rewrite !map_id in P1. rewrite P1.
  pose proof (cmd_op_fexpanded env leaf (fun l => l) copy_leaf_id_current (CSub r body) S) as P2.
  unfold fexpanded in P2. rewrite !map_id in P2. exact P2.
Qed.

Lemma at_node_cons_S {B} n0 ns (F : node -> list B) i : at_node (n0 :: ns) F (S i) = at_node ns F i.
Proof. reflexivity. Qed.

Lemma list_max_In_le l x : In x l -> x <= list_max l.
Proof.
  intros H. assert (F : Forall (fun k => k <= list_max l) l) by (apply list_max_le; lia).
  rewrite Forall_forall in F. auto.
Qed.

(* ------------------------------------------------------------------ the first command's block is listed first *)
Theorem unrolled_first_block env c0 rest : unroll_small_prog (c0 :: rest) ->
  exists A B, map e_leaf (listing env (apply_modifiers env 1 (run_prog env (c0 :: rest)))) = A ++ B
              /\ Permutation A (cmd_expanded c0) /\ Permutation B (prog_expanded rest).
Proof.
  intros [SL SB]. set (ns := run_prog env (c0 :: rest)).
  assert (Hops : map n_op ns = map (cmd_op env) (c0 :: rest)) by (unfold ns, run_prog; now rewrite run_cmds_ops).
  assert (Hlen : length ns = S (length rest)) by (unfold ns, run_prog; rewrite run_cmds_length; reflexivity).
  pose proof (run_prog_wf_op env 1%Z (c0 :: rest)) as W. fold ns in W. apply wf_op_comp_inv in W as [W _].
  rewrite listing_leaves, unroll_top, op_leaves_unrolled_top.
  set (fuel := list_max (map op_depth (map n_op ns))).
  set (G := fun n : node => op_leaves (unroll_op env fuel (n_op n))).
  assert (Hfuel : forall c, In c (c0 :: rest) -> op_depth (cmd_op env c) <= fuel).
  { intros c Hc. unfold fuel. apply list_max_In_le. rewrite Hops. apply in_map. apply in_map. exact Hc. }
  assert (L : length ns <= max_layers).
  { apply max_layers_bound. rewrite Hlen. simpl length in SL. exact SL. }
  pose proof (small_listable ns W L) as Lst. unfold listable in Lst.
  destruct (bfs_head (parents ns) (proj1 W)) as [tl Htl].
  { intros E. apply (f_equal (@length _)) in E. rewrite parents_length, Hlen in E. discriminate. }
  rewrite Htl in Lst |- *. rewrite Hlen in Lst. cbn [seq] in Lst. apply Permutation_cons_inv in Lst.
  destruct ns as [|n0 ns'] eqn:Ens; [discriminate|].
  cbn [map] in Hops. injection Hops as H0 Hrest. simpl in Hlen. injection Hlen as Hlen.
  cbn [flat_map]. exists (at_node (n0 :: ns') G 0), (flat_map (at_node (n0 :: ns') G) tl).
  split; [reflexivity|]. split.
  - unfold at_node. cbn [nth_error]. unfold G. rewrite H0. apply unrolled_cmd_perm.
    + inversion SB; assumption.
    + apply Hfuel. now left.
  - rewrite (Permutation_flat_map _ Lst).
    rewrite <- seq_shift, flat_map_concat_map, map_map, <- flat_map_concat_map.
    rewrite (flat_map_ext _ (at_node ns' G)) by (intros i; apply at_node_cons_S).
    rewrite <- Hlen, flat_map_at_node_seq.
    unfold G. rewrite <- (flat_map_map n_op (fun o => op_leaves (unroll_op env fuel o))), Hrest, flat_map_map.
    unfold prog_expanded. apply Permutation_flat_map_pointwise. apply Forall_forall. intros c Hc.
    apply unrolled_cmd_perm.
    + inversion SB as [|? ? _ F]; subst. rewrite Forall_forall in F. auto.
    + apply Hfuel. now right.
Qed.
